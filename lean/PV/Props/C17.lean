/-
  Property C17 - file readers return exactly the stored numbers at the right configurations.
  Property theorems only (record structure of the binary formats).
-/
import PV.Model.Bytes
import PV.Proofs.BytesLemmas
import PV.Proofs.C17Lemmas
import PV.Proofs.SortLemmas
import PV.Proofs.C17cLemmas
import PV.Proofs.C11cLemmas

namespace PV
open PV.Bytes

/-- little-endian 32-bit integers round-trip -/
theorem c17_le32_enc32 (i : Int) (h1 : -2147483648 ≤ i) (h2 : i < 2147483648) : le32 (enc32 i) = some i :=
  le32_enc32_aux i h1 h2

/-- C17 (stream readers): reading back what was written returns exactly the records -/
theorem c17_decode_encode (P : Nat) (rs : List Rec) (h : RecsOK P rs) (fuel : Nat) (hf : rs.length < fuel) :
    readRecords P fuel (encodeRecords rs) [] = .ok rs := by
  obtain ⟨f, rfl⟩ : ∃ f, fuel = rs.length + f := ⟨fuel - rs.length, by omega⟩
  have := readRecords_append P rs h f [] []
  rw [List.append_nil] at this
  rw [this, readRecords_short P f [] _ (by simp)]
  simp


/-- C17 (chunked reader) -/
theorem c17_decode_encode_chunks (P : Nat) (rs : List Rec) (h : RecsOK P rs) (fuel : Nat) (hf : rs.length < fuel) :
    readChunks P fuel (encodeRecords rs) [] = .ok rs := by
  obtain ⟨f, rfl⟩ : ∃ f, fuel = rs.length + f := ⟨fuel - rs.length, by omega⟩
  have := readChunks_append P rs h f [] []
  rw [List.append_nil] at this
  rw [this, readChunks_nil]
  simp


/-! ### configuration bookkeeping shared by the readers -/

/-- **C17 (selection keeps numbers attached to their configurations).** -/
theorem c17_select_aligned {β : Type} (cl : List Int) (data : List β) (rstart rstop : Option Int) (rstep : Nat)
    (a : List Int) (b : List β) (h : select cl data rstart rstop rstep = some (a, b)) :
    (a.zip b).Sublist (cl.zip data) := by
  unfold select at h
  split at h
  · rename_i i0 i1 _ _
    simp only [Option.some.injEq, Prod.mk.injEq] at h
    obtain ⟨rfl, rfl⟩ := h
    rw [← pick_zip]
    exact pick_sublist _ _ _ _
  · cases h

/-- **C17 (the requested range and stride).** -/
theorem c17_pick_entry {β : Type} (i0 i1 step : Nat) (l : List β) (j : Nat) :
    (pick i0 i1 step l)[j]? = if i0 + j * (max step 1) ≤ i1 then l[i0 + j * (max step 1)]? else none := by
  unfold pick
  rw [everyNth_getElem? (max step 1) (by omega)]
  have : toNext (max step 1) 0 = 0 := by simp [toNext]
  rw [this, List.getElem?_drop, List.getElem?_take]
  simp only [Nat.zero_add]
  split <;> split <;> first | rfl | omega

/-- **C17 (renumbering).**  For stored trajectory numbers `s, s+d, s+2d, …` (at least two, `d > 0`) the k-th
    record is attached to configuration `q + k` with `q = s // d`, or `1 + k` when thermalisation is assumed
    and `q > 1`: consecutive numbers, in file order, with the documented offset. -/
theorem c17_renumber_equispaced (s d : Int) (n : Nat) (hn : 2 ≤ n) (hd : 0 < d) (thermal : Bool) :
    renumber ((List.range n).map (fun (k : Nat) => s + (k : Int) * d)) thermal
      = some ((List.range n).map (fun (k : Nat) =>
          (if thermal && decide (Int.fdiv s d > 1) then 1 else Int.fdiv s d) + (k : Int))) := by
  obtain ⟨m, rfl⟩ : ∃ m, n = m + 2 := ⟨n - 2, by omega⟩
  unfold renumber
  have hrev : ((List.range (m + 2)).map (fun (k : Nat) => s + (k : Int) * d)).reverse
      = (s + ((m + 1 : Nat) : Int) * d) :: (s + ((m : Nat) : Int) * d) :: ((List.range m).map (fun (k : Nat) => s + (k : Int) * d)).reverse := by
    rw [List.range_succ, List.range_succ]
    simp [List.map_append, List.reverse_append]
  rw [hrev]
  have hdiff : (s + ((m + 1 : Nat) : Int) * d) - (s + ((m : Nat) : Int) * d) = d := by push_cast; ring
  simp only [hdiff]
  have hne : (d == 0) = false := by simp; omega
  simp only [hne, Bool.false_eq_true, if_false]
  have hmap : ((List.range (m + 2)).map (fun (k : Nat) => s + (k : Int) * d)).map (fun c => Int.fdiv c d)
      = (List.range (m + 2)).map (fun (k : Nat) => Int.fdiv s d + (k : Int)) := by
    simp only [List.map_map]
    apply List.map_congr_left
    intro k _
    simp only [Function.comp]
    exact fdiv_add_mul s d k hd
  rw [hmap]
  have hhead : (List.range (m + 2)).map (fun (k : Nat) => Int.fdiv s d + (k : Int))
      = (Int.fdiv s d + 0) :: (List.range' 1 (m + 1)).map (fun (k : Nat) => Int.fdiv s d + (k : Int)) := by
    rw [List.range_eq_range', List.range'_succ]; simp
  rw [hhead]
  simp only
  rw [← hhead]
  by_cases hth : (thermal && decide (Int.fdiv s d > 1)) = true
  · have h1 : thermal = true := by simp at hth; exact hth.1
    have h2 : Int.fdiv s d > 1 := by simp at hth; exact hth.2
    have : (thermal && decide (Int.fdiv s d + 0 > 1)) = true := by simp [h1, h2]
    rw [if_pos this]
    simp only [hth, if_true, List.map_map]
    congr 1
    apply List.map_congr_left
    intro k _
    simp; ring
  · have : ¬ ((thermal && decide (Int.fdiv s d + 0 > 1)) = true) := by simpa using hth
    rw [if_neg this]
    simp only [hth]
    simp

/-! ### `sort_names` -/

open PV.Names PV.SortL in
/-- **C17 (`sort_names` only re-orders).** -/
theorem c17_sort_names_perm (ll r : List String) (h : sortNames ll = .ok r) : r.Perm ll := by
  have hs1 : ∀ l : List String, (stage1 l).Perm l := by
    intro l; unfold stage1; split
    · exact sortByKey_perm _ _
    · exact List.Perm.refl _
  have hs2 : ∀ l : List String, (stage2 l).Perm l := by
    intro l; unfold stage2; split
    · exact sortByKey_perm _ _
    · exact List.Perm.refl _
  unfold sortNames at h
  split at h
  · cases h; exact List.Perm.refl _
  · split at h
    · cases h; exact (hs2 _).trans (hs1 _)
    · unfold fallback at h
      split at h
      · cases h; exact List.Perm.refl _
      · split at h
        · cases h
        · split at h
          · cases h
          · cases h; exact sortByKey_perm _ _

open PV.Names PV.SortL in
/-- **C17 (`sort_names` orders by replica number, then by id, numerically).**  When every name carries
    both numbers the result is in lexicographic order of (number after `r`, number after `id`) as
    integers - `r2` before `r10`. -/
theorem c17_sort_names_lex (ll : List String) (hlen : 1 < ll.length)
    (hid : ∀ s ∈ ll, (idKey s).isSome = true) (hr : ∀ s ∈ ll, (rKey s).isSome = true) :
    ∃ r, sortNames ll = .ok r ∧
      r.Pairwise (Lex (fun s => (rKey s).getD 0) (fun s => (idKey s).getD 0)) := by
  have h1 : ¬ ll.length ≤ 1 := by omega
  have hidb : (ll.all fun s => (idKey s).isSome) = true := List.all_eq_true.mpr hid
  have hs1 : stage1 ll = sortByKey (fun s => (idKey s).getD 0) ll := by simp [stage1, hidb]
  have hrb : ((stage1 ll).all fun s => (rKey s).isSome) = true := by
    rw [hs1]
    exact List.all_eq_true.mpr (fun s hs => hr s ((sortByKey_perm _ ll).subset hs))
  have hs2 : stage2 (stage1 ll) = sortByKey (fun s => (rKey s).getD 0) (stage1 ll) := by simp [stage2, hrb]
  refine ⟨stage2 (stage1 ll), ?_, ?_⟩
  · unfold sortNames
    simp [h1, hidb]
  · rw [hs2, hs1]
    exact sortByKey_lex _ _ _ (sortByKey_sorted (fun s => (idKey s).getD 0) ll)

open PV.Names PV.SortL in
/-- **C17 (`sort_names` does not depend on the directory order).**  If the (r, id) pairs of the names are
    pairwise distinct, any two listings of the same names are sorted to the same list. -/
theorem c17_sort_names_invariant (ll ll' : List String) (hp : ll'.Perm ll) (hlen : 1 < ll.length)
    (hid : ∀ s ∈ ll, (idKey s).isSome = true) (hr : ∀ s ∈ ll, (rKey s).isSome = true)
    (hinj : ∀ x ∈ ll, ∀ y ∈ ll, (rKey x).getD 0 = (rKey y).getD 0 → (idKey x).getD 0 = (idKey y).getD 0 → x = y) :
    sortNames ll' = sortNames ll := by
  obtain ⟨r, hr1, hr2⟩ := c17_sort_names_lex ll hlen hid hr
  obtain ⟨r', hr1', hr2'⟩ := c17_sort_names_lex ll' (by rw [hp.length_eq]; exact hlen)
    (fun s hs => hid s (hp.subset hs)) (fun s hs => hr s (hp.subset hs))
  rw [hr1, hr1']
  congr 1
  have hperm : r'.Perm r :=
    (c17_sort_names_perm ll' r' hr1').trans (hp.trans (c17_sort_names_perm ll r hr1).symm)
  exact eq_of_perm_of_lex _ _ r' r hperm hr2' hr2
    (fun x hx y hy => hinj x ((c17_sort_names_perm ll' r' hr1').trans hp |>.subset hx)
      y ((c17_sort_names_perm ll' r' hr1').trans hp |>.subset hy))


/-! ### `fit_t0`: which flow times enter the straight-line fit (PV/Model/FlowWindow.lean) -/

section flow
open PV.Flow

/-- **C17 (fit window of `fit_t0`), all inputs.**  For every list of flow times, every zero-crossing position inside it and
    every `fit_range`, the points handed to the straight-line fit are exactly the stored flow times with index in
    `[zc - fit_range, zc + fit_range)`, cut off at the first and at the last flow time - a contiguous stretch, in file order. -/
theorem c17_fit_window {α : Type} (l : List α) (zc fr : Nat) (hz : zc ≤ l.length) :
    pySlice l (max ((zc : Int) - fr) 0) ((zc : Int) + fr) = (l.drop (zc - fr)).take (min (zc + fr) l.length - (zc - fr)) :=
  window_clipped l zc fr hz

/-- **C17 (the window brackets the root).**  Whenever the crossing lies inside the data (1 ≤ zc < n) and `fit_range ≥ 1`, the
    last non-positive point `l[zc-1]` and the first positive point `l[zc]` are both in the window, whatever `fit_range`. -/
theorem c17_fit_window_brackets {α : Type} (l : List α) (zc fr : Nat) (h1 : 1 ≤ zc) (h2 : zc < l.length) (hf : 1 ≤ fr) :
    l[zc - 1]'(by omega) ∈ pySlice l (max ((zc : Int) - fr) 0) ((zc : Int) + fr) ∧
    l[zc]'h2 ∈ pySlice l (max ((zc : Int) - fr) 0) ((zc : Int) + fr) := by
  rw [c17_fit_window l zc fr (by omega)]
  constructor
  · rw [List.mem_iff_getElem]
    refine ⟨zc - 1 - (zc - fr), ?_, ?_⟩
    · simp only [List.length_take, List.length_drop]; omega
    · simp only [List.getElem_take, List.getElem_drop]
      congr 1; omega
  · rw [List.mem_iff_getElem]
    refine ⟨zc - (zc - fr), ?_, ?_⟩
    · simp only [List.length_take, List.length_drop]; omega
    · simp only [List.getElem_take, List.getElem_drop]
      congr 1; omega

/-- the historical defect (fixed in /repo 1964c79), as a statement about Python's slice: with 8 flow times, the crossing at
    index 2 and `fit_range = 5` the unclipped start -3 is read from the end and the fit gets the points 5 and 6, which do not
    bracket the root; the clipped window gets the points 0..6 -/
theorem c17_unclipped_window_witness :
    fitWindowUnclipped [0, 1, 2, 3, 4, 5, 6, 7] [false, false, true, true, true, true, true, true] 5 = some [5, 6] ∧
    fitWindow [0, 1, 2, 3, 4, 5, 6, 7] [false, false, true, true, true, true, true, true] 5 = some [0, 1, 2, 3, 4, 5, 6] := by
  decide

/-- a data set that is positive from the first flow time on (or nowhere) is refused -/
theorem c17_fit_window_refused {α : Type} (l : List α) (mask : List Bool) (fr : Nat)
    (h : mask.all (fun b => !b) = true ∨ mask.head? = some true) : fitWindow l mask fr = none := by
  unfold fitWindow
  have : argmaxTrue mask = 0 := by
    unfold argmaxTrue
    rcases h with h | h
    · have hk : mask.findIdx id = mask.length := by
        rw [List.findIdx_eq_length]
        intro x hx
        have := List.all_eq_true.mp h x hx
        simpa using this
      simp [hk]
    · cases mask with
      | nil => simp at h
      | cons b t =>
        simp only [List.head?_cons, Option.some.injEq] at h
        subst h
        simp [List.findIdx_cons]
  simp [this]

end flow

/-! ### replica files handed over in any order -/

section files
open PV.Names

/-- **C17 (explicit `files=` lists in any order).**  For every set of replica files whose derived chain names are distinct, the
    observable put together from the files does not depend on the order in which the caller lists them: names stay attached to
    the data of the file they were derived from. -/
theorem c17_assemble_file_order {δ : Type} (nameOf : String → String) (files files' : List (String × δ)) (hp : files.Perm files')
    (hnd : (files.map (fun f => nameOf f.1)).Nodup) :
    assembleByFile nameOf files = assembleByFile nameOf files' := by
  unfold assembleByFile
  set L := files.map (fun f => (nameOf f.1, f.2)) with hL
  set L' := files'.map (fun f => (nameOf f.1, f.2)) with hL'
  have hpp : L.Perm L' := hp.map _
  -- the sorted version of L' is strictly increasing in the name; L sorts to the same list
  have hnd' : (L'.map (·.1)).Nodup := by
    have : (L.map (·.1)).Nodup := by
      simpa [hL, List.map_map, Function.comp_def] using hnd
    exact (hpp.map _).nodup_iff.mp this
  set M := Py.sortBy (fun a b : String × δ => decide (a.1 ≤ b.1)) L' with hM
  have hMperm : M.Perm L' := C04.perm_sortBy _ L'
  have hMle : M.Pairwise (fun a b => a.1 ≤ b.1) := by
    have := C04.pairwise_sortBy (fun a b : String × δ => decide (a.1 ≤ b.1))
      (fun a b => by simp only [decide_eq_true_eq]; exact le_total _ _)
      (fun a b c hab hbc => by simp only [decide_eq_true_eq] at *; exact le_trans hab hbc) L'
    exact this.imp (fun h => by simpa using h)
  have hMnd : (M.map (·.1)).Nodup := (hMperm.map _).nodup_iff.mpr hnd'
  have hMlt : M.Pairwise (fun a b => a.1 < b.1) := by
    have h1 : (M.map (·.1)).Pairwise (· ≤ ·) := List.pairwise_map.mpr hMle
    have h2 : (M.map (·.1)).Pairwise (· ≠ ·) := hMnd
    exact List.pairwise_map.mp ((h1.and h2).imp (fun ⟨a, b⟩ => lt_of_le_of_ne a b))
  exact JsonDoc.sortBy_perm_of_sorted (fun a : String × δ => a.1) L M (hpp.trans hMperm.symm) hMlt

/-- the repaired defect (/repo 74a17bd) as a statement about the old assembly: with the names sorted on their own the result
    depends on the order of the files - two files listed in descending order exchange their data -/
theorem c17_names_sorted_apart_witness :
    assembleNamesSortedApart id [("ensAr2", 2), ("ensAr1", 1)] = [("ensAr1", 2), ("ensAr2", 1)] ∧
    assembleByFile id [("ensAr2", 2), ("ensAr1", 1)] = [("ensAr1", 1), ("ensAr2", 2)] := by
  decide +kernel

end files

end PV
