/-
  Property C11 — JSON serialisation round-trips losslessly and conforms to the shipped schema.
  Property theorems only.
-/
import PV.Gen.Schema
import Mathlib.Algebra.BigOperators.Group.List.Basic
import Mathlib.Tactic.FieldSimp
import Mathlib.Tactic.Linarith
import Mathlib.Tactic.Ring
import PV.Model.JsonRep
import PV.Proofs.C11Lemmas
import PV.Proofs.RealScalar

namespace PV
open Scalar
open RealS

/-- the translator recognised every keyword of examples/json_schema.json, and the schema declares
    draft-07 (which fixes the meaning of `items` and makes `prefixItems` an ignored annotation) -/
theorem c11_schema_translated :
    Gen.Schema.translated = true ∧ Gen.Schema.draft = "http://json-schema.org/draft-07/schema" := by decide

/-- exact-arithmetic example of the replica table: two observables with zero-mean fluctuations,
    replica means 5/2 and -1, central values 2 and -1/2: decoding the encoded rows restores
    configuration numbers, fluctuations and replica means -/
theorem c11_example :
    decodeRep (encodeRep (α := Rat) [3, 5, 9] [[1, -3, 2], [1 / 2, 0, -1 / 2]] [5 / 2, -1] [2, -1 / 2]) [2, -1 / 2]
      = ([3, 5, 9], [[1, -3, 2], [1 / 2, 0, -1 / 2]], [5 / 2, -1]) := by
  decide +kernel

/-- C11 (replica table): for k observables on a chain of n ≥ 1 configurations whose fluctuations
    have zero mean (which every constructed or derived observable satisfies), decoding the encoded
    rows restores the configuration numbers, every fluctuation and every replica mean -/
theorem c11_rep_roundtrip (idl : List Int) (deltas : List (List ℝ)) (rvals vals : List ℝ)
    (hn : 0 < idl.length)
    (hk : deltas.length = vals.length ∧ rvals.length = vals.length)
    (hlen : ∀ d ∈ deltas, d.length = idl.length)
    (hzero : ∀ d ∈ deltas, d.sum = 0) :
    decodeRep (encodeRep idl deltas rvals vals) vals = (idl, deltas, rvals) := by
  obtain ⟨hk1, hk2⟩ := hk
  have hoff : ∀ (j : Nat) (hd : j < deltas.length) (hr : j < rvals.length) (hj : j < vals.length),
      c11off (encodeRep idl deltas rvals vals) j = rvals[j] - vals[j] := by
    intro j hd hr hj
    rw [c11_off_encode idl deltas rvals vals hn hlen j hd hr hj,
      hzero _ (List.getElem_mem hd)]
    simp
  refine Prod.ext (c11_decode_fst idl deltas rvals vals) (Prod.ext ?_ ?_)
  · apply List.ext_getElem
    · rw [c11_decode_deltas_length]; exact hk1.symm
    · intro j h1 h2
      replace h2 : j < deltas.length := h2
      have hj : j < vals.length := by omega
      have hr : j < rvals.length := by omega
      rw [c11_decode_deltas_get, c11_column idl deltas rvals vals hlen j h2 hr hj,
        hoff j h2 hr hj, List.map_map]
      simp [Function.comp_def]
  · apply List.ext_getElem
    · rw [c11_decode_rvals_length]; exact hk2.symm
    · intro j h1 h2
      replace h2 : j < rvals.length := h2
      have hj : j < vals.length := by omega
      have hd : j < deltas.length := by omega
      rw [c11_decode_rvals_get _ _ _ _ hj, hoff j hd h2 hj]
      ring


/-- C11: without the zero-mean property the offset absorbs the mean of the fluctuations - the
    sum δ + r (the per-configuration sample) is still restored exactly -/
theorem c11_rep_samples (idl : List Int) (deltas : List (List ℝ)) (rvals vals : List ℝ)
    (hn : 0 < idl.length)
    (hk : deltas.length = vals.length ∧ rvals.length = vals.length)
    (hlen : ∀ d ∈ deltas, d.length = idl.length) (j i : Nat) (hj : j < vals.length) (hi : i < idl.length) :
    let out := decodeRep (encodeRep idl deltas rvals vals) vals
    (out.2.1.getD j []).getD i 0 + out.2.2.getD j 0 = (deltas.getD j []).getD i 0 + rvals.getD j 0 := by
  obtain ⟨hk1, hk2⟩ := hk
  intro out
  have hd : j < deltas.length := by omega
  have hr : j < rvals.length := by omega
  have hdl : (deltas[j]).length = idl.length := hlen _ (List.getElem_mem hd)
  have hi' : i < (deltas[j]).length := by omega
  have h1 : j < out.2.1.length := by
    show j < (decodeRep _ vals).2.1.length
    rw [c11_decode_deltas_length]; exact hj
  have h2 : j < out.2.2.length := by
    show j < (decodeRep _ vals).2.2.length
    rw [c11_decode_rvals_length]; exact hj
  have e1 : out.2.1.getD j [] = out.2.1[j] := by
    rw [List.getD_eq_getElem?_getD, List.getElem?_eq_getElem h1]; rfl
  have e2 : out.2.2.getD j 0 = out.2.2[j] := by
    rw [List.getD_eq_getElem?_getD, List.getElem?_eq_getElem h2]; rfl
  have e3 : deltas.getD j [] = deltas[j] := by
    rw [List.getD_eq_getElem?_getD, List.getElem?_eq_getElem hd]; rfl
  have e4 : rvals.getD j 0 = rvals[j] := by
    rw [List.getD_eq_getElem?_getD, List.getElem?_eq_getElem hr]; rfl
  have e5 : (deltas[j]).getD i 0 = (deltas[j])[i] := by
    rw [List.getD_eq_getElem?_getD, List.getElem?_eq_getElem hi']; rfl
  have g1 : out.2.1[j] = (deltas[j]).map (fun x => x + (rvals[j] - vals[j])
      - ((deltas[j]).sum / (idl.length : ℝ) + (rvals[j] - vals[j]))) := by
    show (decodeRep _ vals).2.1[j] = _
    rw [c11_decode_deltas_get, c11_column idl deltas rvals vals hlen j hd hr hj,
      c11_off_encode idl deltas rvals vals hn hlen j hd hr hj, List.map_map]
    rfl
  have g2 : out.2.2[j] = (deltas[j]).sum / (idl.length : ℝ) + (rvals[j] - vals[j]) + vals[j] := by
    show (decodeRep _ vals).2.2[j] = _
    rw [c11_decode_rvals_get _ _ _ _ hj, c11_off_encode idl deltas rvals vals hn hlen j hd hr hj]
  have hi'' : i < (out.2.1[j]).length := by rw [g1]; simpa using hi'
  have e6 : (out.2.1[j]).getD i 0 = (out.2.1[j])[i] := by
    rw [List.getD_eq_getElem?_getD, List.getElem?_eq_getElem hi'']; rfl
  rw [e1, e2, e3, e4, e5, e6, g2]
  simp only [g1, List.getElem_map]
  ring



end PV
