/-
  Property C11 — JSON serialisation round-trips losslessly and conforms to the shipped schema.
  Property theorems only.
-/
import PV.Gen.Schema
import Mathlib.Algebra.BigOperators.Group.List.Basic
import Mathlib.Tactic.FieldSimp
import Mathlib.Tactic.Linarith
import Mathlib.Tactic.Ring
import PV.Model.JsonRep
import PV.Proofs.C11Lemmas
import PV.Proofs.C11bLemmas
import PV.Proofs.C11cLemmas
import PV.Proofs.RealScalar

namespace PV
open Scalar
open RealS

/-- the translator recognised every keyword of examples/json_schema.json, and the schema declares
    draft-07 (which fixes the meaning of `items` and makes `prefixItems` an ignored annotation) -/
theorem c11_schema_translated :
    Gen.Schema.translated = true ∧ Gen.Schema.draft = "http://json-schema.org/draft-07/schema" := by decide

/-- exact-arithmetic example of the replica table: two observables with zero-mean fluctuations,
    replica means 5/2 and -1, central values 2 and -1/2: decoding the encoded rows restores
    configuration numbers, fluctuations and replica means -/
theorem c11_example :
    decodeRep (encodeRep (α := Rat) [3, 5, 9] [[1, -3, 2], [1 / 2, 0, -1 / 2]] [5 / 2, -1] [2, -1 / 2]) [2, -1 / 2]
      = ([3, 5, 9], [[1, -3, 2], [1 / 2, 0, -1 / 2]], [5 / 2, -1]) := by
  decide +kernel

/-- C11 (replica table): for k observables on a chain of n ≥ 1 configurations whose fluctuations
    have zero mean (which every constructed or derived observable satisfies), decoding the encoded
    rows restores the configuration numbers, every fluctuation and every replica mean -/
theorem c11_rep_roundtrip (idl : List Int) (deltas : List (List ℝ)) (rvals vals : List ℝ)
    (hn : 0 < idl.length)
    (hk : deltas.length = vals.length ∧ rvals.length = vals.length)
    (hlen : ∀ d ∈ deltas, d.length = idl.length)
    (hzero : ∀ d ∈ deltas, d.sum = 0) :
    decodeRep (encodeRep idl deltas rvals vals) vals = (idl, deltas, rvals) := by
  obtain ⟨hk1, hk2⟩ := hk
  have hoff : ∀ (j : Nat) (hd : j < deltas.length) (hr : j < rvals.length) (hj : j < vals.length),
      c11off (encodeRep idl deltas rvals vals) j = rvals[j] - vals[j] := by
    intro j hd hr hj
    rw [c11_off_encode idl deltas rvals vals hn hlen j hd hr hj,
      hzero _ (List.getElem_mem hd)]
    simp
  refine Prod.ext (c11_decode_fst idl deltas rvals vals) (Prod.ext ?_ ?_)
  · apply List.ext_getElem
    · rw [c11_decode_deltas_length]; exact hk1.symm
    · intro j h1 h2
      replace h2 : j < deltas.length := h2
      have hj : j < vals.length := by omega
      have hr : j < rvals.length := by omega
      rw [c11_decode_deltas_get, c11_column idl deltas rvals vals hlen j h2 hr hj,
        hoff j h2 hr hj, List.map_map]
      simp [Function.comp_def]
  · apply List.ext_getElem
    · rw [c11_decode_rvals_length]; exact hk2.symm
    · intro j h1 h2
      replace h2 : j < rvals.length := h2
      have hj : j < vals.length := by omega
      have hd : j < deltas.length := by omega
      rw [c11_decode_rvals_get _ _ _ _ hj, hoff j hd h2 hj]
      ring


/-- C11: without the zero-mean property the offset absorbs the mean of the fluctuations - the
    sum δ + r (the per-configuration sample) is still restored exactly -/
theorem c11_rep_samples (idl : List Int) (deltas : List (List ℝ)) (rvals vals : List ℝ)
    (hn : 0 < idl.length)
    (hk : deltas.length = vals.length ∧ rvals.length = vals.length)
    (hlen : ∀ d ∈ deltas, d.length = idl.length) (j i : Nat) (hj : j < vals.length) (hi : i < idl.length) :
    let out := decodeRep (encodeRep idl deltas rvals vals) vals
    (out.2.1.getD j []).getD i 0 + out.2.2.getD j 0 = (deltas.getD j []).getD i 0 + rvals.getD j 0 := by
  obtain ⟨hk1, hk2⟩ := hk
  intro out
  have hd : j < deltas.length := by omega
  have hr : j < rvals.length := by omega
  have hdl : (deltas[j]).length = idl.length := hlen _ (List.getElem_mem hd)
  have hi' : i < (deltas[j]).length := by omega
  have h1 : j < out.2.1.length := by
    show j < (decodeRep _ vals).2.1.length
    rw [c11_decode_deltas_length]; exact hj
  have h2 : j < out.2.2.length := by
    show j < (decodeRep _ vals).2.2.length
    rw [c11_decode_rvals_length]; exact hj
  have e1 : out.2.1.getD j [] = out.2.1[j] := by
    rw [List.getD_eq_getElem?_getD, List.getElem?_eq_getElem h1]; rfl
  have e2 : out.2.2.getD j 0 = out.2.2[j] := by
    rw [List.getD_eq_getElem?_getD, List.getElem?_eq_getElem h2]; rfl
  have e3 : deltas.getD j [] = deltas[j] := by
    rw [List.getD_eq_getElem?_getD, List.getElem?_eq_getElem hd]; rfl
  have e4 : rvals.getD j 0 = rvals[j] := by
    rw [List.getD_eq_getElem?_getD, List.getElem?_eq_getElem hr]; rfl
  have e5 : (deltas[j]).getD i 0 = (deltas[j])[i] := by
    rw [List.getD_eq_getElem?_getD, List.getElem?_eq_getElem hi']; rfl
  have g1 : out.2.1[j] = (deltas[j]).map (fun x => x + (rvals[j] - vals[j])
      - ((deltas[j]).sum / (idl.length : ℝ) + (rvals[j] - vals[j]))) := by
    show (decodeRep _ vals).2.1[j] = _
    rw [c11_decode_deltas_get, c11_column idl deltas rvals vals hlen j hd hr hj,
      c11_off_encode idl deltas rvals vals hn hlen j hd hr hj, List.map_map]
    rfl
  have g2 : out.2.2[j] = (deltas[j]).sum / (idl.length : ℝ) + (rvals[j] - vals[j]) + vals[j] := by
    show (decodeRep _ vals).2.2[j] = _
    rw [c11_decode_rvals_get _ _ _ _ hj, c11_off_encode idl deltas rvals vals hn hlen j hd hr hj]
  have hi'' : i < (out.2.1[j]).length := by rw [g1]; simpa using hi'
  have e6 : (out.2.1[j]).getD i 0 = (out.2.1[j])[i] := by
    rw [List.getD_eq_getElem?_getD, List.getElem?_eq_getElem hi'']; rfl
  rw [e1, e2, e3, e4, e5, e6, g2]
  simp only [g1, List.getElem_map]
  ring




/-! ### nested dictionaries: the placeholder mechanism of `dump_dict_to_json` / `load_json_dict` -/

section dictionaries
open PV.Tree

/-- C11 (dictionaries): whatever nested dictionary the export accepts, with at least one observable
    structure in it, the import of the exported pair (list of structures, dictionary with
    placeholders) is the original dictionary: every structure is back at its place (an all-`Obs`
    list as the list it was), every other value and the order of the keys are untouched.  For every
    alphanumeric placeholder stem, every depth and every mixture of lists and dictionaries. -/
theorem c11_dict_roundtrip (reps : String) (d nd : List (String × Tree.T)) (ol : List Slot)
    (h : exportDict reps d = .ok (nd, ol)) (hne : ol ≠ []) : importDict reps ol nd = .ok d := by
  unfold exportDict at h
  split at h
  · cases h
  rename_i hal
  obtain ⟨new, hnew, hin⟩ := (roundtrip_all reps).1 d [] nd ol h
  simp only [List.nil_append] at hnew
  subst hnew
  unfold importDict
  rw [if_neg hal, hin ol 0 (List.prefix_refl _)]
  have : (0 + ol.length == 0) = false := by
    cases ol with
    | nil => exact absurd rfl hne
    | cons _ _ => simp
  simp only [this]
  rfl

/-- a dictionary without any structure is exported, and the import of that export is refused
    ("No placeholder has been replaced"): never a silently different dictionary -/
theorem c11_dict_without_structure (reps : String) (d nd : List (String × Tree.T))
    (h : exportDict reps d = .ok (nd, [])) : importDict reps [] nd = .error .noPlaceholder := by
  unfold exportDict at h
  split at h
  · cases h
  rename_i hal
  obtain ⟨new, hnew, hin⟩ := (roundtrip_all reps).1 d [] nd [] h
  unfold importDict
  rw [if_neg hal, hin [] 0 (List.prefix_refl _)]
  have : new = [] := by simpa using hnew.symm
  simp [this]

/-- a string value that looks like a placeholder makes the export raise (top level of the dictionary) -/
theorem c11_dict_clash_rejected (reps : String) (d : List (String × Tree.T)) (k s : String)
    (hk : (k, Tree.T.str s) ∈ d) (hs : isPlaceholder reps s = true) : ∃ e, exportDict reps d = .error e := by
  unfold exportDict
  split
  · exact ⟨_, rfl⟩
  suffices H : ∀ ol, ∃ e, exDict reps d ol = .error e from H []
  induction d with
  | nil => cases hk
  | cons p rest ih =>
    intro ol
    obtain ⟨k', v'⟩ := p
    rcases List.mem_cons.mp hk with heq | hmem
    · cases heq
      exact ⟨.placeholderClash s, by simp [exDict, exDictVal, hs]⟩
    · cases hv : exDictVal reps v' ol with
      | error e => exact ⟨e, by simp [exDict, hv]⟩
      | ok r =>
        obtain ⟨e, he⟩ := ih hmem r.2
        exact ⟨e, by simp [exDict, hv, he]⟩

/-- a generated placeholder is recognised by the import and decodes to its counter, for every stem and
    every counter (so the 11th, 101st, ... structure is found again) -/
theorem c11_placeholder_decodes (reps : String) (n : Nat) :
    isPlaceholder reps (placeholder reps n) = true ∧ phIndex reps (placeholder reps n) = .ok n :=
  ⟨isPlaceholder_placeholder reps n, phIndex_placeholder reps n⟩

/-- the hypotheses are satisfiable: a dictionary with a nested dictionary, an all-`Obs` list, a mixed
    list and a correlator exports to four slots -/
example : exportDict "DICTOBS" [("a", .leaf .obs 0), ("b", .list [.leaf .obs 1, .leaf .obs 2]),
    ("c", .dict [("d", .list [.str "x", .leaf .corr 3, .list [.leaf .obs 4]]), ("e", .atom "1.5")])]
    = .ok ([("a", .str "DICTOBS0"), ("b", .str "DICTOBS1"),
            ("c", .dict [("d", .list [.str "x", .str "DICTOBS2", .list [.str "DICTOBS3"]]), ("e", .atom "1.5")])],
           [.one .obs 0, .many [1, 2], .one .corr 3, .one .obs 4]) := by
  have h1 : isAlnum "DICTOBS" = true := by decide
  have h2 : isPlaceholder "DICTOBS" "x" = false := by decide
  simp [exportDict, h1, h2, exDict, exDictVal, exList, exListVal, obsIds, placeholder]
  decide

end dictionaries


/-! ### the numeric part of a document: `value`, `data`, `cdata`, `reweighted` of one `obsdata` entry -/

section documents
open PV.JsonDoc

/-- **C11 (documents).**  For every structure the writer accepts - observables with the same chains and configuration
    lists, the same covariance inputs and flag (`_assert_equal_properties`), each satisfying the invariant of C04,
    with zero-mean fluctuations - reading the written document restores every observable exactly: central value,
    chain names in their order, configuration lists in their representation (range / list), every fluctuation, every
    replica mean, covariance inputs with their gradients, and the flag.  Any number of observables, ensembles,
    replicas, configuration layouts and covariance inputs.  (`toDoc` / `fromDoc` are compared with the
    implementation's writer and reader on every generated Obs / List / Array case.) -/
theorem c11_doc_roundtrip (ol : List (Obs ℝ)) (H : Writable ol) : fromDoc (toDoc ol) ol.length = .ok ol :=
  doc_roundtrip ol H

/-- enumerating the chains ensemble by ensemble (`mc_names`, `e_content`), as the writer does, visits every chain
    exactly once - whatever the names -/
theorem c11_chains_enumerated (o : Obs ℝ) : (o.mcNames.flatMap o.eContent).Perm o.reps := chains_perm o

/-- a configuration list in the normal form of C04 is what the constructor makes of its explicit list: the reader
    restores `range` as `range` and irregular lists as lists -/
theorem c11_idl_restored (i : Idl) (hs : Idl.strictInc i.toList = true)
    (hform : (∀ s n st, i = Idl.range s n st → 0 < st ∧ 2 ≤ n) ∧ (∀ l, i = Idl.list l → equallySpaced l = false)) :
    Idl.normalise (.list i.toList) = .ok i := normalise_toList_self i hs hform

end documents

end PV
