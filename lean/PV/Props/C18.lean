/-
  Property C18 - truncated measurement files never produce wrong numbers.
  Property theorems only.
-/
import PV.Model.Bytes
import PV.Proofs.BytesLemmas
import PV.Proofs.C18bLemmas
import PV.Props.C17

namespace PV
open PV.Bytes

/-- C18 (truncation, stream readers): a file cut after `k` bytes is either rejected or yields
    exactly the complete records that precede the cut — never a record assembled from a partial
    payload, never a shifted or dropped one.  (It is accepted only when the cut falls on a record
    boundary or inside the 4-byte configuration number that starts a record.) -/
theorem c18_prefix_safe (P : Nat) (rs : List Rec) (h : RecsOK P rs) (k : Nat)
    (fuel : Nat) (hf : rs.length < fuel) :
    (∃ e, readRecords P fuel ((encodeRecords rs).take k) [] = .error e) ∨
    readRecords P fuel ((encodeRecords rs).take k) [] = .ok (rs.take (k / (4 + P))) := by
  by_cases hk : k < (encodeRecords rs).length
  · obtain ⟨h1, h2⟩ := readRecords_prefix P rs h k fuel hf hk
    by_cases hj : k % (4 + P) < 4
    · exact Or.inr (h1 hj)
    · exact Or.inl (h2 (by omega))
  · right
    have hk' : (encodeRecords rs).length ≤ k := by omega
    rw [List.take_of_length_le hk', c17_decode_encode P rs h fuel hf]
    rw [length_encodeRecords P rs h] at hk'
    rw [List.take_of_length_le (take_all_arith P _ k hk')]


/-- C18: and it IS rejected whenever the cut falls inside a payload -/
theorem c18_cut_in_payload_rejected (P : Nat) (rs : List Rec) (h : RecsOK P rs) (k : Nat)
    (fuel : Nat) (hf : rs.length < fuel) (hk : k < (encodeRecords rs).length)
    (hin : 4 ≤ k % (4 + P)) :
    ∃ e, readRecords P fuel ((encodeRecords rs).take k) [] = .error e :=
  (readRecords_prefix P rs h k fuel hf hk).2 hin

/-! ### chunked reader -/


/-- C18 (chunked reader): accepted only on chunk boundaries -/
theorem c18_prefix_safe_chunks (P : Nat) (rs : List Rec) (h : RecsOK P rs) (k : Nat)
    (fuel : Nat) (hf : rs.length < fuel) :
    (∃ e, readChunks P fuel ((encodeRecords rs).take k) [] = .error e) ∨
    (k % (4 + P) = 0 ∨ (encodeRecords rs).length ≤ k) ∧
      readChunks P fuel ((encodeRecords rs).take k) [] = .ok (rs.take (k / (4 + P))) := by
  by_cases hk : k < (encodeRecords rs).length
  · obtain ⟨h1, h2⟩ := readChunks_prefix P rs h k fuel hf hk
    by_cases hj : k % (4 + P) = 0
    · exact Or.inr ⟨Or.inl hj, h1 hj⟩
    · exact Or.inl (h2 (by omega))
  · right
    have hk' : (encodeRecords rs).length ≤ k := by omega
    refine ⟨Or.inr hk', ?_⟩
    rw [List.take_of_length_le hk', c17_decode_encode_chunks P rs h fuel hf]
    rw [length_encodeRecords P rs h] at hk'
    rw [List.take_of_length_le (take_all_arith P _ k hk')]


/-- C18 (no shift): the configuration numbers of the surviving records are unchanged -/
theorem c18_no_shift (P : Nat) (rs got : List Rec) (h : RecsOK P rs) (k fuel : Nat) (hf : rs.length < fuel)
    (hok : readRecords P fuel ((encodeRecords rs).take k) [] = .ok got) :
    got.map (·.cfg) = (rs.map (·.cfg)).take got.length := by
  have hgot : got = rs.take (k / (4 + P)) := by
    rcases c18_prefix_safe P rs h k fuel hf with ⟨e, he⟩ | hh
    · rw [he] at hok; cases hok
    · rw [hh] at hok; exact (Except.ok.inj hok).symm
  subst hgot
  rw [List.map_take, List.length_take, List.take_eq_take_iff, List.length_map]
  omega



section text_layouts
open PV.Text

/-- C18 (text layouts): cut the file of complete lines `Ls` at any byte `k`; if the block test lets T data
    lines from line `start` through, they are exactly the stored lines `start .. start+T-1` -/
theorem c18_text_prefix_safe (Ls : List (List Char)) (hnl : ∀ l ∈ Ls, '\n' ∉ l) (k start T : Nat)
    (blk : List (List Char))
    (h : readBlock (readlines ((text Ls).take k)) start T = some blk) :
    blk = ((Ls.map (· ++ ['\n'])).drop start).take T ∧ start + T ≤ Ls.length := by
  obtain ⟨m, p, hm, hpre, hp⟩ := take_text Ls k
  have hnl' : ∀ l ∈ Ls.take m, '\n' ∉ l := fun l hl => hnl l (List.mem_of_mem_take hl)
  rw [hpre, readlines_lines_rest _ hnl' p (hp hnl)] at h
  generalize hL : ((Ls.take m).map (· ++ ['\n']) ++ (if p.isEmpty then [] else [p])) = lines at h
  have hLlen : lines.length ≤ m + 1 := by
    rw [← hL]
    simp only [List.length_append, List.length_map, List.length_take]
    split <;> simp
  unfold readBlock at h
  by_cases hgt : start + T + 1 > lines.length
  · rw [if_pos hgt] at h; cases h
  rw [if_neg hgt] at h
  have hlen' : start + T ≤ m := by omega
  subst hL
  injection h with h
  refine ⟨?_, by omega⟩
  rw [← h, List.drop_append, List.take_append]
  have e1 : ((Ls.take m).map (· ++ ['\n'])).length = m := by simp [hm]
  have e2 : (((Ls.take m).map (· ++ ['\n'])).drop start).length = m - start := by simp [hm]
  have e3 : T - (m - start) = 0 := by omega
  rw [e2, e3]
  simp only [List.take_zero, List.append_nil]
  apply List.ext_getElem?
  intro i
  simp only [List.getElem?_take, List.getElem?_drop, List.getElem?_map]
  split
  · rename_i hi
    rw [if_pos (by omega)]
  · rfl

/-- a cut that leaves the last data line unterminated, or without a following line, is refused -/
theorem c18_text_cut_refused (Ls : List (List Char)) (hnl : ∀ l ∈ Ls, '\n' ∉ l) (k start T : Nat)
    (hshort : start + T > Ls.length ∨ (text Ls).take k = text (Ls.take (start + T))) :
    readBlock (readlines ((text Ls).take k)) start T = none := by
  cases h : readBlock (readlines ((text Ls).take k)) start T with
  | none => rfl
  | some blk =>
    exfalso
    have hle := (c18_text_prefix_safe Ls hnl k start T blk h).2
    rcases hshort with hs | hs
    · omega
    · have hnl' : ∀ l ∈ Ls.take (start + T), '\n' ∉ l := fun l hl => hnl l (List.mem_of_mem_take hl)
      have := readlines_lines_rest (Ls.take (start + T)) hnl' [] (by simp)
      simp only [List.append_nil, List.isEmpty_nil, if_true] at this
      rw [hs, this] at h
      unfold readBlock at h
      rw [if_pos (by simp)] at h
      cases h

end text_layouts

end PV
