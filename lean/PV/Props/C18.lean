/-
  Property C18 - truncated measurement files never produce wrong numbers.
  Property theorems only.
-/
import PV.Model.Bytes
import PV.Proofs.BytesLemmas
import PV.Props.C17

namespace PV
open PV.Bytes

/-- C18 (truncation, stream readers): a file cut after `k` bytes is either rejected or yields
    exactly the complete records that precede the cut — never a record assembled from a partial
    payload, never a shifted or dropped one.  (It is accepted only when the cut falls on a record
    boundary or inside the 4-byte configuration number that starts a record.) -/
theorem c18_prefix_safe (P : Nat) (rs : List Rec) (h : RecsOK P rs) (k : Nat)
    (fuel : Nat) (hf : rs.length < fuel) :
    (∃ e, readRecords P fuel ((encodeRecords rs).take k) [] = .error e) ∨
    readRecords P fuel ((encodeRecords rs).take k) [] = .ok (rs.take (k / (4 + P))) := by
  by_cases hk : k < (encodeRecords rs).length
  · obtain ⟨h1, h2⟩ := readRecords_prefix P rs h k fuel hf hk
    by_cases hj : k % (4 + P) < 4
    · exact Or.inr (h1 hj)
    · exact Or.inl (h2 (by omega))
  · right
    have hk' : (encodeRecords rs).length ≤ k := by omega
    rw [List.take_of_length_le hk', c17_decode_encode P rs h fuel hf]
    rw [length_encodeRecords P rs h] at hk'
    rw [List.take_of_length_le (take_all_arith P _ k hk')]


/-- C18: and it IS rejected whenever the cut falls inside a payload -/
theorem c18_cut_in_payload_rejected (P : Nat) (rs : List Rec) (h : RecsOK P rs) (k : Nat)
    (fuel : Nat) (hf : rs.length < fuel) (hk : k < (encodeRecords rs).length)
    (hin : 4 ≤ k % (4 + P)) :
    ∃ e, readRecords P fuel ((encodeRecords rs).take k) [] = .error e :=
  (readRecords_prefix P rs h k fuel hf hk).2 hin

/-! ### chunked reader -/


/-- C18 (chunked reader): accepted only on chunk boundaries -/
theorem c18_prefix_safe_chunks (P : Nat) (rs : List Rec) (h : RecsOK P rs) (k : Nat)
    (fuel : Nat) (hf : rs.length < fuel) :
    (∃ e, readChunks P fuel ((encodeRecords rs).take k) [] = .error e) ∨
    (k % (4 + P) = 0 ∨ (encodeRecords rs).length ≤ k) ∧
      readChunks P fuel ((encodeRecords rs).take k) [] = .ok (rs.take (k / (4 + P))) := by
  by_cases hk : k < (encodeRecords rs).length
  · obtain ⟨h1, h2⟩ := readChunks_prefix P rs h k fuel hf hk
    by_cases hj : k % (4 + P) = 0
    · exact Or.inr ⟨Or.inl hj, h1 hj⟩
    · exact Or.inl (h2 (by omega))
  · right
    have hk' : (encodeRecords rs).length ≤ k := by omega
    refine ⟨Or.inr hk', ?_⟩
    rw [List.take_of_length_le hk', c17_decode_encode_chunks P rs h fuel hf]
    rw [length_encodeRecords P rs h] at hk'
    rw [List.take_of_length_le (take_all_arith P _ k hk')]


/-- C18 (no shift): the configuration numbers of the surviving records are unchanged -/
theorem c18_no_shift (P : Nat) (rs got : List Rec) (h : RecsOK P rs) (k fuel : Nat) (hf : rs.length < fuel)
    (hok : readRecords P fuel ((encodeRecords rs).take k) [] = .ok got) :
    got.map (·.cfg) = (rs.map (·.cfg)).take got.length := by
  have hgot : got = rs.take (k / (4 + P)) := by
    rcases c18_prefix_safe P rs h k fuel hf with ⟨e, he⟩ | hh
    · rw [he] at hok; cases hok
    · rw [hh] at hok; exact (Except.ok.inj hok).symm
  subst hgot
  rw [List.map_take, List.length_take, List.take_eq_take_iff, List.length_map]
  omega



end PV
