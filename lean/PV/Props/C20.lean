/-
  Property C20 — constant tables and special-function derivatives are mathematically exact.
  The tables are REGENERATED from pyerrors/dirac.py and pyerrors/special.py on every run
  (PV/Gen/Dirac.lean); every theorem below is decided by the kernel over the whole finite domain.
-/
import PV.Gen.Dirac

namespace PV
open PV.Gen.Dirac GMat

/-- the translator recognised the source -/
theorem c20_translated : translated = true := by decide

def gam (mu : Nat) : GMat := gammaList.getD mu []

/-- Euclidean Clifford algebra: {γ_μ, γ_ν} = 2 δ_μν for all 16 pairs -/
theorem c20_clifford : ∀ mu ∈ List.range 4, ∀ nu ∈ List.range 4,
    add (mul (gam mu) (gam nu)) (mul (gam nu) (gam mu)) = (if mu = nu then smul 2 one else zero) := by
  decide +kernel

/-- the matrices have the right shape and the list is (x, y, z, t) -/
theorem c20_shape : gammaList.length = 4 ∧ (∀ m ∈ gamma5 :: identity :: gammaList, m.length = 4 ∧ ∀ r ∈ m, r.length = 4) := by
  decide +kernel

/-- Hermiticity of γ_x, γ_y, γ_z, γ_t and γ_5 -/
theorem c20_hermitian : ∀ m ∈ gamma5 :: gammaList, dagger m = m := by decide +kernel

/-- γ_5 = γ_x γ_y γ_z γ_t -/
theorem c20_gamma5_product : mul (mul (mul (gam 0) (gam 1)) (gam 2)) (gam 3) = gamma5 := by decide +kernel

/-- {γ_5, γ_μ} = 0 -/
theorem c20_gamma5_anticommutes : ∀ mu ∈ List.range 4,
    add (mul gamma5 (gam mu)) (mul (gam mu) gamma5) = zero := by decide +kernel

theorem c20_identity : identity = one := by decide +kernel

/-- the stated meaning of the 16 Grid tags: products with γ_5 and commutators ½[γ_μ, γ_ν] -/
def gridSpec : List (String × GExpr) :=
  let comm (a b : Nat) : GExpr := .half (.sub (.mul (.g a) (.g b)) (.mul (.g b) (.g a)))
  [("Identity", .one), ("Gamma5", .g5), ("GammaX", .g 0), ("GammaY", .g 1), ("GammaZ", .g 2), ("GammaT", .g 3),
   ("GammaXGamma5", .mul (.g 0) .g5), ("GammaYGamma5", .mul (.g 1) .g5), ("GammaZGamma5", .mul (.g 2) .g5),
   ("GammaTGamma5", .mul (.g 3) .g5),
   ("SigmaXT", comm 0 3), ("SigmaXY", comm 0 1), ("SigmaXZ", comm 0 2), ("SigmaYT", comm 1 3),
   ("SigmaYZ", comm 1 2), ("SigmaZT", comm 2 3)]

def evalG (e : GExpr) : GMat := e.eval gammaList gamma5 identity

/-- every named Grid gamma structure equals the stated product / commutator (as matrices),
    exactly these 16 tags exist, and any other tag raises -/
theorem c20_grid_tags :
    gridTable.map (·.1) = gridSpec.map (·.1) ∧
    (∀ p ∈ List.zip gridTable gridSpec, evalG p.1.2 = evalG p.2.2) ∧
    gridElseRaises = true := by decide +kernel

/-- the factor 0.5 in the commutators is exact: every commutator has even entries -/
theorem c20_half_exact : ∀ p ∈ gridTable, p.2.halfExact gammaList gamma5 identity = true := by decide +kernel

/-- commutators really are ½[γ_μ, γ_ν]: twice the table entry is the commutator -/
theorem c20_sigma_commutator : ∀ q ∈ [("SigmaXT", 0, 3), ("SigmaXY", 0, 1), ("SigmaXZ", 0, 2), ("SigmaYT", 1, 3), ("SigmaYZ", 1, 2), ("SigmaZT", 2, 3)],
    ∀ e, gridTable.lookup q.1 = some e →
      smul 2 (evalG e) = sub (mul (gam q.2.1) (gam q.2.2)) (mul (gam q.2.2) (gam q.2.1)) := by decide +kernel

/-! ### epsilon tensors -/

def inDom (doms : List (List Int)) (t : List Int) : Bool := doms.any (fun d => t.all (d.contains ·))

def idx5 : List Int := [0, 1, 2, 3, 4]

/-- rank 3: on every tuple of {0..4}³ inside a domain window the value is the permutation sign
    (numerator = denominator · sign); the two windows are {1,2,3} and {0,1,2} -/
theorem c20_eps3 :
    eps3Dom = [[1, 2, 3], [0, 1, 2]] ∧ eps3Den ≠ 0 ∧
    ∀ i ∈ idx5, ∀ j ∈ idx5, ∀ k ∈ idx5, inDom eps3Dom [i, j, k] = true →
      eps3Num i j k = eps3Den * permSign [i, j, k] := by decide +kernel

/-- rank 4 on {0..4}⁴ with windows {1,2,3,4} and {0,1,2,3} -/
theorem c20_eps4 :
    eps4Dom = [[1, 2, 3, 4], [0, 1, 2, 3]] ∧ eps4Den ≠ 0 ∧
    ∀ i ∈ idx5, ∀ j ∈ idx5, ∀ k ∈ idx5, ∀ o ∈ idx5, inDom eps4Dom [i, j, k, o] = true →
      eps4Num i j k o = eps4Den * permSign [i, j, k, o] := by decide +kernel

/-- tuples outside both windows exist in {0..4}ⁿ (they are the ones the functions reject) -/
theorem c20_eps_rejects : inDom eps3Dom [0, 1, 3] = false ∧ inDom eps3Dom [4, 4, 4] = false ∧
    inDom eps4Dom [0, 1, 2, 4] = false := by decide +kernel

/-! ### K_n -/

/-- the vjp body is literally  -g · ½ · (K_{|n-1|}(x) + K_{n+1}(x)) -/
theorem c20_kn_vjp_term : knVjp = .mul (.mul (.neg .g) .half) (.add .kAbsNm1 .kNp1) := by decide

/-- meaning of the vjp term over any commutative ring with ½ -/
def KTerm.eval {R : Type} [Mul R] [Add R] [Neg R] (g h kAbs kM kP : R) : KTerm → R
  | .g => g | .half => h | .kAbsNm1 => kAbs | .kNm1 => kM | .kNp1 => kP
  | .neg a => -(a.eval g h kAbs kM kP)
  | .mul a b => a.eval g h kAbs kM kP * b.eval g h kAbs kM kP
  | .add a b => a.eval g h kAbs kM kP + b.eval g h kAbs kM kP

end PV
