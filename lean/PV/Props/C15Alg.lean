/-
  Property C15 — mathematical backbone of the root variants of the effective mass: when does the ratio equation
  cosh(m (t - T/2)) / cosh(m (t + 1 - T/2)) = C(t) / C(t+1) have a real solution?  These theorems justify the
  classification the check uses for the clause "undefined where the formula has no real solution".
-/
import Mathlib.Analysis.SpecialFunctions.Trigonometric.DerivHyp
import Mathlib.Analysis.Calculus.Deriv.MeanValue

namespace PV
open Real

/-- with a = t - T/2 further from 0 than b = t + 1 - T/2 (the first half of the lattice) the cosh ratio is at
    least 1 for every mass ... -/
theorem c15_cosh_ratio_ge_one (m a b : ℝ) (h : |b| ≤ |a|) : 1 ≤ cosh (m * a) / cosh (m * b) := by
  rw [le_div_iff₀ (cosh_pos _), one_mul, cosh_le_cosh, abs_mul, abs_mul]
  exact mul_le_mul_of_nonneg_left h (abs_nonneg m)

/-- ... and at most 1 in the second half -/
theorem c15_cosh_ratio_le_one (m a b : ℝ) (h : |a| ≤ |b|) : cosh (m * a) / cosh (m * b) ≤ 1 := by
  rw [div_le_iff₀ (cosh_pos _), one_mul, cosh_le_cosh, abs_mul, abs_mul]
  exact mul_le_mul_of_nonneg_left h (abs_nonneg m)

/-- **C15 (no real solution, first half).**  If C(t)/C(t+1) < 1 at a timeslice of the first half (|t+1-T/2| ≤ |t-T/2|),
    no real mass solves the cosh-ratio equation: the property demands an undefined timeslice there. -/
theorem c15_cosh_no_solution_first_half (a b rv : ℝ) (h : |b| ≤ |a|) (hr : rv < 1) :
    ∀ m : ℝ, cosh (m * a) / cosh (m * b) ≠ rv := by
  intro m hm
  have := c15_cosh_ratio_ge_one m a b h
  linarith

/-- **C15 (no real solution, second half).**  Likewise for C(t)/C(t+1) > 1 in the second half. -/
theorem c15_cosh_no_solution_second_half (a b rv : ℝ) (h : |a| ≤ |b|) (hr : 1 < rv) :
    ∀ m : ℝ, cosh (m * a) / cosh (m * b) ≠ rv := by
  intro m hm
  have := c15_cosh_ratio_le_one m a b h
  linarith

/-- **C15 (odd T, slice 2t+1 = T).**  There a = -b: the cosh ratio is 1 and the sinh ratio -1 for every mass - the
    equation does not determine a mass (any start value "solves" it when C(t) = C(t+1), none otherwise). -/
theorem c15_cosh_ratio_mid (m a : ℝ) : cosh (m * (-a)) / cosh (m * a) = 1 := by
  rw [mul_neg, cosh_neg, div_self (cosh_pos _).ne']

theorem c15_sinh_ratio_mid (m a : ℝ) (h : sinh (m * a) ≠ 0) : sinh (m * (-a)) / sinh (m * a) = -1 := by
  rw [mul_neg, sinh_neg, neg_div, div_self h]

/-! ### the sinh variant: the ratio stays on one side of its m -> 0 limit a / b -/

/-- g(m) = a sinh(m b) - b sinh(m a) is strictly increasing on [0, ∞) for 0 < a < b -/
theorem sinh_gap_strictMono (a b : ℝ) (ha : 0 < a) (hab : a < b) :
    StrictMonoOn (fun m : ℝ => a * sinh (m * b) - b * sinh (m * a)) (Set.Ici 0) := by
  have hd : ∀ m : ℝ, HasDerivAt (fun m : ℝ => a * sinh (m * b) - b * sinh (m * a))
      (a * (cosh (m * b) * b) - b * (cosh (m * a) * a)) m := by
    intro m
    have h1 : HasDerivAt (fun m : ℝ => m * b) b m := by simpa using (hasDerivAt_id m).mul_const b
    have h2 : HasDerivAt (fun m : ℝ => m * a) a m := by simpa using (hasDerivAt_id m).mul_const a
    exact ((h1.sinh).const_mul a).sub ((h2.sinh).const_mul b)
  apply strictMonoOn_of_deriv_pos (convex_Ici 0)
  · exact (continuous_iff_continuousAt.mpr (fun m => (hd m).continuousAt)).continuousOn
  · intro m hm
    rw [interior_Ici] at hm
    have hm0 : 0 < m := hm
    rw [(hd m).deriv]
    have hc : cosh (m * a) < cosh (m * b) := by
      rw [cosh_lt_cosh, abs_of_pos (mul_pos hm0 ha), abs_of_pos (mul_pos hm0 (ha.trans hab))]
      exact mul_lt_mul_of_pos_left hab hm0
    have : a * (cosh (m * b) * b) - b * (cosh (m * a) * a) = a * b * (cosh (m * b) - cosh (m * a)) := by ring
    rw [this]
    exact mul_pos (mul_pos ha (ha.trans hab)) (sub_pos.mpr hc)

/-- for 0 < a < b and m > 0: sinh(m a) / sinh(m b) < a / b -/
theorem sinh_ratio_lt (a b m : ℝ) (ha : 0 < a) (hab : a < b) (hm : 0 < m) :
    sinh (m * a) / sinh (m * b) < a / b := by
  have hb : 0 < b := ha.trans hab
  have hs : 0 < sinh (m * b) := sinh_pos_iff.mpr (mul_pos hm hb)
  have h := sinh_gap_strictMono a b ha hab (Set.mem_Ici.mpr le_rfl) (Set.mem_Ici.mpr hm.le) hm
  simp only [zero_mul, sinh_zero, mul_zero, sub_self] at h
  rw [div_lt_div_iff₀ hs hb]
  linarith


theorem sinh_ratio_neg_m (a b m : ℝ) : sinh (-m * a) / sinh (-m * b) = sinh (m * a) / sinh (m * b) := by
  rw [neg_mul, neg_mul, sinh_neg, sinh_neg, neg_div_neg_eq]

/-- second half of the lattice (0 < a < b): the sinh ratio stays below its m -> 0 limit a / b for every m ≠ 0 -/
theorem sinh_ratio_lt' (a b m : ℝ) (ha : 0 < a) (hab : a < b) (hm : m ≠ 0) :
    sinh (m * a) / sinh (m * b) < a / b := by
  rcases lt_or_gt_of_ne hm with h | h
  · have := sinh_ratio_lt a b (-m) ha hab (by linarith)
    rwa [sinh_ratio_neg_m] at this
  · exact sinh_ratio_lt a b m ha hab h

theorem c15_sinh_no_solution_second_half (a b rv : ℝ) (ha : 0 < a) (hab : a < b) (hr : a / b < rv) :
    ∀ m : ℝ, m ≠ 0 → sinh (m * a) / sinh (m * b) ≠ rv := by
  intro m hm h
  have := sinh_ratio_lt' a b m ha hab hm
  linarith

/-- first half (a < b < 0): the ratio stays above a / b -/
theorem c15_sinh_no_solution_first_half (a b rv : ℝ) (hb : b < 0) (hab : a < b) (hr : rv < a / b) :
    ∀ m : ℝ, m ≠ 0 → sinh (m * a) / sinh (m * b) ≠ rv := by
  intro m hm h
  -- with a' = -b, b' = -a: 0 < a' < b' and sinh(m a)/sinh(m b) = 1 / (sinh(m a')/sinh(m b'))
  have ha' : 0 < -b := by linarith
  have hab' : -b < -a := by linarith
  have hlt := sinh_ratio_lt' (-b) (-a) m ha' hab' hm
  have e1 : sinh (m * -b) = -sinh (m * b) := by rw [mul_neg, sinh_neg]
  have e2 : sinh (m * -a) = -sinh (m * a) := by rw [mul_neg, sinh_neg]
  rw [e1, e2, neg_div_neg_eq, neg_div_neg_eq] at hlt
  -- hlt : sinh (m b) / sinh (m a) < b / a
  have hsa : sinh (m * a) ≠ 0 := by
    intro h0
    have : m * a = 0 := sinh_eq_zero.mp h0
    rcases mul_eq_zero.mp this with h1 | h1
    · exact hm h1
    · linarith
  have hsb : sinh (m * b) ≠ 0 := by
    intro h0
    have : m * b = 0 := sinh_eq_zero.mp h0
    rcases mul_eq_zero.mp this with h1 | h1
    · exact hm h1
    · linarith
  have hpos : 0 < sinh (m * a) / sinh (m * b) := by
    rcases lt_or_gt_of_ne hm with hneg | hposm
    · have h1 : 0 < sinh (m * a) := sinh_pos_iff.mpr (mul_pos_of_neg_of_neg hneg (by linarith))
      have h2 : 0 < sinh (m * b) := sinh_pos_iff.mpr (mul_pos_of_neg_of_neg hneg hb)
      exact div_pos h1 h2
    · have h1 : sinh (m * a) < 0 := sinh_neg_iff.mpr (mul_neg_of_pos_of_neg hposm (by linarith))
      have h2 : sinh (m * b) < 0 := sinh_neg_iff.mpr (mul_neg_of_pos_of_neg hposm hb)
      exact div_pos_of_neg_of_neg h1 h2
  have hab_pos : 0 < a / b := div_pos_of_neg_of_neg (by linarith) hb
  -- invert: x := sinh(ma)/sinh(mb) > 0, 1/x < b/a  =>  x > a/b
  have hinv : sinh (m * b) / sinh (m * a) = (sinh (m * a) / sinh (m * b))⁻¹ := by rw [inv_div]
  have hba : b / a = (a / b)⁻¹ := by rw [inv_div]
  rw [hinv, hba] at hlt
  have := (inv_lt_inv₀ hpos hab_pos).mp hlt
  linarith

/-- **C15 (sinh variant, summary).**  In the second half of the lattice (0 < a < b) no real mass m ≠ 0 gives a ratio above
    a / b, in the first half (a < b < 0) none gives a ratio below a / b: the timeslice has to be undefined there. -/
theorem c15_sinh_no_solution (a b rv : ℝ) (h : (0 < a ∧ a < b ∧ a / b < rv) ∨ (b < 0 ∧ a < b ∧ rv < a / b)) :
    ∀ m : ℝ, m ≠ 0 → sinh (m * a) / sinh (m * b) ≠ rv := by
  rcases h with ⟨h1, h2, h3⟩ | ⟨h1, h2, h3⟩
  · exact c15_sinh_no_solution_second_half a b rv h1 h2 h3
  · exact c15_sinh_no_solution_first_half a b rv h1 h2 h3

/-- non-vacuity: T = 8, t = 2 (a = -2, b = -1) with a ratio below 1, and the mid slice of T = 9 -/
example : |(-1 : ℝ)| ≤ |(-2 : ℝ)| ∧ (0.9 : ℝ) < 1 := by norm_num

end PV
