/-
  Property C15 — mathematical backbone of the root variants of the effective mass: when does the ratio equation
  cosh(m (t - T/2)) / cosh(m (t + 1 - T/2)) = C(t) / C(t+1) have a real solution?  These theorems justify the
  classification the check uses for the clause "undefined where the formula has no real solution".
-/
import Mathlib.Analysis.SpecialFunctions.Trigonometric.DerivHyp

namespace PV
open Real

/-- with a = t - T/2 further from 0 than b = t + 1 - T/2 (the first half of the lattice) the cosh ratio is at
    least 1 for every mass ... -/
theorem c15_cosh_ratio_ge_one (m a b : ℝ) (h : |b| ≤ |a|) : 1 ≤ cosh (m * a) / cosh (m * b) := by
  rw [le_div_iff₀ (cosh_pos _), one_mul, cosh_le_cosh, abs_mul, abs_mul]
  exact mul_le_mul_of_nonneg_left h (abs_nonneg m)

/-- ... and at most 1 in the second half -/
theorem c15_cosh_ratio_le_one (m a b : ℝ) (h : |a| ≤ |b|) : cosh (m * a) / cosh (m * b) ≤ 1 := by
  rw [div_le_iff₀ (cosh_pos _), one_mul, cosh_le_cosh, abs_mul, abs_mul]
  exact mul_le_mul_of_nonneg_left h (abs_nonneg m)

/-- **C15 (no real solution, first half).**  If C(t)/C(t+1) < 1 at a timeslice of the first half (|t+1-T/2| ≤ |t-T/2|),
    no real mass solves the cosh-ratio equation: the property demands an undefined timeslice there. -/
theorem c15_cosh_no_solution_first_half (a b rv : ℝ) (h : |b| ≤ |a|) (hr : rv < 1) :
    ∀ m : ℝ, cosh (m * a) / cosh (m * b) ≠ rv := by
  intro m hm
  have := c15_cosh_ratio_ge_one m a b h
  linarith

/-- **C15 (no real solution, second half).**  Likewise for C(t)/C(t+1) > 1 in the second half. -/
theorem c15_cosh_no_solution_second_half (a b rv : ℝ) (h : |a| ≤ |b|) (hr : 1 < rv) :
    ∀ m : ℝ, cosh (m * a) / cosh (m * b) ≠ rv := by
  intro m hm
  have := c15_cosh_ratio_le_one m a b h
  linarith

/-- **C15 (odd T, slice 2t+1 = T).**  There a = -b: the cosh ratio is 1 and the sinh ratio -1 for every mass - the
    equation does not determine a mass (any start value "solves" it when C(t) = C(t+1), none otherwise). -/
theorem c15_cosh_ratio_mid (m a : ℝ) : cosh (m * (-a)) / cosh (m * a) = 1 := by
  rw [mul_neg, cosh_neg, div_self (cosh_pos _).ne']

theorem c15_sinh_ratio_mid (m a : ℝ) (h : sinh (m * a) ≠ 0) : sinh (m * (-a)) / sinh (m * a) = -1 := by
  rw [mul_neg, sinh_neg, neg_div, div_self h]

/-- non-vacuity: T = 8, t = 2 (a = -2, b = -1) with a ratio below 1, and the mid slice of T = 9 -/
example : |(-1 : ℝ)| ≤ |(-2 : ℝ)| ∧ (0.9 : ℝ) < 1 := by norm_num

end PV
