/-
  Property C19 — printed value(error) strings agree with value and error.
  Property theorems only (arithmetic part; the string rendering is compared exactly with
  CPython on every generated case).
-/
import Mathlib.Algebra.Order.Floor.Defs
import Mathlib.Data.Rat.Floor
import Mathlib.Tactic.Linarith
import Mathlib.Tactic.Positivity
import Mathlib.Tactic.Ring
import PV.Model.Format
import PV.Proofs.C19Lemmas
import PV.Proofs.C19Lemmas2

namespace PV
open PV.Fmt

/-- the format flags only ever add one leading character, and only for non-negative numbers -/
theorem c19_flag (flag s : String) :
    withFlag flag s = s ∨ withFlag flag s = flag ++ s := by
  unfold withFlag
  split <;> simp

/-- **C19 (complex observables print both parts "in this way").**  The plain string form and the formatted form of a complex
    observable join real and imaginary part by the same rule - for EVERY pair of part strings: exactly one sign character stands
    between them, the imaginary part's own '-' or else a '+'.  (Before fix 8d3fccf `str` decided from `value >= 0`, which for
    the value -0.0 produced "+-0.00(..)".) -/
theorem c19_cobs_str_is_format (re im : String) : cobsStr re im = cobsFormat re im := by
  unfold cobsStr cobsFormat withFlag
  by_cases h : im.startsWith "-" = true
  · simp [h]
  · simp [h, String.append_assoc]

/-- the witness of the repaired defect: a negative-zero imaginary part -/
theorem c19_cobs_negative_zero : cobsStr "1.00(10)" "-0.00(22)" = "(1.00(10)-0.00(22)j)" := by decide +kernel

/-- non-vacuity / regression examples decided by the kernel: carry across a power of ten
    (0.0996 at two digits prints 100 units of the third decimal), tie to even, negative zero -/
theorem c19_examples :
    (formatUncertainty (617 / 500) (249 / 2500) 2 (-2)).render = "1.234(100)" ∧
    (formatUncertainty (1 / 8) (1 / 4) 1 (-1)).render = "0.1(2)" ∧
    (formatUncertainty (-1 / 1000) (3 / 2) 2 0).render = "-0.0(1.5)" ∧
    (formatUncertainty 12345 678 2 2).render = "12345(678)" := by
  decide +kernel

/-- rounding to n decimals (ties to even) is within half a unit of the last digit -/
theorem c19_round_half_unit (q : Rat) (n : Nat) :
    |(roundDec q n).toRat - q| ≤ 1 / (2 * ((10 ^ n : Nat) : Rat)) := by
  have := half_unit' q n
  rwa [div_div, mul_comm] at this


/-- the rounded numeral keeps the sign and the number of decimals -/
theorem c19_roundDec_shape (q : Rat) (n : Nat) : (roundDec q n).n = n ∧ ((roundDec q n).neg = true ↔ q < 0) := by
  simp [roundDec]


/-- rounding to the nearest double has relative error at most 2^-53 -/
theorem c19_roundDouble_rel (q : Rat) (hq : 0 < q) :
    |roundDouble q - q| ≤ q / ((2 ^ 53 : Nat) : Rat) := by
  unfold roundDouble
  rw [if_neg (not_le.mpr hq)]
  simp only [pw_eq]
  have hl := ilog2_le q hq
  generalize ilog2 q = L at hl
  have hp : (0 : Rat) < (2 : Rat) ^ (L - 52) := zpow_pos (by norm_num) _
  have hpe : (2 : Rat) ^ (L - 52) = (2 : Rat) ^ L / 2 ^ 52 := by
    rw [zpow_sub₀ (by norm_num : (2 : Rat) ≠ 0)]; norm_num
  have h := rhe_abs (q / (2 : Rat) ^ (L - 52)) (by positivity)
  generalize (2 : Rat) ^ (L - 52) = p at hp hpe h
  have e : (roundHalfEvenNat (q / p) : Rat) * p - q = ((roundHalfEvenNat (q / p) : Rat) - q / p) * p := by
    field_simp
  rw [e, abs_mul, abs_of_pos hp]
  have h53 : ((2 ^ 53 : Nat) : Rat) = 2 ^ 52 * 2 := by norm_num
  calc _ ≤ (1 / 2) * p := by gcongr
    _ = (2 : Rat) ^ L / ((2 ^ 53 : Nat) : Rat) := by rw [hpe, h53]; field_simp
    _ ≤ q / ((2 ^ 53 : Nat) : Rat) := by gcongr


/-- C19 (value): reading the printed value back recovers it within half a unit of the last
    printed digit — in all three branches, for every significance -/
theorem c19_roundtrip_value (v d : Rat) (sig : Nat) (fexp : Int) :
    let x := formatUncertainty v d sig fexp
    |(readBack x).1 - v| ≤ unit x / 2 := by
  intro x
  simp only [x, formatUncertainty]
  split_ifs <;> exact half_unit' v _


/-- C19 (error, errors ≥ 1): value and error are printed with the same number of decimals and the
    error is read back within half a unit -/
theorem c19_roundtrip_error_ge1 (v d : Rat) (sig : Nat) (fexp : Int) (hf : 0 ≤ fexp) (hd : 0 ≤ d) :
    let x := formatUncertainty v d sig fexp
    x.err.n = x.val.n ∧ |(readBack x).2 - d| ≤ unit x / 2 := by
  intro x
  have h1 : ¬ fexp < 0 := by omega
  simp only [x, formatUncertainty, if_neg h1]
  split_ifs
  · refine ⟨rfl, ?_⟩
    rw [readBack_same _ rfl]
    exact half_unit' d (sig - 1)
  · refine ⟨rfl, ?_⟩
    rw [readBack_same _ rfl]
    exact half_unit' d ((sig : Int) - fexp - 1).toNat


/-- C19 (error, errors < 1): the error is printed as an integer number of units of the last
    printed digit of the value and read back within half a unit plus the rounding of the one
    floating-point product the code performs -/
theorem c19_roundtrip_error_lt1 (v d : Rat) (sig : Nat) (fexp : Int) (hf : fexp < 0) (hsig : 1 ≤ sig) (hd : 0 < d) :
    let x := formatUncertainty v d sig fexp
    x.err.n = 0 ∧ 0 < x.val.n ∧ |(readBack x).2 - d| ≤ unit x / 2 + d / ((2 ^ 53 : Nat) : Rat) := by
  intro x
  have hk : 0 < ((-fexp) + sig - 1).toNat := by omega
  simp only [x, formatUncertainty, if_pos hf]
  refine ⟨rfl, hk, ?_⟩
  generalize ((-fexp) + sig - 1).toNat = k at hk
  have hP : (0 : Rat) < ((10 ^ k : Nat) : Rat) := by positivity
  have hD : 0 < d * ((10 ^ k : Nat) : Rat) := by positivity
  have hR := roundDouble_nonneg _ (le_of_lt hD)
  have hrel := c19_roundDouble_rel _ hD
  have hdec := half_unit' (roundDouble (d * ((10 ^ k : Nat) : Rat))) 0
  have hfac : (readBack { val := roundDec v k, err := roundDec (roundDouble (d * ((10 ^ k : Nat) : Rat))) 0 }).2
      = (roundDec (roundDouble (d * ((10 ^ k : Nat) : Rat))) 0).toRat * (1 / ((10 ^ k : Nat) : Rat)) := by
    unfold readBack
    have : ((roundDec v k).n > 0 ∧ (roundDec (roundDouble (d * ((10 ^ k : Nat) : Rat))) 0).n = 0) :=
      ⟨hk, rfl⟩
    simp only [if_pos this]
    rfl
  rw [hfac]
  apply scaled_err _ _ _ _ hP
  generalize (roundDec (roundDouble (d * ((10 ^ k : Nat) : Rat))) 0).toRat = E at hdec
  generalize roundDouble (d * ((10 ^ k : Nat) : Rat)) = R at hdec hrel hR
  generalize d * ((10 ^ k : Nat) : Rat) = D at hrel hD
  have h1 : (1 : Rat) / ((10 ^ 0 : Nat) : Rat) / 2 = 1 / 2 := by norm_num
  rw [h1] at hdec
  calc |E - D| = |(E - R) + (R - D)| := by ring_nf
    _ ≤ |E - R| + |R - D| := abs_add_le _ _
    _ ≤ 1 / 2 + D / ((2 ^ 53 : Nat) : Rat) := add_le_add hdec hrel


/-- C19 (significant digits, 1 ≤ error < 10): the error shows `sig` digits (one more after a carry) -/
theorem c19_sig_digits_unit (v d : Rat) (sig : Nat) (hsig : 1 ≤ sig) (h1 : 1 ≤ d) (h2 : d < 10) :
    let x := formatUncertainty v d sig 0
    10 ^ (sig - 1) ≤ x.err.m ∧ x.err.m ≤ 10 ^ sig := by
  intro x
  have h0 : ¬ ((0 : Int) < 0) := by omega
  simp only [x, formatUncertainty, if_neg h0, beq_self_eq_true, if_true]
  have hpow : (10 : Rat) ^ sig = 10 * 10 ^ (sig - 1) := by
    rw [← pow_succ']; congr 1; omega
  have hP : (0 : Rat) < (10 : Rat) ^ (sig - 1) := by positivity
  apply roundDec_m_bounds _ _ _ _ (by linarith)
  · push_cast; nlinarith
  · push_cast; rw [hpow]; nlinarith


/-- C19 (significant digits, error < 1) in terms of the rounded product dd = fl(d · 10^k):
    if 10^(sig-1) ≤ dd < 10^sig then sig digits (one more after a carry) are shown -/
theorem c19_sig_digits_small (dd : Rat) (sig : Nat) (hsig : 1 ≤ sig)
    (h1 : ((10 ^ (sig - 1) : Nat) : Rat) ≤ dd) (h2 : dd < ((10 ^ sig : Nat) : Rat)) :
    10 ^ (sig - 1) ≤ (roundDec dd 0).m ∧ (roundDec dd 0).m ≤ 10 ^ sig := by
  have h0 : (0 : Rat) ≤ dd := le_trans (by positivity) h1
  apply roundDec_m_bounds _ _ _ _ h0
  · simpa using h1
  · simpa using le_of_lt h2



end PV
