/-
  Property C19 — printed value(error) strings agree with value and error.
  Property theorems only (arithmetic part; the string rendering is compared exactly with
  CPython on every generated case).
-/
import PV.Model.Format

namespace PV
open PV.Fmt

/-- the format flags only ever add one leading character, and only for non-negative numbers -/
theorem c19_flag (flag s : String) :
    withFlag flag s = s ∨ withFlag flag s = flag ++ s := by
  unfold withFlag
  split <;> simp

/-- non-vacuity / regression examples decided by the kernel: carry across a power of ten
    (0.0996 at two digits prints 100 units of the third decimal), tie to even, negative zero -/
theorem c19_examples :
    (formatUncertainty (617 / 500) (249 / 2500) 2 (-2)).render = "1.234(100)" ∧
    (formatUncertainty (1 / 8) (1 / 4) 1 (-1)).render = "0.1(2)" ∧
    (formatUncertainty (-1 / 1000) (3 / 2) 2 0).render = "-0.0(1.5)" ∧
    (formatUncertainty 12345 678 2 2).render = "12345(678)" := by
  decide +kernel

end PV
