/-
  C09 — roots and integrals of observable-dependent functions propagate errors exactly.

  Mathematical backbone of `pyerrors.roots.find_root` and `pyerrors.integrate.quad`:
    * implicit-function sensitivity of a root            (c09_root_sensitivity, c09_inverse_function)
    * fundamental theorem of calculus at both limits     (c09_ftc_upper, c09_ftc_lower)
    * differentiation under the integral for the two parameter families used by the checks
                                                         (c09_param_poly, c09_param_exp)
    * ordering of the assembled gradient list            (c09_gradient_order)
-/
import Mathlib.Analysis.Calculus.Deriv.Basic
import Mathlib.Analysis.Calculus.Deriv.Comp
import Mathlib.Analysis.Calculus.Deriv.Inverse
import Mathlib.Analysis.Calculus.Deriv.Prod
import Mathlib.Analysis.Calculus.Deriv.Mul
import Mathlib.Analysis.Calculus.Deriv.Pow
import Mathlib.Analysis.Calculus.Deriv.Inv
import Mathlib.Analysis.Calculus.FDeriv.Prod
import Mathlib.Analysis.Calculus.FDeriv.Add
import Mathlib.Analysis.Calculus.FDeriv.Comp
import Mathlib.Analysis.SpecialFunctions.ExpDeriv
import Mathlib.Analysis.SpecialFunctions.Integrals.Basic
import Mathlib.MeasureTheory.Integral.IntervalIntegral.FundThmCalculus
import Mathlib.Tactic.Ring
import Mathlib.Tactic.FieldSimp
import Mathlib.Tactic.Linarith
import Mathlib.Tactic.NormNum

namespace PV

open Filter Topology MeasureTheory intervalIntegral

/-! ### Helper lemmas -/

/-- The continuous linear map `(u, v) ↦ fx * u + fd * v` on `ℝ × ℝ`: the Fréchet derivative of a
    function of two real variables whose partial derivatives are `fx` and `fd`. -/
noncomputable def partialsCLM (fx fd : ℝ) : ℝ × ℝ →L[ℝ] ℝ :=
  fx • ContinuousLinearMap.fst ℝ ℝ ℝ + fd • ContinuousLinearMap.snd ℝ ℝ ℝ

@[simp] theorem partialsCLM_apply (fx fd : ℝ) (v : ℝ × ℝ) :
    partialsCLM fx fd v = fx * v.1 + fd * v.2 := by
  simp [partialsCLM]

/-- Chain rule along the curve `d ↦ (x d, d)`. -/
theorem hasDerivAt_along_root_curve {f : ℝ → ℝ → ℝ} {x : ℝ → ℝ} {x0 d0 fx fd x' : ℝ}
    (hf : HasFDerivAt (fun p : ℝ × ℝ => f p.1 p.2) (partialsCLM fx fd) (x0, d0))
    (hx : HasDerivAt x x' d0) (hx0 : x d0 = x0) :
    HasDerivAt (fun d => f (x d) d) (fx * x' + fd) d0 := by
  have hcurve : HasDerivAt (fun d : ℝ => (x d, d)) (x', (1 : ℝ)) d0 :=
    hx.prodMk (hasDerivAt_id d0)
  have h := hf.comp_hasDerivAt_of_eq d0 hcurve (by simp [hx0])
  have he : (partialsCLM fx fd) (x', (1 : ℝ)) = fx * x' + fd := by simp
  rw [he] at h
  exact h

/-- Antiderivative of `x ↦ x * exp (p * x)` for `p ≠ 0`. -/
theorem hasDerivAt_xexp_primitive {p : ℝ} (hp : p ≠ 0) (x : ℝ) :
    HasDerivAt (fun y : ℝ => (y / p - 1 / p ^ 2) * Real.exp (p * y)) (x * Real.exp (p * x)) x := by
  have h1 : HasDerivAt (fun y : ℝ => y / p - 1 / p ^ 2) (1 / p) x := by
    simpa using ((hasDerivAt_id x).div_const p).sub_const (1 / p ^ 2)
  have h2 : HasDerivAt (fun y : ℝ => Real.exp (p * y)) (Real.exp (p * x) * p) x := by
    have : HasDerivAt (fun y : ℝ => p * y) p x := by
      simpa using (hasDerivAt_id x).const_mul p
    exact this.exp
  refine (h1.mul h2).congr_deriv ?_
  field_simp
  ring

/-- Antiderivative of `x ↦ exp (p * x)` for `p ≠ 0`. -/
theorem hasDerivAt_exp_primitive {p : ℝ} (hp : p ≠ 0) (x : ℝ) :
    HasDerivAt (fun y : ℝ => Real.exp (p * y) / p) (Real.exp (p * x)) x := by
  have h2 : HasDerivAt (fun y : ℝ => Real.exp (p * y)) (Real.exp (p * x) * p) x := by
    have : HasDerivAt (fun y : ℝ => p * y) p x := by
      simpa using (hasDerivAt_id x).const_mul p
    exact this.exp
  refine (h2.div_const p).congr_deriv ?_
  field_simp

theorem integral_exp_mul_real {p : ℝ} (hp : p ≠ 0) (a b : ℝ) :
    ∫ x in a..b, Real.exp (p * x) = (Real.exp (p * b) - Real.exp (p * a)) / p := by
  have hcont : Continuous fun x : ℝ => Real.exp (p * x) := by fun_prop
  rw [integral_eq_sub_of_hasDerivAt (fun x _ => hasDerivAt_exp_primitive hp x)
    (hcont.intervalIntegrable a b)]
  ring

theorem integral_x_exp_mul_real {p : ℝ} (hp : p ≠ 0) (a b : ℝ) :
    ∫ x in a..b, x * Real.exp (p * x)
      = (b / p - 1 / p ^ 2) * Real.exp (p * b) - (a / p - 1 / p ^ 2) * Real.exp (p * a) := by
  have hcont : Continuous fun x : ℝ => x * Real.exp (p * x) := by fun_prop
  rw [integral_eq_sub_of_hasDerivAt (fun x _ => hasDerivAt_xexp_primitive hp x)
    (hcont.intervalIntegrable a b)]

/-! ### 1. Root sensitivity (implicit differentiation) -/

/-- C09 (root sensitivity).  Let `f : ℝ → ℝ → ℝ` (arguments: root variable `x`, parameter `d`) be
    Fréchet differentiable at `(x0, d0)` with partial derivatives `fx = ∂f/∂x` and `fd = ∂f/∂d`
    (i.e. its derivative is the linear map `(u, v) ↦ fx * u + fd * v`), with `fx ≠ 0`.  If a root
    curve `x : ℝ → ℝ` is differentiable at `d0`, passes through `x d0 = x0`, and satisfies
    `f (x d) d = 0` for all `d` near `d0`, then `deriv x d0 = - fd / fx`.
    Backs the code fact that `find_root` attaches the manual gradient
    `man_grad = - ∂_d f / ∂_x f` to the root.  Hypotheses `fx ≠ 0` and differentiability of `x`
    are those given in the task (both are needed: the formula is meaningless otherwise). -/
theorem c09_root_sensitivity (f : ℝ → ℝ → ℝ) (x : ℝ → ℝ) (x0 d0 fx fd : ℝ)
    (hf : HasFDerivAt (fun p : ℝ × ℝ => f p.1 p.2) (partialsCLM fx fd) (x0, d0))
    (hfx : fx ≠ 0) (hx : DifferentiableAt ℝ x d0) (hx0 : x d0 = x0)
    (hroot : ∀ᶠ d in 𝓝 d0, f (x d) d = 0) :
    deriv x d0 = - fd / fx := by
  have hcomp := hasDerivAt_along_root_curve hf hx.hasDerivAt hx0
  have hzero : HasDerivAt (fun d => f (x d) d) 0 d0 :=
    (hasDerivAt_const d0 (0 : ℝ)).congr_of_eventuallyEq hroot
  have heq : fx * deriv x d0 + fd = 0 := hcomp.unique hzero
  field_simp
  linarith

/-- Non-vacuity of `c09_root_sensitivity`: `f x d = x ^ 2 - d` at `(x0, d0) = (2, 4)` with root
    curve `x d = √d`; the partials are `fx = 4`, `fd = -1` and the theorem yields
    `deriv √· 4 = 1/4`. -/
example : deriv (fun d : ℝ => Real.sqrt d) 4 = - (-1 : ℝ) / 4 := by
  have h2 : Real.sqrt 4 = 2 := by
    rw [show (4 : ℝ) = 2 ^ 2 by norm_num]
    exact Real.sqrt_sq (by norm_num)
  refine c09_root_sensitivity (fun x d => x ^ 2 - d) (fun d => Real.sqrt d) 2 4 4 (-1) ?_
    (by norm_num) ?_ h2 ?_
  · have h1 : HasFDerivAt (fun p : ℝ × ℝ => p.1 ^ 2)
        ((2 * (2 : ℝ) ^ 1) • ContinuousLinearMap.fst ℝ ℝ ℝ) ((2 : ℝ), (4 : ℝ)) := by
      have := (hasFDerivAt_fst (𝕜 := ℝ) (p := ((2 : ℝ), (4 : ℝ)))).pow 2
      simpa using this
    have h3 := h1.sub (hasFDerivAt_snd (𝕜 := ℝ) (p := ((2 : ℝ), (4 : ℝ))))
    refine h3.congr_fderiv (ContinuousLinearMap.ext fun v => ?_)
    simp [partialsCLM]
    ring
  · exact (Real.hasDerivAt_sqrt (by norm_num)).differentiableAt
  · filter_upwards [lt_mem_nhds (show (0 : ℝ) < 4 by norm_num)] with d hd
    simp [Real.sq_sqrt hd.le]

/-! ### 2. Inverse function as a special case -/

/-- C09 (inverse function).  Special case `f (x, d) = g x - d` of the root problem, with `g`
    differentiable at `x0` with derivative `g' ≠ 0`.  Let `h` be the root map, i.e. `h d` solves
    `g (h d) - d = 0` for all `d` near `d0`, with `h d0 = x0` and `h` continuous at `d0`.  Then
    (a) `f` is Fréchet differentiable at `(x0, d0)` with partials `∂_x f = g'`, `∂_d f = -1`;
    (b) the sensitivity `-∂_d f / ∂_x f` equals `1 / g'`;
    (c) `h` is differentiable at `d0` with derivative `1 / g'` — so the fluctuation propagated by
        `find_root` equals that of applying the inverse function directly — and
    (d) `deriv h d0 = -∂_d f / ∂_x f` literally.
    RESTATEMENT NOTE: the inverse relation is `g (h d) = d` for `d` near `d0 = g x0` (this is what
    `find_root` computes, and is the hypothesis of `HasDerivAt.of_local_left_inverse`); the variant
    "`h (g x) = x` near `x0`" is not sufficient when `g` is only differentiable at the single point
    `x0` (its image need not be a neighbourhood of `g x0`).  `g x0 = d0` is a consequence, not a
    hypothesis.  Only continuity of `h` at `d0` is assumed, not differentiability. -/
theorem c09_inverse_function (g h : ℝ → ℝ) (x0 d0 g' : ℝ)
    (hg : HasDerivAt g g' x0) (hg' : g' ≠ 0)
    (hh0 : h d0 = x0) (hcont : ContinuousAt h d0)
    (hinv : ∀ᶠ d in 𝓝 d0, g (h d) = d) :
    HasFDerivAt (fun p : ℝ × ℝ => g p.1 - p.2) (partialsCLM g' (-1)) (x0, d0)
      ∧ - (-1 : ℝ) / g' = 1 / g'
      ∧ HasDerivAt h (1 / g') d0
      ∧ deriv h d0 = - (-1 : ℝ) / g' := by
  have hF : HasFDerivAt (fun p : ℝ × ℝ => g p.1 - p.2) (partialsCLM g' (-1)) (x0, d0) := by
    have h1 : HasFDerivAt (fun p : ℝ × ℝ => g p.1)
        ((ContinuousLinearMap.smulRight (1 : ℝ →L[ℝ] ℝ) g').comp (ContinuousLinearMap.fst ℝ ℝ ℝ))
        (x0, d0) :=
      HasFDerivAt.comp (x0, d0) (hg.hasFDerivAt (x := ((x0, d0) : ℝ × ℝ).1)) hasFDerivAt_fst
    have h3 := h1.sub (hasFDerivAt_snd (𝕜 := ℝ) (p := (x0, d0)))
    refine h3.congr_fderiv (ContinuousLinearMap.ext fun v => ?_)
    simp [partialsCLM]
    ring
  have hD : HasDerivAt h (1 / g') d0 := by
    have := HasDerivAt.of_local_left_inverse (f := g) (g := h) (f' := g') (a := d0) hcont
      (by simpa [hh0] using hg) hg' hinv
    simpa [one_div] using this
  refine ⟨hF, by simp, hD, ?_⟩
  rw [hD.deriv]; simp

/-- Non-vacuity of `c09_inverse_function`: `g x = 2 * x + 1`, `h d = (d - 1) / 2`, at `x0 = 1`,
    `d0 = 3`, `g' = 2`. -/
example : HasDerivAt (fun d : ℝ => (d - 1) / 2) (1 / 2) 3 := by
  refine (c09_inverse_function (fun x => 2 * x + 1) (fun d => (d - 1) / 2) 1 3 2 ?_ (by norm_num)
    (by norm_num) (by fun_prop) ?_).2.2.1
  · simpa using ((hasDerivAt_id (1 : ℝ)).const_mul 2).add_const 1
  · exact Eventually.of_forall fun d => by ring

/-! ### 3. Fundamental theorem of calculus at the limits -/

/-- C09 (FTC, upper limit).  If `f` is interval-integrable on `a..b` and continuous at every point
    of a neighbourhood of the upper limit `b`, then `u ↦ ∫ x in a..u, f x` has derivative `f b`
    at `b`.  Backs the code fact that `quad` uses `+integrand(b)` as the gradient with respect to
    an observable upper limit.  (For `f` continuous on all of ℝ see
    `c09_ftc_upper_of_continuous`.) -/
theorem c09_ftc_upper (f : ℝ → ℝ) (a b : ℝ) (hint : IntervalIntegrable f volume a b)
    (hcont : ∀ᶠ x in 𝓝 b, ContinuousAt f x) :
    HasDerivAt (fun u => ∫ x in a..u, f x) (f b) b := by
  obtain ⟨s, hs, hso, hbs⟩ := eventually_nhds_iff.mp hcont
  exact integral_hasDerivAt_right hint
    (ContinuousAt.stronglyMeasurableAtFilter hso hs b hbs) (hs b hbs)

/-- C09 (FTC, lower limit).  If `f` is interval-integrable on `a..b` and continuous at every point
    of a neighbourhood of the lower limit `a`, then `u ↦ ∫ x in u..b, f x` has derivative `- f a`
    at `a`.  Backs the code fact that `quad` uses `-integrand(a)` as the gradient with respect to
    an observable lower limit. -/
theorem c09_ftc_lower (f : ℝ → ℝ) (a b : ℝ) (hint : IntervalIntegrable f volume a b)
    (hcont : ∀ᶠ x in 𝓝 a, ContinuousAt f x) :
    HasDerivAt (fun u => ∫ x in u..b, f x) (- f a) a := by
  obtain ⟨s, hs, hso, has⟩ := eventually_nhds_iff.mp hcont
  exact integral_hasDerivAt_left hint
    (ContinuousAt.stronglyMeasurableAtFilter hso hs a has) (hs a has)

/-- C09 (FTC, upper limit, globally continuous integrand): `d/db ∫_a^b f = f b`. -/
theorem c09_ftc_upper_of_continuous (f : ℝ → ℝ) (hf : Continuous f) (a b : ℝ) :
    HasDerivAt (fun u => ∫ x in a..u, f x) (f b) b :=
  c09_ftc_upper f a b (hf.intervalIntegrable a b) (Eventually.of_forall fun _ => hf.continuousAt)

/-- C09 (FTC, lower limit, globally continuous integrand): `d/da ∫_a^b f = - f a`. -/
theorem c09_ftc_lower_of_continuous (f : ℝ → ℝ) (hf : Continuous f) (a b : ℝ) :
    HasDerivAt (fun u => ∫ x in u..b, f x) (- f a) a :=
  c09_ftc_lower f a b (hf.intervalIntegrable a b) (Eventually.of_forall fun _ => hf.continuousAt)

/-- Non-vacuity of `c09_ftc_upper` / `c09_ftc_lower`: the integrand `x ↦ x * exp x` on `1..2`. -/
example :
    HasDerivAt (fun u => ∫ x in (1 : ℝ)..u, x * Real.exp x) (2 * Real.exp 2) 2 ∧
    HasDerivAt (fun u => ∫ x in u..(2 : ℝ), x * Real.exp x) (- (1 * Real.exp 1)) 1 := by
  have hc : Continuous fun x : ℝ => x * Real.exp x := by fun_prop
  exact ⟨c09_ftc_upper _ 1 2 (hc.intervalIntegrable 1 2)
      (Eventually.of_forall fun _ => hc.continuousAt),
    c09_ftc_lower _ 1 2 (hc.intervalIntegrable 1 2)
      (Eventually.of_forall fun _ => hc.continuousAt)⟩

/-! ### 4. Differentiation under the integral sign for the two check families -/

/-- C09 (parameter derivative, polynomial family `f(p, x) = p * x ^ n`).  For all real `a b p` and
    `n : ℕ`:
    (i)   `∫_a^b p x^n dx = p (b^(n+1) - a^(n+1)) / (n+1)`;
    (ii)  the integral, as a function of `p`, has derivative `(b^(n+1) - a^(n+1)) / (n+1)`;
    (iii) that derivative equals `∫_a^b ∂_p f(p, x) dx` (with `∂_p f` written as a `deriv`), and
          `∂_p f (p, x) = x ^ n`.
    Backs the code fact that `quad` obtains the gradient with respect to an observable parameter
    by integrating the parameter-derivative of the integrand.  No hypotheses. -/
theorem c09_param_poly (n : ℕ) (a b p : ℝ) :
    (∫ x in a..b, p * x ^ n) = p * (b ^ (n + 1) - a ^ (n + 1)) / (n + 1)
    ∧ HasDerivAt (fun q : ℝ => ∫ x in a..b, q * x ^ n) ((b ^ (n + 1) - a ^ (n + 1)) / (n + 1)) p
    ∧ (∀ x : ℝ, deriv (fun q : ℝ => q * x ^ n) p = x ^ n)
    ∧ (∫ x in a..b, deriv (fun q : ℝ => q * x ^ n) p) = (b ^ (n + 1) - a ^ (n + 1)) / (n + 1) := by
  have hI : ∀ q : ℝ, (∫ x in a..b, q * x ^ n) = q * ((b ^ (n + 1) - a ^ (n + 1)) / (n + 1)) := by
    intro q
    rw [intervalIntegral.integral_const_mul, integral_pow]
  have hd : ∀ x : ℝ, deriv (fun q : ℝ => q * x ^ n) p = x ^ n := by
    intro x
    have : HasDerivAt (fun q : ℝ => q * x ^ n) (1 * x ^ n) p := (hasDerivAt_id p).mul_const (x ^ n)
    rw [this.deriv, one_mul]
  refine ⟨by rw [hI]; ring, ?_, hd, ?_⟩
  · have hfun : (fun q : ℝ => ∫ x in a..b, q * x ^ n)
        = fun q : ℝ => q * ((b ^ (n + 1) - a ^ (n + 1)) / (n + 1)) := funext hI
    rw [hfun]
    simpa using (hasDerivAt_id p).mul_const ((b ^ (n + 1) - a ^ (n + 1)) / ((n : ℝ) + 1))
  · simp_rw [hd]
    exact integral_pow n

/-- C09 (parameter derivative, exponential family `f(p, x) = exp (p * x)`), for `p ≠ 0`
    (hypothesis needed because the closed form divides by `p`):
    (i)   `∫_a^b exp(p x) dx = (exp(p b) - exp(p a)) / p`;
    (ii)  `∫_a^b x exp(p x) dx = (b/p - 1/p²) exp(p b) - (a/p - 1/p²) exp(p a)`;
    (iii) `∂_p f(p, x) = x exp(p x)`;
    (iv)  the integral, as a function of `p`, is differentiable at `p` with derivative
          `∫_a^b ∂_p f(p, x) dx`.
    Backs the code fact that `quad` obtains the gradient with respect to an observable parameter
    by integrating the parameter-derivative of the integrand. -/
theorem c09_param_exp (a b p : ℝ) (hp : p ≠ 0) :
    (∫ x in a..b, Real.exp (p * x)) = (Real.exp (p * b) - Real.exp (p * a)) / p
    ∧ (∫ x in a..b, x * Real.exp (p * x))
        = (b / p - 1 / p ^ 2) * Real.exp (p * b) - (a / p - 1 / p ^ 2) * Real.exp (p * a)
    ∧ (∀ x : ℝ, deriv (fun q : ℝ => Real.exp (q * x)) p = x * Real.exp (p * x))
    ∧ HasDerivAt (fun q : ℝ => ∫ x in a..b, Real.exp (q * x))
        (∫ x in a..b, deriv (fun q : ℝ => Real.exp (q * x)) p) p := by
  have hd : ∀ x : ℝ, deriv (fun q : ℝ => Real.exp (q * x)) p = x * Real.exp (p * x) := by
    intro x
    have h1 : HasDerivAt (fun q : ℝ => q * x) x p := by
      simpa using (hasDerivAt_id p).mul_const x
    have := h1.exp
    rw [this.deriv]; ring
  refine ⟨integral_exp_mul_real hp a b, integral_x_exp_mul_real hp a b, hd, ?_⟩
  simp_rw [hd]
  rw [integral_x_exp_mul_real hp a b]
  -- derivative of the closed form `q ↦ (exp (q b) - exp (q a)) / q`
  have hcl : HasDerivAt (fun q : ℝ => (Real.exp (q * b) - Real.exp (q * a)) / q)
      (((Real.exp (p * b) * b - Real.exp (p * a) * a) * p
        - (Real.exp (p * b) - Real.exp (p * a)) * 1) / p ^ 2) p := by
    have hb : HasDerivAt (fun q : ℝ => Real.exp (q * b)) (Real.exp (p * b) * b) p := by
      have h1 : HasDerivAt (fun q : ℝ => q * b) b p := by
        simpa using (hasDerivAt_id p).mul_const b
      exact h1.exp
    have ha : HasDerivAt (fun q : ℝ => Real.exp (q * a)) (Real.exp (p * a) * a) p := by
      have h1 : HasDerivAt (fun q : ℝ => q * a) a p := by
        simpa using (hasDerivAt_id p).mul_const a
      exact h1.exp
    exact (hb.sub ha).div (hasDerivAt_id p) hp
  have hev : (fun q : ℝ => ∫ x in a..b, Real.exp (q * x))
      =ᶠ[𝓝 p] fun q : ℝ => (Real.exp (q * b) - Real.exp (q * a)) / q := by
    filter_upwards [isOpen_ne.mem_nhds hp] with q hq
    exact integral_exp_mul_real hq a b
  refine (hcl.congr_of_eventuallyEq hev).congr_deriv ?_
  field_simp
  ring

/-- Non-vacuity of `c09_param_exp`: `p = 2` on `0..1`. -/
example : (∫ x in (0 : ℝ)..1, Real.exp (2 * x)) = (Real.exp (2 * 1) - Real.exp (2 * 0)) / 2 :=
  (c09_param_exp 0 1 2 (by norm_num)).1

/-! ### 5. Gradient ordering -/

/-- C09 (gradient order).  Bookkeeping for `quad`: the observables are passed as `pobs ++ bobs`
    (parameters first, then the at most two observable limits) and the gradient is assembled as
    `pgrad ++ bgrad` (parameter derivatives first, then the signed integrand at the limits).  If
    `pgrad` has one entry per parameter observable and `bgrad` one entry per limit observable then
    the two concatenations have the same length, zipping them pairs parameter observables with
    parameter derivatives and limit observables with limit derivatives, and entrywise: the `i`-th
    gradient is `pgrad[i]` for `i < k` and `bgrad[j]` for `i = k + j`, exactly as for the
    observables.  The bound `bobs.length ≤ 2` is a fact about the code, carried for fidelity; it
    is not needed for the conclusion. -/
theorem c09_gradient_order {α β : Type*} (pobs bobs : List α) (pgrad bgrad : List β)
    (hp : pgrad.length = pobs.length) (hb : bgrad.length = bobs.length)
    (_hb2 : bobs.length ≤ 2) :
    (pgrad ++ bgrad).length = (pobs ++ bobs).length
    ∧ List.zip (pobs ++ bobs) (pgrad ++ bgrad) = List.zip pobs pgrad ++ List.zip bobs bgrad
    ∧ (∀ i, i < pobs.length →
        (pobs ++ bobs)[i]? = pobs[i]? ∧ (pgrad ++ bgrad)[i]? = pgrad[i]?)
    ∧ (∀ j, (pobs ++ bobs)[pobs.length + j]? = bobs[j]?
        ∧ (pgrad ++ bgrad)[pobs.length + j]? = bgrad[j]?) := by
  refine ⟨by simp [hp, hb], List.zip_append hp.symm, ?_, ?_⟩
  · intro i hi
    exact ⟨List.getElem?_append_left hi, List.getElem?_append_left (hp ▸ hi)⟩
  · intro j
    refine ⟨?_, ?_⟩
    · rw [List.getElem?_append_right (Nat.le_add_right _ _), Nat.add_sub_cancel_left]
    · rw [← hp, List.getElem?_append_right (Nat.le_add_right _ _), Nat.add_sub_cancel_left]

/-- C09 (gradient order, the concrete limit bookkeeping of `quad`).  The limits `a`, `b` are each
    either an observable (`some o`) or a plain number (`none`); `bobs` collects the observable
    ones in the order lower, upper, and the matching gradients are `-f(a)` and `+f(b)`.  Then
    `bobs` has at most two entries, the gradient list has one entry per observable, and zipping
    `pobs ++ bobs` with `pgrad ++ bgrad` pairs each observable with its own derivative. -/
theorem c09_gradient_order_limits {α : Type*} (pobs : List α) (pgrad : List ℝ)
    (hp : pgrad.length = pobs.length) (la lb : Option α) (fa fb : ℝ) :
    let bobs := la.toList ++ lb.toList
    let bgrad := (la.map fun _ => -fa).toList ++ (lb.map fun _ => fb).toList
    bobs.length ≤ 2 ∧ bgrad.length = bobs.length
    ∧ (pgrad ++ bgrad).length = (pobs ++ bobs).length
    ∧ List.zip (pobs ++ bobs) (pgrad ++ bgrad)
        = List.zip pobs pgrad
          ++ ((la.map fun o => (o, -fa)).toList ++ (lb.map fun o => (o, fb)).toList) := by
  cases la <;> cases lb <;> simp [hp, List.zip_append hp.symm]

/-- Non-vacuity of `c09_gradient_order`: two parameters and both limits observable. -/
example :
    List.zip (["p0", "p1"] ++ ["a", "b"]) (([1, 2] : List ℤ) ++ [-3, 4])
      = [("p0", 1), ("p1", 2)] ++ [("a", -3), ("b", 4)] :=
  (c09_gradient_order ["p0", "p1"] ["a", "b"] ([1, 2] : List ℤ) [-3, 4] rfl rfl (by simp)).2.1

end PV
