/-
  PV.Driver — dispatch of the line protocol onto the executable models and predicates.
  Request: {"op": <name>, "mode": "F" | "Q", ...}; reply: {"ok": ...} or {"err": <text>}.
-/
import PV.Wire
import PV.Model.Gamma
import PV.Spec.Wolff
import PV.Model.History
import PV.Model.Ops
import PV.Model.Corr
import PV.Model.Format
import PV.Spec.WF
import PV.Model.Combine
import PV.Model.Bytes
import PV.Model.Resample
import PV.Gen.Schema
import PV.Model.JsonRep
import PV.Model.Dobs
import PV.Model.Cov
import PV.Model.Gevp
import PV.Model.Names
import PV.Model.Gls
import PV.Model.Tree
import PV.Model.Text
import PV.Model.JsonDoc
import PV.Model.Pobs
import PV.Model.FlowWindow
import PV.Model.Einsum

open Lean PV PV.Wire

namespace PV.Driver

def encEns {α} [Codec α] (r : EnsResult α) : Json :=
  obj [("ens", enc r.ens), ("tauint", enc r.tauint), ("dtauint", enc r.dtauint),
       ("dvalue", enc r.dvalue), ("ddvalue", enc r.ddvalue), ("windowsize", enc r.windowsize),
       ("rho", enc r.rho), ("drho", enc r.drho), ("n_tauint", enc r.nTauint),
       ("n_dtauint", enc r.nDtauint), ("margin", enc r.margin)]

def lookupS {α} (tbl : List (String × α)) (d : α) (e : String) : α :=
  match tbl.find? (·.1 == e) with | some p => p.2 | none => d

def decPairs {α} [Codec α] (j : Json) : Except String (List (String × α)) := do
  let l : List Json ← dec j
  l.mapM (fun p => match p with
    | .arr #[a, b] => do pure ((← dec a : String), (← dec b : α))
    | _ => .error "pair expected")

/-- op "gamma" / "wolff": {"obs": Obs, "S": [[ens, x]..], "tau_exp": [...], "N_sigma": [...]} at Float;
    "gamma" runs the model of the code, "wolff" the specification -/
def opGamma (spec : Bool) (j : Json) : Except String Json := do
  let o : Obs Float ← get j "obs"
  let S ← decPairs (α := Float) (← field j "S")
  let te ← decPairs (α := Float) (← field j "tau_exp")
  let ns ← decPairs (α := Float) (← field j "N_sigma")
  let p : GmParams Float := { S := lookupS S 2.0, tauExp := lookupS te 0.0, nSigma := lookupS ns 1.0 }
  match (if spec then Spec.gammaMethod fpFloat o p else gammaMethod fpFloat o p) with
  | .error e => pure (obj [("exc", .str (reprStr e))])
  | .ok r => pure (obj [("dvalue", enc r.dvalue), ("ddvalue", enc r.ddvalue),
                        ("ens", .arr (r.ens.map encEns).toArray),
                        ("cov", .arr (r.covErr.map (fun c => Json.arr #[enc c.1, enc c.2])).toArray)])

def decKw (s : String) : Except String Kw :=
  match s with
  | "S" => .ok .S | "tau_exp" => .ok .tauExp | "N_sigma" => .ok .nSigma
  | _ => .error s!"unknown parameter {s}"

def decHOp (j : Json) : Except String (HOp Float) := do
  let k : String ← get j "k"
  match k with
  | "setglobal" => pure (.setGlobal (← decKw (← get j "name")) (← get j "val"))
  | "setdict" => pure (.setDict (← decKw (← get j "name")) (← get j "ens") (← get j "val"))
  | "deldict" => pure (.delDict (← decKw (← get j "name")) (← get j "ens"))
  | "gm" => do
    let kw ← decPairs (α := Float) (← field j "kw")
    let kw' ← kw.mapM (fun p => do pure ((← decKw p.1), p.2))
    pure (.gm (← get j "i") kw')
  | _ => pure .arith

/-- op "gm_history": {"ens": [[ensemble names of object i]..], "ops": [...]}: runs the state
    machine with `analyse := the effective parameters themselves` and returns, per `gm` step,
    the parameters the model resolves (or "exc") -/
def opHistory (j : Json) : Except String Json := do
  let enss : List (List String) ← get j "ens"
  let opsJ : List Json ← get j "ops"
  let ops ← opsJ.mapM decHOp
  let ensOf : Nat → List String := fun i => enss.getD i []
  let g0 : Globals Float := Globals.default 2.0 0.0 1.0
  -- replay step by step so that the parameters of every gm call are reported
  let mut g := g0
  let mut out : Array Json := #[]
  for op in ops do
    match op with
    | .gm i kw =>
      match effective g kw (ensOf i) with
      | .error _ => out := out.push (.str "exc")
      | .ok p => out := out.push (.arr (p.map (fun (e, s, t, n) => Json.arr #[enc e, enc s, enc t, enc n])).toArray)
    | _ => pure ()
    g := globalsAfter g [op]
  pure (.arr out)

partial def decTree (j : Json) : Except String (T Float) :=
  match j.getObjVal? "leaf" with
  | .ok l => do pure (.leaf (← dec l))
  | .error _ => match j.getObjVal? "num" with
    | .ok x => do pure (.const (← dec x))
    | .error _ => match j.getObjVal? "un" with
      | .ok f => do pure (.un (← dec f) (← decTree (← field j "a")))
      | .error _ => match j.getObjVal? "bin" with
        | .ok f => do pure (.bin (← dec f) (← decTree (← field j "a")) (← decTree (← field j "b")))
        | .error _ => .error "tree expected"

/-- op "expr_tree": {"leaves": [Obs], "tree": T} -> {"obs": Obs} | {"num": x} | {"exc": text} -/
def opExprTree (j : Json) : Except String Json := do
  let leaves : List (Obs Float) ← get j "leaves"
  let t ← decTree (← field j "tree")
  match t.eval leaves with
  | .ok (.obs o) => pure (obj [("obs", enc o)])
  | .ok (.num x) => pure (obj [("num", enc x)])
  | .error e => pure (obj [("exc", .str (reprStr e))])

def decCorr (j : Json) : Except String (Corr Float) := do
  let n : Nat ← get j "N"
  let c : List (Option (List (List Float))) ← get j "content"
  pure { content := c, N := n }

def encCorr (c : Corr Float) : Json :=
  obj [("N", enc c.N), ("content", enc c.content),
       ("prange", match c.prange with | some (a, b) => Json.arr #[enc a, enc b] | none => .null)]

def corrResult (r : Except Corr.CErr (Corr Float)) : Json :=
  match r with
  | .ok c => obj [("corr", encCorr c)]
  | .error e => obj [("exc", .str (reprStr e))]

def unaryFn (f : String) : Option (Float → Float) :=
  match f with
  | "sin" => some Float.sin | "cos" => some Float.cos | "tan" => some Float.tan
  | "sinh" => some Float.sinh | "cosh" => some Float.cosh | "tanh" => some Float.tanh
  | "arcsin" => some Float.asin | "arccos" => some Float.acos | "arctan" => some Float.atan
  | "arcsinh" => some Float.asinh | "arccosh" => some Float.acosh | "arctanh" => some Float.atanh
  | _ => none

/-- op "derived": {"data": [Obs], "value": x, "grad": [x]} -> {"obs": Obs} | {"exc": text}: the model of
    `derived_observable(..., man_grad=grad)` for a function whose central value is `value` (roots, integrals,
    fits, matrix functions: every caller that supplies its own gradient). -/
def opDerived (j : Json) : Except String Json := do
  let data : List (Obs Float) ← get j "data"
  let grad : List Float ← get j "grad"
  let v : Float ← get j "value"
  match derivedObs (fun _ => v) grad data covEqExact with
  | .ok o => pure (obj [("obs", enc o)])
  | .error e => pure (obj [("exc", .str (reprStr e))])

/-- op "corr": {"method": m, "a": Corr, ...} on central values -/
def opCorr (j : Json) : Except String Json := do
  let m : String ← get j "method"
  let a ← decCorr (← field j "a")
  let prA : Option (Nat × Nat) := match j.getObjVal? "prange" with
    | .ok (.arr #[x, y]) => match jNat x, jNat y with | .ok p, .ok q => some (p, q) | _, _ => none
    | _ => none
  let a := { a with prange := prA }
  let num : Except String Float := get j "y"
  let b : Except String (Corr Float) := do decCorr (← field j "b")
  match m with
  | "add_corr" => pure (corrResult (Corr.add a (← b)))
  | "sub_corr" => pure (corrResult (Corr.add a ((← b).mapCells (fun x => -1.0 * x))))
  | "mul_corr" => pure (corrResult (Corr.mul a (← b)))
  | "div_corr" => pure (corrResult (Corr.div a (← b)))
  | "add_num" => do let y ← num; pure (corrResult (.ok (a.mapCells (· + y))))
  | "sub_num" => do let y ← num; pure (corrResult (.ok (a.mapCells (· + (-y)))))
  | "rsub_num" => do let y ← num; pure (corrResult (.ok (a.mapCells (fun x => -1.0 * x + y))))
  | "mul_num" => do let y ← num; pure (corrResult (.ok (a.mapCells (· * y))))
  | "div_num" => do
      let y ← num
      if y == 0 then pure (corrResult (.error .divZero)) else pure (corrResult (.ok (a.mapCells (· / y))))
  | "rdiv_num" => do
      let y ← num
      if y == 0 then pure (corrResult (.error .divZero)) else pure (corrResult (.ok (a.mapCells (fun x => Float.pow (x / y) (-1)))))
  | "pow_num" => do let y ← num; pure (corrResult (Corr.applyFunc (fun x => Float.pow x y) a))
  | "neg" => pure (corrResult (.ok (a.mapCells (fun x => -1.0 * x))))
  | "abs" => pure (corrResult (.ok (a.mapCells Float.abs)))
  | "sqrt" => pure (corrResult (Corr.applyFunc (fun x => Float.pow x 0.5) a))
  | "log" => pure (corrResult (Corr.applyFunc Float.log a))
  | "exp" => pure (corrResult (.ok (a.mapCells Float.exp)))
  | "ctor_matrix" => do
      let rows : List Json ← get j "cs"
      let cs ← rows.mapM (fun r => do
        let l : List Json ← dec r
        l.mapM decCorr)
      pure (corrResult (Corr.ofMatrix cs))
  | "roll" => do let dt : Int ← get j "dt"; pure (corrResult (.ok (a.roll dt)))
  | "reverse" => pure (corrResult (.ok a.reverse))
  | "thin" => do pure (corrResult (.ok (a.thin (← get j "spacing") (← get j "offset"))))
  | "symmetric" => pure (corrResult (Corr.symmetrize 1.0 0.5 a))
  | "anti_symmetric" => pure (corrResult (Corr.symmetrize (-1.0) 0.5 a))
  | "item" => do pure (corrResult (a.item (← get j "i") (← get j "j")))
  | "trace" => pure (corrResult a.trace)
  | "hankel" => do pure (corrResult (a.hankel (← get j "n") (← get j "periodic")))
  | "deriv" => do pure (corrResult (a.deriv (← get j "variant")))
  | "second_deriv" => do pure (corrResult (a.secondDeriv (← get j "variant")))
  | "m_eff" => do pure (corrResult (a.mEff (← get j "variant") (fun _ r => r)))
  | "plateau_avg" => do
      match a.plateauAvg (← get j "lo") (← get j "hi") with
      | .ok x => pure (obj [("num", enc x)])
      | .error e => pure (obj [("exc", .str (reprStr e))])
  | f => match unaryFn f with
    | some g => pure (corrResult (Corr.applyFunc g a))
    | none => .error s!"unknown corr method {f}"

/-- op "fmt": {"v": [num,den], "d": [num,den], "sig": n, "fexp": e, "flag": ""|"+"|" "} ->
    {"str": printed, "val": [num,den], "err": [num,den]} (the read-back values) -/
def opFmt (j : Json) : Except String Json := do
  let v : Rat ← get j "v"
  let d : Rat ← get j "d"
  let sig : Nat ← get j "sig"
  let fexp : Int ← get j "fexp"
  let flag : String ← get j "flag"
  let x := Fmt.formatUncertainty v d sig fexp
  let rb := Fmt.readBack x
  pure (obj [("str", .str (Fmt.withFlag flag x.render)), ("val", enc rb.1), ("err", enc rb.2),
             ("rd", enc (Fmt.roundDouble d))])

/-- op "wf": {"obs": Obs} -> {"wf": bool, "diag": text} -/
def opWf (j : Json) : Except String Json := do
  let o : Obs Float ← get j "obs"
  pure (obj [("wf", .bool (Spec.wfC04 o)), ("diag", .str (Spec.wfDiag o))])

/-- op "mkobs": {"samples": [[x]], "names": [s], "idl": null | [Idl]} -> {"obs": Obs} | {"exc": e} -/
def opMkObs (j : Json) : Except String Json := do
  let samples : List (List Float) ← get j "samples"
  let names : List String ← get j "names"
  let idl : Option (List Idl) ← get j "idl"
  match mkObs samples names idl with
  | .ok o => pure (obj [("obs", enc o), ("wf", .bool (Spec.wfC04 o))])
  | .error e => pure (obj [("exc", .str (reprStr e))])

/-- op "combine": {"what": "reweight" | "correlate" | "merge", "a": Obs, "b": Obs, "l": [Obs], "all_configs": bool} -/
def opCombine (j : Json) : Except String Json := do
  let what : String ← get j "what"
  let r : Except CombErr (Obs Float) ← match what with
    | "reweight" => do pure (reweight1 (← get j "a") (← get j "b") (← get j "all_configs"))
    | "correlate" => do pure (correlate (← get j "a") (← get j "b"))
    | "merge" => do pure (mergeObs (← get j "l"))
    | _ => .error "unknown combine"
  match r with
  | .ok o => pure (obj [("obs", enc o)])
  | .error e => pure (obj [("exc", .str (reprStr e))])

def hexVal (c : Char) : Nat :=
  if c.isDigit then c.toNat - '0'.toNat else if 'a' ≤ c && c ≤ 'f' then c.toNat - 'a'.toNat + 10 else 0

def unhex (s : String) : List UInt8 :=
  let rec go : List Char → List UInt8
    | a :: b :: r => UInt8.ofNat (hexVal a * 16 + hexVal b) :: go r
    | _ => []
  go s.toList

/-- op "readfile": {"hex": bytes, "H": header size, "P": payload size, "chunked": bool} ->
    {"cfgs": [...]} | {"exc": text};  op "renumber": {"cfgs", "thermal"};  op "select": {...} -/
def opReadFile (j : Json) : Except String Json := do
  let file := unhex (← get j "hex")
  let H : Nat ← get j "H"
  let P : Nat ← get j "P"
  let chunked : Bool ← get j "chunked"
  match Bytes.readFile H (fun _ => some P) chunked file with
  | .ok (_, rs) => pure (obj [("cfgs", enc (rs.map (·.cfg)))])
  | .error e => pure (obj [("exc", .str (reprStr e))])

def opRenumber (j : Json) : Except String Json := do
  let cfgs : List Int ← get j "cfgs"
  let thermal : Bool ← get j "thermal"
  let rstart : Option Int ← get j "r_start"
  let rstop : Option Int ← get j "r_stop"
  let rstep : Nat ← get j "r_step"
  match Bytes.renumber cfgs thermal with
  | none => pure (obj [("exc", .str "renumber")])
  | some cl =>
    match Bytes.select cl cl rstart rstop rstep with
    | none => pure (obj [("exc", .str "select")])
    | some (sel, _) => pure (obj [("configlist", enc cl), ("selected", enc sel)])

/-- op "resample" (exact rationals): {"what": "jack" | "unjack" | "boot", "value": q, "x": [q], "table": [[k]]} -/
def opResample (j : Json) : Except String Json := do
  let what : String ← get j "what"
  match what with
  | "jack" => do
    let v : Rat ← get j "value"
    let x : List Rat ← get j "x"
    pure (obj [("out", enc (exportJack v x))])
  | "unjack" => do
    let x : List Rat ← get j "x"
    let r := importJack x
    pure (obj [("value", enc r.1), ("out", enc r.2)])
  | "boot" => do
    let v : Rat ← get j "value"
    let x : List Rat ← get j "x"
    let t : List (List Nat) ← get j "table"
    match j.getObjVal? "samples" with
    | .ok sj => do
      let smp : Nat ← dec sj
      match exportBootChecked smp v x t with
      | some out => pure (obj [("out", enc out)])
      | none => pure (obj [("exc", Json.str "shape")])
    | .error _ => pure (obj [("out", enc (exportBoot v x t))])
  | _ => .error "unknown resample"

/-- op "schema": {"doc": json} -> {"valid": bool, "where": text} against the regenerated schema -/
def opSchema (j : Json) : Except String Json := do
  let doc ← field j "doc"
  match validate Gen.Schema.defs Gen.Schema.root doc with
  | none => pure (obj [("valid", .bool true), ("where", .str "")])
  | some w => pure (obj [("valid", .bool false), ("where", .str w)])

/-- op "jsonrep" (exact rationals): encode one replica block and decode it again -/
def opJsonRep (j : Json) : Except String Json := do
  let idl : List Int ← get j "idl"
  let deltas : List (List Rat) ← get j "deltas"
  let rvals : List Rat ← get j "rvals"
  let vals : List Rat ← get j "vals"
  let rows := encodeRep idl deltas rvals vals
  let (i2, d2, r2) := decodeRep rows vals
  pure (obj [("rows", enc (rows.map (fun r => r.2))), ("idl", enc i2), ("deltas", enc d2), ("rvals", enc r2)])

/-- op "dobs": {"idl": [c], "nums": [written numbers], "merged": [c] (default idl), "value": x (default 0)}
    -> {"kept": configurations that survive the import, "samples": their restored samples} -/
def opDobs (j : Json) : Except String Json := do
  let idl : List Int ← get j "idl"
  let nums : List Float ← get j "nums"
  let merged : List Int ← match j.getObjVal? "merged" with
    | .ok m => dec m
    | .error _ => pure idl
  let value : Float ← match j.getObjVal? "value" with
    | .ok v => dec v
    | .error _ => pure 0.0
  let col := dobsColumn merged idl nums
  let r := dobsImport merged col value
  pure (obj [("kept", enc (r.map (·.1))), ("samples", enc (r.map (·.2)))])

/-- op "cov": {"obs": [Obs], "dv": [x], "correlation": bool} -> {"m": [[x]]} -/
def opCov (j : Json) : Except String Json := do
  let obs : List (Obs Float) ← get j "obs"
  let dv : List Float ← get j "dv"
  let corr : Bool ← get j "correlation"
  pure (obj [("m", enc (covarianceMatrix obs dv corr))])

/-- op "gevp":
    what = "gevp":   the control flow of Corr.GEVP with LAPACK's ascending eigenvectors as oracle input
    what = "sort":   _sort_vectors
    what = "pencil": the Hankel slicing of the matrix-pencil method -/
def opGevp (j : Json) : Except String Json := do
  let what : String ← get j "what"
  let gerr (e : GErr) : Json := obj [("exc", .str (reprStr e))]
  match what with
  | "gevp" => do
    let sortJ ← field j "sort"
    let sort : SortMode := match sortJ with
      | .null => .none
      | .str "Eigenvalue" => .eigenvalue
      | .str "Eigenvector" => .eigenvector
      | _ => .unknown
    let method : String ← get j "method"
    let cholInv : Option (List (List Float)) ← get j "cholinv"
    let g : GevpIn Float := {
      N := ← get j "N", T := ← get j "T", t0 := ← get j "t0", ts := ← get j "ts", sort := sort,
      cholesky := method == "cholesky", defined := ← get j "defined", pd := ← get j "pd",
      cholInv := cholInv.getD [], asc := ← get j "asc" }
    match gevp g with
    | .error e => pure (gerr e)
    | .ok (.single vs) => pure (obj [("vecs", enc vs)])
    | .ok (.perT vs) => pure (obj [("vecs", enc vs)])
  | "sort" => do
    let vecs : List (Option (List (List Float))) ← get j "vecs"
    let ts : Nat ← get j "ts"
    match sortVectors vecs ts with
    | .error e => pure (gerr e)
    | .ok r => pure (obj [("vecs", enc r)])
  | "pencil" => do
    let y : List Float ← get j "y"
    let p : Nat ← get j "p"
    let (y1, y2) := pencil y p
    pure (obj [("y1", enc y1), ("y2", enc y2)])
  | "projected" => do
    let content : List (Option (List (List Float))) ← get j "content"
    match (← field j "vecs") with
    | .null => do
      let v : List Float ← get j "v"
      pure (obj [("vals", enc (projectedFixed content v))])
    | vj => do
      let vs : List (Option (List Float)) ← dec vj
      pure (obj [("vals", enc (projectedList content vs))])
  | _ => .error s!"unknown gevp request {what}"

/-- op "sortnames": {"names": [str]} -> {"names": [...]} | {"exc": ...};
    op "select": {"cl": [int], "r_start", "r_stop", "r_step"} -> {"selected": [...]} | {"exc": "select"} -/
def opSortNames (j : Json) : Except String Json := do
  let names : List String ← get j "names"
  match Names.sortNames names with
  | .ok r => pure (obj [("names", enc r)])
  | .error e => pure (obj [("exc", .str (reprStr e))])

def opSelect (j : Json) : Except String Json := do
  let cl : List Int ← get j "cl"
  let rstart : Option Int ← get j "r_start"
  let rstop : Option Int ← get j "r_stop"
  let rstep : Nat ← get j "r_step"
  match Bytes.select cl (List.range cl.length) rstart rstop rstep with
  | none => pure (obj [("exc", .str "select")])
  | some (sel, pos) => pure (obj [("selected", enc sel), ("positions", enc pos)])

/-- op "gls" (exact rationals): {"A": [[q]], "W": [[q]], "y": [q]} -> {"p": [q], "S": [[q]], "chisq": q} | {"exc": "singular"} -/
def opGls (j : Json) : Except String Json := do
  let A : List (List Rat) ← get j "A"
  let W : List (List Rat) ← get j "W"
  let y : List Rat ← get j "y"
  match Gls.gls A W y with
  | none => pure (obj [("exc", .str "singular")])
  | some (p, S) => pure (obj [("p", enc p), ("S", enc S), ("chisq", enc (Gls.chisq A W y p))])

/-- op "ift" (exact rationals): {"H": [[q]], "M": [[q]]} -> {"X": [[q]]} with H X + M = 0 | {"exc": "singular"} -/
def opIft (j : Json) : Except String Json := do
  let H : List (List Rat) ← get j "H"
  let M : List (List Rat) ← get j "M"
  match Gls.iftSens H M with
  | none => pure (obj [("exc", .str "singular")])
  | some X => pure (obj [("X", enc X)])

/-- wire form of the trees of PV.Model.Tree: {"t":"leaf","k":"obs|corr|arr","id":n} | {"t":"str","s":..} |
    {"t":"atom","j":..} | {"t":"list","l":[..]} | {"t":"dict","kv":[[key, tree], ..]} (pairs: key order matters) -/
partial def decDTree (j : Json) : Except String Tree.T := do
  let t : String ← get j "t"
  match t with
  | "leaf" => do
    let k : String ← get j "k"
    let kind ← match k with
      | "obs" => pure Tree.Kind.obs | "corr" => pure Tree.Kind.corr | "arr" => pure Tree.Kind.arr
      | _ => throw s!"bad kind {k}"
    pure (Tree.T.leaf kind (← get j "id"))
  | "str" => do pure (Tree.T.str (← get j "s"))
  | "atom" => do pure (Tree.T.atom (← get j "j"))
  | "list" => do
    let l : List Json ← get j "l"
    pure (Tree.T.list (← l.mapM decDTree))
  | "dict" => do
    let kv : List Json ← get j "kv"
    let kv' ← kv.mapM (fun p => match p with
      | .arr #[.str k, v] => do pure (k, ← decDTree v)
      | _ => throw "pair expected")
    pure (Tree.T.dict kv')
  | _ => throw s!"bad tree tag {t}"

def encKind : Tree.Kind → Json
  | .obs => .str "obs" | .corr => .str "corr" | .arr => .str "arr"

partial def encDTree : Tree.T → Json
  | .leaf k i => obj [("t", .str "leaf"), ("k", encKind k), ("id", enc i)]
  | .str s => obj [("t", .str "str"), ("s", .str s)]
  | .atom a => obj [("t", .str "atom"), ("j", .str a)]
  | .list l => obj [("t", .str "list"), ("l", .arr (l.map encDTree).toArray)]
  | .dict kv => obj [("t", .str "dict"), ("kv", .arr (kv.map (fun (k, v) => Json.arr #[.str k, encDTree v])).toArray)]

def encSlot : Tree.Slot → Json
  | .one k i => obj [("one", .arr #[encKind k, enc i])]
  | .many ids => obj [("many", enc ids)]

def decSlot (j : Json) : Except String Tree.Slot :=
  match j.getObjVal? "one" with
  | .ok (.arr #[.str k, i]) => do
    let kind ← match k with
      | "obs" => pure Tree.Kind.obs | "corr" => pure Tree.Kind.corr | "arr" => pure Tree.Kind.arr
      | _ => throw s!"bad kind {k}"
    pure (.one kind (← jNat i))
  | _ => match j.getObjVal? "many" with
    | .ok l => do pure (.many (← dec l))
    | _ => throw "slot expected"

def treeErr : Tree.Err → String
  | .notAlnum => "notAlnum" | .placeholderClash _ => "placeholderClash" | .valueError _ => "valueError"
  | .indexError _ => "indexError" | .noPlaceholder => "noPlaceholder"

/-- op "tree": {"what": "export", "reps", "d": dict-tree} -> {"nd": tree, "ol": [slot]} | {"exc": kind};
               {"what": "import", "reps", "ol": [slot], "d": dict-tree} -> {"d": tree} | {"exc": kind} -/
def opTree (j : Json) : Except String Json := do
  let what : String ← get j "what"
  let reps : String ← get j "reps"
  let d ← match ← decDTree (← field j "d") with
    | Tree.T.dict kv => pure kv
    | _ => throw "dict expected at the root"
  match what with
  | "export" =>
    match Tree.exportDict reps d with
    | .ok (nd, ol) => pure (obj [("nd", encDTree (Tree.T.dict nd)), ("ol", .arr (ol.map encSlot).toArray)])
    | .error e => pure (obj [("exc", .str (treeErr e))])
  | "import" => do
    let olj : List Json ← get j "ol"
    let ol ← olj.mapM decSlot
    match Tree.importDict reps ol d with
    | .ok d' => pure (obj [("d", encDTree (Tree.T.dict d'))])
    | .error e => pure (obj [("exc", .str (treeErr e))])
  | _ => throw s!"unknown tree request {what}"

/-- op "textblock": {"text": str, "start": n, "T": n} -> {"lines": [str]} | {"exc": "eof"}: `readlines()` and the block
    test of the sfcf separate / appended layouts -/
def opTextBlock (j : Json) : Except String Json := do
  let text : String ← get j "text"
  let start : Nat ← get j "start"
  let T : Nat ← get j "T"
  let lines := Text.readlines text.toList
  match Text.readBlock lines start T with
  | none => pure (obj [("exc", .str "eof"), ("nlines", enc lines.length)])
  | some blk => pure (obj [("lines", enc (blk.map String.ofList)), ("nlines", enc lines.length)])

/-- wire form of `JsonDoc.SDoc Float` -/
def encSDoc (d : JsonDoc.SDoc Float) : Json :=
  obj [("value", enc d.value),
       ("data", .arr (d.data.map (fun e => obj [("id", .str e.id),
          ("replica", .arr (e.replica.map (fun r => obj [("name", .str r.name),
             ("cfgs", enc (r.rows.map (·.1))), ("x", enc (r.rows.map (·.2)))])).toArray)])).toArray),
       ("cdata", .arr (d.cdata.map (fun c => obj [("id", .str c.id), ("shape", enc c.shape), ("cov", enc c.cov),
          ("grad", enc c.grad)])).toArray),
       ("reweighted", .bool d.reweighted)]

def decSDoc (j : Json) : Except String (JsonDoc.SDoc Float) := do
  let value : List Float ← get j "value"
  let dataJ : List Json ← get j "data"
  let data ← dataJ.mapM (fun e => do
    let id : String ← get e "id"
    let repJ : List Json ← get e "replica"
    let replica ← repJ.mapM (fun r => do
      let name : String ← get r "name"
      let cfgs : List Int ← get r "cfgs"
      let x : List (List Float) ← get r "x"
      pure ({ name := name, rows := List.zip cfgs x } : JsonDoc.RepDoc Float))
    pure ({ id := id, replica := replica } : JsonDoc.EnsDoc Float))
  let cdataJ : List Json ← get j "cdata"
  let cdata ← cdataJ.mapM (fun c => do
    pure ({ id := ← get c "id", shape := ← get c "shape", cov := ← get c "cov", grad := ← get c "grad" } : JsonDoc.CovDoc Float))
  pure { value := value, data := data, cdata := cdata, reweighted := ← get j "reweighted" }

/-- op "jsondoc": {"what": "write", "obs": [Obs]} -> {"doc": SDoc};
                  {"what": "read", "doc": SDoc, "k": n} -> {"obs": [Obs]} | {"exc": kind} -/
def opJsonDoc (j : Json) : Except String Json := do
  let what : String ← get j "what"
  match what with
  | "write" => do
    let ol : List (Obs Float) ← get j "obs"
    pure (obj [("doc", encSDoc (JsonDoc.toDoc ol))])
  | "read" => do
    let d ← decSDoc (← field j "doc")
    let k : Nat ← get j "k"
    match JsonDoc.fromDoc d k with
    | .ok ol => pure (obj [("obs", enc ol)])
    | .error e => pure (obj [("exc", .str (reprStr e))])
  | _ => throw s!"unknown jsondoc request {what}"

/-- op "pobs": {"obs": [Obs], "k": n | null} ->
      {"blocks": [{"id", "nc", "na", "cfg": [c], "num": [[x]]}] (tokens of every block, row by row),
       "obs": [Obs] (what the reader makes of the blocks)} | {"exc": kind} (writer) | {"blocks", "rexc": kind} -/
def opPobs (j : Json) : Except String Json := do
  let ol : List (Obs Float) ← get j "obs"
  let k : Option Nat ← match j.getObjVal? "k" with
    | .ok .null => pure none
    | .ok v => do pure (some (← jNat v))
    | .error _ => pure none
  match Pobs.write ol with
  | .error e => pure (obj [("exc", .str (reprStr e))])
  | .ok bs =>
    let bj := Json.arr (bs.map (fun b => obj [("id", .str b.id), ("nc", enc b.nc), ("na", enc b.na),
      ("cfg", enc (b.toks.filterMap Pobs.asCfg)), ("num", enc (b.toks.filterMap Pobs.asNum)),
      ("kinds", .str (String.ofList (b.toks.map (fun t => match t with | .cfg _ => 'c' | .num _ => 'n'))))])).toArray
    match Pobs.read k bs with
    | .ok got => pure (obj [("blocks", bj), ("obs", enc got)])
    | .error e => pure (obj [("blocks", bj), ("rexc", .str (reprStr e))])

/-- op "cobsstr": {"re": printed real part, "im": printed imaginary part} -> {"str", "fmt"} -/
def opCobsStr (j : Json) : Except String Json := do
  let re : String ← get j "re"
  let im : String ← get j "im"
  pure (obj [("str", .str (Fmt.cobsStr re im)), ("fmt", .str (Fmt.cobsFormat re im))])

/-- op "assemblefiles": {"names": [chain name derived from each file, in the order the files are handed over], "tags": [n]}
    -> {"pairs": [[name, tag]]} - the chains of the observable, sorted by name, each with the tag of the file it came from -/
def opAssembleFiles (j : Json) : Except String Json := do
  let names : List String ← get j "names"
  let tags : List Nat ← get j "tags"
  let r := Names.assembleByFile id (List.zip names tags)
  pure (obj [("pairs", Json.arr (r.map (fun p => Json.arr #[.str p.1, enc p.2])).toArray)])

/-- op "flowwindow": {"n": number of flow times, "mask": [value > 0], "fr": fit_range} -> {"idx": indices of the flow times
    handed to the straight-line fit} | {"exc": "no-crossing"} -/
def opFlowWindow (j : Json) : Except String Json := do
  let n : Nat ← get j "n"
  let mask : List Bool ← get j "mask"
  let fr : Nat ← get j "fr"
  match Flow.fitWindow (List.range n) mask fr with
  | none => pure (obj [("exc", .str "no-crossing")])
  | some w => pure (obj [("idx", enc w)])

/-- op "fitlinear" (exact rationals): {"blocks": [{"key", "rows": [[q]], "y": [q], "dy": [q]}] (in the order handed over),
    "npar": n, "priors": [[index, value, width]]} -> {"p", "S", "chisq", "order": keys as stacked} | {"exc": "singular"} -/
def opFitLinear (j : Json) : Except String Json := do
  let bj : List Json ← get j "blocks"
  let blocks ← bj.mapM (fun b => do
    pure ({ key := ← get b "key", rows := ← get b "rows", y := ← get b "y", dy := ← get b "dy" } : Gls.Block))
  let npar : Nat ← get j "npar"
  let pj : List Json ← get j "priors"
  let priors ← pj.mapM (fun p => match p with
    | .arr #[i, v, w] => do pure ((← jNat i), ((← (dec v : Except String Rat)), (← (dec w : Except String Rat))))
    | _ => throw "prior [index, value, width] expected")
  match Gls.fitLinear blocks npar priors with
  | none => pure (obj [("exc", .str "singular")])
  | some (p, S, c) => pure (obj [("p", enc p), ("S", enc S), ("chisq", enc c), ("order", enc ((Gls.sortBlocks blocks).map (·.key)))])

def dispatch (op : String) (j : Json) : Except String Json :=
  match op with
  | "gamma" => opGamma false j
  | "wolff" => opGamma true j
  | "gm_history" => opHistory j
  | "expr_tree" => opExprTree j
  | "corr" => opCorr j
  | "fmt" => opFmt j
  | "wf" => opWf j
  | "combine" => opCombine j
  | "derived" => opDerived j
  | "readfile" => opReadFile j
  | "resample" => opResample j
  | "einsum_out" => do
      let sub : String ← get j "subs"
      pure (obj [("subs", Json.str (Einsum.complete sub))])
  | "schema" => opSchema j
  | "dobs" => opDobs j
  | "cov" => opCov j
  | "gevp" => opGevp j
  | "gls" => opGls j
  | "ift" => opIft j
  | "fitlinear" => opFitLinear j
  | "tree" => opTree j
  | "textblock" => opTextBlock j
  | "jsondoc" => opJsonDoc j
  | "pobs" => opPobs j
  | "flowwindow" => opFlowWindow j
  | "assemblefiles" => opAssembleFiles j
  | "cobsstr" => opCobsStr j
  | "sortnames" => opSortNames j
  | "select" => opSelect j
  | "jsonrep" => opJsonRep j
  | "renumber" => opRenumber j
  | "mkobs" => opMkObs j
  | "ping" => pure (.str "pong")
  | _ => .error s!"unknown op {op}"

partial def loop (hin : IO.FS.Stream) (hout : IO.FS.Stream) : IO Unit := do
  let line ← hin.getLine
  if line.isEmpty then return ()
  let reply : Json :=
    match Json.parse line with
    | .error e => obj [("err", .str s!"parse: {e}")]
    | .ok j =>
      match j.getObjValAs? String "op" with
      | .error e => obj [("err", .str e)]
      | .ok op =>
        match dispatch op j with
        | .ok r => obj [("ok", r)]
        | .error e => obj [("err", .str e)]
  hout.putStrLn reply.compress
  hout.flush
  loop hin hout

def main : IO Unit := do
  loop (← IO.getStdin) (← IO.getStdout)

end PV.Driver
