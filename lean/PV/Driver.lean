/-
  PV.Driver — dispatch of the line protocol onto the executable models and predicates.
  Request: {"op": <name>, "mode": "F" | "Q", ...}; reply: {"ok": ...} or {"err": <text>}.
-/
import PV.Wire
import PV.Model.Gamma
import PV.Spec.Wolff
import PV.Model.History
import PV.Model.Ops

open Lean PV PV.Wire

namespace PV.Driver

def encEns {α} [Codec α] (r : EnsResult α) : Json :=
  obj [("ens", enc r.ens), ("tauint", enc r.tauint), ("dtauint", enc r.dtauint),
       ("dvalue", enc r.dvalue), ("ddvalue", enc r.ddvalue), ("windowsize", enc r.windowsize),
       ("rho", enc r.rho), ("drho", enc r.drho), ("n_tauint", enc r.nTauint),
       ("n_dtauint", enc r.nDtauint), ("margin", enc r.margin)]

def lookupS {α} (tbl : List (String × α)) (d : α) (e : String) : α :=
  match tbl.find? (·.1 == e) with | some p => p.2 | none => d

def decPairs {α} [Codec α] (j : Json) : Except String (List (String × α)) := do
  let l : List Json ← dec j
  l.mapM (fun p => match p with
    | .arr #[a, b] => do pure ((← dec a : String), (← dec b : α))
    | _ => .error "pair expected")

/-- op "gamma" / "wolff": {"obs": Obs, "S": [[ens, x]..], "tau_exp": [...], "N_sigma": [...]} at Float;
    "gamma" runs the model of the code, "wolff" the specification -/
def opGamma (spec : Bool) (j : Json) : Except String Json := do
  let o : Obs Float ← get j "obs"
  let S ← decPairs (α := Float) (← field j "S")
  let te ← decPairs (α := Float) (← field j "tau_exp")
  let ns ← decPairs (α := Float) (← field j "N_sigma")
  let p : GmParams Float := { S := lookupS S 2.0, tauExp := lookupS te 0.0, nSigma := lookupS ns 1.0 }
  match (if spec then Spec.gammaMethod fpFloat o p else gammaMethod fpFloat o p) with
  | .error e => pure (obj [("exc", .str (reprStr e))])
  | .ok r => pure (obj [("dvalue", enc r.dvalue), ("ddvalue", enc r.ddvalue),
                        ("ens", .arr (r.ens.map encEns).toArray),
                        ("cov", .arr (r.covErr.map (fun c => Json.arr #[enc c.1, enc c.2])).toArray)])

def decKw (s : String) : Except String Kw :=
  match s with
  | "S" => .ok .S | "tau_exp" => .ok .tauExp | "N_sigma" => .ok .nSigma
  | _ => .error s!"unknown parameter {s}"

def decHOp (j : Json) : Except String (HOp Float) := do
  let k : String ← get j "k"
  match k with
  | "setglobal" => pure (.setGlobal (← decKw (← get j "name")) (← get j "val"))
  | "setdict" => pure (.setDict (← decKw (← get j "name")) (← get j "ens") (← get j "val"))
  | "deldict" => pure (.delDict (← decKw (← get j "name")) (← get j "ens"))
  | "gm" => do
    let kw ← decPairs (α := Float) (← field j "kw")
    let kw' ← kw.mapM (fun p => do pure ((← decKw p.1), p.2))
    pure (.gm (← get j "i") kw')
  | _ => pure .arith

/-- op "gm_history": {"ens": [[ensemble names of object i]..], "ops": [...]}: runs the state
    machine with `analyse := the effective parameters themselves` and returns, per `gm` step,
    the parameters the model resolves (or "exc") -/
def opHistory (j : Json) : Except String Json := do
  let enss : List (List String) ← get j "ens"
  let opsJ : List Json ← get j "ops"
  let ops ← opsJ.mapM decHOp
  let ensOf : Nat → List String := fun i => enss.getD i []
  let g0 : Globals Float := Globals.default 2.0 0.0 1.0
  -- replay step by step so that the parameters of every gm call are reported
  let mut g := g0
  let mut out : Array Json := #[]
  for op in ops do
    match op with
    | .gm i kw =>
      match effective g kw (ensOf i) with
      | .error _ => out := out.push (.str "exc")
      | .ok p => out := out.push (.arr (p.map (fun (e, s, t, n) => Json.arr #[enc e, enc s, enc t, enc n])).toArray)
    | _ => pure ()
    g := globalsAfter g [op]
  pure (.arr out)

partial def decTree (j : Json) : Except String (T Float) :=
  match j.getObjVal? "leaf" with
  | .ok l => do pure (.leaf (← dec l))
  | .error _ => match j.getObjVal? "num" with
    | .ok x => do pure (.const (← dec x))
    | .error _ => match j.getObjVal? "un" with
      | .ok f => do pure (.un (← dec f) (← decTree (← field j "a")))
      | .error _ => match j.getObjVal? "bin" with
        | .ok f => do pure (.bin (← dec f) (← decTree (← field j "a")) (← decTree (← field j "b")))
        | .error _ => .error "tree expected"

/-- op "expr_tree": {"leaves": [Obs], "tree": T} -> {"obs": Obs} | {"num": x} | {"exc": text} -/
def opExprTree (j : Json) : Except String Json := do
  let leaves : List (Obs Float) ← get j "leaves"
  let t ← decTree (← field j "tree")
  match t.eval leaves with
  | .ok (.obs o) => pure (obj [("obs", enc o)])
  | .ok (.num x) => pure (obj [("num", enc x)])
  | .error e => pure (obj [("exc", .str (reprStr e))])

def dispatch (op : String) (j : Json) : Except String Json :=
  match op with
  | "gamma" => opGamma false j
  | "wolff" => opGamma true j
  | "gm_history" => opHistory j
  | "expr_tree" => opExprTree j
  | "ping" => pure (.str "pong")
  | _ => .error s!"unknown op {op}"

partial def loop (hin : IO.FS.Stream) (hout : IO.FS.Stream) : IO Unit := do
  let line ← hin.getLine
  if line.isEmpty then return ()
  let reply : Json :=
    match Json.parse line with
    | .error e => obj [("err", .str s!"parse: {e}")]
    | .ok j =>
      match j.getObjValAs? String "op" with
      | .error e => obj [("err", .str e)]
      | .ok op =>
        match dispatch op j with
        | .ok r => obj [("ok", r)]
        | .error e => obj [("err", .str e)]
  hout.putStrLn reply.compress
  hout.flush
  loop hin hout

def main : IO Unit := do
  loop (← IO.getStdin) (← IO.getStdout)

end PV.Driver
