/-
  PV.Scalar — lawless scalar classes.

  Every executable model in `PV/Model` is polymorphic in a type `α` with the
  operations below and *no laws*.  The same definitions are

  * run at `Float` (IEEE double, the arithmetic numpy uses) and at `Rat`
    (exact) by the line-protocol driver `Main.lean`;
  * proved about at `ℝ` (or any linearly ordered field) in `PV/Proofs`, where a
    `Scalar` instance is built from the Mathlib structure.

  No imports: this file and everything under `PV/Model`, `PV/Spec` stays
  Mathlib-free.
-/

class Scalar (α : Type) extends Add α, Sub α, Mul α, Div α, Neg α, LT α, LE α where
  ofInt : Int → α
  decLt : DecidableRel (α := α) (· < ·)
  decLe : DecidableRel (α := α) (· ≤ ·)
  /-- the test `x == 0.0` of the code -/
  isZero : α → Bool
  /-- `np.isnan(x)`; false for exact number types -/
  isNaN : α → Bool

-- the parent projections and the literal instance get low priority: at a concrete type that
-- already has its own arithmetic (Float, Rat, ℝ) elaboration prefers the native instances;
-- for the abstract `α` of the models they are the only ones available
attribute [instance low] Scalar.toAdd Scalar.toSub Scalar.toMul Scalar.toDiv Scalar.toNeg
  Scalar.toLT Scalar.toLE

namespace Scalar
variable {α : Type} [Scalar α]

instance : DecidableRel (α := α) (· < ·) := Scalar.decLt
instance : DecidableRel (α := α) (· ≤ ·) := Scalar.decLe

/-- numeric literal (kept as a plain, non-reducible definition so that unification never
    confuses it with Mathlib's numeral instances) -/
def lit (n : Nat) : α := Scalar.ofInt (Int.ofNat n)

instance (priority := 5) instOfNatScalar (n : Nat) : OfNat α n := ⟨lit n⟩

instance : Inhabited α := ⟨Scalar.ofInt 0⟩

/-- `np.sum` (order of summation is irrelevant in exact arithmetic) -/
def sum (l : List α) : α := l.foldr (· + ·) 0

/-- `a.dot(b)`; stops at the shorter list like `zip` -/
def dot : List α → List α → α
  | x :: xs, y :: ys => x * y + dot xs ys
  | _, _ => 0

def absS (x : α) : α := if x < 0 then -x else x

def maxS (x y : α) : α := if x < y then y else x

def ofNatS (n : Nat) : α := Scalar.ofInt (Int.ofNat n)

end Scalar

/-- transcendental operations, needed by the gamma method;
    run at `Float`, proved about at `ℝ`. -/
class Transc (α : Type) extends Scalar α where
  sqrt : α → α
  log : α → α
  exp : α → α

/-! ### executable instances -/

instance : Scalar Float where
  ofInt := Float.ofInt
  decLt := fun a b => Float.decLt a b
  decLe := fun a b => Float.decLe a b
  isZero := fun a => a == 0.0
  isNaN := fun a => a.isNaN

instance : Transc Float where
  sqrt := Float.sqrt
  log := Float.log
  exp := Float.exp

instance : Scalar Rat where
  ofInt := fun i => (i : Rat)
  decLt := fun a b => inferInstanceAs (Decidable (a < b))
  decLe := fun a b => inferInstanceAs (Decidable (a ≤ b))
  isZero := fun a => a == 0
  isNaN := fun _ => false

/-- the elementary functions overloaded on observables -/
class Elem (α : Type) extends Transc α where
  sin : α → α
  cos : α → α
  tan : α → α
  sinh : α → α
  cosh : α → α
  tanh : α → α
  arcsin : α → α
  arccos : α → α
  arctan : α → α
  arcsinh : α → α
  arccosh : α → α
  arctanh : α → α
  /-- `x ** y` for real `x > 0` (or integer-valued `y`) -/
  pow : α → α → α

instance : Elem Float where
  sin := Float.sin
  cos := Float.cos
  tan := Float.tan
  sinh := Float.sinh
  cosh := Float.cosh
  tanh := Float.tanh
  arcsin := Float.asin
  arccos := Float.acos
  arctan := Float.atan
  arcsinh := Float.asinh
  arccosh := Float.acosh
  arctanh := Float.atanh
  pow := Float.pow
