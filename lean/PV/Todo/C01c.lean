/-
  TODO (proof task F): the fluctuations of the result of `derived_observable` are aligned by
  configuration number.  Statement is fixed; replace `sorry` by a proof.  Helper lemmas may go
  into PV/Proofs/C01cLemmas.lean.
-/
import Mathlib.Algebra.BigOperators.Group.List.Basic
import Mathlib.Tactic.Ring
import Mathlib.Tactic.Linarith
import Mathlib.Tactic.FieldSimp
import PV.Proofs.RealScalar
import PV.Spec.Propagate

namespace PV
open Scalar

/-- C01 (fluctuations): on every configuration `c` of the union of chain `n`, the fluctuation of
    the result is Σ_j (∂f/∂x_j) · w_j(n) · δ_j(n, c), where δ_j(n, c) is input j's fluctuation on
    *that configuration number* of *that chain* (zero if j was not measured there) and
    w_j(n) = (union size / own size) · (ensemble size / size of the replicas j has).
    The right-hand side never mentions array positions. -/
theorem c01_delta (f : List ℝ → ℝ) (g : List ℝ) (xs : List (Obs ℝ))
    (covEq : List (List ℝ) → List (List ℝ) → Bool) (o : Obs ℝ)
    (hwf : ∀ x ∈ xs, x.WF = true) (hlen : g.length = xs.length)
    (h : derivedObs f g xs covEq = .ok o) :
    ∀ n ∈ newSampleNames xs, ∀ c ∈ Spec.unionCfgs xs n,
      o.delta? n c = some (Spec.delta g xs n c) := by
  sorry

end PV
