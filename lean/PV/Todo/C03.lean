/-
  TODO (proof task C): invariances of the Gamma-method model and the call-history theorem.
  Statements are fixed; replace every `sorry` by a proof.  Helper lemmas may be added above or
  in PV/Proofs/C03Lemmas.lean.
-/
import PV.Proofs.RealScalar
import PV.Model.Relabel
import PV.Model.History

namespace PV
open Scalar

section generic
variable {α : Type} [Transc α]

/-- C03 (relabelling): multiplying all configuration numbers of an ensemble by `a ≥ 1` and
    shifting them by `b` leaves every output of the analysis of that ensemble unchanged —
    tau_int, its error, the error, the error of the error, the window, ρ, δρ.  Holds for every
    scalar type (the integer bookkeeping is literally identical). -/
theorem c03_affine (fp : FpConsts α) (ens : String) (reps : List (Rep α)) (S te ns : α)
    (a b : Int) (ha : 1 ≤ a) :
    gammaEnsemble fp ens (reps.map (Rep.affine a b)) S te ns = gammaEnsemble fp ens reps S te ns := by
  sorry

/-- C03 (renaming): the per-ensemble analysis never looks at replica names -/
theorem c03_rename (fp : FpConsts α) (ens : String) (reps : List (Rep α)) (S te ns : α)
    (f : String → String) :
    gammaEnsemble fp ens (reps.map (Rep.rename f)) S te ns = gammaEnsemble fp ens reps S te ns := by
  sorry
end generic

section history
variable {α : Type} [Scalar α] {R : Type}

/-- analyses never change the defaults -/
theorem c03_globals (enss : Nat → List String) (analyse : Nat → List (String × α × α × α) → Option R)
    (w : World α R) (ops : List (HOp α)) :
    (run enss analyse w ops).g = globalsAfter w.g ops := by
  sorry

/-- C03 (history): after ANY sequence of operations (changes of the global and per-ensemble
    defaults, analyses of this and of other objects with any arguments, arithmetic) the stored
    analysis of object `i` is the one determined by its last analysis alone: the data of `i` and
    the parameters effective at that moment (argument over dictionary over global). -/
theorem c03_history (enss : Nat → List String) (analyse : Nat → List (String × α × α × α) → Option R)
    (w : World α R) (ops : List (HOp α)) (i : Nat) (hi : i < w.res.length) :
    (run enss analyse w ops).res.getD i none
      = lastResult enss analyse w.g (w.res.getD i none) i ops := by
  sorry

/-- C03 (precedence): explicit argument over per-ensemble dictionary over global default;
    a negative explicit argument is rejected -/
theorem c03_precedence (g : Globals α) (kw : List (Kw × α)) (k : Kw) (e : String) :
    effective1 g kw k e =
      (match kw.find? (·.1 == k) with
       | some (_, v) => if v < 0 then .error .negativeParam else .ok v
       | none => .ok ((dictGet? (g.dict k) e).getD (g.glob k))) := by
  sorry
end history

section real
/-- the clamp and the bias factor keep tau_int above 1/2 and all errors non-negative:
    whenever the analysis of an ensemble succeeds (over ℝ, with positive eps, half = 1/2,
    at least two configurations) -/
theorem c03_tau_ge_half (fp : FpConsts ℝ) (ens : String) (reps : List (Rep ℝ)) (S te ns : ℝ)
    (r : EnsResult ℝ) (hfp : fp.half = 1 / 2 ∧ 0 < fp.eps)
    (hN : 2 ≤ (reps.map (·.idl.len)).foldr (· + ·) 0) (hte : 0 ≤ te)
    (h : gammaEnsemble fp ens reps S te ns = .ok r) :
    1 / 2 ≤ r.tauint ∧ 0 ≤ r.dtauint ∧ 0 ≤ r.dvalue ∧ 0 ≤ r.ddvalue := by
  sorry
end real

end PV
