/-
  TODO (proof task G): correlator arithmetic / index maps (C14) and derived quantities (C15).
  Statements are fixed; replace every `sorry` by a proof.  Helper lemmas may go into
  PV/Proofs/C14Lemmas.lean.  Everything is generic in the cell type β.
-/
import PV.Model.Corr

namespace PV
open Corr Scalar

variable {β : Type}

/-- slice-wise combination of two correlators -/
def zipSpec (f : β → β → β) (x y : Option (Mat β)) : Option (Mat β) :=
  match x, y with
  | some u, some v => some (matZip f u v)
  | _, _ => none

/-- C14 (Corr + Corr): same temporal extent and matrix dimension; slice t is undefined iff an
    operand is undefined there, else the element-wise sum of the operands' slices -/
theorem c14_add_pointwise [Add β] (a b c : Corr β) (h : Corr.add a b = .ok c) :
    c.T = a.T ∧ c.N = a.N ∧
    ∀ t, t < a.T → c.content.getD t none = zipSpec (· + ·) (a.content.getD t none) (b.content.getD t none) := by
  sorry

/-- C14 (Corr * Corr) -/
theorem c14_mul_pointwise [Mul β] (a b c : Corr β) (h : Corr.mul a b = .ok c) :
    c.T = a.T ∧ c.N = max a.N b.N ∧
    ∀ t, t < a.T → c.content.getD t none = zipSpec (· * ·) (a.content.getD t none) (b.content.getD t none) := by
  sorry

/-- C14 (Corr / Corr): as above, and additionally undefined where the quotient is not a number -/
theorem c14_div_pointwise [Scalar β] (a b c : Corr β) (h : Corr.div a b = .ok c) :
    c.T = a.T ∧
    ∀ t, t < a.T → c.content.getD t none =
      nanToNone (zipSpec (· / ·) (a.content.getD t none) (b.content.getD t none)) := by
  sorry

/-- C14 (functions): an elementary function acts on every entry of every defined slice; a slice
    whose result is not a number becomes undefined; the call fails only if nothing is defined -/
theorem c14_applyFunc [Scalar β] (f : β → β) (a c : Corr β) (h : Corr.applyFunc f a = .ok c) :
    c.T = a.T ∧ c.N = a.N ∧
    ∀ t, c.content.getD t none = nanToNone ((a.content.getD t none).map (·.map (·.map f))) := by
  sorry

theorem c14_applyFunc_fails_iff [Scalar β] (f : β → β) (a : Corr β) :
    (∃ e, Corr.applyFunc f a = .error e) ↔
      ∀ t, t < a.T → nanToNone ((a.content.getD t none).map (·.map (·.map f))) = none := by
  sorry

/-- C14 (roll): slice t of the rolled correlator is slice (t - dt) mod T, for EVERY integer shift
    (also |dt| > T) -/
theorem c14_roll (a : Corr β) (dt : Int) (t : Nat) (ht : t < a.T) :
    (a.roll dt).T = a.T ∧
    (a.roll dt).content.getD t none = a.content.getD (Int.toNat (Int.emod ((t : Int) - dt) (a.T : Int))) none := by
  sorry

/-- C14 (thin): keeps exactly the slices with (offset + t) ≡ 0 mod spacing -/
theorem c14_thin (a : Corr β) (spacing : Nat) (offset : Int) (t : Nat) (ht : t < a.T) :
    (a.thin spacing offset).T = a.T ∧
    (a.thin spacing offset).content.getD t none =
      (if Py.fmod (offset + t) spacing != 0 then none else a.content.getD t none) := by
  sorry

/-- C14 (symmetric / anti_symmetric): slice 0 is kept; slice t ≥ 1 is ½(C(t) ± C(T-t)), undefined
    when either is undefined -/
theorem c14_symmetrize [Scalar β] (sign half : β) (a c : Corr β) (h : Corr.symmetrize sign half a = .ok c) :
    c.T = a.T ∧ c.prange = a.prange ∧ c.content.getD 0 none = a.content.getD 0 none ∧
    ∀ t, 1 ≤ t → t < a.T → c.cell? t =
      (match a.cell? t, a.cell? (a.T - t) with
       | some x, some y => some (half * (x + sign * y))
       | _, _ => none) := by
  sorry

/-- C14 (Hankel, periodic): entry (i, j) of slice t is C((t + i + j) mod T) -/
theorem c14_hankel_periodic (a c : Corr β) (n : Nat) (h : a.hankel n true = .ok c) (t : Nat) (ht : t < a.T) :
    c.T = a.T ∧ c.N = n ∧
    c.content.getD t none =
      (List.range n).mapM (fun i => (List.range n).mapM (fun j => a.cell? ((t + i + j) % a.T))) := by
  sorry

/-- C14 (Hankel, not periodic): slices whose window leaves the lattice are undefined -/
theorem c14_hankel_open (a c : Corr β) (n : Nat) (hn : 0 < n) (h : a.hankel n false = .ok c) (t : Nat) (ht : t < a.T) :
    c.content.getD t none =
      (if t + 2 * (n - 1) ≥ a.T then none
       else (List.range n).mapM (fun i => (List.range n).mapM (fun j => a.cell? (t + i + j)))) := by
  sorry

/-! ### C15 -/

/-- the window builder behind every derivative / effective-mass variant: `padL` undefined slices,
    then `n` slices `f(lo), f(lo+1), ...`, then `padR` undefined slices -/
theorem c15_build_ok (T lo n padL padR : Nat) (f : Nat → Option β) (r : Corr β)
    (h : Corr.build T lo n padL padR f = .ok r) :
    r.T = padL + n + padR ∧ r.N = 1 ∧
    ∀ t, r.cell? t = (if padL ≤ t ∧ t < padL + n then f (lo + (t - padL)) else none) := by
  sorry

/-- C15 (never raises while something is defined): the builder fails exactly when every output
    slice is undefined -/
theorem c15_build_fails_iff (T lo n padL padR : Nat) (f : Nat → Option β) :
    (∃ e, Corr.build (β := β) T lo n padL padR f = .error e) ↔ ∀ k, k < n → f (lo + k) = none := by
  sorry

section formulas
variable [Elem β]

/-- C15 (symmetric derivative): ½(C(t+1) - C(t-1)) on 1 ≤ t ≤ T-2, undefined exactly when a
    referenced slice is undefined, and at t = 0, T-1 -/
theorem c15_deriv_symmetric (a r : Corr β) (hT : 2 ≤ a.T) (h : a.deriv "symmetric" = .ok r) :
    r.T = a.T ∧ ∀ t, t < a.T → r.cell? t =
      (if 1 ≤ t ∧ t + 1 < a.T then
        (match a.cell? (t - 1), a.cell? (t + 1) with
         | some m, some p => some ((1 / 2 : β) * (p - m))
         | _, _ => none)
       else none) := by
  sorry

/-- C15 (improved derivative): (C(t-2) - 8C(t-1) + 8C(t+1) - C(t+2))/12 on 2 ≤ t ≤ T-3 -/
theorem c15_deriv_improved (a r : Corr β) (hT : 4 ≤ a.T) (h : a.deriv "improved" = .ok r) :
    r.T = a.T ∧ ∀ t, t < a.T → r.cell? t =
      (if 2 ≤ t ∧ t + 2 < a.T then
        (match a.cell? (t - 2), a.cell? (t - 1), a.cell? (t + 1), a.cell? (t + 2) with
         | some m2, some m1, some p1, some p2 => some ((1 / 12 : β) * (m2 - 8 * m1 + 8 * p1 - p2))
         | _, _, _, _ => none)
       else none) := by
  sorry

/-- C15 (symmetric second derivative): C(t+1) - 2C(t) + C(t-1), undefined when ANY of the three
    slices is undefined (including the central one) -/
theorem c15_second_symmetric (a r : Corr β) (hT : 2 ≤ a.T) (h : a.secondDeriv "symmetric" = .ok r) :
    r.T = a.T ∧ ∀ t, t < a.T → r.cell? t =
      (if 1 ≤ t ∧ t + 1 < a.T then
        (match a.cell? (t - 1), a.cell? t, a.cell? (t + 1) with
         | some m, some x, some p => some (p - 2 * x + m)
         | _, _, _ => none)
       else none) := by
  sorry

/-- C15 (big symmetric second derivative): (C(t+2) - 2C(t) + C(t-2))/4 on 2 ≤ t ≤ T-3 -/
theorem c15_second_big_symmetric (a r : Corr β) (hT : 4 ≤ a.T) (h : a.secondDeriv "big_symmetric" = .ok r) :
    r.T = a.T ∧ ∀ t, t < a.T → r.cell? t =
      (if 2 ≤ t ∧ t + 2 < a.T then
        (match a.cell? (t - 2), a.cell? t, a.cell? (t + 2) with
         | some m, some x, some p => some ((p - 2 * x + m) / 4)
         | _, _, _ => none)
       else none) := by
  sorry

/-- C15 (plateau by average): the mean of the defined slices of the inclusive range -/
theorem c15_plateau_avg (a : Corr β) (lo hi : Nat) (x : β) (h : a.plateauAvg lo hi = .ok x) :
    let xs := (List.range (hi + 1 - lo)).filterMap (fun k => a.cell? (lo + k))
    xs ≠ [] ∧ x = Scalar.sum xs / ofNatS xs.length := by
  sorry
end formulas

end PV
