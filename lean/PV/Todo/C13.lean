/-
  TODO (proof task L): jackknife / bootstrap export and import are exact resampling transforms (C13).
  Statements are fixed; replace every `sorry` by a proof.  Helper lemmas may go into
  PV/Proofs/C13Lemmas.lean.  Model: PV/Model/Resample.lean at ℝ.
-/
import Mathlib.Algebra.BigOperators.Group.List.Basic
import Mathlib.Tactic.Ring
import Mathlib.Tactic.Linarith
import Mathlib.Tactic.FieldSimp
import PV.Proofs.RealScalar
import PV.Model.Resample

namespace PV
open Scalar

/-- C13 (leave-one-out): when the central value is the sample mean, entry i+1 of the exported
    jackknife samples is the mean of all samples except x_i, and entry 0 is the central value -/
theorem c13_jack_loo (x : List ℝ) (hn : 2 ≤ x.length) (i : Nat) (hi : i < x.length) :
    (exportJack (meanL x) x).getD 0 0 = meanL x ∧
    (exportJack (meanL x) x).getD (i + 1) 0 = (x.sum - x.getD i 0) / ((x.length : ℝ) - 1) := by
  sorry

/-- C13 (import inverts export): the samples reconstructed from the exported jackknife samples are
    the original ones, and the central value is restored -/
theorem c13_jack_inv (x : List ℝ) (hn : 2 ≤ x.length) :
    importJack (exportJack (meanL x) x) = (meanL x, x) := by
  sorry

/-- C13 (jackknife variance): (n−1)/n · Σ (j_i − j̄)² of the exported samples equals Σ δ²/(n(n−1)),
    the squared naive standard error of the mean -/
theorem c13_jack_var (x : List ℝ) (hn : 2 ≤ x.length) :
    let n : ℝ := x.length
    let js := (exportJack (meanL x) x).drop 1
    let jbar := js.sum / n
    (n - 1) / n * (js.map (fun j => (j - jbar) ^ 2)).sum
      = (x.map (fun xi => (xi - meanL x) ^ 2)).sum / (n * (n - 1)) := by
  sorry

/-- C13 (bootstrap export): entry b+1 is the mean over the resampled configurations of row b -/
theorem c13_boot_export (v : ℝ) (x : List ℝ) (table : List (List Nat)) (b : Nat) (hb : b < table.length) :
    (exportBoot v x table).getD 0 0 = v ∧
    (exportBoot v x table).getD (b + 1) 0
      = ((table.getD b []).map (fun k => x.getD k 0)).sum / (x.length : ℝ) := by
  sorry

/-- C13 (chain consistency): with the same resampling table the export is linear, so samples of a
    linear combination are the linear combination of the samples -/
theorem c13_boot_linear (v w a : ℝ) (x y : List ℝ) (hl : x.length = y.length) (table : List (List Nat)) :
    exportBoot (v + a * w) (List.zipWith (fun s t => s + a * t) x y) table
      = List.zipWith (fun s t => s + a * t) (exportBoot v x table) (exportBoot w y table) := by
  sorry

end PV
