/-
  TODO (proof task I): the constructor model establishes the C04 invariant, rejects the listed
  malformed requests, and propagation preserves the invariant.  Statements are fixed; replace every
  `sorry` by a proof.  Helper lemmas may go into PV/Proofs/C04Lemmas.lean.
-/
import Mathlib.Tactic.Ring
import Mathlib.Tactic.Linarith
import PV.Proofs.RealScalar
import PV.Spec.WF
import PV.Spec.Propagate

namespace PV
open Scalar

variable {α : Type} [Scalar α]

/-- C04 (constructor): whatever `Obs(samples, names, idl)` accepts satisfies the invariant:
    sorted unique chain names, strictly increasing configuration numbers, one fluctuation per
    configuration, range exactly when equally spaced (and then at least two configurations) -/
theorem c04_mk_wf (samples : List (List α)) (names : List String) (idl : Option (List Idl)) (o : Obs α)
    (h : mkObs samples names idl = .ok o) : Spec.wfC04 o = true := by
  sorry

/-- C04 (rejections) — each listed malformed request raises -/
theorem c04_reject_length (samples : List (List α)) (names : List String) (idl : Option (List Idl))
    (hbad : samples.length ≠ names.length) : ∃ e, mkObs samples names idl = .error e := by
  sorry

theorem c04_reject_duplicate_names (samples : List (List α)) (names : List String) (idl : Option (List Idl))
    (hlen : 1 < names.length) (hdup : ¬ names.Nodup) : ∃ e, mkObs samples names idl = .error e := by
  sorry

theorem c04_reject_too_few (samples : List (List α)) (names : List String) (idl : Option (List Idl))
    (hbad : ∃ s ∈ samples, s.length ≤ 4) : ∃ e, mkObs samples names idl = .error e := by
  sorry

theorem c04_reject_several_ensembles (samples : List (List α)) (names : List String) (idl : Option (List Idl))
    (hbad : ∃ a ∈ names, ∃ b ∈ names, Py.ensOf a ≠ Py.ensOf b) : ∃ e, mkObs samples names idl = .error e := by
  sorry

/-- a list of configuration numbers that is not strictly increasing (unsorted or duplicate
    entries), or a range with negative step, is rejected by the normalisation the constructor applies -/
theorem c04_reject_idl (l : List Int) (hbad : Idl.strictInc l = false) : ∃ e, Idl.normalise (.list l) = .error e := by
  sorry

theorem c04_reject_negative_range (s : Int) (n : Nat) (st : Int) (h : st < 0) :
    ∃ e, Idl.normalise (.range s n st) = .error e := by
  sorry

/-- accepted lists are stored in normal form: a range exactly when equally spaced -/
theorem c04_normalise_form (l : List Int) (i : Idl) (h : Idl.normalise (.list l) = .ok i) :
    i.toList = l ∧ Idl.strictInc l = true ∧ (i.isRange = true ↔ equallySpaced l = true) := by
  sorry

/-- C04 (propagation): if every input satisfies the invariant and has chains of at least two
    configurations, so does every result of `derived_observable` -/
theorem c04_derived_wf (f : List ℝ → ℝ) (g : List ℝ) (xs : List (Obs ℝ))
    (covEq : List (List ℝ) → List (List ℝ) → Bool) (o : Obs ℝ)
    (hwf : ∀ x ∈ xs, Spec.wfC04 x = true)
    (hlen2 : ∀ x ∈ xs, ∀ q ∈ x.reps, 2 ≤ q.idl.len)
    (hcov : ∀ x ∈ xs, ∀ c ∈ x.covs, ∀ x' ∈ xs, ∀ c' ∈ x'.covs, c.name = c'.name →
      c.grad.length = c'.grad.length ∧ c.cov = c'.cov)
    (h : derivedObs f g xs covEq = .ok o) :
    Spec.wfC04 o = true ∧ ∀ q ∈ o.reps, 2 ≤ q.idl.len := by
  sorry

end PV
