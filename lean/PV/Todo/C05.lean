/-
  TODO (proof task J): reweight / correlate / merge_obs pair samples by configuration number.
  Statements are fixed; replace every `sorry` by a proof.  Helper lemmas may go into
  PV/Proofs/C05Lemmas.lean.
-/
import Mathlib.Tactic.Ring
import Mathlib.Tactic.Linarith
import PV.Proofs.RealScalar
import PV.Model.Combine

namespace PV
open Scalar

/-- the per-configuration sample of chain `n` of `o` on configuration `c` (fluctuation + replica
    mean); `none` where not measured -/
def sampleAt {α : Type} [Scalar α] (o : Obs α) (n : String) (c : Int) : Option α := do
  let r ← o.rep? n
  let k ← r.idl.pos? c
  let d ← r.deltas[k]?
  pure (d + r.rvalue)

section generic
variable {α : Type} [Scalar α]

/-- C05 (selection by configuration number): `_reduce_deltas` returns, for every configuration of
    the new list, the entry that the old list holds *at that configuration number* -/
theorem c05_reduce_lookup (d : List α) (old new : Idl) (d' : List α)
    (hold : Idl.strictInc old.toList = true) (hnew : Idl.strictInc new.toList = true)
    (h : reduceDeltas d old new = some d') :
    d'.length = new.len ∧
    ∀ k, k < new.len → ∃ j, old.pos? (new.toList.getD k 0) = some j ∧ d'[k]? = d[j]? := by
  sorry

/-- C05 (rejection): a configuration of the new list that the old list lacks makes the selection fail -/
theorem c05_reduce_rejects (d : List α) (old new : Idl)
    (hold : Idl.strictInc old.toList = true) (hnew : Idl.strictInc new.toList = true)
    (hbad : ∃ c ∈ new.toList, c ∉ old.toList) : reduceDeltas d old new = none := by
  sorry
end generic

section elem
variable {α : Type} [Elem α]

/-- C05 (flag): a reweighted result carries the flag -/
theorem c05_reweight_flag (w o r : Obs α) (ac : Bool) (h : reweight1 w o ac = .ok r) : r.reweighted = true := by
  sorry

/-- C05 (rejection): an observable with a configuration the weight lacks is refused -/
theorem c05_reweight_rejects_missing_config (w o : Obs α) (ac : Bool) (r : Rep α) (wr : Rep α)
    (hr : r ∈ o.reps) (hw : w.rep? r.name = some wr) (hbad : ∃ c ∈ r.idl.toList, c ∉ wr.idl.toList) :
    ∃ e, reweight1 w o ac = .error e := by
  sorry

/-- C05 (correlate, rejections): different chains or different configuration lists raise -/
theorem c05_correlate_rejects_names (a b : Obs α) (h : a.names ≠ b.names) : ∃ e, correlate a b = .error e := by
  sorry

theorem c05_correlate_rejects_idl (a b : Obs α) (ra rb : Rep α) (hz : (ra, rb) ∈ List.zip a.reps b.reps)
    (hbad : ra.idl.toList ≠ rb.idl.toList) : ∃ e, correlate a b = .error e := by
  sorry

/-- C05 (merge, rejection): a replica that occurs twice raises -/
theorem c05_merge_rejects_duplicate (l : List (Obs α))
    (hdup : ¬ (l.flatMap (fun o => o.names ++ o.covNames)).Nodup) : ∃ e, mergeObs l = .error e := by
  sorry
end elem

section real
/-- C05 (correlate): on every configuration of every chain the sample of the result is the product
    of the two inputs' samples on that same configuration number -/
theorem c05_correlate_samples (a b o : Obs ℝ) (h : correlate a b = .ok o)
    (hwf : a.WF = true ∧ b.WF = true) :
    o.names = a.names ∧ o.reweighted = (a.reweighted || b.reweighted) ∧
    ∀ ra ∈ a.reps, ∀ c ∈ ra.idl.toList, ∃ x y,
      sampleAt a ra.name c = some x ∧ sampleAt b ra.name c = some y ∧ sampleAt o ra.name c = some (x * y) := by
  sorry

/-- C05 (merge): the chains of the result are the union of the inputs' chains, each with its
    configuration list and samples unchanged -/
theorem c05_merge_union (l : List (Obs ℝ)) (o : Obs ℝ) (h : mergeObs l = .ok o)
    (hwf : ∀ x ∈ l, x.WF = true) :
    (∀ x ∈ l, ∀ r ∈ x.reps, ∀ c ∈ r.idl.toList, ∃ s, sampleAt x r.name c = some s ∧ sampleAt o r.name c = some s) ∧
    (∀ n ∈ o.names, ∃ x ∈ l, n ∈ x.names) ∧ o.reweighted = l.any (·.reweighted) := by
  sorry
end real

end PV
