/-
  TODO (proof task H): arithmetic content of the value(error) notation (C19).
  Statements are fixed; replace every `sorry` by a proof.  Helper lemmas may go into
  PV/Proofs/C19Lemmas.lean.  The model is PV/Model/Format.lean (core `Rat`).
-/
import Mathlib.Tactic.Ring
import Mathlib.Tactic.Linarith
import Mathlib.Tactic.Positivity
import Mathlib.Algebra.Order.Floor.Defs
import Mathlib.Data.Rat.Floor
import PV.Model.Format

namespace PV
open PV.Fmt

/-- rounding to n decimals (ties to even) is within half a unit of the last digit -/
theorem c19_round_half_unit (q : Rat) (n : Nat) :
    |(roundDec q n).toRat - q| ≤ 1 / (2 * ((10 ^ n : Nat) : Rat)) := by
  sorry

/-- the rounded numeral keeps the sign and the number of decimals -/
theorem c19_roundDec_shape (q : Rat) (n : Nat) : (roundDec q n).n = n ∧ ((roundDec q n).neg = true ↔ q < 0) := by
  sorry

/-- rounding to the nearest double has relative error at most 2^-53 -/
theorem c19_roundDouble_rel (q : Rat) (hq : 0 < q) :
    |roundDouble q - q| ≤ q / ((2 ^ 53 : Nat) : Rat) := by
  sorry

/-- C19 (value): reading the printed value back recovers it within half a unit of the last
    printed digit — in all three branches, for every significance -/
theorem c19_roundtrip_value (v d : Rat) (sig : Nat) (fexp : Int) :
    let x := formatUncertainty v d sig fexp
    |(readBack x).1 - v| ≤ unit x / 2 := by
  sorry

/-- C19 (error, errors ≥ 1): value and error are printed with the same number of decimals and the
    error is read back within half a unit -/
theorem c19_roundtrip_error_ge1 (v d : Rat) (sig : Nat) (fexp : Int) (hf : 0 ≤ fexp) (hd : 0 ≤ d) :
    let x := formatUncertainty v d sig fexp
    x.err.n = x.val.n ∧ |(readBack x).2 - d| ≤ unit x / 2 := by
  sorry

/-- C19 (error, errors < 1): the error is printed as an integer number of units of the last
    printed digit of the value and read back within half a unit plus the rounding of the one
    floating-point product the code performs -/
theorem c19_roundtrip_error_lt1 (v d : Rat) (sig : Nat) (fexp : Int) (hf : fexp < 0) (hsig : 1 ≤ sig) (hd : 0 < d) :
    let x := formatUncertainty v d sig fexp
    x.err.n = 0 ∧ 0 < x.val.n ∧ |(readBack x).2 - d| ≤ unit x / 2 + d / ((2 ^ 53 : Nat) : Rat) := by
  sorry

/-- C19 (significant digits, 1 ≤ error < 10): the error shows `sig` digits (one more after a carry) -/
theorem c19_sig_digits_unit (v d : Rat) (sig : Nat) (hsig : 1 ≤ sig) (h1 : 1 ≤ d) (h2 : d < 10) :
    let x := formatUncertainty v d sig 0
    10 ^ (sig - 1) ≤ x.err.m ∧ x.err.m ≤ 10 ^ sig := by
  sorry

/-- C19 (significant digits, error < 1) in terms of the rounded product dd = fl(d · 10^k):
    if 10^(sig-1) ≤ dd < 10^sig then sig digits (one more after a carry) are shown -/
theorem c19_sig_digits_small (dd : Rat) (sig : Nat) (hsig : 1 ≤ sig)
    (h1 : ((10 ^ (sig - 1) : Nat) : Rat) ≤ dd) (h2 : dd < ((10 ^ sig : Nat) : Rat)) :
    10 ^ (sig - 1) ≤ (roundDec dd 0).m ∧ (roundDec dd 0).m ≤ 10 ^ sig := by
  sorry

end PV
