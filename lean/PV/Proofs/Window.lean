/-
  Helper lemmas for the window searches of the Gamma method (C02/C03).
  Everything here is combinatorial and holds for every `Scalar α` (no laws needed), in
  particular for ℝ and for IEEE doubles.
-/
import PV.Spec.Wolff

namespace PV
open Scalar

/-- "W is the first lag in [lo, hi) at which `p` holds, and `hi` if there is none" -/
def IsFirst (p : Nat → Prop) (lo hi W : Nat) : Prop :=
  lo ≤ W ∧ W ≤ hi ∧ (∀ m, lo ≤ m → m < W → ¬ p m) ∧ (W < hi → p W)

theorem IsFirst.unique {p : Nat → Prop} {lo hi W W' : Nat}
    (h : IsFirst p lo hi W) (h' : IsFirst p lo hi W') : W = W' := by
  obtain ⟨h1, h2, h3, h4⟩ := h
  obtain ⟨h1', h2', h3', h4'⟩ := h'
  rcases Nat.lt_trichotomy W W' with hlt | heq | hgt
  · exact absurd (h4 (by omega)) (h3' W h1 hlt)
  · exact heq
  · exact absurd (h4' (by omega)) (h3 W' h1' hgt)

variable {α : Type} [Scalar α]

/-- the model loop finds the first negative criterion -/
theorem windowLoop_isFirst (gw : List α) (wmax : Nat) :
    ∀ (fuel n : Nat), 1 ≤ n → n + fuel = wmax → 1 ≤ fuel →
      ∃ W, windowLoop gw wmax fuel n = some W ∧
        IsFirst (fun m => gw.getD (m - 1) 0 < 0) n (wmax - 1) W := by
  intro fuel
  induction fuel with
  | zero => intro n _ _ h; omega
  | succ f ih =>
    intro n hn hsum _
    unfold windowLoop
    by_cases hc : gw.getD (n - 1) 0 < 0 ∨ n + 1 ≥ wmax
    · rw [if_pos hc]
      refine ⟨n, rfl, Nat.le_refl _, by omega, ?_, ?_⟩
      · intro m h1 h2; omega
      · intro hlt
        rcases hc with hc | hc
        · exact hc
        · omega
    · rw [if_neg hc]
      have hc' := not_or.mp hc
      have hf : 1 ≤ f := by omega
      obtain ⟨W, hW, h1, h2, h3, h4⟩ := ih (n + 1) (by omega) (by omega) hf
      refine ⟨W, hW, by omega, h2, ?_, h4⟩
      intro m hm1 hm2
      by_cases hmn : m = n
      · subst hmn; exact hc'.1
      · exact h3 m (by omega) hm2

/-- the specification's window is the first negative criterion -/
theorem specWindow_isFirst (g : Nat → α) (wmax : Nat) (h : 2 ≤ wmax) :
    IsFirst (fun m => g m < 0) 1 (wmax - 1) (Spec.window g wmax) := by
  unfold Spec.window
  split
  · rename_i k hk
    rw [List.find?_range_eq_some] at hk
    obtain ⟨hp, hmem, hall⟩ := hk
    have hklt : k < wmax - 2 := by simpa using hmem
    refine ⟨by omega, by omega, ?_, ?_⟩
    · intro m hm1 hm2
      have := hall (m - 1) (by omega)
      have hm : m - 1 + 1 = m := by omega
      simpa [hm] using this
    · intro _
      simpa using hp
  · rename_i hnone
    rw [List.find?_range_eq_none] at hnone
    refine ⟨by omega, Nat.le_refl _, ?_, ?_⟩
    · intro m hm1 hm2
      have := hnone (m - 1) (by omega)
      have hm : m - 1 + 1 = m := by omega
      simpa [hm] using this
    · intro h; omega

end PV
