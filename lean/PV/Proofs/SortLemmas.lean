/-
  PV.Proofs.SortLemmas — the stable insertion sort `Py.sortBy` with a natural-number key:
  permutation, sortedness, stability (a second sort refines the first into the lexicographic order),
  and uniqueness of the result when the keys are distinct.
-/
import Mathlib.Data.List.Perm.Basic
import Mathlib.Data.List.Sort
import Mathlib.Data.List.Nodup
import PV.Model.Names

namespace PV.SortL
open PV.Names

variable {β : Type}

theorem insertSorted_perm (le : β → β → Bool) (x : β) (l : List β) : (Py.insertSorted le x l).Perm (x :: l) := by
  induction l with
  | nil => simp [Py.insertSorted]
  | cons y ys ih =>
    simp only [Py.insertSorted]
    split
    · exact (List.Perm.cons y ih).trans (List.Perm.swap x y ys)
    · exact List.Perm.refl _

theorem foldl_insertSorted_perm (le : β → β → Bool) (l acc : List β) :
    (l.foldl (fun acc x => Py.insertSorted le x acc) acc).Perm (l ++ acc) := by
  induction l generalizing acc with
  | nil => simp
  | cons x xs ih =>
    simp only [List.foldl_cons]
    refine (ih _).trans ?_
    refine (List.Perm.append_left xs (insertSorted_perm le x acc)).trans ?_
    simp [List.perm_middle]

/-- the sort only re-orders -/
theorem sortByKey_perm (k : β → Nat) (l : List β) : (sortByKey k l).Perm l := by
  have := foldl_insertSorted_perm (fun a b => decide (k a ≤ k b)) l []
  simpa [sortByKey, Py.sortBy] using this

/-- lexicographic order on (major key `k2`, minor key `k1`) -/
def Lex (k2 k1 : β → Nat) (a b : β) : Prop := k2 a < k2 b ∨ (k2 a = k2 b ∧ k1 a ≤ k1 b)

theorem insertSorted_lex (k2 k1 : β → Nat) (x : β) (acc : List β)
    (hacc : acc.Pairwise (Lex k2 k1)) (hmin : ∀ y ∈ acc, k1 y ≤ k1 x) :
    (Py.insertSorted (fun a b => decide (k2 a ≤ k2 b)) x acc).Pairwise (Lex k2 k1) := by
  induction acc with
  | nil => simp [Py.insertSorted]
  | cons y ys ih =>
    simp only [Py.insertSorted]
    have hy := List.pairwise_cons.mp hacc
    by_cases h : k2 y ≤ k2 x
    · simp only [h, decide_true, if_true]
      apply List.pairwise_cons.mpr
      refine ⟨?_, ih hy.2 (fun z hz => hmin z (by simp [hz]))⟩
      intro z hz
      have hz' : z ∈ x :: ys := (insertSorted_perm _ x ys).subset hz
      rcases List.mem_cons.mp hz' with rfl | hz''
      · rcases Nat.lt_or_eq_of_le h with hlt | heq
        · exact Or.inl hlt
        · exact Or.inr ⟨heq, hmin y (by simp)⟩
      · exact hy.1 z hz''
    · simp only [h, decide_false, Bool.false_eq_true, if_false]
      apply List.pairwise_cons.mpr
      refine ⟨?_, hacc⟩
      intro z hz
      have hlt : k2 x < k2 y := by omega
      rcases List.mem_cons.mp hz with rfl | hz'
      · exact Or.inl hlt
      · rcases hy.1 z hz' with h1 | ⟨h1, _⟩
        · exact Or.inl (by omega)
        · exact Or.inl (by omega)

theorem foldl_insertSorted_lex (k2 k1 : β → Nat) (l acc : List β)
    (hl : l.Pairwise (fun a b => k1 a ≤ k1 b)) (hacc : acc.Pairwise (Lex k2 k1))
    (hle : ∀ y ∈ acc, ∀ x ∈ l, k1 y ≤ k1 x) :
    (l.foldl (fun acc x => Py.insertSorted (fun a b => decide (k2 a ≤ k2 b)) x acc) acc).Pairwise (Lex k2 k1) := by
  induction l generalizing acc with
  | nil => simpa using hacc
  | cons x xs ih =>
    simp only [List.foldl_cons]
    have hx := List.pairwise_cons.mp hl
    apply ih _ hx.2 (insertSorted_lex k2 k1 x acc hacc (fun y hy => hle y hy x (by simp)))
    intro y hy z hz
    have hy' : y ∈ x :: acc := (insertSorted_perm _ x acc).subset hy
    rcases List.mem_cons.mp hy' with rfl | hy''
    · exact hx.1 z hz
    · exact hle y hy'' z (by simp [hz])

/-- **stability**: sorting by `k2` a list that is sorted by `k1` gives the lexicographic (`k2`, `k1`) order -/
theorem sortByKey_lex (k2 k1 : β → Nat) (l : List β) (hl : l.Pairwise (fun a b => k1 a ≤ k1 b)) :
    (sortByKey k2 l).Pairwise (Lex k2 k1) := by
  have := foldl_insertSorted_lex k2 k1 l [] hl List.Pairwise.nil (by simp)
  simpa [sortByKey, Py.sortBy] using this

/-- one sort: sorted by the key -/
theorem sortByKey_sorted (k : β → Nat) (l : List β) : (sortByKey k l).Pairwise (fun a b => k a ≤ k b) := by
  have h := sortByKey_lex k (fun _ => 0) l (List.pairwise_of_forall (by simp))
  exact h.imp (fun hab => by rcases hab with h1 | ⟨h1, _⟩ <;> omega)

/-- two lists with the same elements, both in lexicographic key order, coincide when the key pairs are
    distinct -/
theorem eq_of_perm_of_lex (k2 k1 : β → Nat) (a b : List β) (hp : a.Perm b)
    (ha : a.Pairwise (Lex k2 k1)) (hb : b.Pairwise (Lex k2 k1))
    (hinj : ∀ x ∈ a, ∀ y ∈ a, k2 x = k2 y → k1 x = k1 y → x = y) : a = b := by
  apply hp.eq_of_pairwise _ ha hb
  intro x y hx hy hxy hyx
  apply hinj x hx y (hp.symm.subset hy)
  · rcases hxy with h1 | ⟨h1, _⟩ <;> rcases hyx with h2 | ⟨h2, _⟩ <;> omega
  · rcases hxy with h1 | ⟨h1, h1'⟩ <;> rcases hyx with h2 | ⟨h2, h2'⟩ <;> omega

end PV.SortL
