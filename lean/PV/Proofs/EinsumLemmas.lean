/-
  PV.Proofs.EinsumLemmas — insertion sort on characters: membership and sortedness.
-/
import PV.Model.Einsum

namespace PV.Einsum
theorem mem_ins (x c : Char) (l : List Char) : x ∈ ins c l ↔ x = c ∨ x ∈ l := by
  induction l with
  | nil => simp [ins]
  | cons d ds ih =>
    unfold ins
    split
    · simp
    · simp only [List.mem_cons, ih]
      constructor
      · rintro (h | h | h)
        · exact Or.inr (Or.inl h)
        · exact Or.inl h
        · exact Or.inr (Or.inr h)
      · rintro (h | h | h)
        · exact Or.inr (Or.inl h)
        · exact Or.inl h
        · exact Or.inr (Or.inr h)

theorem mem_sortC (x : Char) (l : List Char) : x ∈ sortC l ↔ x ∈ l := by
  induction l with
  | nil => simp [sortC]
  | cons c cs ih => simp [sortC, mem_ins, ih]

theorem pairwise_ins (c : Char) (l : List Char) (h : l.Pairwise (· ≤ ·)) : (ins c l).Pairwise (· ≤ ·) := by
  induction l with
  | nil => simp [ins]
  | cons d ds ih =>
    unfold ins
    split
    · rename_i hcd
      refine List.Pairwise.cons ?_ h
      intro x hx
      rcases List.mem_cons.mp hx with rfl | hx
      · exact hcd
      · exact Char.le_trans hcd (List.rel_of_pairwise_cons h hx)
    · rename_i hcd
      have hdc : d ≤ c := by
        rcases Char.le_total c d with h1 | h1
        · exact absurd h1 hcd
        · exact h1
      refine List.Pairwise.cons ?_ (ih (List.Pairwise.of_cons h))
      intro x hx
      rcases (mem_ins x c ds).mp hx with rfl | hx
      · exact hdc
      · exact List.rel_of_pairwise_cons h hx

theorem pairwise_sortC (l : List Char) : (sortC l).Pairwise (· ≤ ·) := by
  induction l with
  | nil => simp [sortC]
  | cons c cs ih => exact pairwise_ins c _ ih

end PV.Einsum
