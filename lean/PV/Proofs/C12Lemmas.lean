/-
  PV.Proofs.C12Lemmas — the dobs replica table (PV/Model/Dobs.lean): what the import returns, for
  every merged configuration list, every measured subset and every column of numbers.
-/
import Mathlib.Data.List.Sublists
import Mathlib.Data.List.Nodup
import PV.Model.Dobs

set_option linter.unusedSimpArgs false
set_option linter.unusedSectionVars false

namespace PV
open Scalar
variable {α : Type} [Scalar α]

/-- a configuration that is not in the merged list does not influence the column -/
theorem dobsColumn_cons_notin (ms : List Int) (c : Int) (x : α) (idl : List Int) (nums : List α)
    (h : c ∉ ms) : dobsColumn ms (c :: idl) (x :: nums) = dobsColumn ms idl nums := by
  unfold dobsColumn
  apply List.map_congr_left
  intro c' hc'
  have : c ≠ c' := fun e => h (e ▸ hc')
  simp [List.zip_cons_cons, List.find?_cons, this]

/-- export followed by import keeps exactly the measured configurations whose written number is not the
    marker 0, each with its number + central value -/
theorem dobs_import_export (v : α) (hz : isZero (0 : α) = true) :
    ∀ (merged idl : List Int) (nums : List α), merged.Nodup → idl.Sublist merged →
      nums.length = idl.length →
      dobsImport merged (dobsColumn merged idl nums) v
        = ((idl.zip nums).filter (fun p => !isZero p.2)).map (fun p => (p.1, p.2 + v)) := by
  intro merged
  induction merged with
  | nil =>
    intro idl nums _ hs hl
    have : idl = [] := List.sublist_nil.mp hs
    subst this
    simp [dobsImport, dobsColumn]
  | cons c ms ih =>
    intro idl nums hnd hs hl
    have hc : c ∉ ms := (List.nodup_cons.mp hnd).1
    have hms : ms.Nodup := (List.nodup_cons.mp hnd).2
    cases hs with
    | cons _ hs' =>
      have hnotin : c ∉ idl := fun h => hc (hs'.subset h)
      have hfind : (List.zip idl nums).find? (·.1 == c) = none := by
        rw [List.find?_eq_none]
        intro p hp
        have : p.1 ∈ idl := (List.of_mem_zip hp).1
        simp
        intro e
        exact hnotin (e ▸ this)
      have hcol : dobsColumn (c :: ms) idl nums = 0 :: dobsColumn ms idl nums := by
        simp [dobsColumn, hfind]
      rw [hcol]
      have := ih idl nums hms hs' hl
      simp [dobsImport, hz] at this ⊢
      exact this
    | cons_cons _ hs' =>
      rename_i idl'
      cases nums with
      | nil => simp at hl
      | cons x nums' =>
        have hcol : dobsColumn (c :: ms) (c :: idl') (x :: nums') = x :: dobsColumn ms idl' nums' := by
          have h1 : dobsColumn (c :: ms) (c :: idl') (x :: nums')
              = x :: dobsColumn ms (c :: idl') (x :: nums') := by
            simp [dobsColumn]
          rw [h1, dobsColumn_cons_notin ms c x idl' nums' hc]
        rw [hcol]
        have := ih idl' nums' hms hs' (by simpa using hl)
        cases hx : isZero x <;> simp [dobsImport, hx] at this ⊢ <;> exact this

end PV
