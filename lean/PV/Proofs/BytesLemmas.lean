/-
  Helper lemmas about the record readers (C17 / C18).
-/
import PV.Model.Bytes

namespace PV
open PV.Bytes

/-- a record list as the measurement programs write it: every payload has the size fixed by the
    header, every configuration number fits a signed 32-bit integer -/
def RecsOK (P : Nat) (rs : List Rec) : Prop :=
  ∀ r ∈ rs, r.payload.length = P ∧ -2147483648 ≤ r.cfg ∧ r.cfg < 2147483648


theorem le32_enc32_aux (i : Int) (h1 : -2147483648 ≤ i) (h2 : i < 2147483648) : le32 (enc32 i) = some i := by
  unfold enc32 le32
  simp only [UInt8.toNat_ofNat']
  by_cases hi : i < 0
  · simp only [hi, if_true]
    congr 1
    split <;> omega
  · simp only [hi, if_false]
    congr 1
    split <;> omega

/-! ### helper lemmas -/


theorem enc32_length (i : Int) : (enc32 i).length = 4 := rfl


theorem encodeRecords_cons (r : Rec) (rs : List Rec) :
    encodeRecords (r :: rs) = (enc32 r.cfg ++ r.payload) ++ encodeRecords rs := by
  simp [encodeRecords]


theorem RecsOK.tail {P : Nat} {r : Rec} {rs : List Rec} (h : RecsOK P (r :: rs)) : RecsOK P rs :=
  fun x hx => h x (List.mem_cons_of_mem _ hx)


theorem RecsOK.take {P : Nat} {rs : List Rec} (h : RecsOK P rs) (m : Nat) : RecsOK P (rs.take m) :=
  fun x hx => h x (List.mem_of_mem_take hx)


theorem length_encodeRecords (P : Nat) (rs : List Rec) (h : RecsOK P rs) :
    (encodeRecords rs).length = rs.length * (4 + P) := by
  induction rs with
  | nil => simp [encodeRecords]
  | cons r rs ih =>
    have hr := h r (List.mem_cons_self)
    rw [encodeRecords_cons, List.length_append, List.length_append, enc32_length, hr.1, ih h.tail,
      List.length_cons, Nat.succ_mul]
    omega


/-- cutting an encoded file after `m` whole records and `j` further bytes -/
theorem take_encodeRecords (P : Nat) (rs : List Rec) (h : RecsOK P rs) :
    ∀ (m j : Nat) (hm : m < rs.length), j < 4 + P →
      (encodeRecords rs).take (m * (4 + P) + j)
        = encodeRecords (rs.take m) ++ (enc32 rs[m].cfg ++ rs[m].payload).take j := by
  induction rs with
  | nil => intro m j hm; simp at hm
  | cons r rs ih =>
    intro m j hm hj
    have hr := h r (List.mem_cons_self)
    have hlen : (enc32 r.cfg ++ r.payload).length = 4 + P := by
      rw [List.length_append, enc32_length, hr.1]
    cases m with
    | zero =>
      rw [encodeRecords_cons]
      simp only [Nat.zero_mul, Nat.zero_add, List.take_zero, List.getElem_cons_zero]
      rw [List.take_append_of_le_length (by omega)]
      simp [encodeRecords]
    | succ m =>
      have hm' : m < rs.length := by simpa using hm
      rw [encodeRecords_cons, List.take_append, List.take_of_length_le (by rw [hlen, Nat.succ_mul]; omega),
        hlen]
      have : (m + 1) * (4 + P) + j - (4 + P) = m * (4 + P) + j := by rw [Nat.succ_mul]; omega
      rw [this, ih h.tail m j hm' hj]
      simp only [List.take_succ_cons, List.getElem_cons_succ, encodeRecords_cons, List.append_assoc]

/-! ### stream reader -/


theorem readRecords_step (P fuel : Nat) (r : Rec) (tail : B) (acc : List Rec)
    (hp : r.payload.length = P) (h1 : -2147483648 ≤ r.cfg) (h2 : r.cfg < 2147483648) :
    readRecords P (fuel+1) ((enc32 r.cfg ++ r.payload) ++ tail) acc = readRecords P fuel tail (r :: acc) := by
  rw [List.append_assoc]
  have ht : (enc32 r.cfg ++ (r.payload ++ tail)).take 4 = enc32 r.cfg := List.take_left' (enc32_length _)
  have hd : (enc32 r.cfg ++ (r.payload ++ tail)).drop 4 = r.payload ++ tail := List.drop_left' (enc32_length _)
  have ht2 : (r.payload ++ tail).take P = r.payload := List.take_left' hp
  have hd2 : (r.payload ++ tail).drop P = tail := List.drop_left' hp
  rw [readRecords]
  simp only [ht, hd, ht2, hd2, enc32_length, le32_enc32_aux _ h1 h2, hp]
  simp


theorem readRecords_append (P : Nat) (rs : List Rec) (h : RecsOK P rs) :
    ∀ (fuel : Nat) (tail : B) (acc : List Rec),
      readRecords P (rs.length + fuel) (encodeRecords rs ++ tail) acc
        = readRecords P fuel tail (rs.reverse ++ acc) := by
  induction rs with
  | nil => intro fuel tail acc; simp [encodeRecords]
  | cons r rs ih =>
    intro fuel tail acc
    have hr := h r (List.mem_cons_self)
    have : (r :: rs).length + fuel = (rs.length + fuel) + 1 := by simp; omega
    rw [this, encodeRecords_cons, List.append_assoc, readRecords_step P _ r _ acc hr.1 hr.2.1 hr.2.2,
      ih h.tail]
    simp


theorem readRecords_short (P fuel : Nat) (t : B) (acc : List Rec) (ht : t.length < 4) :
    readRecords P fuel t acc = .ok acc.reverse := by
  cases fuel with
  | zero => rw [readRecords]
  | succ fuel =>
    rw [readRecords]
    simp only [List.length_take]
    rw [if_pos (by omega)]


theorem readRecords_cut (P fuel : Nat) (r : Rec) (j : Nat) (acc : List Rec)
    (hp : r.payload.length = P) (h1 : -2147483648 ≤ r.cfg) (h2 : r.cfg < 2147483648)
    (hj4 : 4 ≤ j) (hj : j < 4 + P) :
    readRecords P (fuel+1) ((enc32 r.cfg ++ r.payload).take j) acc = .error (.shortPayload r.cfg) := by
  have e : (enc32 r.cfg ++ r.payload).take j = enc32 r.cfg ++ r.payload.take (j - 4) := by
    rw [List.take_append, List.take_of_length_le (by rw [enc32_length]; exact hj4), enc32_length]
  have ht : (enc32 r.cfg ++ r.payload.take (j - 4)).take 4 = enc32 r.cfg := List.take_left' (enc32_length _)
  have hd : (enc32 r.cfg ++ r.payload.take (j - 4)).drop 4 = r.payload.take (j - 4) :=
    List.drop_left' (enc32_length _)
  have hl : ((r.payload.take (j - 4)).take P).length < P := by
    rw [List.length_take, List.length_take]; omega
  rw [e, readRecords]
  simp only [ht, hd, enc32_length, le32_enc32_aux _ h1 h2]
  rw [if_neg (by omega), if_pos hl]


theorem cut_arith (P n k : Nat) (hk : k < n * (4 + P)) :
    k / (4 + P) < n ∧ k % (4 + P) < 4 + P ∧ k = k / (4 + P) * (4 + P) + k % (4 + P) := by
  refine ⟨(Nat.div_lt_iff_lt_mul (by omega)).2 hk, Nat.mod_lt _ (by omega), (Nat.div_add_mod' k (4 + P)).symm⟩


theorem take_all_arith (P n k : Nat) (hk : n * (4 + P) ≤ k) : n ≤ k / (4 + P) :=
  (Nat.le_div_iff_mul_le (by omega)).2 hk


theorem readRecords_prefix (P : Nat) (rs : List Rec) (h : RecsOK P rs) (k : Nat)
    (fuel : Nat) (hf : rs.length < fuel) (hk : k < (encodeRecords rs).length) :
    (k % (4 + P) < 4 → readRecords P fuel ((encodeRecords rs).take k) [] = .ok (rs.take (k / (4 + P)))) ∧
    (4 ≤ k % (4 + P) → ∃ e, readRecords P fuel ((encodeRecords rs).take k) [] = .error e) := by
  rw [length_encodeRecords P rs h] at hk
  obtain ⟨hm, hj, hkk⟩ := cut_arith P rs.length k hk
  generalize k / (4 + P) = m at *
  generalize k % (4 + P) = j at *
  subst hkk
  have hlen : (rs.take m).length = m := by rw [List.length_take]; omega
  obtain ⟨f, rfl⟩ : ∃ f, fuel = (rs.take m).length + (f + 1) := ⟨fuel - m - 1, by omega⟩
  have hr := h rs[m] (List.getElem_mem hm)
  rw [take_encodeRecords P rs h m j hm hj, readRecords_append P _ (h.take m)]
  constructor
  · intro hj4
    rw [readRecords_short _ _ _ _ (by rw [List.length_take]; omega)]
    simp
  · intro hj4
    exact ⟨_, readRecords_cut P f rs[m] j _ hr.1 hr.2.1 hr.2.2 hj4 hj⟩


theorem readChunks_step (P fuel : Nat) (r : Rec) (tail : B) (acc : List Rec)
    (hp : r.payload.length = P) (h1 : -2147483648 ≤ r.cfg) (h2 : r.cfg < 2147483648) :
    readChunks P (fuel+1) ((enc32 r.cfg ++ r.payload) ++ tail) acc = readChunks P fuel tail (r :: acc) := by
  have hlen : (enc32 r.cfg ++ r.payload).length = 4 + P := by
    rw [List.length_append, enc32_length, hp]
  have ht : ((enc32 r.cfg ++ r.payload) ++ tail).take (4 + P) = enc32 r.cfg ++ r.payload := List.take_left' hlen
  have hd : ((enc32 r.cfg ++ r.payload) ++ tail).drop (4 + P) = tail := List.drop_left' hlen
  have ht2 : (enc32 r.cfg ++ r.payload).take 4 = enc32 r.cfg := List.take_left' (enc32_length _)
  have hd2 : (enc32 r.cfg ++ r.payload).drop 4 = r.payload := List.drop_left' (enc32_length _)
  rw [readChunks]
  simp only [ht, hd, ht2, hd2, hlen, le32_enc32_aux _ h1 h2]
  simp


theorem readChunks_append (P : Nat) (rs : List Rec) (h : RecsOK P rs) :
    ∀ (fuel : Nat) (tail : B) (acc : List Rec),
      readChunks P (rs.length + fuel) (encodeRecords rs ++ tail) acc
        = readChunks P fuel tail (rs.reverse ++ acc) := by
  induction rs with
  | nil => intro fuel tail acc; simp [encodeRecords]
  | cons r rs ih =>
    intro fuel tail acc
    have hr := h r (List.mem_cons_self)
    have : (r :: rs).length + fuel = (rs.length + fuel) + 1 := by simp; omega
    rw [this, encodeRecords_cons, List.append_assoc, readChunks_step P _ r _ acc hr.1 hr.2.1 hr.2.2,
      ih h.tail]
    simp


theorem readChunks_nil (P fuel : Nat) (acc : List Rec) :
    readChunks P fuel [] acc = .ok acc.reverse := by
  cases fuel with
  | zero => rw [readChunks]
  | succ fuel => rw [readChunks]; simp


theorem readChunks_cut (P fuel : Nat) (t : B) (acc : List Rec)
    (h0 : 0 < t.length) (hj : t.length < 4 + P) :
    readChunks P (fuel+1) t acc = .error (.shortPayload 0) := by
  have hl : (t.take (4 + P)).length = t.length := by rw [List.length_take]; omega
  rw [readChunks]
  simp only [hl]
  rw [if_neg (by omega), if_pos hj]


theorem readChunks_prefix (P : Nat) (rs : List Rec) (h : RecsOK P rs) (k : Nat)
    (fuel : Nat) (hf : rs.length < fuel) (hk : k < (encodeRecords rs).length) :
    (k % (4 + P) = 0 → readChunks P fuel ((encodeRecords rs).take k) [] = .ok (rs.take (k / (4 + P)))) ∧
    (0 < k % (4 + P) → ∃ e, readChunks P fuel ((encodeRecords rs).take k) [] = .error e) := by
  rw [length_encodeRecords P rs h] at hk
  obtain ⟨hm, hj, hkk⟩ := cut_arith P rs.length k hk
  generalize k / (4 + P) = m at *
  generalize k % (4 + P) = j at *
  subst hkk
  have hlen : (rs.take m).length = m := by rw [List.length_take]; omega
  obtain ⟨f, rfl⟩ : ∃ f, fuel = (rs.take m).length + (f + 1) := ⟨fuel - m - 1, by omega⟩
  have hr := h rs[m] (List.getElem_mem hm)
  have hl : ((enc32 rs[m].cfg ++ rs[m].payload).take j).length = j := by
    rw [List.length_take, List.length_append, enc32_length, hr.1]; omega
  rw [take_encodeRecords P rs h m j hm hj, readChunks_append P _ (h.take m)]
  constructor
  · intro hj0
    subst hj0
    rw [List.take_zero, readChunks_nil]
    simp
  · intro hj0
    exact ⟨_, readChunks_cut P f _ _ (by omega) (by omega)⟩


end PV
