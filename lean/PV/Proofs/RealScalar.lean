/-
  PV.Proofs.RealScalar — the `Scalar` / `Transc` structure on ℝ used by every theorem.
  Its fields are literally Mathlib's operations, so theorems about the polymorphic
  models instantiated at ℝ are theorems about real arithmetic.
-/
import Mathlib.Analysis.SpecialFunctions.Log.Basic
import Mathlib.Analysis.SpecialFunctions.Sqrt
import Mathlib.Analysis.SpecialFunctions.Exp
import Mathlib.Analysis.SpecialFunctions.Trigonometric.Basic
import Mathlib.Analysis.SpecialFunctions.Trigonometric.Inverse
import Mathlib.Analysis.SpecialFunctions.Trigonometric.Arctan
import Mathlib.Analysis.SpecialFunctions.Arsinh
import Mathlib.Analysis.SpecialFunctions.Arcosh
import Mathlib.Analysis.SpecialFunctions.Artanh
import Mathlib.Analysis.SpecialFunctions.Pow.Real
import PV.Scalar

open Classical in
noncomputable instance instScalarReal : Scalar ℝ where
  ofInt := fun i => (i : ℝ)
  decLt := fun _ _ => Classical.propDecidable _
  decLe := fun _ _ => Classical.propDecidable _
  isZero := fun a => decide (a = 0)
  isNaN := fun _ => false

noncomputable instance instTranscReal : Transc ℝ where
  sqrt := Real.sqrt
  log := Real.log
  exp := Real.exp

noncomputable instance instElemReal : Elem ℝ where
  sin := Real.sin
  cos := Real.cos
  tan := Real.tan
  sinh := Real.sinh
  cosh := Real.cosh
  tanh := Real.tanh
  arcsin := Real.arcsin
  arccos := Real.arccos
  arctan := Real.arctan
  arcsinh := Real.arsinh
  arccosh := Real.arcosh
  arctanh := Real.artanh
  pow := fun x y => x ^ y

namespace PV.RealS

@[simp] theorem ofNat_eq_lit {α : Type} [Scalar α] (n : Nat) :
    (@OfNat.ofNat α n (Scalar.instOfNatScalar n)) = Scalar.lit n := rfl

@[simp] theorem lit_eq (n : Nat) : (Scalar.lit n : ℝ) = (n : ℝ) := by
  simp [Scalar.lit, Scalar.ofInt]

@[simp] theorem ofNatS_eq (n : Nat) : (Scalar.ofNatS n : ℝ) = (n : ℝ) := by
  simp [Scalar.ofNatS, Scalar.ofInt]

@[simp] theorem sum_eq (l : List ℝ) : Scalar.sum l = l.sum := by
  induction l with
  | nil => simp [Scalar.sum]
  | cons x xs ih => simp [Scalar.sum, List.foldr] at *; rw [ih]

@[simp] theorem absS_eq (x : ℝ) : Scalar.absS x = |x| := by
  unfold Scalar.absS
  split
  · rename_i h; simp at h; rw [abs_of_neg h]
  · rename_i h; simp at h; rw [abs_of_nonneg h]

theorem isZero_iff (x : ℝ) : Scalar.isZero x = true ↔ x = 0 := by
  simp [Scalar.isZero]

example : (2 : ℝ) * 3 = 6 := by norm_num

/-- literal test: the `2` inside a generic model becomes the real number 2 -/
example (x : ℝ) : (@HMul.hMul ℝ ℝ ℝ _ (@OfNat.ofNat ℝ 2 (Scalar.instOfNatScalar 2)) x) = 2 * x := by
  simp

end PV.RealS
