/-
  PV.Proofs.C04Lemmas — helper lemmas for PV/Todo/C04.lean: insertion sort by a total preorder,
  `sorted(set(names))` on strings, the shape of what `mkObs` accepts, `Idl.normalise`.
-/
import Mathlib.Data.String.Basic
import Mathlib.Tactic.Ring
import Mathlib.Tactic.Linarith
import PV.Proofs.RealScalar
import PV.Proofs.C01bLemmas
import PV.Proofs.C01cLemmas
import PV.Spec.WF
import PV.Spec.Propagate

namespace PV.C04
open Scalar PV

/-! ### insertion sort -/

section sort
variable {β γ : Type}

theorem perm_insertSorted (le : β → β → Bool) (x : β) (l : List β) :
    (Py.insertSorted le x l).Perm (x :: l) := by
  induction l with
  | nil => simp [Py.insertSorted]
  | cons y ys ih =>
    simp only [Py.insertSorted]
    split
    · exact ((List.Perm.cons y ih).trans (List.Perm.swap x y ys))
    · exact List.Perm.refl _

theorem perm_foldl_insertSorted (le : β → β → Bool) (l acc : List β) :
    (l.foldl (fun acc x => Py.insertSorted le x acc) acc).Perm (l ++ acc) := by
  induction l generalizing acc with
  | nil => simp
  | cons z zs ih =>
    rw [List.foldl_cons]
    refine (ih _).trans ?_
    refine (List.Perm.append_left zs (perm_insertSorted le z acc)).trans ?_
    simp

theorem perm_sortBy (le : β → β → Bool) (l : List β) : (Py.sortBy le l).Perm l := by
  have := perm_foldl_insertSorted le l []
  simpa [Py.sortBy] using this

theorem pairwise_insertSorted (le : β → β → Bool)
    (htot : ∀ a b, le a b = true ∨ le b a = true)
    (htr : ∀ a b c, le a b = true → le b c = true → le a c = true)
    (x : β) (l : List β) (h : l.Pairwise (fun a b => le a b = true)) :
    (Py.insertSorted le x l).Pairwise (fun a b => le a b = true) := by
  induction l with
  | nil => simp [Py.insertSorted]
  | cons z zs ih =>
    simp only [Py.insertSorted]
    rw [List.pairwise_cons] at h
    split
    · rename_i hzx
      rw [List.pairwise_cons]
      refine ⟨?_, ih h.2⟩
      intro a ha
      rcases (C01b.mem_insertSorted le x a zs).1 ha with rfl | ha
      · exact hzx
      · exact h.1 a ha
    · rename_i hzx
      have hxz : le x z = true := by
        rcases htot x z with h' | h'
        · exact h'
        · exact absurd h' hzx
      rw [List.pairwise_cons]
      refine ⟨?_, List.pairwise_cons.2 h⟩
      intro a ha
      rcases List.mem_cons.1 ha with rfl | ha
      · exact hxz
      · exact htr _ _ _ hxz (h.1 a ha)

theorem pairwise_sortBy (le : β → β → Bool)
    (htot : ∀ a b, le a b = true ∨ le b a = true)
    (htr : ∀ a b c, le a b = true → le b c = true → le a c = true) (l : List β) :
    (Py.sortBy le l).Pairwise (fun a b => le a b = true) := by
  unfold Py.sortBy
  suffices H : ∀ (l acc : List β), acc.Pairwise (fun a b => le a b = true) →
      (l.foldl (fun acc x => Py.insertSorted le x acc) acc).Pairwise (fun a b => le a b = true) from
    H l [] List.Pairwise.nil
  intro l
  induction l with
  | nil => intro acc h; simpa
  | cons z zs ih => intro acc h; exact ih _ (pairwise_insertSorted le htot htr z acc h)

/-- sorting by a key commutes with projecting to the key -/
theorem map_insertSorted (f : β → γ) (le : γ → γ → Bool) (x : β) (l : List β) :
    (Py.insertSorted (fun a b => le (f a) (f b)) x l).map f = Py.insertSorted le (f x) (l.map f) := by
  induction l with
  | nil => simp [Py.insertSorted]
  | cons y ys ih =>
    simp only [Py.insertSorted, List.map_cons]
    split
    · simp [ih]
    · simp

theorem map_sortBy (f : β → γ) (le : γ → γ → Bool) (l : List β) :
    (Py.sortBy (fun a b => le (f a) (f b)) l).map f = Py.sortBy le (l.map f) := by
  unfold Py.sortBy
  suffices H : ∀ (l acc : List β),
      (l.foldl (fun acc x => Py.insertSorted (fun a b => le (f a) (f b)) x acc) acc).map f
        = (l.map f).foldl (fun acc x => Py.insertSorted le x acc) (acc.map f) from by
    simpa using H l []
  intro l
  induction l with
  | nil => intro acc; simp
  | cons z zs ih =>
    intro acc
    rw [List.foldl_cons, ih, map_insertSorted]
    simp

theorem dedupSorted_sublist [BEq β] (l : List β) : (Py.dedupSorted l).Sublist l := by
  fun_induction Py.dedupSorted l with
  | case1 => simp
  | case2 x => simp
  | case3 x z r hxz ih => exact ih.trans (List.sublist_cons_self _ _)
  | case4 x z r hxz ih => exact ih.cons_cons x

theorem mem_dedupSorted [BEq β] [LawfulBEq β] (y : β) (l : List β) :
    y ∈ Py.dedupSorted l ↔ y ∈ l := by
  fun_induction Py.dedupSorted l with
  | case1 => simp
  | case2 x => simp
  | case3 x z r hxz ih =>
    have : x = z := by simpa using hxz
    subst this
    rw [ih]; simp
  | case4 x z r hxz ih =>
    simp [ih]

theorem pairwise_dedupSorted [LinearOrder β] [BEq β] [LawfulBEq β] (l : List β)
    (h : l.Pairwise (· ≤ ·)) : (Py.dedupSorted l).Pairwise (· < ·) := by
  fun_induction Py.dedupSorted l with
  | case1 => simp
  | case2 x => simp
  | case3 x z r hxz ih => exact ih (List.pairwise_cons.1 h).2
  | case4 x z r hxz ih =>
    have hne : x ≠ z := by simpa using hxz
    rw [List.pairwise_cons] at h
    rw [List.pairwise_cons]
    refine ⟨?_, ih h.2⟩
    intro a ha
    rw [mem_dedupSorted] at ha
    have hxz' : x < z := lt_of_le_of_ne (h.1 z (by simp)) hne
    rcases List.mem_cons.1 ha with rfl | ha
    · exact hxz'
    · exact lt_of_lt_of_le hxz' ((List.pairwise_cons.1 h.2).1 a ha)

end sort

/-! ### `sorted(set(names))` -/

theorem pairwise_sortBy_str (l : List String) :
    (Py.sortBy (fun a b => decide (a ≤ b)) l).Pairwise (· ≤ ·) := by
  have := pairwise_sortBy (fun (a b : String) => decide (a ≤ b))
    (fun a b => by simpa using le_total a b)
    (fun a b c h1 h2 => by simp only [decide_eq_true_eq] at *; exact le_trans h1 h2) l
  simpa using this

theorem mem_sortedSetStr (y : String) (l : List String) : y ∈ Py.sortedSetStr l ↔ y ∈ l := by
  simp [Py.sortedSetStr, mem_dedupSorted, C01b.mem_sortBy]

theorem pairwise_sortedSetStr (l : List String) : (Py.sortedSetStr l).Pairwise (· < ·) :=
  pairwise_dedupSorted _ (pairwise_sortBy_str l)

theorem strictSortedStr_of_pairwise (l : List String) (h : l.Pairwise (· < ·)) :
    strictSortedStr l = true := by
  fun_induction strictSortedStr l with
  | case1 x y r ih =>
    rw [List.pairwise_cons] at h
    simp only [Bool.and_eq_true, decide_eq_true_eq]
    exact ⟨h.1 y (by simp), ih h.2⟩
  | case2 l hl => rfl

/-- the uniqueness check of the constructor: the sorted names are strictly sorted -/
theorem sortBy_strict_of_unique (names : List String)
    (h : (Py.sortedSetStr names).length = names.length) :
    (Py.sortBy (fun a b => decide (a ≤ b)) names).Pairwise (· < ·) := by
  have hlen : (Py.sortBy (fun (a b : String) => decide (a ≤ b)) names).length = names.length :=
    (perm_sortBy _ names).length_eq
  have hsub := dedupSorted_sublist (Py.sortBy (fun (a b : String) => decide (a ≤ b)) names)
  have heq := hsub.eq_of_length (by
    have : Py.dedupSorted (Py.sortBy (fun (a b : String) => decide (a ≤ b)) names) = Py.sortedSetStr names := rfl
    rw [this, h, hlen])
  have := pairwise_sortedSetStr names
  unfold Py.sortedSetStr at this
  rwa [heq] at this

theorem nodup_of_unique (names : List String)
    (h : (Py.sortedSetStr names).length = names.length) : names.Nodup := by
  have h1 := sortBy_strict_of_unique names h
  have h2 : (Py.sortBy (fun (a b : String) => decide (a ≤ b)) names).Nodup :=
    h1.imp (fun hab => ne_of_lt hab)
  exact (perm_sortBy _ names).nodup_iff.1 h2

theorem pairwise_lt_of_length_le_one (l : List String) (h : l.length ≤ 1) : l.Pairwise (· < ·) := by
  match l, h with
  | [], _ => simp
  | [x], _ => simp

/-! ### configuration lists -/

theorem strictInc_range_of_pos (s : Int) (n : Nat) (st : Int) (h : 0 < st) :
    Idl.strictInc (Idl.range s n st).toList = true := by
  induction n generalizing s with
  | zero => simp [Idl.toList, Idl.strictInc]
  | succ n ih =>
    rw [C01b.toList_range_succ]
    cases n with
    | zero => simp [Idl.toList, Idl.strictInc]
    | succ m =>
      have := ih (s + st)
      rw [C01b.toList_range_succ] at this ⊢
      simp only [Idl.strictInc, Bool.and_eq_true, decide_eq_true_eq]
      exact ⟨by omega, this⟩

theorem pos_of_strictInc_range (s : Int) (n : Nat) (st : Int) (hn : 2 ≤ n)
    (h : Idl.strictInc (Idl.range s n st).toList = true) : 0 < st := by
  obtain ⟨m, rfl⟩ : ∃ m, n = m + 2 := ⟨n - 2, by omega⟩
  rw [C01b.toList_range_succ, C01b.toList_range_succ] at h
  simp only [Idl.strictInc, Bool.and_eq_true, decide_eq_true_eq] at h
  omega

theorem strictInc_of_diffs_pos (l : List Int) (h : ∀ d ∈ Idl.diffs l, 0 < d) :
    Idl.strictInc l = true := by
  fun_induction Idl.diffs l with
  | case1 x y r ih =>
    simp only [List.mem_cons, forall_eq_or_imp] at h
    simp only [Idl.strictInc, Bool.and_eq_true, decide_eq_true_eq]
    exact ⟨by omega, ih h.2⟩
  | case2 l hl =>
    match l, hl with
    | [], _ => rfl
    | [x], _ => rfl
    | x :: y :: r, hl => exact absurd rfl (hl x y r)

/-- what the normalisation accepts on an explicit list -/
theorem normalise_list_ok (l : List Int) (i : Idl) (h : Idl.normalise (.list l) = .ok i) :
    Idl.strictInc l = true ∧ i = C01b.normOr (.list l) := by
  refine ⟨?_, by simp [C01b.normOr, h]⟩
  apply strictInc_of_diffs_pos
  intro d hd
  have hd' := (C01b.mem_sortedSet d _).2 hd
  simp only [Idl.normalise] at h
  split at h
  · cases h
  · rename_i hneg
    split at h
    · cases h
    · rename_i hzero
      have h1 : ¬ d < 0 := by
        intro hlt
        exact hneg (List.any_eq_true.2 ⟨d, hd', by simpa using hlt⟩)
      have h2 : ¬ d = 0 := by
        intro he
        exact hzero (List.any_eq_true.2 ⟨d, hd', by simpa using he⟩)
      omega

theorem normalise_range_ok (s : Int) (n : Nat) (st : Int) (i : Idl)
    (h : Idl.normalise (.range s n st) = .ok i) : 0 ≤ st ∧ i = .range s n st := by
  simp only [Idl.normalise] at h
  split at h
  · cases h
  · injection h with h
    exact ⟨by omega, h.symm⟩

/-! ### the constructor -/

variable {α : Type} [Scalar α]

theorem mapM_ok {ε β γ : Type} (f : β → Except ε γ) (l : List β) (rs : List γ)
    (h : l.mapM f = .ok rs) : List.Forall₂ (fun a r => f a = .ok r) l rs := by
  induction l generalizing rs with
  | nil =>
    simp only [List.mapM_nil, pure, Except.pure] at h
    injection h with h
    subst h
    exact List.Forall₂.nil
  | cons a t ih =>
    rw [List.mapM_cons] at h
    simp only [bind, Except.bind, pure, Except.pure] at h
    split at h
    · cases h
    · rename_i b hb
      split at h
      · cases h
      · rename_i bs hbs
        injection h with h
        subst h
        exact List.Forall₂.cons hb (ih bs hbs)

/-- the per-chain step of the constructor -/
def mkRep (x : String × Idl × List α) : Except MkErr (Rep α) :=
  match x.2.1.normalise with
  | Except.ok x_1 =>
    if (x.2.2.length != x_1.len) = true then Except.error MkErr.samplesIdlMismatch
    else
      Except.ok
        { name := x.1, idl := x_1, deltas := List.map (fun x_2 => x_2 - mean x.2.2) x.2.2,
          rvalue := mean x.2.2 }
  | Except.error Idl.NormErr.unsorted => Except.error MkErr.unsorted
  | Except.error Idl.NormErr.duplicate => Except.error MkErr.duplicate
  | Except.error Idl.NormErr.negativeStep => Except.error MkErr.negativeStep

def mkIdls (samples : List (List α)) (idl : Option (List Idl)) : List Idl :=
  match idl with
  | some il => il
  | none => samples.map (fun s => Idl.range 1 s.length 1)

def mkTriples (samples : List (List α)) (names : List String) (idl : Option (List Idl)) :
    List (String × Idl × List α) :=
  Py.sortBy (fun (a b : String × Idl × List α) => decide (a.1 ≤ b.1))
    (names.zip ((mkIdls samples idl).zip samples))

theorem mkObs_ok (samples : List (List α)) (names : List String) (idl : Option (List Idl)) (o : Obs α)
    (h : mkObs samples names idl = .ok o) :
    samples.length = names.length ∧ (∀ il, idl = some il → il.length = names.length) ∧
    (1 < names.length → (Py.sortedSetStr names).length = names.length ∧
       (Py.sortedSetStr (names.map Py.ensOf)).length ≤ 1) ∧
    (∀ s ∈ samples, 4 < s.length) ∧
    ∃ reps, (mkTriples samples names idl).mapM mkRep = .ok reps ∧ o.reps = reps ∧ o.covs = [] := by
  unfold mkObs at h
  simp only [bind, Except.bind, pure, Except.pure, throw, throwThe, MonadExceptOf.throw] at h
  have hfin : ∀ (v : List (Rep α)) (val : α) (M : Except MkErr (List (Rep α))), M = .ok v →
      (Except.ok { value := val, reps := v, covs := [] } : Except MkErr (Obs α)) = .ok o →
      ∃ reps, M = .ok reps ∧ o.reps = reps ∧ o.covs = [] := by
    intro v val M h1 h2
    injection h2 with h2
    subst h2
    exact ⟨v, h1, rfl, rfl⟩
  split at h
  · cases h
  rename_i hlen
  split at h
  · rename_i il
    split at h
    · cases h
    rename_i hil
    split at h
    · rename_i hgt
      split at h
      · cases h
      rename_i huniq
      split at h
      · cases h
      rename_i hens
      split at h
      · cases h
      rename_i hfew
      split at h
      · cases h
      rename_i v hv
      refine ⟨by simpa using hlen, ?_, ?_, ?_, hfin v _ _ hv h⟩
      · intro il' e; cases e; simpa using hil
      · intro _; exact ⟨by simpa using huniq, by omega⟩
      · intro s hs; simp at hfew; exact hfew s hs
    · rename_i hgt
      split at h
      · cases h
      rename_i hfew
      split at h
      · cases h
      rename_i v hv
      refine ⟨by simpa using hlen, ?_, ?_, ?_, hfin v _ _ hv h⟩
      · intro il' e; cases e; simpa using hil
      · intro h1; exact absurd h1 hgt
      · intro s hs; simp at hfew; exact hfew s hs
  · rename_i hnone
    have hidl : idl = none := by
      cases idl with
      | none => rfl
      | some il => exact absurd rfl (hnone il)
    subst hidl
    split at h
    · rename_i hgt
      split at h
      · cases h
      rename_i huniq
      split at h
      · cases h
      rename_i hens
      split at h
      · cases h
      rename_i hfew
      split at h
      · cases h
      rename_i v hv
      refine ⟨by simpa using hlen, ?_, ?_, ?_, hfin v _ _ hv h⟩
      · intro il' e; cases e
      · intro _; exact ⟨by simpa using huniq, by omega⟩
      · intro s hs; simp at hfew; exact hfew s hs
    · rename_i hgt
      split at h
      · cases h
      rename_i hfew
      split at h
      · cases h
      rename_i v hv
      refine ⟨by simpa using hlen, ?_, ?_, ?_, hfin v _ _ hv h⟩
      · intro il' e; cases e
      · intro h1; exact absurd h1 hgt
      · intro s hs; simp at hfew; exact hfew s hs

theorem mkRep_ok (t : String × Idl × List α) (r : Rep α) (h : mkRep t = .ok r) :
    r.name = t.1 ∧ Idl.normalise t.2.1 = .ok r.idl ∧ t.2.2.length = r.idl.len
      ∧ r.deltas.length = t.2.2.length := by
  unfold mkRep at h
  split at h
  · rename_i i hi
    split at h
    · cases h
    · rename_i hl
      injection h with h
      subst h
      exact ⟨rfl, hi, by simpa using hl, by simp⟩
  all_goals cases h

/-- the per-chain clauses of the invariant -/
def repOK (r : Rep α) : Bool :=
  (Idl.strictInc r.idl.toList
    && r.deltas.length == r.idl.len
    && (match r.idl with
        | .range _ _ st => decide (st > 0)
        | .list l => !equallySpaced l))
  && (match r.idl with | .range _ n _ => decide (2 ≤ n) | .list _ => true)

omit [Scalar α] in
theorem repOK_of (i : Idl) (hs : Idl.strictInc i.toList = true) (h2 : 2 ≤ i.len)
    (hiff : i.isRange = true ↔ equallySpaced i.toList = true)
    (r : Rep α) (hi : r.idl = i) (hd : r.deltas.length = i.len) : repOK r = true := by
  unfold repOK
  rw [hi]
  cases i with
  | range s n st =>
    have hn : 2 ≤ n := by simpa [Idl.len, C01b.length_toList_range] using h2
    have hst := pos_of_strictInc_range s n st hn hs
    simp [hs, hd, hst, hn]
  | list l =>
    have : equallySpaced l = false := by
      cases he : equallySpaced l with
      | false => rfl
      | true =>
        have := hiff.2 he
        simp [Idl.isRange] at this
    simp [hd, this]
    exact hs

theorem mkRep_wf (t : String × Idl × List α) (r : Rep α) (h : mkRep t = .ok r)
    (hlen : 4 < t.2.2.length) (hstep : ∀ s n st, t.2.1 = .range s n st → st ≠ 0) :
    repOK r = true := by
  obtain ⟨_, hnorm, hl, hd⟩ := mkRep_ok t r h
  have h2 : 2 ≤ r.idl.len := by omega
  cases ht : t.2.1 with
  | range s n st =>
    rw [ht] at hnorm
    obtain ⟨hst, hi⟩ := normalise_range_ok s n st _ hnorm
    have hpos : 0 < st := by
      have := hstep s n st ht
      omega
    have hn : 2 ≤ n := by
      rw [hi] at h2
      simpa [Idl.len, C01b.length_toList_range] using h2
    apply repOK_of (.range s n st) (strictInc_range_of_pos s n st hpos) (by rw [← hi]; exact h2) ?_ r hi
      (by rw [← hi, hd, hl])
    rw [C01b.equallySpaced_range]
    simp [Idl.isRange, hn]
  | list l =>
    rw [ht] at hnorm
    obtain ⟨hs, hi⟩ := normalise_list_ok l _ hnorm
    have hno := C01b.normOr_list l hs
    rw [← hi] at hno
    apply repOK_of r.idl (by rw [hno.1]; exact hs) h2 (by rw [hno.1]; exact hno.2) r rfl (by rw [hd, hl])

theorem forall₂_map_eq {ε β γ δ : Type} (f : β → Except ε γ) (g : γ → δ) (k : β → δ)
    (hk : ∀ a r, f a = .ok r → g r = k a) (l : List β) (rs : List γ)
    (h : List.Forall₂ (fun a r => f a = .ok r) l rs) : rs.map g = l.map k := by
  induction h with
  | nil => rfl
  | cons hab _ ih => simp [hk _ _ hab, ih]

theorem forall₂_mem {ε β γ : Type} (f : β → Except ε γ) (l : List β) (rs : List γ)
    (h : List.Forall₂ (fun a r => f a = .ok r) l rs) : ∀ r ∈ rs, ∃ a ∈ l, f a = .ok r := by
  induction h with
  | nil => intro r hr; cases hr
  | cons hab _ ih =>
    intro r hr
    rcases List.mem_cons.1 hr with rfl | hr
    · exact ⟨_, by simp, hab⟩
    · obtain ⟨a, ha, hfa⟩ := ih r hr
      exact ⟨a, by simp [ha], hfa⟩

omit [Scalar α] in
theorem length_mkIdls (samples : List (List α)) (names : List String) (idl : Option (List Idl))
    (hlen : samples.length = names.length) (hil : ∀ il, idl = some il → il.length = names.length) :
    (mkIdls samples idl).length = names.length := by
  cases idl with
  | none => simp [mkIdls, hlen]
  | some il => simpa [mkIdls] using hil il rfl

omit [Scalar α] in
theorem mkTriples_names (samples : List (List α)) (names : List String) (idl : Option (List Idl))
    (hlen : samples.length = names.length) (hil : ∀ il, idl = some il → il.length = names.length) :
    (mkTriples samples names idl).map (·.1) = Py.sortBy (fun a b => decide (a ≤ b)) names := by
  unfold mkTriples
  refine Eq.trans (map_sortBy Prod.fst (fun (a b : String) => decide (a ≤ b)) _) ?_
  rw [List.map_fst_zip]
  rw [List.length_zip, length_mkIdls samples names idl hlen hil, hlen]
  simp

omit [Scalar α] in
theorem mem_mkTriples (samples : List (List α)) (names : List String) (idl : Option (List Idl))
    (t : String × Idl × List α) (ht : t ∈ mkTriples samples names idl) :
    t.1 ∈ names ∧ t.2.1 ∈ mkIdls samples idl ∧ t.2.2 ∈ samples := by
  unfold mkTriples at ht
  rw [C01b.mem_sortBy] at ht
  obtain ⟨n, i, s⟩ := t
  have h1 := List.of_mem_zip ht
  have h2 := List.of_mem_zip h1.2
  exact ⟨h1.1, h2.1, h2.2⟩

omit [Scalar α] in
theorem mkIdls_step (samples : List (List α)) (idl : Option (List Idl))
    (hstep : ∀ il, idl = some il → ∀ s n st, Idl.range s n st ∈ il → st ≠ 0) :
    ∀ s n st, Idl.range s n st ∈ mkIdls samples idl → st ≠ 0 := by
  intro s n st hmem
  cases idl with
  | some il => exact hstep il rfl s n st hmem
  | none =>
    simp only [mkIdls, List.mem_map] at hmem
    obtain ⟨x, _, hx⟩ := hmem
    injection hx with _ _ h3
    omega

/-- the names of the constructed observable are strictly sorted -/
theorem sorted_names_of_checks (names : List String)
    (huniq : 1 < names.length → (Py.sortedSetStr names).length = names.length) :
    strictSortedStr (Py.sortBy (fun a b => decide (a ≤ b)) names) = true := by
  apply strictSortedStr_of_pairwise
  by_cases h1 : 1 < names.length
  · exact sortBy_strict_of_unique names (huniq h1)
  · apply pairwise_lt_of_length_le_one
    rw [(perm_sortBy _ names).length_eq]
    omega

theorem two_le_length_of_mem_ne {β : Type} {l : List β} {a b : β} (ha : a ∈ l) (hb : b ∈ l)
    (hne : a ≠ b) : 2 ≤ l.length := by
  match l, ha, hb with
  | [x], ha, hb =>
    rw [List.mem_singleton] at ha hb
    exact absurd (ha.trans hb.symm) hne
  | x :: y :: r, _, _ => simp

/-! ### propagation -/

theorem collectCov_spec (covEq : List (List ℝ) → List (List ℝ) → Bool) (l : List (CovIn ℝ))
    (acc res : List (String × List (List ℝ))) (h : collectCov covEq l acc = .ok res) :
    ∀ p ∈ res, p ∈ acc ∨ ∃ c ∈ l, c.name = p.1 ∧ c.cov = p.2 := by
  induction l generalizing acc with
  | nil =>
    simp only [collectCov] at h
    injection h with h
    subst h
    intro p hp
    exact Or.inl hp
  | cons c cs ih =>
    simp only [collectCov] at h
    intro p hp
    split at h
    · split at h
      · rcases ih _ h p hp with h1 | ⟨c', hc', h2⟩
        · exact Or.inl h1
        · exact Or.inr ⟨c', by simp [hc'], h2⟩
      · cases h
    · rcases ih _ h p hp with h1 | ⟨c', hc', h2⟩
      · rcases List.mem_append.1 h1 with h1 | h1
        · exact Or.inl h1
        · rw [List.mem_singleton] at h1
          subst h1
          exact Or.inr ⟨c, by simp, rfl, rfl⟩
      · exact Or.inr ⟨c', by simp [hc'], h2⟩

theorem derivedObs_ok' {f : List ℝ → ℝ} {g : List ℝ} {xs : List (Obs ℝ)}
    {covEq : List (List ℝ) → List (List ℝ) → Bool} {o : Obs ℝ}
    (h : derivedObs f g xs covEq = .ok o) :
    ∃ allcov, collectCov covEq (xs.flatMap (·.covs)) [] = .ok allcov ∧ o = derivedCore f g xs allcov := by
  unfold derivedObs at h
  split at h
  · cases h
  · split at h
    · cases h
    · rename_i allcov hc
      split at h
      · cases h
      · injection h with h
        exact ⟨allcov, hc, h.symm⟩

theorem filterMap_map_sublist {β γ : Type} (F : β → Option γ) (k : γ → β)
    (hk : ∀ n c, F n = some c → k c = n) (L : List β) : ((L.filterMap F).map k).Sublist L := by
  induction L with
  | nil => simp
  | cons n t ih =>
    rw [List.filterMap_cons]
    cases hF : F n with
    | none => exact ih.trans (List.sublist_cons_self _ _)
    | some c =>
      simp only [List.map_cons]
      rw [hk n c hF]
      exact ih.cons_cons n

/-- the covariance inputs of the result -/
theorem derivedCore_covs_full (f : List ℝ → ℝ) (g : List ℝ) (xs : List (Obs ℝ))
    (allcov : List (String × List (List ℝ))) :
    (derivedCore f g xs allcov).covNames.Sublist (Py.sortedSetStr (xs.flatMap (·.covNames))) ∧
    ∀ c ∈ (derivedCore f g xs allcov).covs,
      (c.name, c.cov) ∈ allcov ∧
      ∃ p ps, C01b.partsOf g xs c.name = p :: ps ∧ c.grad = ps.foldl addLists p := by
  constructor
  · simp only [Obs.covNames, derivedCore]
    apply filterMap_map_sublist
    intro n c hc
    split at hc
    · injection hc with hc
      subst hc
      rfl
    · cases hc
  · intro c hc
    simp only [derivedCore, List.mem_filterMap] at hc
    obtain ⟨n, _, hc⟩ := hc
    split at hc
    · rename_i k m p ps hfind hparts
      injection hc with hc
      subst hc
      have hmem := List.mem_of_find?_eq_some hfind
      have hk := List.find?_some hfind
      simp only [beq_iff_eq] at hk
      subst hk
      exact ⟨hmem, p, ps, hparts, rfl⟩
    · cases hc

theorem length_foldl_addLists (ps : List (List ℝ)) (p : List ℝ) (h : ∀ q ∈ ps, q.length = p.length) :
    (ps.foldl addLists p).length = p.length := by
  induction ps generalizing p with
  | nil => rfl
  | cons q qs ih =>
    have hq := h q (by simp)
    have hlen := C01b.length_addLists p q hq
    rw [List.foldl_cons, ih (addLists p q) (fun q' hq' => by rw [hlen]; exact h q' (by simp [hq'])), hlen]

theorem wf_cov {o : Obs ℝ} (h : o.WF = true) :
    (∀ n ∈ o.covNames, n.contains '|' = false) ∧
    (∀ c ∈ o.covs, c.cov.length = c.grad.length ∧ ∀ row ∈ c.cov, row.length = c.grad.length) := by
  simp only [Obs.WF, Bool.and_eq_true, List.all_eq_true, beq_iff_eq, Bool.not_eq_true'] at h
  exact ⟨fun n hn => (h.1.2 n hn).1, fun c hc => h.2 c hc⟩

theorem mem_newSampleNames (xs : List (Obs ℝ)) (n : String) (hn : n ∈ newSampleNames xs) :
    (∃ x ∈ xs, ∃ q ∈ x.reps, q.name = n) ∧ n ∉ Py.sortedSetStr (xs.flatMap (·.covNames)) := by
  simp only [newSampleNames, List.mem_filter, mem_sortedSetStr, List.mem_flatMap, List.mem_append,
    Bool.not_eq_true', List.contains_eq_mem, decide_eq_false_iff_not] at hn
  obtain ⟨⟨x, hx, hmem⟩, hnot⟩ := hn
  refine ⟨?_, fun hc => hnot (by simpa [mem_sortedSetStr, List.mem_flatMap] using hc)⟩
  rcases hmem with hmem | hmem
  · simp only [Obs.names, List.mem_map] at hmem
    obtain ⟨q, hq, hqn⟩ := hmem
    exact ⟨x, hx, q, hq, hqn⟩
  · exfalso
    exact hnot ⟨x, hx, hmem⟩

theorem rep?_of_mem (x : Obs ℝ) (q : Rep ℝ) (hq : q ∈ x.reps) : ∃ q', x.rep? q.name = some q' := by
  unfold Obs.rep?
  have : (x.reps.find? (fun r => r.name == q.name)).isSome = true := by
    rw [List.find?_isSome]
    exact ⟨q, hq, by simp⟩
  exact Option.isSome_iff_exists.1 this

theorem two_le_union (xs : List (Obs ℝ)) (hwf : ∀ x ∈ xs, x.WF = true)
    (hlen2 : ∀ x ∈ xs, ∀ q ∈ x.reps, 2 ≤ q.idl.len) (n : String) (hn : n ∈ newSampleNames xs) :
    2 ≤ (Spec.unionCfgs xs n).length := by
  obtain ⟨⟨x, hx, q, hq, hqn⟩, _⟩ := mem_newSampleNames xs n hn
  obtain ⟨q', hq'⟩ := rep?_of_mem x q hq
  rw [hqn] at hq'
  have hmem := (C01b.rep?_mem hq').1
  have h2 := hlen2 x hx q' hmem
  have hs := C01b.wf_strictInc (hwf x hx) q' hmem
  have hsub := cfgs_sub_union xs n x hx q' hq'
  unfold Idl.len at h2
  match hl : q'.idl.toList, h2 with
  | a :: b :: t, _ =>
    rw [hl] at hs hsub
    simp only [Idl.strictInc, Bool.and_eq_true, decide_eq_true_eq] at hs
    exact two_le_length_of_mem_ne (hsub a (by simp)) (hsub b (by simp)) (by omega)

/-- length of the fluctuation vector of every chain of the result -/
theorem derivedCore_deltas_length (f : List ℝ → ℝ) (g : List ℝ) (xs : List (Obs ℝ))
    (allcov : List (String × List (List ℝ))) (hwf : ∀ x ∈ xs, x.WF = true) :
    ∀ r ∈ (derivedCore f g xs allcov).reps,
      r.name ∈ newSampleNames xs ∧ r.deltas.length = (Spec.unionCfgs xs r.name).length := by
  intro r hr
  rw [PV.derivedCore_reps] at hr
  simp only [newIdlD, List.map_map, List.mem_map, Function.comp] at hr
  obtain ⟨n, hn, rfl⟩ := hr
  have hname : (resRep f g xs (n, mergeIdx (xs.filterMap (fun o => (o.rep? n).map (·.idl))))).name = n := by
    unfold resRep; split <;> rfl
  have hdel : (resRep f g xs (n, mergeIdx (xs.filterMap (fun o => (o.rep? n).map (·.idl))))).deltas
      = newDeltas g xs (newIdlD xs) n (mergeIdx (xs.filterMap (fun o => (o.rep? n).map (·.idl)))) := by
    unfold resRep; split <;> rfl
  rw [hname, hdel, newDeltas_eq g xs hwf n]
  exact ⟨hn, by simp⟩

end PV.C04
