/-
  PV.Proofs.C01bLemmas — helper lemmas for PV/Todo/C01b.lean:
  `Py.sortedSet` (membership, strict monotonicity, uniqueness), `Idl.diffs`, `Idl.normalise`,
  `mergeIdx`, and the shape of the result of `derivedObs`.
-/
import Mathlib.Algebra.BigOperators.Group.List.Basic
import Mathlib.Tactic.Ring
import Mathlib.Tactic.Linarith
import PV.Proofs.RealScalar
import PV.Spec.Propagate

namespace PV.C01b
open Scalar PV

/-! ### sorting -/

theorem mem_insertSorted {α} (le : α → α → Bool) (x y : α) (l : List α) :
    y ∈ Py.insertSorted le x l ↔ y = x ∨ y ∈ l := by
  induction l with
  | nil => simp [Py.insertSorted]
  | cons z zs ih =>
    simp only [Py.insertSorted]
    split
    · simp [ih]; tauto
    · simp

theorem mem_foldl_insertSorted {α} (le : α → α → Bool) (y : α) (l acc : List α) :
    y ∈ l.foldl (fun acc x => Py.insertSorted le x acc) acc ↔ y ∈ acc ∨ y ∈ l := by
  induction l generalizing acc with
  | nil => simp
  | cons z zs ih => simp [ih, mem_insertSorted]; tauto

theorem mem_sortBy {α} (le : α → α → Bool) (y : α) (l : List α) :
    y ∈ Py.sortBy le l ↔ y ∈ l := by
  simp [Py.sortBy, mem_foldl_insertSorted]

theorem pairwise_insertSorted (x : Int) (l : List Int) (h : l.Pairwise (· ≤ ·)) :
    (Py.insertSorted (fun a b => decide (a ≤ b)) x l).Pairwise (· ≤ ·) := by
  induction l with
  | nil => simp [Py.insertSorted]
  | cons z zs ih =>
    simp only [Py.insertSorted]
    rw [List.pairwise_cons] at h
    split
    · rename_i hzx
      simp at hzx
      rw [List.pairwise_cons]
      refine ⟨?_, ih h.2⟩
      intro a ha
      rw [mem_insertSorted] at ha
      rcases ha with rfl | ha
      · exact hzx
      · exact h.1 a ha
    · rename_i hzx
      simp at hzx
      rw [List.pairwise_cons]
      refine ⟨?_, List.pairwise_cons.2 h⟩
      intro a ha
      rcases List.mem_cons.1 ha with rfl | ha
      · omega
      · have := h.1 a ha; omega

theorem pairwise_foldl_insertSorted (l acc : List Int) (h : acc.Pairwise (· ≤ ·)) :
    (l.foldl (fun acc x => Py.insertSorted (fun a b => decide (a ≤ b)) x acc) acc).Pairwise (· ≤ ·) := by
  induction l generalizing acc with
  | nil => simpa
  | cons z zs ih => exact ih _ (pairwise_insertSorted z acc h)

theorem pairwise_sortBy (l : List Int) :
    (Py.sortBy (fun a b => decide (a ≤ b)) l).Pairwise (· ≤ ·) :=
  pairwise_foldl_insertSorted l [] List.Pairwise.nil

theorem mem_dedupSorted (y : Int) (l : List Int) : y ∈ Py.dedupSorted l ↔ y ∈ l := by
  fun_induction Py.dedupSorted l with
  | case1 => simp
  | case2 x => simp
  | case3 x z r hxz ih =>
    simp at hxz; subst hxz
    rw [ih]; simp
  | case4 x z r hxz ih =>
    simp [ih]

theorem pairwise_dedupSorted (l : List Int) (h : l.Pairwise (· ≤ ·)) :
    (Py.dedupSorted l).Pairwise (· < ·) := by
  fun_induction Py.dedupSorted l with
  | case1 => simp
  | case2 x => simp
  | case3 x z r hxz ih => exact ih (List.pairwise_cons.1 h).2
  | case4 x z r hxz ih =>
    simp at hxz
    rw [List.pairwise_cons] at h
    rw [List.pairwise_cons]
    refine ⟨?_, ih h.2⟩
    intro a ha
    rw [mem_dedupSorted] at ha
    have hz := h.1 z (by simp)
    have hxz' : x < z := by omega
    rcases List.mem_cons.1 ha with rfl | ha
    · exact hxz'
    · have := (List.pairwise_cons.1 h.2).1 a ha; omega

theorem mem_sortedSet (y : Int) (l : List Int) : y ∈ Py.sortedSet l ↔ y ∈ l := by
  simp [Py.sortedSet, mem_dedupSorted, mem_sortBy]

theorem pairwise_sortedSet (l : List Int) : (Py.sortedSet l).Pairwise (· < ·) :=
  pairwise_dedupSorted _ (pairwise_sortBy l)

/-- two strictly increasing lists with the same elements are equal -/
theorem eq_of_pairwise_lt (a b : List Int) (ha : a.Pairwise (· < ·)) (hb : b.Pairwise (· < ·))
    (h : ∀ x, x ∈ a ↔ x ∈ b) : a = b := by
  induction a generalizing b with
  | nil =>
    cases b with
    | nil => rfl
    | cons y ys => have := (h y).2 (by simp); simp at this
  | cons x xs ih =>
    cases b with
    | nil => have := (h x).1 (by simp); simp at this
    | cons y ys =>
      rw [List.pairwise_cons] at ha hb
      have hxy : x = y := by
        have h1 := (h x).1 (by simp)
        have h2 := (h y).2 (by simp)
        rcases List.mem_cons.1 h1 with h1 | h1
        · exact h1
        · rcases List.mem_cons.1 h2 with h2 | h2
          · exact h2.symm
          · have := ha.1 y h2; have := hb.1 x h1; omega
      subst hxy
      congr 1
      apply ih ys ha.2 hb.2
      intro z
      constructor
      · intro hz
        have := (h z).1 (List.mem_cons_of_mem _ hz)
        rcases List.mem_cons.1 this with rfl | h'
        · have := ha.1 z hz; omega
        · exact h'
      · intro hz
        have := (h z).2 (List.mem_cons_of_mem _ hz)
        rcases List.mem_cons.1 this with rfl | h'
        · have := hb.1 z hz; omega
        · exact h'

theorem sortedSet_eq_of (l u : List Int) (hu : u.Pairwise (· < ·)) (h : ∀ x, x ∈ u ↔ x ∈ l) :
    Py.sortedSet l = u :=
  eq_of_pairwise_lt _ _ (pairwise_sortedSet l) hu (fun x => by rw [mem_sortedSet, h])

/-! ### strictInc, diffs, ranges -/

theorem strictInc_iff (l : List Int) : Idl.strictInc l = true ↔ l.Pairwise (· < ·) := by
  fun_induction Idl.strictInc l with
  | case1 x y r ih =>
    simp only [Bool.and_eq_true, decide_eq_true_eq, ih]
    constructor
    · rintro ⟨hxy, hp⟩
      rw [List.pairwise_cons]
      refine ⟨?_, hp⟩
      intro a ha
      rcases List.mem_cons.1 ha with rfl | ha
      · exact hxy
      · have := (List.pairwise_cons.1 hp).1 a ha; omega
    · intro hp
      rw [List.pairwise_cons] at hp
      exact ⟨hp.1 y (by simp), hp.2⟩
  | case2 l hl =>
    cases l with
    | nil => simp
    | cons x t =>
      cases t with
      | nil => simp
      | cons y r => exact absurd rfl (hl x y r)

theorem strictInc_sortedSet (l : List Int) : Idl.strictInc (Py.sortedSet l) = true :=
  (strictInc_iff _).2 (pairwise_sortedSet l)

theorem diffs_pos_of_strictInc (l : List Int) (h : Idl.strictInc l = true) :
    ∀ d ∈ Idl.diffs l, 0 < d := by
  fun_induction Idl.diffs l with
  | case1 x y r ih =>
    simp only [Idl.strictInc, Bool.and_eq_true, decide_eq_true_eq] at h
    intro d hd
    rcases List.mem_cons.1 hd with rfl | hd
    · omega
    · exact ih h.2 d hd
  | case2 l hl => simp

theorem toList_range_succ (s : Int) (n : Nat) (st : Int) :
    (Idl.range s (n + 1) st).toList = s :: (Idl.range (s + st) n st).toList := by
  simp only [Idl.toList, List.range_succ_eq_map, List.map_cons, List.map_map]
  congr 1
  · simp
  · apply List.map_congr_left
    intro k _
    simp only [Function.comp]
    push_cast
    ring

theorem length_toList_range (s : Int) (n : Nat) (st : Int) : (Idl.range s n st).toList.length = n := by
  simp [Idl.toList]

theorem diffs_range (s : Int) (n : Nat) (st : Int) :
    Idl.diffs (Idl.range s n st).toList = List.replicate (n - 1) st := by
  induction n generalizing s with
  | zero => simp [Idl.toList, Idl.diffs]
  | succ n ih =>
    rw [toList_range_succ]
    cases n with
    | zero => simp [Idl.toList, Idl.diffs]
    | succ m =>
      have := ih (s + st)
      rw [toList_range_succ] at this ⊢
      simp only [Idl.diffs] at this ⊢
      rw [this]
      simp [List.replicate_succ]

/-- a list all of whose differences equal `d` is the arithmetic progression from its head -/
theorem toList_range_of_diffs (l : List Int) (d : Int) (h : ∀ e ∈ Idl.diffs l, e = d) :
    (Idl.range (l.headD 0) l.length d).toList = l := by
  induction l with
  | nil => simp [Idl.toList]
  | cons x t ih =>
    cases t with
    | nil => simp [Idl.toList]
    | cons y r =>
      simp only [Idl.diffs, List.mem_cons, forall_eq_or_imp] at h
      have := ih h.2
      simp only [List.length_cons, List.headD_cons] at this ⊢
      rw [toList_range_succ]
      have hy : x + d = y := by omega
      rw [hy, this]

theorem equallySpaced_iff (l : List Int) :
    equallySpaced l = true ↔ Idl.diffs l ≠ [] ∧ ∃ d, ∀ e ∈ Idl.diffs l, e = d := by
  unfold equallySpaced
  split
  · rename_i h; simp [h]
  · rename_i d ds h
    rw [h]
    simp only [List.all_eq_true, beq_iff_eq, ne_eq, reduceCtorEq, not_false_eq_true, List.mem_cons,
      forall_eq_or_imp, true_and]
    constructor
    · intro hh; exact ⟨d, rfl, hh⟩
    · rintro ⟨d', h1, h2⟩ e he
      rw [h2 e he, h1]

theorem equallySpaced_range (s : Int) (n : Nat) (st : Int) :
    equallySpaced (Idl.range s n st).toList = true ↔ 2 ≤ n := by
  rw [equallySpaced_iff, diffs_range]
  constructor
  · rintro ⟨h, _⟩
    by_contra hn
    have : n - 1 = 0 := by omega
    simp [this] at h
  · intro hn
    refine ⟨?_, st, ?_⟩
    · obtain ⟨m, hm⟩ : ∃ m, n - 1 = m + 1 := ⟨n - 2, by omega⟩
      simp [hm, List.replicate_succ]
    · intro e he
      exact (List.mem_replicate.1 he).2

/-! ### normalisation -/

/-- what `derivedCore` does to the merged configuration list -/
def normOr (i : Idl) : Idl :=
  match Idl.normalise i with
  | .ok j => j
  | .error _ => i

theorem normOr_range (s : Int) (n : Nat) (st : Int) : normOr (Idl.range s n st) = Idl.range s n st := by
  simp only [normOr, Idl.normalise]
  by_cases h : st < 0 <;> simp [h]

theorem sortedSet_singleton_of (l : List Int) (d : Int) (hne : l ≠ []) (h : ∀ e ∈ l, e = d) :
    Py.sortedSet l = [d] := by
  apply sortedSet_eq_of
  · simp
  · intro x
    simp only [List.mem_singleton]
    constructor
    · rintro rfl
      cases l with
      | nil => exact absurd rfl hne
      | cons y t => rw [← h y (by simp)]; simp
    · exact h x

theorem normOr_list (l : List Int) (hs : Idl.strictInc l = true) :
    (normOr (Idl.list l)).toList = l ∧
    ((normOr (Idl.list l)).isRange = true ↔ equallySpaced l = true) := by
  have hpos := diffs_pos_of_strictInc l hs
  have h1 : (Py.sortedSet (Idl.diffs l)).any (· < 0) = false := by
    rw [List.any_eq_false]
    intro x hx
    have := hpos x ((mem_sortedSet _ _).1 hx)
    simp; omega
  have h2 : (Py.sortedSet (Idl.diffs l)).any (· == 0) = false := by
    rw [List.any_eq_false]
    intro x hx
    have := hpos x ((mem_sortedSet _ _).1 hx)
    simp; omega
  unfold normOr Idl.normalise
  simp only [h1, h2, Bool.false_eq_true, if_false]
  split
  · rename_i j hj
    split at hj
    · rename_i d hd
      injection hj with hj
      subst hj
      have hall : ∀ e ∈ Idl.diffs l, e = d := by
        intro e he
        have := (mem_sortedSet e _).2 he
        rw [hd] at this
        simpa using this
      refine ⟨toList_range_of_diffs l d hall, ?_⟩
      simp only [Idl.isRange, true_iff]
      rw [equallySpaced_iff]
      refine ⟨?_, d, hall⟩
      intro hnil
      have : d ∈ Py.sortedSet (Idl.diffs l) := by rw [hd]; simp
      rw [mem_sortedSet, hnil] at this
      simp at this
    · rename_i hne
      injection hj with hj
      subst hj
      refine ⟨rfl, ?_⟩
      simp only [Idl.isRange, Bool.false_eq_true, false_iff]
      intro he
      rw [equallySpaced_iff] at he
      obtain ⟨hnil, d, hd⟩ := he
      exact hne d (sortedSet_singleton_of _ d hnil hd)
  · rename_i e he
    split at he <;> cases he

theorem normOr_toList (i : Idl) (hs : Idl.strictInc i.toList = true) : (normOr i).toList = i.toList := by
  cases i with
  | range s n st => rw [normOr_range]
  | list l => exact (normOr_list l hs).1

theorem normOr_isRange_iff (i : Idl) (hs : Idl.strictInc i.toList = true)
    (hr : ∀ s n st, i = Idl.range s n st → 2 ≤ n) :
    (normOr i).isRange = true ↔ equallySpaced (normOr i).toList = true := by
  cases i with
  | range s n st =>
    rw [normOr_range, equallySpaced_range]
    simp only [Idl.isRange, true_iff]
    exact hr s n st rfl
  | list l =>
    rw [(normOr_list l hs).1]
    exact (normOr_list l hs).2

/-! ### mergeIdx -/

theorem sortedSet_nil : Py.sortedSet [] = [] := by
  simp [Py.sortedSet, Py.sortBy, Py.dedupSorted]

theorem mergeIdx_spec (L : List Idl) (hL : ∀ i ∈ L, Idl.strictInc i.toList = true) :
    (mergeIdx L).toList = Py.sortedSet (L.flatMap Idl.toList) ∧
    (mergeIdx L ∈ L ∨ ∀ s n st, mergeIdx L = Idl.range s n st → 2 ≤ n) := by
  cases L with
  | nil =>
    refine ⟨by simp [mergeIdx, Idl.toList, sortedSet_nil], Or.inr ?_⟩
    intro s n st h
    simp [mergeIdx] at h
  | cons i0 rest =>
    simp only [mergeIdx]
    split
    · rename_i hall
      refine ⟨?_, Or.inl (by simp)⟩
      symm
      apply sortedSet_eq_of _ _ ((strictInc_iff _).1 (hL i0 (by simp)))
      intro x
      simp only [List.flatMap_cons, List.mem_append, List.mem_flatMap]
      constructor
      · intro hx; exact Or.inl hx
      · rintro (hx | ⟨i, hi, hx⟩)
        · exact hx
        · rw [List.all_eq_true] at hall
          have := hall i hi
          simp only [Idl.sameSeq, Bool.and_eq_true, beq_iff_eq] at this
          rw [← this.1]; exact hx
    · generalize hu : Py.sortedSet ((i0 :: rest).flatMap Idl.toList) = u
      split
      · rename_i a b t
        split
        · rename_i heq
          simp only [beq_iff_eq] at heq
          refine ⟨heq, Or.inr ?_⟩
          intro s n st hr
          injection hr with h1 h2 h3
          have := congrArg List.length heq
          rw [length_toList_range] at this
          rw [← h2, this]
          simp
        · refine ⟨rfl, Or.inr ?_⟩
          intro s n st hr
          cases hr
      · refine ⟨rfl, Or.inr ?_⟩
        intro s n st hr
        cases hr

theorem flatMap_cfgs (xs : List (Obs ℝ)) (n : String) :
    (xs.filterMap (fun o => (o.rep? n).map (·.idl))).flatMap Idl.toList
      = xs.flatMap (fun o => Spec.cfgs o n) := by
  induction xs with
  | nil => simp
  | cons x t ih =>
    simp only [Spec.cfgs] at ih ⊢
    simp only [List.filterMap_cons, List.flatMap_cons]
    cases h : x.rep? n with
    | none => simp [ih]
    | some r => simp [ih]

theorem rep?_mem {o : Obs ℝ} {n : String} {r : Rep ℝ} (h : o.rep? n = some r) :
    r ∈ o.reps ∧ r.name = n := by
  unfold Obs.rep? at h
  refine ⟨List.mem_of_find?_eq_some h, ?_⟩
  have := List.find?_some h
  simpa using this

theorem wf_strictInc {o : Obs ℝ} (h : o.WF = true) : ∀ r ∈ o.reps, Idl.strictInc r.idl.toList = true := by
  intro r hr
  simp only [Obs.WF, Bool.and_eq_true, List.all_eq_true] at h
  exact (h.1.1.1.2 r hr).1.1

/-- the configuration lists that are merged for chain `n` -/
def idlsOf (xs : List (Obs ℝ)) (n : String) : List Idl := xs.filterMap (fun o => (o.rep? n).map (·.idl))

theorem idlsOf_strictInc (xs : List (Obs ℝ)) (hwf : ∀ x ∈ xs, x.WF = true) (n : String) :
    ∀ i ∈ idlsOf xs n, Idl.strictInc i.toList = true := by
  intro i hi
  simp only [idlsOf, List.mem_filterMap, Option.map_eq_some_iff] at hi
  obtain ⟨x, hx, r, hr, rfl⟩ := hi
  exact wf_strictInc (hwf x hx) r (rep?_mem hr).1

theorem idlsOf_mem (xs : List (Obs ℝ)) (n : String) (i : Idl) (hi : i ∈ idlsOf xs n) :
    ∃ x ∈ xs, ∃ r ∈ x.reps, r.idl = i := by
  simp only [idlsOf, List.mem_filterMap, Option.map_eq_some_iff] at hi
  obtain ⟨x, hx, r, hr, rfl⟩ := hi
  exact ⟨x, hx, r, (rep?_mem hr).1, rfl⟩

/-! ### shape of the result -/

theorem derivedObs_ok {f : List ℝ → ℝ} {g : List ℝ} {xs : List (Obs ℝ)}
    {covEq : List (List ℝ) → List (List ℝ) → Bool} {o : Obs ℝ}
    (h : derivedObs f g xs covEq = .ok o) : ∃ allcov, o = derivedCore f g xs allcov := by
  unfold derivedObs at h
  split at h
  · cases h
  · split at h
    · cases h
    · rename_i allcov _
      split at h
      · cases h
      · injection h with h
        exact ⟨allcov, h.symm⟩

theorem derivedCore_reps (f : List ℝ → ℝ) (g : List ℝ) (xs : List (Obs ℝ))
    (allcov : List (String × List (List ℝ))) :
    ∀ r ∈ (derivedCore f g xs allcov).reps,
      r.name ∈ newSampleNames xs ∧ r.idl = normOr (mergeIdx (idlsOf xs r.name)) ∧
      r.rvalue = f (xs.map (fun x => match x.rep? r.name with | some q => q.rvalue | none => x.value)) := by
  intro r hr
  simp only [derivedCore, newIdlD, List.map_map, List.mem_map, Function.comp] at hr
  obtain ⟨n, hn, rfl⟩ := hr
  refine ⟨?_, ?_, ?_⟩
  · split <;> exact hn
  · simp only [normOr, idlsOf]
    split <;> simp_all
  · split <;>
    · simp only []
      congr 1
      apply List.map_congr_left
      intro x _
      cases x.rep? n <;> rfl

/-! ### covariance gradients -/

theorem cov?_mem {o : Obs ℝ} {n : String} {c : CovIn ℝ} (h : o.cov? n = some c) :
    c ∈ o.covs ∧ c.name = n := by
  unfold Obs.cov? at h
  refine ⟨List.mem_of_find?_eq_some h, ?_⟩
  have := List.find?_some h
  simpa using this

theorem getD_addLists (a b : List ℝ) (h : a.length = b.length) (k : Nat) :
    (addLists a b).getD k 0 = a.getD k 0 + b.getD k 0 := by
  induction a generalizing b k with
  | nil =>
    cases b with
    | nil => simp [addLists]
    | cons y ys => simp at h
  | cons x xs ih =>
    cases b with
    | nil => simp at h
    | cons y ys =>
      cases k with
      | zero => simp [addLists]
      | succ k =>
        have := ih ys (by simpa using h) k
        simpa [addLists] using this

theorem length_addLists (a b : List ℝ) (h : b.length = a.length) : (addLists a b).length = a.length := by
  simp [addLists, h]

theorem foldl_addLists (ps : List (List ℝ)) (p : List ℝ) (h : ∀ q ∈ ps, q.length = p.length) (k : Nat) :
    (ps.foldl addLists p).getD k 0 = p.getD k 0 + (ps.map (·.getD k 0)).sum := by
  induction ps generalizing p with
  | nil => simp
  | cons q qs ih =>
    have hq := h q (by simp)
    have hlen := length_addLists p q hq
    rw [List.foldl_cons, ih (addLists p q) (fun q' hq' => by rw [hlen]; exact h q' (by simp [hq'])),
      getD_addLists p q hq.symm]
    simp only [List.map_cons, List.sum_cons]
    ring

theorem getD_map_mul (l : List ℝ) (g : ℝ) (k : Nat) : (l.map (g * ·)).getD k 0 = g * l.getD k 0 := by
  simp only [List.getD_eq_getElem?_getD, List.getElem?_map]
  cases l[k]? <;> simp

/-- the scaled gradient columns that are summed for covariance input `n` -/
def partsOf (g : List ℝ) (xs : List (Obs ℝ)) (n : String) : List (List ℝ) :=
  (List.zip g xs).filterMap (fun p => (p.2.cov? n).map (fun c => c.grad.map (p.1 * ·)))

theorem derivedCore_covs (f : List ℝ → ℝ) (g : List ℝ) (xs : List (Obs ℝ))
    (allcov : List (String × List (List ℝ))) :
    ∀ c ∈ (derivedCore f g xs allcov).covs,
      ∃ p ps, partsOf g xs c.name = p :: ps ∧ c.grad = ps.foldl addLists p := by
  intro c hc
  simp only [derivedCore, List.mem_filterMap] at hc
  obtain ⟨n, _, hc⟩ := hc
  split at hc
  · rename_i m p ps _ hparts
    injection hc with hc
    subst hc
    exact ⟨p, ps, hparts, rfl⟩
  · cases hc

theorem partsOf_lengths (g : List ℝ) (xs : List (Obs ℝ)) (n : String)
    (hgrad : ∀ x ∈ xs, ∀ c ∈ x.covs, ∀ x' ∈ xs, ∀ c' ∈ x'.covs, c.name = c'.name → c.grad.length = c'.grad.length) :
    ∀ q ∈ partsOf g xs n, ∀ q' ∈ partsOf g xs n, q.length = q'.length := by
  intro q hq q' hq'
  simp only [partsOf, List.mem_filterMap, Option.map_eq_some_iff] at hq hq'
  obtain ⟨⟨a, x⟩, hx, c, hc, rfl⟩ := hq
  obtain ⟨⟨a', x'⟩, hx', c', hc', rfl⟩ := hq'
  have h1 := cov?_mem hc
  have h2 := cov?_mem hc'
  simp only [List.length_map]
  exact hgrad x (List.of_mem_zip hx).2 c h1.1 x' (List.of_mem_zip hx').2 c' h2.1 (by rw [h1.2, h2.2])

theorem covGrad_eq (g : List ℝ) (xs : List (Obs ℝ)) (n : String) (k : Nat) :
    Spec.covGrad g xs n k = ((partsOf g xs n).map (·.getD k 0)).sum := by
  simp only [Spec.covGrad, RealS.sum_eq, partsOf, List.map_filterMap]
  congr 1
  apply List.filterMap_congr
  rintro ⟨a, x⟩ _
  simp only [Option.map_map]
  cases x.cov? n with
  | none => rfl
  | some c =>
    simp only [Option.map_some, Function.comp]
    rw [getD_map_mul]
    simp

end PV.C01b
