/-
  PV.Proofs.C06bLemmas — Cauchy–Schwarz for the list inner product of the model and the bound on the
  per-ensemble normalised element of `covElement`.
-/
import PV.Model.Cov
import PV.Proofs.RealScalar
import Mathlib.Analysis.SpecialFunctions.Pow.Real
import Mathlib.Tactic.Linarith
import Mathlib.Tactic.Positivity
namespace PV.C06m
open Scalar PV PV.RealS

theorem dot_nil_right (a : List ℝ) : dot a [] = 0 := by cases a <;> simp [dot, ofNat_eq_lit, lit_eq]

theorem dot_self_nonneg : ∀ a : List ℝ, 0 ≤ dot a a
  | [] => by simp [dot, ofNat_eq_lit, lit_eq]
  | x :: a => by
    simp only [dot]
    have := dot_self_nonneg a
    nlinarith [mul_self_nonneg x]

/-- Cauchy–Schwarz for the list inner product (whatever the lengths) -/
theorem dot_sq_le : ∀ a b : List ℝ, dot a b ^ 2 ≤ dot a a * dot b b
  | [], b => by simp [dot, ofNat_eq_lit, lit_eq]
  | x :: a, [] => by simp [dot, ofNat_eq_lit, lit_eq]
  | x :: a, y :: b => by
    simp only [dot]
    have hs := dot_sq_le a b
    have hA := dot_self_nonneg a
    have hB := dot_self_nonneg b
    set s := dot a b
    set A := dot a a
    set B := dot b b
    have h1 : (2 * x * y * s) ^ 2 ≤ (x ^ 2 * B + y ^ 2 * A) ^ 2 := by
      nlinarith [mul_nonneg (sq_nonneg (x * y)) (sub_nonneg.2 hs), sq_nonneg (x ^ 2 * B - y ^ 2 * A)]
    have h2 : 0 ≤ x ^ 2 * B + y ^ 2 * A := by positivity
    have h3 := (abs_le_of_sq_le_sq' h1 h2).2
    nlinarith

theorem abs_dot_le (a b : List ℝ) : |dot a b| ≤ Real.sqrt (dot a a * dot b b) := by
  apply Real.abs_le_sqrt
  exact dot_sq_le a b

theorem abs_sum_le_of_terms (terms : List (ℝ × ℝ)) (h : ∀ t ∈ terms, |t.1| ≤ t.2) :
    |(terms.map (·.1)).sum| ≤ (terms.map (·.2)).sum := by
  induction terms with
  | nil => simp
  | cons t ts ih =>
    simp only [List.map_cons, List.sum_cons]
    have h1 := h t (by simp)
    have h2 := ih (fun u hu => h u (by simp [hu]))
    exact (abs_add_le _ _).trans (add_le_add h1 h2)

theorem ratio_le_one (terms : List (ℝ × ℝ)) (h : ∀ t ∈ terms, |t.1| ≤ t.2) :
    |(if isZero ((terms.map (·.1)).sum) then (0 : ℝ) else (terms.map (·.1)).sum / (terms.map (·.2)).sum)| ≤ 1 := by
  split
  · simp
  · have hb := abs_sum_le_of_terms terms h
    have hden : 0 ≤ (terms.map (·.2)).sum := le_trans (abs_nonneg _) hb
    rw [abs_div, abs_of_nonneg hden]
    exact div_le_one_of_le₀ hb hden

theorem abs_sum_le_length {β : Type} (l : List β) (g : β → ℝ) (h : ∀ e ∈ l, |g e| ≤ 1) :
    |(l.map g).sum| ≤ l.length := by
  induction l with
  | nil => simp
  | cons e es ih =>
    simp only [List.map_cons, List.sum_cons, List.length_cons, Nat.cast_add, Nat.cast_one]
    have h1 := h e (by simp)
    have h2 := ih (fun u hu => h u (by simp [hu]))
    linarith [abs_add_le (g e) (es.map g).sum]

/-- the element of the model for observables without covariance inputs is bounded by the number of common
    ensembles: per ensemble it is Σ_r <a_r,b_r> / Σ_r sqrt(<a_r,a_r><b_r,b_r>), of modulus at most one -/
theorem covElement_bound (o1 o2 : Obs ℝ) (hc : o1.covs = []) :
    |covElement o1 o2| ≤ ((o1.mcNames.filter (fun e => o2.mcNames.contains e)).length : ℝ) := by
  unfold covElement
  split
  · simp [ofNat_eq_lit, lit_eq]
  · simp only [hc, List.filterMap_nil, sum_eq, List.sum_nil, add_zero, ofNat_eq_lit, lit_eq, Nat.cast_zero]
    apply abs_sum_le_length
    intro e _
    apply ratio_le_one
    intro t ht
    simp only [List.mem_filterMap] at ht
    obtain ⟨⟨r1, r2⟩, _, hterm⟩ := ht
    simp only at hterm
    split at hterm
    · cases hterm
    · injection hterm with hterm
      subst hterm
      exact abs_dot_le _ _
end PV.C06m
