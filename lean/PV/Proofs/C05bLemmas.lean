/-
  PV.Proofs.C05bLemmas — what an accepted `reweight` call has computed (PV/Model/Combine.lean
  `reweight1`): the observable of the products w·o by configuration number, the normalisation, and
  the quotient.
-/
import Mathlib.Data.List.Forall2
import PV.Proofs.C05Lemmas

namespace PV.C05
open PV Scalar

theorem zipWith_swap_map {β γ δ : Type} (f : β → γ → δ) : ∀ (l₁ : List β) (l₂ : List γ),
    List.zipWith f l₁ l₂ = (List.zip l₂ l₁).map (fun p => f p.2 p.1)
  | [], l₂ => by cases l₂ <;> simp
  | _ :: _, [] => by simp
  | a :: as, b :: bs => by simp [zipWith_swap_map f as bs]

/-- the per-chain step of `rwWred` -/
def wredStep {α : Type} [Elem α] (w : Obs α) (r : Rep α) : Except CombErr (List α) :=
  match w.rep? r.name with
  | none => throw CombErr.ensemblesDoNotFit
  | some wr => match reduceDeltas wr.deltas wr.idl r.idl with
    | none => throw (CombErr.notSubset r.name)
    | some d => pure (d.map (· + wr.rvalue))

theorem wredStep_ok (w : Obs ℝ) (r : Rep ℝ) (ws : List ℝ) (h : wredStep w r = .ok ws) :
    ∃ wr d, w.rep? r.name = some wr ∧ reduceDeltas wr.deltas wr.idl r.idl = some d ∧ ws = d.map (· + wr.rvalue) := by
  unfold wredStep at h
  split at h
  · cases h
  rename_i wr hwr
  split at h
  · cases h
  rename_i d hd
  cases h
  exact ⟨wr, d, hwr, hd, rfl⟩

/-- one aligned chain: the entries of `ws` are `w`'s samples on the configuration numbers of `r` -/
theorem wred_aligned (w : Obs ℝ) (hw : w.WF = true) (r : Rep ℝ) (hr : r.idl.toList.Pairwise (· < ·))
    (ws : List ℝ) (h : wredStep w r = .ok ws) :
    ws.length = r.idl.len ∧
    ∀ c ∈ r.idl.toList, ∀ k, r.idl.pos? c = some k → ∃ x, ws[k]? = some x ∧ sampleAt' w r.name c = some x := by
  obtain ⟨wr, d, hwr, hd, rfl⟩ := wredStep_ok w r ws h
  obtain ⟨hnw, hrw⟩ := wf_parts hw
  have hwrm : wr ∈ w.reps := List.mem_of_find?_eq_some hwr
  have hold : Idl.strictInc wr.idl.toList = true := by
    simp only [Obs.WF, Bool.and_eq_true, List.all_eq_true] at hw
    exact (hw.1.1.1.2 wr hwrm).1.1
  have hnew : Idl.strictInc r.idl.toList = true := (C01b.strictInc_iff _).mpr hr
  obtain ⟨hlen, hlook⟩ := reduce_lookup wr.deltas wr.idl r.idl d hold hnew hd
  refine ⟨by simpa using hlen, ?_⟩
  intro c hc k hk
  obtain ⟨k', hk', hck, hpos⟩ := pos?_of_mem r.idl hr c hc
  rw [hk] at hpos
  cases hpos
  obtain ⟨j, hj, hdj⟩ := hlook k hk'
  have hgetD : r.idl.toList.getD k 0 = c := by
    rw [List.getD_eq_getElem?_getD, List.getElem?_eq_getElem hk', Option.getD_some, hck]
  rw [hgetD] at hj
  have hkd : k < d.length := by rw [hlen]; exact hk'
  have hdk : d[k]? = some d[k] := List.getElem?_eq_getElem hkd
  rw [hdk] at hdj
  refine ⟨d[k] + wr.rvalue, ?_, ?_⟩
  · rw [List.getElem?_map, hdk]; rfl
  · exact sampleAt'_of w r.name c wr j d[k] hwr hj hdj.symm


theorem rwWred_eq {α : Type} [Elem α] (w o : Obs α) : rwWred w o = o.reps.mapM (wredStep w) := rfl

/-- what an accepted `reweight(w, [o], all_configs=ac)` has computed: `wo`, the observable of the
    products w·o on o's configurations (paired by configuration number), the normalisation `nrm`
    (w itself, or w on o's configurations), and their quotient -/
theorem reweight_formula (w o res : Obs ℝ) (ac : Bool) (h : reweight1 w o ac = .ok res)
    (hwf : w.WF = true ∧ o.WF = true) :
    ∃ wo nrm : Obs ℝ,
      wo.names = o.names ∧
      (∃ S, mkObs S (o.reps.map (·.name)) (some (o.reps.map (·.idl))) = .ok wo) ∧
      (∀ r ∈ o.reps, ∀ c ∈ r.idl.toList, ∃ x y, sampleAt' w r.name c = some x ∧
        sampleAt' o r.name c = some y ∧ sampleAt' wo r.name c = some (x * y)) ∧
      (ac = true → nrm = w) ∧
      (ac = false → (∃ S, mkObs S (o.reps.map (·.name)) (some (o.reps.map (·.idl))) = .ok nrm) ∧ nrm.names = o.names ∧ ∀ r ∈ o.reps, ∀ c ∈ r.idl.toList, ∃ x,
        sampleAt' w r.name c = some x ∧ sampleAt' nrm r.name c = some x) ∧
      rwDiv wo nrm = .ok res := by
  rw [reweight1_eq] at h
  split at h
  · cases h
  split at h
  · cases h
  split at h
  · cases h
  split at h
  · cases h
  obtain ⟨u, _, h⟩ := bind_ok h
  unfold rwFinish at h
  obtain ⟨wred, hW, h⟩ := bind_ok' h
  rw [rwWred_eq] at hW
  have hF := mapM_ok _ _ _ hW
  obtain ⟨hlen, hZ⟩ := List.forall₂_iff_zip.mp hF
  obtain ⟨hno, hro⟩ := wf_parts hwf.2
  have hndo : o.names.Nodup := hno.imp (fun h => ne_of_lt h)
  have hZ1 : (o.reps.zip wred).map (·.1) = o.reps := List.map_fst_zip (by omega)
  have hn : o.reps.map (·.name) = (o.reps.zip wred).map (fun p => p.1.name) := by
    conv_lhs => rw [← hZ1]
    rw [List.map_map]; rfl
  have hg : o.reps.map (·.idl) = (o.reps.zip wred).map (fun p => p.1.idl) := by
    conv_lhs => rw [← hZ1]
    rw [List.map_map]; rfl
  have hws : wred = (o.reps.zip wred).map (fun p => p.2) := (List.map_snd_zip (by omega)).symm
  -- per chain: position, samples of w, o
  have hchain : ∀ r ∈ o.reps, ∃ ws, (r, ws) ∈ o.reps.zip wred ∧ ∀ c ∈ r.idl.toList, ∃ k x y,
      r.idl.pos? c = some k ∧ ws[k]? = some x ∧ (Rep.samples r)[k]? = some y ∧
      sampleAt' w r.name c = some x ∧ sampleAt' o r.name c = some y := by
    intro r hr
    rw [← hZ1] at hr
    obtain ⟨p, hp, rfl⟩ := List.mem_map.mp hr
    have hpo : p.1 ∈ o.reps := (List.of_mem_zip (a := p.1) (b := p.2) hp).1
    refine ⟨p.2, hp, ?_⟩
    intro c hc
    obtain ⟨_, hal⟩ := wred_aligned w hwf.1 p.1 (hro p.1 hpo).1 p.2 (hZ hp)
    obtain ⟨k, hk, _, hpos⟩ := pos?_of_mem p.1.idl (hro p.1 hpo).1 c hc
    obtain ⟨x, hx, hsx⟩ := hal c hc k hpos
    have hkd : k < p.1.deltas.length := by rw [(hro p.1 hpo).2]; exact hk
    obtain ⟨y, hsy⟩ : ∃ y, (Rep.samples p.1)[k]? = some y :=
      ⟨_, List.getElem?_eq_getElem (by simpa [Rep.samples] using hkd)⟩
    exact ⟨k, x, _, hpos, hx, hsy, hsx, sampleAt'_input o hndo p.1 hpo c k _ hpos hsy⟩
  simp only [bind, Except.bind, pure, Except.pure, throw, throwThe, MonadExceptOf.throw] at h
  split at h
  · rename_i tmp hmk
    have htn : tmp.names = o.names := (mkObs_rep _ _ _ _ hmk).2.1 (hno.imp (fun h => le_of_lt h))
    have htmps : ∀ r ∈ o.reps, ∀ c ∈ r.idl.toList, ∃ x y, sampleAt' w r.name c = some x ∧
        sampleAt' o r.name c = some y ∧ sampleAt' tmp r.name c = some (x * y) := by
      intro r hr c hc
      obtain ⟨ws, hp, hall⟩ := hchain r hr
      obtain ⟨k, x, y, hpos, hx, hy, hsx, hsy⟩ := hall c hc
      refine ⟨x, y, hsx, hsy, ?_⟩
      have hmem := mem_zip_map3 (fun p : Rep ℝ × List ℝ => p.1.name) (fun p => p.1.idl)
        (fun p => List.zipWith (· * ·) p.2 (Rep.samples p.1)) _ (r, ws) hp
      rw [← hn, ← hg, ← zipWith_swap_map (fun ws r => List.zipWith (· * ·) ws (Rep.samples r))] at hmem
      refine mkObs_sample _ _ _ _ hmk hndo _ _ _ hmem c k _ hpos ?_
      rw [List.getElem?_zipWith, hx, hy]
    split at h
    · rename_i hac
      exact ⟨tmp, w, htn, ⟨_, hmk⟩, htmps, fun _ => rfl, fun e => (by rw [hac] at e; cases e), h⟩
    · rename_i hac
      split at h
      · rename_i norm hmk2
        refine ⟨tmp, norm, htn, ⟨_, hmk⟩, htmps, fun e => absurd e hac, fun _ => ⟨⟨_, hmk2⟩, ?_, ?_⟩, h⟩
        · exact (mkObs_rep _ _ _ _ hmk2).2.1 (hno.imp (fun h => le_of_lt h))
        · intro r hr c hc
          obtain ⟨ws, hp, hall⟩ := hchain r hr
          obtain ⟨k, x, y, hpos, hx, hy, hsx, hsy⟩ := hall c hc
          refine ⟨x, hsx, ?_⟩
          have hmem := mem_zip_map3 (fun p : Rep ℝ × List ℝ => p.1.name) (fun p => p.1.idl)
            (fun p => p.2) _ (r, ws) hp
          rw [← hn, ← hg, ← hws] at hmem
          exact mkObs_sample _ _ _ _ hmk2 hndo _ _ _ hmem c k _ hpos hx
      · cases h
  · cases h

end PV.C05
