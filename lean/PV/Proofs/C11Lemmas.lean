/-
  Helper lemmas for C11.
-/
import Mathlib.Algebra.BigOperators.Group.List.Basic
import Mathlib.Tactic.Ring
import Mathlib.Tactic.Linarith
import Mathlib.Tactic.FieldSimp
import PV.Proofs.RealScalar
import PV.Model.JsonRep

namespace PV
open Scalar
open RealS

/-- entry j of one encoded row -/
theorem c11_row_getD (deltas : List (List ℝ)) (rvals vals : List ℝ) (i j : Nat)
    (hd : j < deltas.length) (hr : j < rvals.length) (hv : j < vals.length) :
    ((List.zip deltas (List.zip rvals vals)).map
        (fun (x : List ℝ × ℝ × ℝ) => x.1.getD i 0 + (x.2.1 - x.2.2))).getD j 0
      = (deltas[j]).getD i 0 + (rvals[j] - vals[j]) := by
  have h : j < ((List.zip deltas (List.zip rvals vals)).map
        (fun (x : List ℝ × ℝ × ℝ) => x.1.getD i 0 + (x.2.1 - x.2.2))).length := by
    simp; omega
  rw [List.getD_eq_getElem?_getD, List.getElem?_eq_getElem h]
  simp


/-- column j of the encoded table is the fluctuation list shifted by r_j - v_j -/
theorem c11_column (idl : List Int) (deltas : List (List ℝ)) (rvals vals : List ℝ)
    (hlen : ∀ d ∈ deltas, d.length = idl.length) (j : Nat)
    (hd : j < deltas.length) (hr : j < rvals.length) (hj : j < vals.length) :
    column (encodeRep idl deltas rvals vals) j
      = (deltas[j]).map (fun x => x + (rvals[j] - vals[j])) := by
  have hdl : (deltas[j]).length = idl.length := hlen _ (List.getElem_mem hd)
  apply List.ext_getElem
  · simp [column, encodeRep, hdl]
  · intro i h1 h2
    have hi : i < idl.length := by simpa [hdl] using h2
    have hi' : i < (deltas[j]).length := by omega
    have := c11_row_getD deltas rvals vals i j hd hr hj
    rw [List.getD_eq_getElem?_getD (l := deltas[j]), List.getElem?_eq_getElem hi'] at this
    simp only [Option.getD_some] at this
    simp only [column, encodeRep, List.map_map, List.getElem_map, Function.comp,
      List.getElem_zip, List.getElem_range, ofNat_eq_lit, lit_eq, Nat.cast_zero]
    exact this


theorem c11_sum_shift (d : List ℝ) (c : ℝ) :
    (d.map (fun x => x + c)).sum = d.sum + d.length * c := by
  induction d with
  | nil => simp
  | cons x xs ih => simp [ih]; ring


theorem c11_encode_length (idl : List Int) (deltas : List (List ℝ)) (rvals vals : List ℝ) :
    (encodeRep idl deltas rvals vals).length = idl.length := by
  simp [encodeRep]


theorem c11_decode_fst (idl : List Int) (deltas : List (List ℝ)) (rvals vals : List ℝ) :
    (decodeRep (encodeRep idl deltas rvals vals) vals).1 = idl := by
  apply List.ext_getElem
  · simp [decodeRep, encodeRep]
  · intro i h1 h2
    simp [decodeRep, encodeRep]


/-- the offset (column average) of observable j -/
noncomputable def c11off (rows : List (Int × List ℝ)) (j : Nat) : ℝ :=
  (column rows j).sum / (rows.length : ℝ)


theorem c11_decode_deltas_length (rows : List (Int × List ℝ)) (vals : List ℝ) :
    (decodeRep rows vals).2.1.length = vals.length := by
  simp [decodeRep]


theorem c11_decode_rvals_length (rows : List (Int × List ℝ)) (vals : List ℝ) :
    (decodeRep rows vals).2.2.length = vals.length := by
  simp [decodeRep]


theorem c11_decode_deltas_get (rows : List (Int × List ℝ)) (vals : List ℝ) (j : Nat)
    (h : j < (decodeRep rows vals).2.1.length) :
    (decodeRep rows vals).2.1[j] = (column rows j).map (fun x => x - c11off rows j) := by
  simp [decodeRep, c11off]


theorem c11_decode_rvals_get (rows : List (Int × List ℝ)) (vals : List ℝ) (j : Nat)
    (h : j < (decodeRep rows vals).2.2.length) (hj : j < vals.length) :
    (decodeRep rows vals).2.2[j] = c11off rows j + vals[j] := by
  simp [decodeRep, c11off]


/-- the offset of the encoded table -/
theorem c11_off_encode (idl : List Int) (deltas : List (List ℝ)) (rvals vals : List ℝ)
    (hn : 0 < idl.length)
    (hlen : ∀ d ∈ deltas, d.length = idl.length) (j : Nat)
    (hd : j < deltas.length) (hr : j < rvals.length) (hj : j < vals.length) :
    c11off (encodeRep idl deltas rvals vals) j
      = (deltas[j]).sum / (idl.length : ℝ) + (rvals[j] - vals[j]) := by
  have hdl : (deltas[j]).length = idl.length := hlen _ (List.getElem_mem hd)
  have hne : (idl.length : ℝ) ≠ 0 := by
    have : 0 < idl.length := hn
    exact_mod_cast this.ne'
  rw [c11off, c11_column idl deltas rvals vals hlen j hd hr hj, c11_sum_shift,
    c11_encode_length, hdl]
  field_simp


end PV
