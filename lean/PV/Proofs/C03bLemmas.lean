/-
  PV.Proofs.C03bLemmas — the Wolff analysis as a function of Γ(0) and the normalised autocorrelation ρ:
  `Spec.analyse` uses the Γ table only through these two (`analyse_eq_core`, by `rfl`), and Γ(0) enters
  only the two error formulas.  Hence: multiplying the data by c leaves τ_int, its error, the window,
  ρ and δρ unchanged and multiplies the errors by |c|.
-/
import PV.Spec.Wolff
import PV.Proofs.RealScalar
import Mathlib.Analysis.SpecialFunctions.Pow.Real
import Mathlib.Tactic.Ring
import Mathlib.Tactic.FieldSimp
import Mathlib.Tactic.Positivity

namespace PV.C03b
open Scalar PV PV.Spec Transc

variable {α : Type} [Transc α]

/-- the part of `Spec.analyse` after the zero-variance guard, as a function of Γ(0) and ρ (same text) -/
def core (fp : FpConsts α) (ens : String) (eN : α) (wmax : Nat) (g0 : α) (rhoL : List α)
    (S tauExp nSigma : α) : Except GmErr (EnsResult α) :=
  let zero : List α := List.replicate wmax 0
  let rho : Nat → α := fun t => rhoL.getD t 0
  -- τ(W) = 1/2 + Σ_{t=1}^{W} ρ(t), clamped above 1/2
  let tauRaw : Nat → α := fun W => fp.half + sum ((List.range W).map (fun t => rho (t + 1)))
  let nTau : List α := (List.range wmax).map (fun W =>
    if tauRaw W ≤ fp.half then fp.half + fp.eps else tauRaw W)
  let tau : Nat → α := fun W => nTau.getD W 0
  let dtau : Nat → α := fun W =>
    if W = 0 then 0 else tau W * 2 * sqrt (absS (ofNatS W + fp.half - tau W) / eN)
  let drho : Nat → α := fun i => sqrt (Spec.drhoSq rho wmax eN i)
  let bias : Nat → α := fun W => tau W * (1 + (2 * ofNatS W + 1) / eN) / (1 + 1 / eN)
  let nDtau := (List.range wmax).map dtau
  if 0 < tauExp then
    if wmax / 2 ≤ 1 then .error .tauExpTooShort else
    -- first n in 1 .. wmax/2 - 1 with ρ(n) - Nσ δρ(n) < 0, or n ≥ wmax/2 - 2
    let stop : Nat → Bool := fun n => rho n - nSigma * drho n < 0 ∨ (n : Int) ≥ ((wmax / 2 : Nat) : Int) - 2
    match (List.range (wmax / 2 - 1)).find? (fun k => stop (k + 1)) with
    | none => .error .tauExpTooShort
    | some k =>
      let W := k + 1
      let t := bias W + tauExp * absS (rho (W + 1))
      let dt := sqrt (dtau W * dtau W + tauExp * tauExp * (drho (W + 1) * drho (W + 1)))
      let dv := sqrt (2 * t * g0 * (1 + 1 / eN) / eN)
      .ok { ens := ens, tauint := t, dtauint := dt, dvalue := dv,
            ddvalue := dv * sqrt ((ofNatS W + fp.half) / eN), windowsize := W,
            rho := rhoL,
            drho := (List.range wmax).map (fun i => if 1 ≤ i ∧ i ≤ W + 1 then drho i else 0),
            nTauint := nTau, nDtauint := nDtau,
            margin := minAbs ((List.range W).map (fun k => rho (k + 1) - nSigma * drho (k + 1))) }
  else if isZero S then
    let dv := sqrt (g0 / (eN - 1))
    .ok { ens := ens, tauint := fp.half, dtauint := 0, dvalue := dv,
          ddvalue := dv * sqrt (fp.half / eN), windowsize := 0,
          rho := rhoL, drho := zero, nTauint := nTau, nDtauint := nDtau, margin := 1 }
  else
    if wmax ≤ 1 then .error .tauExpTooShort else
    let tauS : Nat → α := fun n => S / log ((2 * tau n + 1) / (2 * tau n - 1))
    let g : Nat → α := fun n => exp (-(ofNatS n) / tauS n) - tauS n / sqrt (ofNatS n * eN)
    let W := Spec.window g wmax
    let t := bias W
    let dv := sqrt (2 * t * g0 * (1 + 1 / eN) / eN)
    .ok { ens := ens, tauint := t, dtauint := dtau W, dvalue := dv,
          ddvalue := dv * sqrt ((ofNatS W + fp.half) / eN), windowsize := W,
          rho := rhoL, drho := (List.range wmax).map (fun i => if i = W then drho i else 0),
          nTauint := nTau, nDtauint := nDtau,
          margin := minAbs ((List.range W).map (fun k => g (k + 1))) }


theorem analyse_eq_core (fp : FpConsts α) (ens : String) (eN : α) (wmax : Nat) (Gtab : List α) (S tauExp nSigma : α) :
    Spec.analyse fp ens eN wmax Gtab S tauExp nSigma =
      if absS (Gtab.getD 0 0) < fp.tenTiny then
        .ok { ens := ens, tauint := fp.half, dtauint := 0, dvalue := 0, ddvalue := 0, windowsize := 0,
              rho := List.replicate wmax 0, drho := List.replicate wmax 0, nTauint := [], nDtauint := [], margin := 1 }
      else core fp ens eN wmax (Gtab.getD 0 0) (Gtab.map (· / Gtab.getD 0 0)) S tauExp nSigma := rfl

end PV.C03b

namespace PV.C03b
open Scalar PV PV.Spec Transc RealS

def scaleRes (s : ℝ) (r : EnsResult ℝ) : EnsResult ℝ :=
  { r with dvalue := s * r.dvalue, ddvalue := s * r.ddvalue }

theorem core_scale (fp : FpConsts ℝ) (ens : String) (eN : ℝ) (wmax : Nat) (g0 : ℝ) (rhoL : List ℝ)
    (S te ns k : ℝ) (hk : 0 ≤ k) :
    core fp ens eN wmax (k * g0) rhoL S te ns = (core fp ens eN wmax g0 rhoL S te ns).map (scaleRes (Real.sqrt k)) := by
  unfold core
  extract_lets zero rho tauRaw nTau tau dtau drho bias nDtau stop dv1 tauS g W t dv2 dv1' dv2'
  have hs : ∀ x : ℝ, Transc.sqrt (k * x) = Real.sqrt k * Transc.sqrt x := fun x => Real.sqrt_mul hk x
  have e1 : dv1 = Real.sqrt k * dv1' := by
    simp only [dv1, dv1', ← hs]; congr 1; ring
  have e2 : dv2 = Real.sqrt k * dv2' := by
    simp only [dv2, dv2', ← hs]; congr 1; ring
  split_ifs
  · rfl
  · cases List.find? (fun k => stop (k + 1)) (List.range (wmax / 2 - 1)) with
    | none => rfl
    | some k1 =>
      simp only [Except.map, scaleRes]
      have e3 : ∀ a b c : ℝ, Transc.sqrt (a * (k * g0) * b / c) = Real.sqrt k * Transc.sqrt (a * g0 * b / c) := by
        intro a b c; rw [← hs]; congr 1; ring
      rw [e3, mul_assoc (Real.sqrt k)]
  · simp only [Except.map, scaleRes, e1, mul_assoc]
  · rfl
  · simp only [Except.map, scaleRes, e2, mul_assoc]
end PV.C03b

namespace PV.C03b
open Scalar PV PV.Spec Transc RealS

local notation "𝟘" => (@OfNat.ofNat ℝ 0 (Scalar.instOfNatScalar 0))

theorem analyse_scale (fp : FpConsts ℝ) (ens : String) (eN : ℝ) (wmax : Nat) (G : List ℝ) (S te ns k : ℝ)
    (hk : 0 < k)
    (hg1 : ¬ absS (G.getD 0 𝟘) < fp.tenTiny) (hg2 : ¬ absS (k * G.getD 0 𝟘) < fp.tenTiny) :
    Spec.analyse fp ens eN wmax (G.map (k * ·)) S te ns
      = (Spec.analyse fp ens eN wmax G S te ns).map (scaleRes (Real.sqrt k)) := by
  rw [analyse_eq_core, analyse_eq_core]
  have h0 : (G.map (k * ·)).getD 0 𝟘 = k * G.getD 0 𝟘 := by
    cases G with
    | nil => simp [ofNat_eq_lit, lit_eq]
    | cons a l => simp
  rw [h0, if_neg hg1, if_neg hg2]
  have hr : (G.map (k * ·)).map (· / (k * G.getD 0 𝟘)) = G.map (· / G.getD 0 𝟘) := by
    rw [List.map_map]
    apply List.map_congr_left
    intro x _
    simp only [Function.comp]
    exact mul_div_mul_left x _ (ne_of_gt hk)
  rw [hr]
  exact core_scale fp ens eN wmax _ _ S te ns k hk.le

/-- the replica with every fluctuation (and the replica mean) multiplied by `c` -/
def scaleRep (c : ℝ) (r : Rep ℝ) : Rep ℝ := { r with deltas := r.deltas.map (c * ·), rvalue := c * r.rvalue }

theorem fluct_scale (c : ℝ) (r : Rep ℝ) (cfg : Int) : Spec.fluct (scaleRep c r) cfg = c * Spec.fluct r cfg := by
  unfold Spec.fluct scaleRep
  simp only
  cases r.idl.pos? cfg with
  | none => simp [ofNat_eq_lit, lit_eq]
  | some k =>
    simp only [List.getD_eq_getElem?_getD, List.getElem?_map]
    cases r.deltas[k]? with
    | none => simp [ofNat_eq_lit, lit_eq]
    | some d => simp

theorem gamma_scale (c : ℝ) (reps : List (Rep ℝ)) (gap : Int) (t : Nat) :
    Spec.gamma (reps.map (scaleRep c)) gap t = c ^ 2 * Spec.gamma reps gap t := by
  unfold Spec.gamma
  simp only [List.map_map]
  have h1 : ∀ r : Rep ℝ, Spec.gammaRep (scaleRep c r) gap t = c ^ 2 * Spec.gammaRep r gap t := by
    intro r
    unfold Spec.gammaRep
    simp only [sum_eq, fluct_scale]
    have : (scaleRep c r).idl = r.idl := rfl
    rw [this, ← List.sum_map_mul_left]
    congr 1
    apply List.map_congr_left
    intro x _
    ring
  have h2 : ∀ r : Rep ℝ, Spec.pairsRep (scaleRep c r) gap t = Spec.pairsRep r gap t := fun r => rfl
  have e1 : ((fun r => Spec.gammaRep r gap t) ∘ scaleRep c) = fun r => c ^ 2 * Spec.gammaRep r gap t := by
    funext r; exact h1 r
  have e2 : ((fun r => Spec.pairsRep r gap t) ∘ scaleRep c) = fun r => Spec.pairsRep r gap t := by
    funext r; exact h2 r
  rw [e1, e2]
  simp only [sum_eq]
  rw [List.sum_map_mul_left, mul_div_assoc]
end PV.C03b

namespace PV.C03b
open Scalar PV PV.Spec Transc RealS
local notation "𝟘" => (@OfNat.ofNat ℝ 0 (Scalar.instOfNatScalar 0))

theorem ensemble_scale (fp : FpConsts ℝ) (ens : String) (reps : List (Rep ℝ)) (gap : Int) (wmax : Nat)
    (S te ns c : ℝ) (hc : c ≠ 0) (hw : 1 ≤ wmax)
    (hg1 : ¬ absS (Spec.gamma reps gap 0) < fp.tenTiny)
    (hg2 : ¬ absS (c ^ 2 * Spec.gamma reps gap 0) < fp.tenTiny) :
    Spec.ensemble fp ens (reps.map (scaleRep c)) gap wmax S te ns
      = (Spec.ensemble fp ens reps gap wmax S te ns).map (scaleRes |c|) := by
  have hE : ∀ (rs : List (Rep ℝ)), Spec.ensemble fp ens rs gap wmax S te ns =
      Spec.analyse fp ens (ofNatS ((rs.map (·.idl.len)).foldr (· + ·) 0)) wmax
        ((List.range wmax).map (Spec.gamma rs gap)) S te ns := fun _ => rfl
  rw [hE, hE]
  have hN : (reps.map (scaleRep c)).map (·.idl.len) = reps.map (·.idl.len) := by
    rw [List.map_map]; rfl
  have hG : (List.range wmax).map (Spec.gamma (reps.map (scaleRep c)) gap)
      = ((List.range wmax).map (Spec.gamma reps gap)).map (c ^ 2 * ·) := by
    rw [List.map_map]
    apply List.map_congr_left
    intro t _
    exact gamma_scale c reps gap t
  have h0 : ((List.range wmax).map (Spec.gamma reps gap)).getD 0 𝟘 = Spec.gamma reps gap 0 := by
    obtain ⟨w, rfl⟩ : ∃ w, wmax = w + 1 := ⟨wmax - 1, by omega⟩
    simp [List.range_succ_eq_map]
  rw [hN, hG]
  have hk : 0 < c ^ 2 := by positivity
  rw [analyse_scale fp ens _ wmax _ S te ns (c ^ 2) hk (by rw [h0]; exact hg1) (by rw [h0]; exact hg2)]
  rw [Real.sqrt_sq_eq_abs]
end PV.C03b

namespace PV.C03b
open Scalar PV PV.Spec Transc RealS
theorem mean_add_const (s : List ℝ) (c : ℝ) (hs : s ≠ []) : mean (s.map (· + c)) = mean s + c := by
  unfold mean
  simp only [sum_eq, ofNatS_eq, List.length_map]
  have hn : (s.length : ℝ) ≠ 0 := by
    have : s.length ≠ 0 := by simpa using hs
    exact_mod_cast this
  have : (s.map (· + c)).sum = s.sum + s.length * c := by
    induction s with
    | nil => simp
    | cons a l ih =>
      by_cases hl : l = []
      · subst hl; simp
      · simp only [List.map_cons, List.sum_cons, List.length_cons]
        rw [ih hl (by
          have : l.length ≠ 0 := by simpa using hl
          exact_mod_cast this)]
        push_cast; ring
  rw [this]
  field_simp

theorem addconst_fluct (s : List ℝ) (c : ℝ) (hs : s ≠ []) :
    (s.map (· + c)).map (· - mean (s.map (· + c))) = s.map (· - mean s) := by
  rw [mean_add_const s c hs, List.map_map]
  apply List.map_congr_left
  intro x _
  simp only [Function.comp]
  ring
end PV.C03b
