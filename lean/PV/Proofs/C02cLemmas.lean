/-
  PV.Proofs.C02cLemmas — glue between the model of gamma_method and the Wolff specification:
  accumulated tables, the cumulative sum behind tau_int(W), the error of tau_int(W).
-/
import PV.Proofs.C01bLemmas
import PV.Proofs.C02bLemmas
import PV.Proofs.Window
import PV.Proofs.C02aLemmas
import PV.Proofs.C03Lemmas

set_option linter.unusedSimpArgs false

namespace PV.C02c
open Scalar PV PV.RealS


theorem addL_eq_addLists : (addL : List ℝ → List ℝ → List ℝ) = addLists := rfl


/-- entry `t` of the accumulated table is the sum over chains of their entries -/
theorem foldl_addL_getD (reps : List (Rep ℝ)) (g : Rep ℝ → List ℝ) (wmax : Nat) (hg : ∀ r ∈ reps, (g r).length = wmax)
    (t : Nat) :
    (reps.foldl (fun acc r => addL acc (g r)) (List.replicate wmax 0)).getD t 0 = (reps.map (fun r => (g r).getD t 0)).sum := by
  have h1 : reps.foldl (fun acc r => addL acc (g r)) (List.replicate wmax 0)
      = (reps.map g).foldl addLists (List.replicate wmax 0) := by
    rw [List.foldl_map]; rfl
  rw [h1, C01b.foldl_addLists]
  · simp [List.getD_eq_getElem?_getD, List.getElem?_replicate]
    split <;> simp [List.map_map, Function.comp_def]
  · intro q hq
    obtain ⟨r, hr, rfl⟩ := List.mem_map.mp hq
    simp [hg r hr]

theorem foldl_addL_length' (reps : List (Rep ℝ)) (g : Rep ℝ → List ℝ) (wmax : Nat) (hg : ∀ r, (g r).length = wmax) :
    (reps.foldl (fun acc r => addL acc (g r)) (List.replicate wmax 0)).length = wmax :=
  foldl_addL_length g wmax hg reps _ (by simp)

theorem natSum_cast (l : List Nat) : ((l.foldr (· + ·) 0 : Nat) : ℝ) = (l.map (fun (n : Nat) => (n : ℝ))).sum := by
  induction l with
  | nil => simp
  | cons x xs ih => simp [List.foldr_cons, ih]




theorem cumsum_getD (l : List ℝ) (W : Nat) (hW : W < l.length) :
    (cumsum l).getD W 0 = ((List.range (W + 1)).map (fun t => l.getD t 0)).sum := by
  induction l generalizing W with
  | nil => simp at hW
  | cons x xs ih =>
    cases W with
    | zero => simp [cumsum]
    | succ W =>
      have hW' : W < xs.length := by simpa using hW
      have hlen : W < (cumsum xs).length := by rw [cumsum_length]; exact hW'
      simp only [cumsum, List.getD_cons_succ]
      rw [List.getD_eq_getElem?_getD, List.getElem?_map, List.getElem?_eq_getElem hlen]
      simp only [Option.map_some, Option.getD_some]
      have := ih W hW'
      rw [List.getD_eq_getElem?_getD, List.getElem?_eq_getElem hlen] at this
      simp only [Option.getD_some] at this
      rw [this]
      rw [List.range_succ_eq_map (n := W + 1)]
      simp [List.map_map, Function.comp_def]

/-- the cumulative sum `np.cumsum([0.5] + rho[1:])` with the clamp is τ(W) = 1/2 + Σ_{t=1}^{W} ρ(t), clamped -/
theorem ntau_eq (rho : List ℝ) (half eps : ℝ) (wmax : Nat) (hlen : rho.length = wmax) (hw : 1 ≤ wmax) :
    (cumsum (half :: rho.drop 1)).map (fun x => if x ≤ half then half + eps else x)
      = (List.range wmax).map (fun W =>
          if half + sum ((List.range W).map (fun t => rho.getD (t + 1) 0)) ≤ half then half + eps
          else half + sum ((List.range W).map (fun t => rho.getD (t + 1) 0))) := by
  have hl : (half :: rho.drop 1).length = wmax := by simp; omega
  apply List.ext_getElem
  · simp [cumsum_length]; omega
  · intro W h1 h2
    have hW : W < wmax := by simpa using h2
    simp only [List.getElem_map, List.getElem_range]
    have hc := cumsum_getD (half :: rho.drop 1) W (by rw [hl]; exact hW)
    rw [List.getD_eq_getElem?_getD, List.getElem?_eq_getElem (by rw [cumsum_length, hl]; exact hW)] at hc
    simp only [Option.getD_some] at hc
    have hsum : ((List.range (W + 1)).map (fun t => (half :: rho.drop 1).getD t 0)).sum
        = half + sum ((List.range W).map (fun t => rho.getD (t + 1) 0)) := by
      rw [List.range_succ_eq_map (n := W)]
      simp only [List.map_cons, List.sum_cons, List.getD_cons_zero, List.map_map, Function.comp_def,
        List.getD_cons_succ, sum_eq]
      congr 2
      apply List.map_congr_left
      intro t _
      simp [List.getD_eq_getElem?_getD, List.getElem?_drop, Nat.add_comm]
    rw [hc, hsum]

theorem ndtau_eq (nTau : List ℝ) (wmax : Nat) (hlen : nTau.length = wmax) (f : Nat → ℝ → ℝ) :
    ((List.zip (List.range wmax) nTau).map (fun (p : Nat × ℝ) => f p.1 p.2)).set 0 0
      = (List.range wmax).map (fun W => if W = 0 then 0 else f W (nTau.getD W 0)) := by
  apply List.ext_getElem
  · simp [hlen]
  · intro W h1 h2
    have hW : W < wmax := by simpa using h2
    simp only [List.getElem_map, List.getElem_range, List.getElem_set]
    by_cases h0 : W = 0
    · subst h0; simp
    · have : ¬ (0 = W) := fun e => h0 e.symm
      simp only [this, h0, if_false]
      simp [List.getElem_zip, List.getD_eq_getElem?_getD, List.getElem?_eq_getElem (by omega : W < nTau.length)]

section
variable {α : Type} [Scalar α]

/-- the specification's window only looks at the criterion on lags 1 .. wmax-2 -/
theorem window_congr (g g' : Nat → α) (wmax : Nat) (h : ∀ n, 1 ≤ n → n + 1 < wmax → g n = g' n) :
    Spec.window g wmax = Spec.window g' wmax := by
  unfold Spec.window
  have : (List.range (wmax - 2)).find? (fun k => decide (g (k + 1) < 0))
      = (List.range (wmax - 2)).find? (fun k => decide (g' (k + 1) < 0)) := by
    apply List.find?_congr
    intro k hk
    have hk' : k < wmax - 2 := by simpa using hk
    rw [h (k + 1) (by omega) (by omega)]
  rw [this]

/-- the specification's tau_exp search always succeeds and finds the first lag at which the stopping
    rule fires (`stop` is the Boolean test of the specification, whatever decidability instance it uses) -/
theorem specTexp_isFirst (p : Nat → Prop) (stop : Nat → Bool) (wmax : Nat) (hM : 2 ≤ wmax / 2)
    (hstop : ∀ n, stop n = true ↔ (p n ∨ ((n : Nat) : Int) ≥ ((wmax / 2 : Nat) : Int) - 2)) :
    ∃ k, (List.range (wmax / 2 - 1)).find? (fun k => stop (k + 1)) = some k ∧
      IsFirst p 1 (max 1 (wmax / 2 - 2)) (k + 1) := by
  cases hf : (List.range (wmax / 2 - 1)).find? (fun k => stop (k + 1)) with
  | none =>
    rw [List.find?_range_eq_none] at hf
    have := hf (max 1 (wmax / 2 - 2) - 1) (by omega)
    have hs : stop (max 1 (wmax / 2 - 2) - 1 + 1) = true := (hstop _).mpr (Or.inr (by omega))
    rw [hs] at this
    cases this
  | some k =>
    refine ⟨k, rfl, ?_⟩
    rw [List.find?_range_eq_some] at hf
    obtain ⟨hp, hmem, hall⟩ := hf
    have hk : k < wmax / 2 - 1 := by simpa using hmem
    have hp' := (hstop _).mp hp
    refine ⟨by omega, ?_, ?_, ?_⟩
    · by_contra hgt
      have hgt' : max 1 (wmax / 2 - 2) < k + 1 := by omega
      have := hall (max 1 (wmax / 2 - 2) - 1) (by omega)
      have hs : stop (max 1 (wmax / 2 - 2) - 1 + 1) = true := (hstop _).mpr (Or.inr (by omega))
      rw [hs] at this
      cases this
    · intro m hm1 hm2 hpm
      have := hall (m - 1) (by omega)
      have hm : m - 1 + 1 = m := by omega
      rw [hm] at this
      have hs : stop m = true := (hstop m).mpr (Or.inl hpm)
      rw [hs] at this
      cases this
    · intro hlt
      rcases hp' with hp' | hp'
      · exact hp'
      · omega
end

/-- `ntau_eq` with the numerals of the generic model (`Scalar` literals at ℝ) -/
theorem ntau_eq' (rho : List ℝ) (half eps : ℝ) (wmax : Nat) (hlen : rho.length = wmax) (hw : 1 ≤ wmax) :
    (cumsum (half :: rho.drop 1)).map (fun x => if x ≤ half then half + eps else x)
      = (List.range wmax).map (fun W =>
          if half + sum ((List.range W).map (fun t => rho.getD (t + 1) (@OfNat.ofNat ℝ 0 (Scalar.instOfNatScalar 0)))) ≤ half then half + eps
          else half + sum ((List.range W).map (fun t => rho.getD (t + 1) (@OfNat.ofNat ℝ 0 (Scalar.instOfNatScalar 0))))) := by
  have := ntau_eq rho half eps wmax hlen hw
  simpa only [ofNat_eq_lit, lit_eq, Nat.cast_zero] using this

theorem ndtau_eq' (nTau : List ℝ) (wmax : Nat) (hlen : nTau.length = wmax) (f : Nat → ℝ → ℝ) :
    ((List.zip (List.range wmax) nTau).map (fun (p : Nat × ℝ) => f p.1 p.2)).set 0 (@OfNat.ofNat ℝ 0 (Scalar.instOfNatScalar 0))
      = (List.range wmax).map (fun W => if W = 0 then (@OfNat.ofNat ℝ 0 (Scalar.instOfNatScalar 0))
          else f W (nTau.getD W (@OfNat.ofNat ℝ 0 (Scalar.instOfNatScalar 0)))) := by
  have := ndtau_eq nTau wmax hlen f
  simpa only [ofNat_eq_lit, lit_eq, Nat.cast_zero] using this

end PV.C02c
