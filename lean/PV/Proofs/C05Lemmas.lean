/-
  PV.Proofs.C05Lemmas — helper lemmas for PV/Todo/C05.lean
-/
import Mathlib.Data.List.Nodup
import Mathlib.Data.List.Perm.Subperm
import Mathlib.Data.String.Basic
import PV.Proofs.C01bLemmas
import PV.Proofs.C01cLemmas
import PV.Model.Combine

namespace PV.C05
open Scalar PV

/-! ### selection of a sub-list of configurations -/

theorem map_fst_filter_zip {α : Type} (L : List Int) (d : List α) (p : Int → Bool)
    (h : d.length = L.length) :
    ((List.zip L d).filter (fun x => p x.1)).map (·.1) = L.filter p := by
  have : (fun x : Int × α => p x.1) = p ∘ Prod.fst := rfl
  rw [this, ← List.filter_map, List.map_fst_zip (by omega)]

theorem nodup_of_lt {l : List Int} (h : l.Pairwise (· < ·)) : l.Nodup :=
  h.imp (fun hab => Int.ne_of_lt hab)

theorem filter_len_le (L N : List Int) (hL : L.Pairwise (· < ·)) :
    (L.filter (fun c => N.contains c)).length ≤ N.length := by
  apply List.Subperm.length_le
  apply List.subperm_of_subset ((nodup_of_lt hL).filter _)
  intro c hc
  simpa using (List.mem_filter.mp hc).2

theorem filter_eq_of_len (L N : List Int) (hL : L.Pairwise (· < ·)) (hN : N.Pairwise (· < ·))
    (h : N.length ≤ (L.filter (fun c => N.contains c)).length) :
    L.filter (fun c => N.contains c) = N := by
  have hsub : (L.filter (fun c => N.contains c)).Subperm N := by
    apply List.subperm_of_subset ((nodup_of_lt hL).filter _)
    intro c hc
    simpa using (List.mem_filter.mp hc).2
  have hperm := hsub.perm_of_length_le h
  exact strict_ext _ _ (hL.filter _) hN (fun y => hperm.mem_iff)

theorem filter_len_lt (L N : List Int) (hL : L.Pairwise (· < ·)) (c : Int) (hc : c ∈ N) (hcL : c ∉ L) :
    (L.filter (fun c => N.contains c)).length < N.length := by
  have hsub : (L.filter (fun c => N.contains c)).Subperm (N.erase c) := by
    apply List.subperm_of_subset ((nodup_of_lt hL).filter _)
    intro y hy
    have hy' := List.mem_filter.mp hy
    have hne : y ≠ c := by rintro rfl; exact hcL hy'.1
    rw [List.mem_erase_of_ne hne]
    simpa using hy'.2
  have h1 := hsub.length_le
  rw [List.length_erase_of_mem hc] at h1
  have : 0 < N.length := List.length_pos_of_mem hc
  omega

theorem pos?_getElem (i : Idl) (hp : i.toList.Pairwise (· < ·)) (k : Nat) (hk : k < i.toList.length) :
    i.pos? (i.toList[k]) = some k := by
  unfold Idl.pos?
  simp only [findIdx_of_pairwise _ hp k hk, hk, if_true]

theorem pos?_of_mem (i : Idl) (hp : i.toList.Pairwise (· < ·)) (c : Int) (hc : c ∈ i.toList) :
    ∃ k, ∃ hk : k < i.toList.length, i.toList[k] = c ∧ i.pos? c = some k := by
  obtain ⟨k, hk, rfl⟩ := List.mem_iff_getElem.mp hc
  exact ⟨k, hk, rfl, pos?_getElem i hp k hk⟩

section generic
variable {α : Type}

theorem reduce_lookup (d : List α) (old new : Idl) (d' : List α)
    (hold : Idl.strictInc old.toList = true) (hnew : Idl.strictInc new.toList = true)
    (h : reduceDeltas d old new = some d') :
    d'.length = new.len ∧
    ∀ k, k < new.len → ∃ j, old.pos? (new.toList.getD k 0) = some j ∧ d'[k]? = d[j]? := by
  unfold reduceDeltas at h
  have hpo := strictInc_pairwise _ hold
  have hpn := strictInc_pairwise _ hnew
  split at h
  · cases h
  rename_i hlen
  simp only [bne_iff_ne, ne_eq, Decidable.not_not] at hlen
  split at h
  · rename_i hs
    simp only [Idl.sameSeq, beq_iff_eq] at hs
    cases h
    refine ⟨by simp [hlen, Idl.len, hs], ?_⟩
    intro k hk
    refine ⟨k, ?_, rfl⟩
    unfold Idl.len at hk
    have hgd : new.toList.getD k 0 = new.toList[k] := by simp [List.getD_eq_getElem?_getD, hk]
    rw [hgd]
    have hk' : k < old.toList.length := by rw [hs]; exact hk
    have : new.toList[k] = old.toList[k] := by simp [hs]
    rw [this]
    exact pos?_getElem old hpo k hk'
  · simp only at h
    split at h
    · cases h
    rename_i hge
    cases h
    have hmap := map_fst_filter_zip old.toList d (fun c => new.toList.contains c) hlen
    have hge' : new.toList.length ≤ (old.toList.filter (fun c => new.toList.contains c)).length := by
      rw [← hmap, List.length_map]; unfold Idl.len at hge; omega
    have hF := filter_eq_of_len _ _ hpo hpn hge'
    rw [hF] at hmap
    have hlenP : (List.filter (fun x : Int × α => new.toList.contains x.1) (old.toList.zip d)).length
        = new.toList.length := by
      have := congrArg List.length hmap
      simpa using this
    refine ⟨by simpa [Idl.len] using hlenP, ?_⟩
    intro k hk
    unfold Idl.len at hk
    have hgd : new.toList.getD k 0 = new.toList[k] := by simp [List.getD_eq_getElem?_getD, hk]
    rw [hgd]
    have hkP : k < (List.filter (fun x : Int × α => new.toList.contains x.1) (old.toList.zip d)).length := by
      omega
    have hmem := List.getElem_mem hkP
    have hmem' := (List.mem_filter.mp hmem).1
    obtain ⟨j, hj, hjeq⟩ := List.mem_iff_getElem.mp hmem'
    rw [List.getElem_zip] at hjeq
    have hj1 : j < old.toList.length := by simp at hj; omega
    have hj2 : j < d.length := by simp at hj; omega
    have hfst : new.toList[k] = old.toList[j] := by
      have h1 : (List.map (·.1) (List.filter (fun x : Int × α => new.toList.contains x.1) (old.toList.zip d)))[k]'(by simpa using hkP)
          = new.toList[k] := by simp only [hmap]
      rw [← h1, List.getElem_map, ← hjeq]
    refine ⟨j, ?_, ?_⟩
    · rw [hfst]; exact pos?_getElem old hpo j hj1
    · rw [List.getElem?_map, List.getElem?_eq_getElem hkP, List.getElem?_eq_getElem hj2, ← hjeq]
      rfl

theorem reduce_rejects (d : List α) (old new : Idl)
    (hold : Idl.strictInc old.toList = true)
    (hbad : ∃ c ∈ new.toList, c ∉ old.toList) : reduceDeltas d old new = none := by
  unfold reduceDeltas
  have hpo := strictInc_pairwise _ hold
  obtain ⟨c, hc, hco⟩ := hbad
  split
  · rfl
  rename_i hlen
  simp only [bne_iff_ne, ne_eq, Decidable.not_not] at hlen
  split
  · rename_i hs
    simp only [Idl.sameSeq, beq_iff_eq] at hs
    rw [hs] at hco; exact absurd hc hco
  · simp only
    have hmap := map_fst_filter_zip old.toList d (fun c => new.toList.contains c) hlen
    have hlt := filter_len_lt old.toList new.toList hpo c hc hco
    rw [← hmap, List.length_map] at hlt
    rw [if_pos (by simpa [Idl.len] using hlt)]

end generic

/-! ### the `Except` monad -/

theorem forIn_error {β ε : Type} (l : List β) (f : β → PUnit.{1} → Except ε (ForInStep PUnit.{1}))
    (hf : ∀ y, (∃ e, f y PUnit.unit = .error e) ∨ f y PUnit.unit = .ok (.yield PUnit.unit))
    (x : β) (hx : x ∈ l) (hxe : ∃ e, f x PUnit.unit = .error e) :
    ∃ e, forIn l PUnit.unit f = .error e := by
  induction l with
  | nil => cases hx
  | cons a as ih =>
    rw [List.forIn_cons]
    rcases hf a with ⟨e, he⟩ | hy
    · exact ⟨e, by rw [he]; rfl⟩
    · rw [hy]
      rcases List.mem_cons.mp hx with rfl | hx'
      · obtain ⟨e, he⟩ := hxe; rw [he] at hy; cases hy
      · exact ih hx'

theorem forIn_ok {β ε : Type} (l : List β) (f : β → PUnit.{1} → Except ε (ForInStep PUnit.{1}))
    (hf : ∀ y, (∃ e, f y PUnit.unit = .error e) ∨ f y PUnit.unit = .ok (.yield PUnit.unit))
    (u : PUnit.{1}) (h : forIn l PUnit.unit f = .ok u) :
    ∀ x ∈ l, f x PUnit.unit = .ok (.yield PUnit.unit) := by
  intro x hx
  rcases hf x with hxe | hy
  · obtain ⟨e, he⟩ := forIn_error l f hf x hx hxe
    rw [he] at h; cases h
  · exact hy

theorem bind_ok {ε β γ : Type} {x : Except ε β} {f : β → Except ε γ} {r : γ}
    (h : x.bind f = .ok r) : ∃ a, x = .ok a ∧ f a = .ok r := by
  cases x with
  | error e => cases h
  | ok a => exact ⟨a, rfl, h⟩

theorem bind_ok' {ε β γ : Type} {x : Except ε β} {f : β → Except ε γ} {r : γ}
    (h : (x >>= f) = .ok r) : ∃ a, x = .ok a ∧ f a = .ok r := bind_ok h


/-! ### `mkObs` -/
section mk
variable {α : Type} [Scalar α]

def mkRep : String × Idl × List α → Except MkErr (Rep α) := fun (n, i, s) => do
    let i' ← match Idl.normalise i with
      | .ok x => pure x
      | .error .unsorted => throw MkErr.unsorted
      | .error .duplicate => throw MkErr.duplicate
      | .error .negativeStep => throw MkErr.negativeStep
    if s.length != i'.len then throw MkErr.samplesIdlMismatch
    let m := mean s
    pure ({ name := n, idl := i', deltas := s.map (· - m), rvalue := m } : Rep α)

def mkFinish (samples : List (List α)) (names : List String) (il : List Idl) : Except MkErr (Obs α) := do
  let triples := Py.sortBy (fun a b => a.1 ≤ b.1) (List.zip names (List.zip il samples))
  let reps ← triples.mapM mkRep
  let Ntot := (reps.map (·.idl.len)).foldr (· + ·) 0
  let v := sum (reps.map (fun r => ofNatS r.idl.len * r.rvalue)) / ofNatS Ntot
  pure { value := v, reps := reps, covs := [] }

theorem mkObs_eq (samples : List (List α)) (names : List String) (il : List Idl) :
    mkObs samples names (some il) =
    if (samples.length != names.length) = true then .error .lenSamplesNames
    else if (il.length != names.length) = true then .error .lenIdl
    else if names.length > 1 then
      if ((Py.sortedSetStr names).length != names.length) = true then .error .namesNotUnique
      else if (Py.sortedSetStr (names.map Py.ensOf)).length > 1 then .error .multipleEnsembles
      else if (samples.any (·.length ≤ 4)) = true then .error .tooFewSamples
      else mkFinish samples names il
    else if (samples.any (·.length ≤ 4)) = true then .error .tooFewSamples
      else mkFinish samples names il := by
  unfold mkObs
  rfl

theorem mkRep_ok (n : String) (i : Idl) (s : List α) (r : Rep α) (h : mkRep (n, i, s) = .ok r) :
    r.name = n ∧ Idl.normalise i = .ok r.idl ∧ s.length = r.idl.len ∧
      r.deltas = s.map (· - mean s) ∧ r.rvalue = mean s := by
  unfold mkRep at h
  simp only [] at h
  split at h
  · rename_i x hx
    obtain ⟨i', hi', h⟩ := bind_ok' h
    cases hi'
    split at h
    · cases h
    · rename_i hl
      cases h
      simp at hl
      exact ⟨rfl, hx, hl, rfl, rfl⟩
  · cases h
  · cases h
  · cases h

theorem mkObs_ok (samples : List (List α)) (names : List String) (il : List Idl) (o : Obs α)
    (h : mkObs samples names (some il) = .ok o) :
    samples.length = names.length ∧ il.length = names.length ∧
    (Py.sortBy (fun a b => decide (a.1 ≤ b.1)) (List.zip names (List.zip il samples))).mapM mkRep = .ok o.reps ∧
    o.reweighted = false ∧ o.covs = [] := by
  rw [mkObs_eq] at h
  have hfin : ∀ (hh : mkFinish samples names il = .ok o), 
     (Py.sortBy (fun a b => decide (a.1 ≤ b.1)) (List.zip names (List.zip il samples))).mapM mkRep = .ok o.reps ∧
      o.reweighted = false ∧ o.covs = [] := by
    intro hh
    unfold mkFinish at hh
    obtain ⟨reps, hreps, hh⟩ := bind_ok' hh
    cases hh
    exact ⟨hreps, rfl, rfl⟩
  split at h
  · cases h
  rename_i h1
  split at h
  · cases h
  rename_i h2
  simp only [bne_iff_ne, ne_eq, Decidable.not_not] at h1 h2
  refine ⟨h1, h2, ?_⟩
  split at h
  · split at h
    · cases h
    split at h
    · cases h
    split at h
    · cases h
    exact hfin h
  · split at h
    · cases h
    exact hfin h
end mk

/-! ### equations for the three functions -/
section elem
variable {α : Type} [Elem α]


def corrBody (x : Rep α × Rep α) (_ : PUnit.{1}) : Except CombErr (ForInStep PUnit.{1}) :=
  if (x.1.idl.len != x.2.idl.len) = true then .error (.shapes x.1.name)
  else if (!(x.1.idl.sameSeq x.2.idl && x.1.idl.isRange == x.2.idl.isRange)) = true then .error (.idlMismatch x.1.name)
  else .ok (ForInStep.yield PUnit.unit)

omit [Elem α] in
theorem corrBody_cases (y : Rep α × Rep α) :
    (∃ e, corrBody y PUnit.unit = .error e) ∨ corrBody y PUnit.unit = .ok (.yield PUnit.unit) := by
  unfold corrBody
  split
  · exact Or.inl ⟨_, rfl⟩
  · split
    · exact Or.inl ⟨_, rfl⟩
    · exact Or.inr rfl

def corrFinish (a b : Obs α) : Except CombErr (Obs α) :=
  match mkObs ((a.reps.zip b.reps).map (fun x => List.zipWith (· * ·) (Rep.samples x.1) (Rep.samples x.2)))
            a.names (some (a.reps.map (·.idl))) with
        | .ok o => .ok { o with reweighted := a.reweighted || b.reweighted }
        | .error e => .error (.mk e)

theorem correlate_eq (a b : Obs α) : correlate a b =
    if (decide (a.mcNames.length > 1) || decide (b.mcNames.length > 1)) = true then .error .multipleEnsembles
    else if (a.names != b.names) = true then .error .ensemblesDoNotFit
    else if (decide (a.covs.length > 0) || decide (b.covs.length > 0)) = true then .error .covobs
    else
      (forIn (a.reps.zip b.reps) PUnit.unit corrBody).bind (fun _ => corrFinish a b) := by
  unfold correlate
  split
  · rfl
  split
  · rfl
  split
  · rfl
  rfl

def rwBody (w : Obs α) (r : Rep α) (_ : PUnit.{1}) : Except CombErr (ForInStep PUnit.{1}) :=
  match w.rep? r.name with
  | none => .error .ensemblesDoNotFit
  | some wr =>
    if (!(r.idl.toList.all (fun c => wr.idl.toList.contains c))) = true then .error (.notSubset r.name)
    else .ok (.yield PUnit.unit)

def liftMk (x : Except MkErr (Obs α)) : Except CombErr (Obs α) :=
  match x with | .ok x => .ok x | .error e => .error (.mk e)

def rwDiv (tmp norm : Obs α) : Except CombErr (Obs α) :=
  match findSite "truediv_obs" with
  | none => .error (.der .gradShape)
  | some s => match applySite s [tmp, norm] 0 with
    | .ok r => .ok { r with reweighted := true }
    | .error e => .error (.der e)

def rwWred (w o : Obs α) : Except CombErr (List (List α)) :=
  o.reps.mapM (fun r =>
    match w.rep? r.name with
    | none => throw CombErr.ensemblesDoNotFit
    | some wr => match reduceDeltas wr.deltas wr.idl r.idl with
      | none => throw (CombErr.notSubset r.name)
      | some d => pure (d.map (· + wr.rvalue)))

def rwFinish (w o : Obs α) (allConfigs : Bool) : Except CombErr (Obs α) := do
  let wred ← rwWred w o
  let newSamples := List.zipWith (fun ws r => List.zipWith (· * ·) ws (Rep.samples r)) wred o.reps
  let names := o.reps.map (·.name)
  let idls := o.reps.map (·.idl)
  let tmp ← match mkObs newSamples names (some idls) with
    | .ok x => pure x | .error e => throw (.mk e)
  let norm ← if allConfigs then pure w else
    match mkObs wred names (some idls) with
    | .ok x => pure x | .error e => throw (.mk e)
  rwDiv tmp norm

theorem reweight1_eq (w o : Obs α) (ac : Bool) : reweight1 w o ac =
    if o.covs.length > 0 then .error .covobs
    else if w.covs.length > 0 then .error .covobs
    else if (!(o.names.all (fun n => w.names.contains n))) = true then .error .ensemblesDoNotFit
    else if (decide (o.mcNames.length > 1) || decide (w.mcNames.length > 1)) = true then .error .multipleEnsembles
    else (forIn o.reps PUnit.unit (rwBody w)).bind (fun _ => rwFinish w o ac) := by
  unfold reweight1
  rfl

theorem rwDiv_flag (tmp norm r : Obs α) (h : rwDiv tmp norm = .ok r) : r.reweighted = true := by
  unfold rwDiv at h
  split at h
  · cases h
  · split at h
    · cases h; rfl
    · cases h

theorem rwFinish_flag (w o r : Obs α) (ac : Bool) (h : rwFinish w o ac = .ok r) : r.reweighted = true := by
  unfold rwFinish at h
  obtain ⟨wred, _, h⟩ := bind_ok' h
  simp only [] at h
  split at h
  · obtain ⟨tmp, _, h⟩ := bind_ok' h
    split at h
    · obtain ⟨norm, _, h⟩ := bind_ok' h
      exact rwDiv_flag _ _ _ h
    · split at h
      · obtain ⟨norm, _, h⟩ := bind_ok' h
        exact rwDiv_flag _ _ _ h
      · cases h
  · cases h

def mergeFinish (l : List (Obs α)) : Except CombErr (Obs α) :=
  let sorted := Py.sortBy (fun (a b : Rep α) => a.name ≤ b.name) (l.flatMap (·.reps))
  match mkObs (sorted.map Rep.samples) (sorted.map (·.name)) (some (sorted.map (·.idl))) with
  | .ok o => .ok { o with reweighted := l.any (·.reweighted) }
  | .error e => .error (.mk e)

theorem mergeObs_eq (l : List (Obs α)) : mergeObs l =
    if ((Py.sortedSetStr (l.flatMap (fun o => o.names ++ o.covNames))).length
          != (l.flatMap (fun o => o.names ++ o.covNames)).length) = true then .error .duplicateReplica
    else if (l.any (fun o => decide (o.covs.length > 0))) = true then .error .covobs
    else mergeFinish l := by
  unfold mergeObs
  simp only []
  split
  · rfl
  split
  · rfl
  rfl
end elem


/-! ### stable sort and `sorted(set(.))` over a linear order -/
section sort
variable {β : Type} [LinearOrder β] (le : β → β → Bool) (hle : ∀ a b, le a b = true ↔ a ≤ b)
include hle

theorem pairwise_insertSorted (x : β) (l : List β) (h : l.Pairwise (· ≤ ·)) :
    (Py.insertSorted le x l).Pairwise (· ≤ ·) := by
  induction l with
  | nil => simp [Py.insertSorted]
  | cons z zs ih =>
    simp only [Py.insertSorted]
    rw [List.pairwise_cons] at h
    split
    · rename_i hzx
      rw [hle] at hzx
      rw [List.pairwise_cons]
      refine ⟨?_, ih h.2⟩
      intro a ha
      rw [C01b.mem_insertSorted] at ha
      rcases ha with rfl | ha
      · exact hzx
      · exact h.1 a ha
    · rename_i hzx
      rw [hle] at hzx
      have hxz : x ≤ z := le_of_lt (not_le.mp hzx)
      rw [List.pairwise_cons]
      refine ⟨?_, List.pairwise_cons.2 h⟩
      intro a ha
      rcases List.mem_cons.1 ha with rfl | ha
      · exact hxz
      · exact le_trans hxz (h.1 a ha)

theorem pairwise_sortBy (l : List β) : (Py.sortBy le l).Pairwise (· ≤ ·) := by
  unfold Py.sortBy
  have : ∀ (l acc : List β), acc.Pairwise (· ≤ ·) →
      (l.foldl (fun acc x => Py.insertSorted le x acc) acc).Pairwise (· ≤ ·) := by
    intro l
    induction l with
    | nil => intro acc h; simpa
    | cons z zs ih => intro acc h; exact ih _ (pairwise_insertSorted le hle z acc h)
  exact this l [] List.Pairwise.nil

omit hle in
theorem perm_insertSorted {γ : Type} (le : γ → γ → Bool) (x : γ) (l : List γ) :
    (Py.insertSorted le x l).Perm (x :: l) := by
  induction l with
  | nil => simp [Py.insertSorted]
  | cons z zs ih =>
    simp only [Py.insertSorted]
    split
    · exact (List.Perm.cons z ih).trans (List.Perm.swap x z zs)
    · exact List.Perm.refl _

omit hle in
theorem perm_sortBy {γ : Type} (le : γ → γ → Bool) (l : List γ) : (Py.sortBy le l).Perm l := by
  unfold Py.sortBy
  have : ∀ (l acc : List γ), (l.foldl (fun acc x => Py.insertSorted le x acc) acc).Perm (acc ++ l) := by
    intro l
    induction l with
    | nil => intro acc; simp
    | cons z zs ih =>
      intro acc
      refine (ih _).trans ?_
      refine ((perm_insertSorted le z acc).append_right zs).trans ?_
      simp
      exact List.perm_middle.symm
  simpa using this l []

omit hle in
theorem mem_dedupSorted (y : β) (l : List β) : y ∈ Py.dedupSorted l ↔ y ∈ l := by
  fun_induction Py.dedupSorted l with
  | case1 => simp
  | case2 x => simp
  | case3 x z r hxz ih =>
    simp at hxz; subst hxz
    rw [ih]; simp
  | case4 x z r hxz ih =>
    simp [ih]

omit hle in
theorem pairwise_dedupSorted (l : List β) (h : l.Pairwise (· ≤ ·)) :
    (Py.dedupSorted l).Pairwise (· < ·) := by
  fun_induction Py.dedupSorted l with
  | case1 => simp
  | case2 x => simp
  | case3 x z r hxz ih => exact ih (List.pairwise_cons.1 h).2
  | case4 x z r hxz ih =>
    simp at hxz
    rw [List.pairwise_cons] at h
    rw [List.pairwise_cons]
    refine ⟨?_, ih h.2⟩
    intro a ha
    rw [mem_dedupSorted] at ha
    have hz := h.1 z (by simp)
    have hxz' : x < z := lt_of_le_of_ne hz hxz
    rcases List.mem_cons.1 ha with rfl | ha
    · exact hxz'
    · exact lt_of_lt_of_le hxz' ((List.pairwise_cons.1 h.2).1 a ha)

/-- `len(set(l)) == len(l)` means there are no duplicates -/
theorem nodup_of_dedup_length (l : List β)
    (h : (Py.dedupSorted (Py.sortBy le l)).length = l.length) : l.Nodup := by
  have hpw := pairwise_dedupSorted _ (pairwise_sortBy le hle l)
  have hnd : (Py.dedupSorted (Py.sortBy le l)).Nodup := hpw.imp (fun hab => ne_of_lt hab)
  have hsub : (Py.dedupSorted (Py.sortBy le l)).Subperm l := by
    apply List.subperm_of_subset hnd
    intro y hy
    rw [mem_dedupSorted, C01b.mem_sortBy] at hy
    exact hy
  exact (hsub.perm_of_length_le (by omega)).nodup_iff.mp hnd

end sort

/-- a list that is already sorted is left alone -/
theorem insertSorted_append {γ : Type} (le : γ → γ → Bool) (x : γ) (l : List γ)
    (h : ∀ y ∈ l, le y x = true) : Py.insertSorted le x l = l ++ [x] := by
  induction l with
  | nil => rfl
  | cons z zs ih =>
    simp only [Py.insertSorted]
    rw [if_pos (h z (by simp)), ih (fun y hy => h y (by simp [hy]))]
    rfl


theorem sortBy_of_sorted {γ : Type} (le : γ → γ → Bool) (l : List γ)
    (h : l.Pairwise (fun a b => le a b = true)) : Py.sortBy le l = l := by
  unfold Py.sortBy
  have : ∀ (l acc : List γ), (acc ++ l).Pairwise (fun a b => le a b = true) →
      l.foldl (fun acc x => Py.insertSorted le x acc) acc = acc ++ l := by
    intro l
    induction l with
    | nil => intro acc _; simp
    | cons z zs ih =>
      intro acc hp
      simp only [List.foldl_cons]
      have hz : ∀ y ∈ acc, le y z = true := by
        intro y hy
        rw [List.pairwise_append] at hp
        exact hp.2.2 y hy z (by simp)
      rw [insertSorted_append le z acc hz, ih]
      · simp
      · simpa using hp
  simpa using this l [] (by simpa using h)

theorem nodup_of_sortedSetStr (l : List String) (h : (Py.sortedSetStr l).length = l.length) : l.Nodup :=
  nodup_of_dedup_length (fun a b => decide (a ≤ b)) (by intro a b; simp) l h



/-! ### `mapM` in `Except` -/

theorem mapM_ok {ε β γ : Type} (f : β → Except ε γ) : ∀ (l : List β) (out : List γ),
    l.mapM f = .ok out → List.Forall₂ (fun a b => f a = .ok b) l out
  | [], out, h => by
    rw [List.mapM_nil] at h
    cases h
    exact List.Forall₂.nil
  | a :: as, out, h => by
    rw [List.mapM_cons] at h
    obtain ⟨b, hb, h⟩ := bind_ok' h
    obtain ⟨bs, hbs, h⟩ := bind_ok' h
    cases h
    exact List.Forall₂.cons hb (mapM_ok f as bs hbs)

theorem forall₂_mem_left {β γ : Type} {R : β → γ → Prop} {l₁ : List β} {l₂ : List γ}
    (h : List.Forall₂ R l₁ l₂) (a : β) (ha : a ∈ l₁) : ∃ b ∈ l₂, R a b := by
  induction h with
  | nil => cases ha
  | cons hab _ ih =>
    rcases List.mem_cons.mp ha with rfl | ha
    · exact ⟨_, by simp, hab⟩
    · obtain ⟨b, hb, hr⟩ := ih ha
      exact ⟨b, by simp [hb], hr⟩

theorem forall₂_map_eq {β γ δ : Type} {R : β → γ → Prop} {l₁ : List β} {l₂ : List γ}
    (h : List.Forall₂ R l₁ l₂) (f : β → δ) (g : γ → δ) (hfg : ∀ a b, R a b → f a = g b) :
    l₁.map f = l₂.map g := by
  induction h with
  | nil => rfl
  | cons hab _ ih => simp [hfg _ _ hab, ih]

theorem mem_zip_map3 {β γ δ η : Type} (f : β → γ) (g : β → δ) (h : β → η) (L : List β) (p : β)
    (hp : p ∈ L) : (f p, g p, h p) ∈ List.zip (L.map f) (List.zip (L.map g) (L.map h)) := by
  induction L with
  | nil => cases hp
  | cons q qs ih =>
    rcases List.mem_cons.mp hp with rfl | hp
    · simp
    · simp only [List.map_cons, List.zip_cons_cons, List.mem_cons]
      exact Or.inr (ih hp)

theorem zip_map_eq {β γ δ : Type} (f : β → δ) (g : γ → δ) : ∀ (l₁ : List β) (l₂ : List γ),
    l₁.map f = l₂.map g → ∀ p ∈ List.zip l₁ l₂, f p.1 = g p.2
  | [], _, _, p, hp => by simp at hp
  | _ :: _, [], h, _, _ => by simp at h
  | a :: as, b :: bs, h, p, hp => by
    simp only [List.map_cons, List.cons.injEq] at h
    simp only [List.zip_cons_cons, List.mem_cons] at hp
    rcases hp with rfl | hp
    · exact h.1
    · exact zip_map_eq f g as bs h.2 p hp

/-! ### names -/

theorem strictSortedStr_pairwise : ∀ (l : List String), strictSortedStr l = true → l.Pairwise (· < ·)
  | [], _ => List.Pairwise.nil
  | [x], _ => by simp
  | x :: y :: r, h => by
    simp only [strictSortedStr, Bool.and_eq_true, decide_eq_true_eq] at h
    have ih := strictSortedStr_pairwise (y :: r) h.2
    refine List.Pairwise.cons ?_ ih
    intro z hz
    rcases List.mem_cons.mp hz with rfl | hz
    · exact h.1
    · exact lt_trans h.1 ((List.pairwise_cons.mp ih).1 z hz)

section obs
variable {α : Type} [Scalar α]

omit [Scalar α] in
theorem wf_parts {o : Obs α} (h : o.WF = true) :
    o.names.Pairwise (· < ·) ∧
    ∀ r ∈ o.reps, r.idl.toList.Pairwise (· < ·) ∧ r.deltas.length = r.idl.len := by
  simp only [Obs.WF, Bool.and_eq_true, List.all_eq_true, beq_iff_eq] at h
  refine ⟨strictSortedStr_pairwise _ h.1.1.1.1, ?_⟩
  intro r hr
  have := h.1.1.1.2 r hr
  exact ⟨strictInc_pairwise _ this.1.1, this.1.2⟩

omit [Scalar α] in
theorem rep?_of_mem (o : Obs α) (hnd : o.names.Nodup) (r : Rep α) (hr : r ∈ o.reps) :
    o.rep? r.name = some r := by
  unfold Obs.rep?
  cases hf : List.find? (fun x => x.name == r.name) o.reps with
  | none =>
    have := List.find?_eq_none.mp hf r hr
    simp at this
  | some r' =>
    have h1 := List.mem_of_find?_eq_some hf
    have h2 := List.find?_some hf
    simp only [beq_iff_eq] at h2
    rw [List.inj_on_of_nodup_map hnd h1 hr h2]

theorem pos?_congr (a b : Idl) (h : a.toList = b.toList) (c : Int) : a.pos? c = b.pos? c := by
  unfold Idl.pos?; rw [h]

/-- `sampleAt` of the Todo file -/
def sampleAt' (o : Obs α) (n : String) (c : Int) : Option α := do
  let r ← o.rep? n
  let k ← r.idl.pos? c
  let d ← r.deltas[k]?
  pure (d + r.rvalue)

theorem sampleAt'_of (o : Obs α) (n : String) (c : Int) (r : Rep α) (k : Nat) (d : α)
    (hr : o.rep? n = some r) (hk : r.idl.pos? c = some k) (hd : r.deltas[k]? = some d) :
    sampleAt' o n c = some (d + r.rvalue) := by
  unfold sampleAt'
  rw [hr]; simp only [Option.bind_eq_bind, Option.bind_some, hk, hd]; rfl

/-- what `mkObs` does to one chain -/
theorem mkObs_rep (samples : List (List α)) (names : List String) (il : List Idl) (o : Obs α)
    (h : mkObs samples names (some il) = .ok o) :
    o.names.Perm names ∧ (names.Pairwise (· ≤ ·) → o.names = names) ∧
    (names.Nodup → ∀ n i s, (n, i, s) ∈ List.zip names (List.zip il samples) →
      ∃ r, o.rep? n = some r ∧ mkRep (n, i, s) = .ok r) := by
  obtain ⟨h1, h2, hm, _, _⟩ := mkObs_ok samples names il o h
  have hF := mapM_ok _ _ _ hm
  have hnames : o.names = (Py.sortBy (fun a b => decide (a.1 ≤ b.1)) (names.zip (il.zip samples))).map (·.1) := by
    unfold Obs.names
    symm
    apply forall₂_map_eq hF
    intro t r htr
    obtain ⟨n, i, s⟩ := t
    exact (mkRep_ok n i s r htr).1.symm
  have hfst : (names.zip (il.zip samples)).map (·.1) = names := by
    apply List.map_fst_zip
    simp; omega
  have hperm : o.names.Perm names := by
    rw [hnames]
    have := (perm_sortBy (fun (a b : String × Idl × List α) => decide (a.1 ≤ b.1)) (names.zip (il.zip samples))).map (·.1)
    rw [hfst] at this
    exact this
  refine ⟨hperm, ?_, ?_⟩
  · intro hs
    rw [hnames, sortBy_of_sorted, hfst]
    rw [← hfst, List.pairwise_map] at hs
    exact hs.imp (fun h => by simpa using h)
  · intro hnd n i s hmem
    have hmem' : (n, i, s) ∈ Py.sortBy (fun a b => decide (a.1 ≤ b.1)) (names.zip (il.zip samples)) :=
      (C01b.mem_sortBy _ _ _).mpr hmem
    obtain ⟨r, hr, hrr⟩ := forall₂_mem_left hF _ hmem'
    refine ⟨r, ?_, hrr⟩
    have := rep?_of_mem o (hperm.nodup_iff.mpr hnd) r hr
    rw [(mkRep_ok n i s r hrr).1] at this
    exact this

end obs



theorem sampleAt'_input {α : Type} [Elem α] (o : Obs α) (hnd : o.names.Nodup) (r : Rep α) (hr : r ∈ o.reps)
    (c : Int) (k : Nat) (v : α) (hk : r.idl.pos? c = some k) (hv : (Rep.samples r)[k]? = some v) :
    sampleAt' o r.name c = some v := by
  unfold Rep.samples at hv
  rw [List.getElem?_map, Option.map_eq_some_iff] at hv
  obtain ⟨d, hd, hdv⟩ := hv
  rw [sampleAt'_of o r.name c r k d (rep?_of_mem o hnd r hr) hk hd, hdv]

theorem mkObs_sample (samples : List (List ℝ)) (names : List String) (il : List Idl) (o : Obs ℝ)
    (h : mkObs samples names (some il) = .ok o) (hnd : names.Nodup) (n : String) (i : Idl) (s : List ℝ)
    (hmem : (n, i, s) ∈ List.zip names (List.zip il samples))
    (c : Int) (k : Nat) (v : ℝ) (hk : i.pos? c = some k) (hv : s[k]? = some v) :
    sampleAt' o n c = some v := by
  obtain ⟨r, hr, hrr⟩ := (mkObs_rep samples names il o h).2.2 hnd n i s hmem
  obtain ⟨_, hnorm, _, hdel, hrv⟩ := mkRep_ok n i s r hrr
  have htl := normalise_toList i r.idl hnorm
  have hk' : r.idl.pos? c = some k := by rw [pos?_congr r.idl i htl]; exact hk
  have hd : r.deltas[k]? = some (v - mean s) := by
    rw [hdel, List.getElem?_map, hv]; rfl
  rw [sampleAt'_of o n c r k _ hr hk' hd, hrv]
  exact congrArg some (sub_add_cancel v (mean s))

theorem corrBody_ok {α : Type} [Elem α] (p : Rep α × Rep α)
    (h : corrBody p PUnit.unit = .ok (.yield PUnit.unit)) : p.1.idl.toList = p.2.idl.toList := by
  unfold corrBody at h
  split at h
  · cases h
  split at h
  · cases h
  rename_i _ h2
  simp only [Bool.not_eq_true', Bool.not_eq_false, Bool.and_eq_true, Idl.sameSeq, beq_iff_eq] at h2
  exact h2.1

theorem correlate_samples (a b o : Obs ℝ) (h : correlate a b = .ok o)
    (hwf : a.WF = true ∧ b.WF = true) :
    o.names = a.names ∧ o.reweighted = (a.reweighted || b.reweighted) ∧
    ∀ ra ∈ a.reps, ∀ c ∈ ra.idl.toList, ∃ x y,
      sampleAt' a ra.name c = some x ∧ sampleAt' b ra.name c = some y ∧
      sampleAt' o ra.name c = some (x * y) := by
  rw [correlate_eq] at h
  split at h
  · cases h
  split at h
  · cases h
  rename_i hnames
  simp only [bne_iff_ne, ne_eq, Decidable.not_not] at hnames
  split at h
  · cases h
  obtain ⟨u, hloop, h⟩ := bind_ok h
  unfold corrFinish at h
  split at h
  · rename_i o' hmk
    cases h
    obtain ⟨hna, hra⟩ := wf_parts hwf.1
    obtain ⟨hnb, hrb⟩ := wf_parts hwf.2
    have hnda : a.names.Nodup := hna.imp (fun h => ne_of_lt h)
    have hndb : b.names.Nodup := hnb.imp (fun h => ne_of_lt h)
    have hlen : a.reps.length = b.reps.length := by
      have := congrArg List.length hnames
      simpa [Obs.names] using this
    have hZ1 : (a.reps.zip b.reps).map (·.1) = a.reps := List.map_fst_zip (by omega)
    have hZ2 : (a.reps.zip b.reps).map (·.2) = b.reps := List.map_snd_zip (by omega)
    have hn : a.names = (a.reps.zip b.reps).map (fun p => p.1.name) := by
      unfold Obs.names
      conv_lhs => rw [← hZ1]
      rw [List.map_map]; rfl
    have hg : a.reps.map (·.idl) = (a.reps.zip b.reps).map (fun p => p.1.idl) := by
      conv_lhs => rw [← hZ1]
      rw [List.map_map]; rfl
    obtain ⟨_, hsorted, _⟩ := mkObs_rep _ _ _ _ hmk
    refine ⟨hsorted (hna.imp (fun h => le_of_lt h)), rfl, ?_⟩
    intro ra hra' c hc
    rw [← hZ1] at hra'
    obtain ⟨p, hp, rfl⟩ := List.mem_map.mp hra'
    have hpb : p.2 ∈ b.reps := (List.of_mem_zip (a := p.1) (b := p.2) hp).2
    have hpa : p.1 ∈ a.reps := (List.of_mem_zip (a := p.1) (b := p.2) hp).1
    have hpn : p.1.name = p.2.name := zip_map_eq (fun r : Rep ℝ => r.name) (fun r : Rep ℝ => r.name) a.reps b.reps hnames p hp
    have htl := corrBody_ok p (forIn_ok _ _ corrBody_cases u hloop p hp)
    obtain ⟨k, hk, _, hpos⟩ := pos?_of_mem p.1.idl (hra p.1 hpa).1 c hc
    have hposb : p.2.idl.pos? c = some k := by rw [← pos?_congr _ _ htl]; exact hpos
    have hka : k < p.1.deltas.length := by rw [(hra p.1 hpa).2]; exact hk
    have hkb : k < p.2.deltas.length := by
      rw [(hrb p.2 hpb).2]; unfold Idl.len; rw [← htl]; exact hk
    have hsa : ∃ x, (Rep.samples p.1)[k]? = some x :=
      ⟨_, List.getElem?_eq_getElem (by simpa [Rep.samples] using hka)⟩
    have hsb : ∃ y, (Rep.samples p.2)[k]? = some y :=
      ⟨_, List.getElem?_eq_getElem (by simpa [Rep.samples] using hkb)⟩
    obtain ⟨x, hsa⟩ := hsa
    obtain ⟨y, hsb⟩ := hsb
    refine ⟨x, y, sampleAt'_input a hnda p.1 hpa c k _ hpos hsa, ?_, ?_⟩
    · rw [hpn]; exact sampleAt'_input b hndb p.2 hpb c k _ hposb hsb
    · have hmem := mem_zip_map3 (fun p : Rep ℝ × Rep ℝ => p.1.name) (fun p => p.1.idl)
        (fun x => List.zipWith (· * ·) (Rep.samples x.1) (Rep.samples x.2)) _ p hp
      rw [← hn, ← hg] at hmem
      refine mkObs_sample _ _ _ _ hmk hnda _ _ _ hmem c k _ hpos ?_
      rw [List.getElem?_zipWith, hsa, hsb]
  · cases h



theorem flatMap_sublist {β γ : Type} (f g : β → List γ) (hfg : ∀ x, (f x).Sublist (g x)) (l : List β) :
    (l.flatMap f).Sublist (l.flatMap g) := by
  induction l with
  | nil => simp
  | cons x xs ih => simp only [List.flatMap_cons]; exact (hfg x).append ih

theorem merge_union (l : List (Obs ℝ)) (o : Obs ℝ) (h : mergeObs l = .ok o)
    (hwf : ∀ x ∈ l, x.WF = true) :
    (∀ x ∈ l, ∀ r ∈ x.reps, ∀ c ∈ r.idl.toList, ∃ s, sampleAt' x r.name c = some s ∧ sampleAt' o r.name c = some s) ∧
    (∀ n ∈ o.names, ∃ x ∈ l, n ∈ x.names) ∧ o.reweighted = l.any (·.reweighted) := by
  rw [mergeObs_eq] at h
  split at h
  · cases h
  rename_i hlen
  simp only [bne_iff_ne, ne_eq, Decidable.not_not] at hlen
  have hndall := nodup_of_sortedSetStr _ hlen
  split at h
  · cases h
  unfold mergeFinish at h
  simp only [] at h
  split at h
  · rename_i o' hmk
    cases h
    have hperm := perm_sortBy (fun (a b : Rep ℝ) => decide (a.name ≤ b.name)) (l.flatMap (·.reps))
    have hmapname : (l.flatMap (·.reps)).map (·.name) = l.flatMap (·.names) := by
      rw [List.map_flatMap]; rfl
    have hnd0 : (l.flatMap (·.names)).Nodup :=
      (flatMap_sublist _ _ (fun x => List.sublist_append_left _ _) l).nodup hndall
    have hnd : ((Py.sortBy (fun (a b : Rep ℝ) => decide (a.name ≤ b.name)) (l.flatMap (·.reps))).map (·.name)).Nodup := by
      rw [(hperm.map (·.name)).nodup_iff, hmapname]; exact hnd0
    obtain ⟨hpn, _, _⟩ := mkObs_rep _ _ _ _ hmk
    refine ⟨?_, ?_, rfl⟩
    · intro x hx r hr c hc
      obtain ⟨hnx, hrx⟩ := wf_parts (hwf x hx)
      have hndx : x.names.Nodup := hnx.imp (fun h => ne_of_lt h)
      obtain ⟨k, hk, _, hpos⟩ := pos?_of_mem r.idl (hrx r hr).1 c hc
      have hkd : k < r.deltas.length := by rw [(hrx r hr).2]; exact hk
      have hs : ∃ s, (Rep.samples r)[k]? = some s :=
        ⟨_, List.getElem?_eq_getElem (by simpa [Rep.samples] using hkd)⟩
      obtain ⟨s, hs⟩ := hs
      refine ⟨s, sampleAt'_input x hndx r hr c k s hpos hs, ?_⟩
      have hrS : r ∈ Py.sortBy (fun (a b : Rep ℝ) => decide (a.name ≤ b.name)) (l.flatMap (·.reps)) := by
        rw [C01b.mem_sortBy]; exact List.mem_flatMap.mpr ⟨x, hx, hr⟩
      have hmem := mem_zip_map3 (fun r : Rep ℝ => r.name) (fun r => r.idl) Rep.samples _ r hrS
      exact mkObs_sample _ _ _ _ hmk hnd _ _ _ hmem c k s hpos hs
    · intro n hn
      have hn' : n ∈ o'.names := hn
      rw [hpn.mem_iff, (hperm.map (·.name)).mem_iff, hmapname] at hn'
      obtain ⟨x, hx, hnx⟩ := List.mem_flatMap.mp hn'
      exact ⟨x, hx, hnx⟩
  · cases h


end PV.C05
