import Mathlib.Data.Matrix.Mul
import Mathlib.LinearAlgebra.Matrix.NonsingularInverse
import Mathlib.Algebra.BigOperators.Fin
import PV.Model.Gls
import Mathlib.Data.List.Forall2
import Mathlib.Data.List.Perm.Basic
import Mathlib.Data.List.Nodup
import Mathlib.Data.String.Basic

/-
  PV.Proofs.GlsBridge — the list-of-lists matrices of PV/Model/Gls.lean are Mathlib matrices: `dotR`, `mulVec`,
  `transpose`, `matMul`, the normal matrix; hence what the executable estimator returns is the GLS estimator.
-/

namespace PV.Gls
open Matrix BigOperators

def Shaped (A : Mat) (m n : Nat) : Prop := A.length = m ∧ ∀ r ∈ A, r.length = n
def toM (A : Mat) (m n : Nat) : Matrix (Fin m) (Fin n) ℚ := fun i j => (A.getD i []).getD j 0
def toV (x : List ℚ) (n : Nat) : Fin n → ℚ := fun j => x.getD j 0

theorem foldl_add_eq_sum (l : List ℚ) (a : ℚ) : l.foldl (· + ·) a = a + l.sum := by
  induction l generalizing a with
  | nil => simp
  | cons x l ih => simp [ih, add_assoc]

theorem dotR_eq : ∀ (n : Nat) (a b : List ℚ), a.length = n → b.length = n →
    dotR a b = ∑ j : Fin n, a.getD j 0 * b.getD j 0
  | 0, a, b, ha, hb => by
    have : a = [] := List.eq_nil_of_length_eq_zero ha
    subst this; simp [dotR]
  | n + 1, a, b, ha, hb => by
    match a, b, ha, hb with
    | x :: a', y :: b', ha, hb =>
      have ih := dotR_eq n a' b' (by simpa using ha) (by simpa using hb)
      unfold dotR at ih ⊢
      rw [foldl_add_eq_sum] at ih ⊢
      simp only [List.zipWith_cons_cons, List.sum_cons, zero_add] at ih ⊢
      rw [Fin.sum_univ_succ, ih]
      simp

theorem toV_mulVec (A : Mat) (x : List ℚ) (m n : Nat) (hA : Shaped A m n) (hx : x.length = n) :
    toV (mulVec A x) m = toM A m n *ᵥ toV x n := by
  funext i
  have hi : (i : Nat) < A.length := by rw [hA.1]; exact i.2
  simp only [toV, mulVec, toM, Matrix.mulVec, dotProduct, List.getD_eq_getElem?_getD, List.getElem?_map,
    List.getElem?_eq_getElem hi, Option.map_some, Option.getD_some]
  rw [dotR_eq n _ x (hA.2 _ (List.getElem_mem hi)) hx]
  simp [List.getD_eq_getElem?_getD]


theorem transpose_shaped (A : Mat) (m n : Nat) (hA : Shaped A m n) (hm : 1 ≤ m) :
    Shaped (transpose A) n m ∧ toM (transpose A) n m = (toM A m n)ᵀ := by
  obtain ⟨hl, hr⟩ := hA
  match A, hl, hr with
  | r :: rest, hl, hr =>
    have hrn : r.length = n := hr r (by simp)
    refine ⟨⟨by simp [transpose, hrn], ?_⟩, ?_⟩
    · intro row hrow
      simp only [transpose, List.mem_map] at hrow
      obtain ⟨j, _, rfl⟩ := hrow
      simpa using hl
    · funext i j
      have hi : (i : Nat) < (List.range r.length).length := by simp [hrn]
      have hj : (j : Nat) < (r :: rest).length := by rw [hl]; exact j.2
      simp only [toM, transpose, Matrix.transpose_apply, List.getD_eq_getElem?_getD, List.getElem?_map,
        List.getElem?_eq_getElem hi, List.getElem?_eq_getElem hj, Option.map_some, Option.getD_some,
        List.getElem_range]
  | [], hl, _ => simp at hl; omega


theorem matMul_shaped (A B : Mat) (m n p : Nat) (hA : Shaped A m n) (hB : Shaped B n p) (hn : 1 ≤ n) :
    Shaped (matMul A B) m p ∧ toM (matMul A B) m p = toM A m n * toM B n p := by
  obtain ⟨hBt, hBtM⟩ := transpose_shaped B n p hB hn
  refine ⟨⟨by simp [matMul, hA.1], ?_⟩, ?_⟩
  · intro row hrow
    simp only [matMul, List.mem_map] at hrow
    obtain ⟨r, _, rfl⟩ := hrow
    simpa using hBt.1
  · funext i j
    have hi : (i : Nat) < A.length := by rw [hA.1]; exact i.2
    have hj : (j : Nat) < (transpose B).length := by rw [hBt.1]; exact j.2
    simp only [toM, matMul, Matrix.mul_apply, List.getD_eq_getElem?_getD, List.getElem?_map,
      List.getElem?_eq_getElem hi, List.getElem?_eq_getElem hj, Option.map_some, Option.getD_some]
    rw [dotR_eq n _ _ (hA.2 _ (List.getElem_mem hi)) (hBt.2 _ (List.getElem_mem hj))]
    apply Finset.sum_congr rfl
    intro k _
    have := congrFun (congrFun hBtM j) k
    simp only [toM, Matrix.transpose_apply, List.getD_eq_getElem?_getD, List.getElem?_eq_getElem hj,
      Option.getD_some] at this
    simp only [List.getD_eq_getElem?_getD]
    rw [this]


theorem solveChecked_sound' (A : Mat) (b x : List ℚ) (h : solveChecked A b = some x) :
    mulVec A x = b ∧ x.length = A.length := by
  unfold solveChecked at h
  split at h
  · cases h
  · split at h
    · rename_i hc
      injection h with h
      subst h
      simp only [Bool.and_eq_true, beq_iff_eq] at hc
      exact ⟨hc.2, hc.1⟩
    · cases h

theorem mapM_solveChecked' (N : Mat) : ∀ (cols : Mat) (sols : Mat),
    cols.mapM (fun col => solveChecked N col) = some sols →
    List.Forall₂ (fun col s => mulVec N s = col ∧ s.length = N.length) cols sols := by
  intro cols
  induction cols with
  | nil => intro sols h; simp at h; subst h; exact List.Forall₂.nil
  | cons c cs ih =>
    intro sols h
    simp only [List.mapM_cons, bind, Option.bind] at h
    cases hc : solveChecked N c with
    | none => rw [hc] at h; cases h
    | some s =>
      rw [hc] at h
      simp only at h
      cases hcs : cs.mapM (fun col => solveChecked N col) with
      | none => rw [hcs] at h; cases h
      | some ss =>
        rw [hcs] at h
        simp only [pure, Option.some.injEq] at h
        subst h
        exact List.Forall₂.cons (solveChecked_sound' N c s hc) (ih ss hcs)

/-- the normal matrix and `Aᵀ W` of the list model are Mathlib's -/
theorem normal_shaped (A W : Mat) (m n : Nat) (hA : Shaped A m n) (hW : Shaped W m m) (hm : 1 ≤ m) :
    Shaped (atw A W) n m ∧ toM (atw A W) n m = (toM A m n)ᵀ * toM W m m ∧
    Shaped (normalMat A W) n n ∧ toM (normalMat A W) n n = (toM A m n)ᵀ * toM W m m * toM A m n := by
  obtain ⟨hAt, hAtM⟩ := transpose_shaped A m n hA hm
  obtain ⟨hB, hBM⟩ := matMul_shaped (transpose A) W n m m hAt hW hm
  obtain ⟨hN, hNM⟩ := matMul_shaped (matMul (transpose A) W) A n m n hB hA hm
  refine ⟨hB, ?_, hN, ?_⟩
  · show toM (matMul (transpose A) W) n m = _
    rw [hBM, hAtM]
  · show toM (matMul (matMul (transpose A) W) A) n n = _
    rw [hNM, hBM, hAtM]

/-- **the executable estimator is the GLS estimator**: for well-shaped input, whatever `gls` returns satisfies
    Mathlib's normal equations, and when the normal matrix is invertible it is `(AᵀWA)⁻¹ AᵀW y` -/
theorem gls_is_estimator (A W : Mat) (y p : List ℚ) (S : Mat) (m n : Nat)
    (hA : Shaped A m n) (hW : Shaped W m m) (hy : y.length = m) (hm : 1 ≤ m)
    (h : gls A W y = some (p, S)) :
    ((toM A m n)ᵀ * toM W m m * toM A m n) *ᵥ toV p n = ((toM A m n)ᵀ * toM W m m) *ᵥ toV y m ∧
    (IsUnit ((toM A m n)ᵀ * toM W m m * toM A m n).det →
      toV p n = ((toM A m n)ᵀ * toM W m m * toM A m n)⁻¹ *ᵥ (((toM A m n)ᵀ * toM W m m) *ᵥ toV y m)) := by
  obtain ⟨hB, hBM, hN, hNM⟩ := normal_shaped A W m n hA hW hm
  unfold gls at h
  simp only at h
  split at h
  · cases h
  rename_i p' hp
  split at h
  · cases h
  simp only [Option.some.injEq, Prod.mk.injEq] at h
  obtain ⟨rfl, _⟩ := h
  obtain ⟨hsol, hlen⟩ := solveChecked_sound' _ _ _ hp
  have hpl : p'.length = n := by rw [hlen]; exact hN.1
  have e : toV (mulVec (normalMat A W) p') n = toV (mulVec (atw A W) y) n := congrArg (fun l => toV l n) hsol
  rw [toV_mulVec _ _ n n hN hpl, toV_mulVec _ _ n m hB hy, hNM, hBM] at e
  refine ⟨e, fun hu => ?_⟩
  rw [← e, Matrix.mulVec_mulVec, Matrix.nonsing_inv_mul _ hu, Matrix.one_mulVec]


/-- the sensitivity matrix returned by `gls` solves `(AᵀWA) S = AᵀW`; it is `(AᵀWA)⁻¹ AᵀW` when the normal matrix is
    invertible (so `p̂ = S y`, and the rows of `S` are the gradients every fluctuation is propagated with) -/
theorem gls_sensitivity (A W : Mat) (y p : List ℚ) (S : Mat) (m n : Nat)
    (hA : Shaped A m n) (hW : Shaped W m m) (hm : 1 ≤ m) (hn : 1 ≤ n)
    (h : gls A W y = some (p, S)) :
    ((toM A m n)ᵀ * toM W m m * toM A m n) * toM S n m = (toM A m n)ᵀ * toM W m m ∧
    (IsUnit ((toM A m n)ᵀ * toM W m m * toM A m n).det →
      toM S n m = ((toM A m n)ᵀ * toM W m m * toM A m n)⁻¹ * ((toM A m n)ᵀ * toM W m m)) := by
  obtain ⟨hB, hBM, hN, hNM⟩ := normal_shaped A W m n hA hW hm
  obtain ⟨hBt, hBtM⟩ := transpose_shaped (atw A W) n m hB hn
  unfold gls at h
  simp only at h
  split at h
  · cases h
  split at h
  · cases h
  rename_i cols hcols
  simp only [Option.some.injEq, Prod.mk.injEq] at h
  obtain ⟨_, rfl⟩ := h
  have hF := mapM_solveChecked' _ _ _ hcols
  have hcl : cols.length = m := by rw [← hF.length_eq]; exact hBt.1
  have hcs : Shaped cols m n := by
    refine ⟨hcl, fun s hs => ?_⟩
    obtain ⟨k, hk, rfl⟩ := List.mem_iff_getElem.mp hs
    have hk' : k < (transpose (atw A W)).length := by rw [hF.length_eq]; exact hk
    have := (List.forall₂_iff_get.mp hF).2 k hk' hk
    simpa [hN.1] using this.2
  obtain ⟨hS, hSM⟩ := transpose_shaped cols m n hcs hm
  have key : ((toM A m n)ᵀ * toM W m m * toM A m n) * toM (transpose cols) n m = (toM A m n)ᵀ * toM W m m := by
    rw [← hNM, ← hBM, hSM]
    funext i k
    have hk : (k : Nat) < cols.length := by rw [hcl]; exact k.2
    have hk' : (k : Nat) < (transpose (atw A W)).length := by rw [hF.length_eq]; exact hk
    have hsol := (List.forall₂_iff_get.mp hF).2 k hk' hk
    have e : toV (mulVec (normalMat A W) cols[(k : Nat)]) n = toV (transpose (atw A W))[(k : Nat)] n :=
      congrArg (fun l => toV l n) hsol.1
    rw [toV_mulVec _ _ n n hN (hcs.2 _ (List.getElem_mem hk))] at e
    have e' := congrFun e i
    have hBik : toV (transpose (atw A W))[(k : Nat)] n i = toM (atw A W) n m i k := by
      have := congrFun (congrFun hBtM k) i
      simp only [toM, Matrix.transpose_apply, List.getD_eq_getElem?_getD, List.getElem?_eq_getElem hk',
        Option.getD_some] at this
      simp only [toV, toM, List.getD_eq_getElem?_getD]
      exact this
    rw [← hBik, ← e']
    simp only [Matrix.mul_apply, Matrix.mulVec, dotProduct, Matrix.transpose_apply, toM, toV,
      List.getD_eq_getElem?_getD, List.getElem?_eq_getElem hk, Option.getD_some]
  refine ⟨key, fun hu => ?_⟩
  have h1 : toM (transpose cols) n m = ((toM A m n)ᵀ * toM W m m * toM A m n)⁻¹ *
      (((toM A m n)ᵀ * toM W m m * toM A m n) * toM (transpose cols) n m) := by
    rw [← Matrix.mul_assoc, Matrix.nonsing_inv_mul _ hu, Matrix.one_mul]
  rw [key] at h1
  exact h1

/-- the implicit-function sensitivities returned by `iftSens` solve `H X = -M` as Mathlib matrices; `X = -H⁻¹ M`
    when `H` is invertible -/
theorem iftSens_is_inverse (H M X : Mat) (n k : Nat) (hH : Shaped H n n) (hM : Shaped M n k)
    (hn : 1 ≤ n) (hk : 1 ≤ k) (h : iftSens H M = some X) :
    toM H n n * toM X n k = - toM M n k ∧
    (IsUnit (toM H n n).det → toM X n k = - ((toM H n n)⁻¹ * toM M n k)) := by
  obtain ⟨hMt, hMtM⟩ := transpose_shaped M n k hM hn
  unfold iftSens at h
  split at h
  · cases h
  rename_i cols hcols
  injection h with h
  subst h
  have hcols' : ((transpose M).map (fun col => col.map (fun v => -v))).mapM (fun c => solveChecked H c) = some cols := by
    rw [List.mapM_map]; exact hcols
  have hF := mapM_solveChecked' H _ cols hcols'
  rw [List.forall₂_map_left_iff] at hF
  have hcl : cols.length = k := by rw [← hF.length_eq]; exact hMt.1
  have hcs : Shaped cols k n := by
    refine ⟨hcl, fun s hs => ?_⟩
    obtain ⟨j, hj, rfl⟩ := List.mem_iff_getElem.mp hs
    have hj' : j < (transpose M).length := by rw [hF.length_eq]; exact hj
    have := (List.forall₂_iff_get.mp hF).2 j hj' hj
    simpa [hH.1] using this.2
  obtain ⟨_, hSM⟩ := transpose_shaped cols k n hcs hk
  have key : toM H n n * toM (transpose cols) n k = - toM M n k := by
    rw [hSM]
    funext i j
    have hj : (j : Nat) < cols.length := by rw [hcl]; exact j.2
    have hj' : (j : Nat) < (transpose M).length := by rw [hF.length_eq]; exact hj
    have hsol := (List.forall₂_iff_get.mp hF).2 j hj' hj
    have e : toV (mulVec H cols[(j : Nat)]) n = toV ((transpose M)[(j : Nat)].map (fun v => -v)) n :=
      congrArg (fun l => toV l n) hsol.1
    rw [toV_mulVec _ _ n n hH (hcs.2 _ (List.getElem_mem hj))] at e
    have e' := congrFun e i
    have hMij : toV ((transpose M)[(j : Nat)].map (fun v => -v)) n i = - toM M n k i j := by
      have := congrFun (congrFun hMtM j) i
      simp only [toM, Matrix.transpose_apply, List.getD_eq_getElem?_getD, List.getElem?_eq_getElem hj',
        Option.getD_some] at this
      have hil : (i : Nat) < (transpose M)[(j : Nat)].length := by
        rw [hMt.2 _ (List.getElem_mem hj')]; exact i.2
      simp only [toV, toM, List.getD_eq_getElem?_getD, List.getElem?_map, List.getElem?_eq_getElem hil,
        Option.map_some, Option.getD_some]
      rw [List.getElem?_eq_getElem hil] at this
      simp only [Option.getD_some] at this
      rw [this]
    rw [Matrix.neg_apply, ← hMij, ← e']
    simp only [Matrix.mul_apply, Matrix.mulVec, dotProduct, Matrix.transpose_apply, toM, toV,
      List.getD_eq_getElem?_getD, List.getElem?_eq_getElem hj, Option.getD_some]
  refine ⟨key, fun hu => ?_⟩
  have h1 : toM (transpose cols) n k = (toM H n n)⁻¹ * (toM H n n * toM (transpose cols) n k) := by
    rw [← Matrix.mul_assoc, Matrix.nonsing_inv_mul _ hu, Matrix.one_mul]
  rw [key, Matrix.mul_neg] at h1
  exact h1


/-! ### assembling the problem: data sets stacked by key -/


theorem perm_insertByKey (b : Block) : ∀ l : List Block, (insertByKey b l).Perm (b :: l)
  | [] => List.Perm.refl _
  | c :: cs => by
    unfold insertByKey
    split
    · exact List.Perm.refl _
    · exact ((perm_insertByKey b cs).cons c).trans (List.Perm.swap b c cs)

theorem perm_sortBlocks (bs : List Block) : (sortBlocks bs).Perm bs := by
  unfold sortBlocks
  suffices H : ∀ (l acc : List Block), (l.foldl (fun acc b => insertByKey b acc) acc).Perm (l ++ acc) by
    simpa using H bs []
  intro l
  induction l with
  | nil => intro acc; simp
  | cons b l ih =>
    intro acc
    simp only [List.foldl_cons, List.cons_append]
    refine (ih _).trans ?_
    exact (List.Perm.append_left l (perm_insertByKey b acc)).trans List.perm_middle

theorem pairwise_insertByKey (b : Block) : ∀ l : List Block, l.Pairwise (fun x y => x.key ≤ y.key) →
    (insertByKey b l).Pairwise (fun x y => x.key ≤ y.key)
  | [], _ => by simp [insertByKey]
  | c :: cs, h => by
    unfold insertByKey
    rw [List.pairwise_cons] at h
    split
    · rename_i hbc
      refine List.Pairwise.cons ?_ (List.Pairwise.cons h.1 h.2)
      intro a ha
      rcases List.mem_cons.mp ha with rfl | ha
      · exact hbc
      · exact le_trans hbc (h.1 a ha)
    · rename_i hbc
      have hcb : c.key ≤ b.key := le_of_lt (not_le.mp hbc)
      refine List.Pairwise.cons ?_ (pairwise_insertByKey b cs h.2)
      intro a ha
      rcases List.mem_cons.mp ((perm_insertByKey b cs).subset ha) with rfl | ha
      · exact hcb
      · exact h.1 a ha

theorem pairwise_sortBlocks (bs : List Block) : (sortBlocks bs).Pairwise (fun x y => x.key ≤ y.key) := by
  unfold sortBlocks
  suffices H : ∀ (l acc : List Block), acc.Pairwise (fun x y => x.key ≤ y.key) →
      (l.foldl (fun acc b => insertByKey b acc) acc).Pairwise (fun x y => x.key ≤ y.key) from H bs [] List.Pairwise.nil
  intro l
  induction l with
  | nil => intro acc h; simpa
  | cons b l ih => intro acc h; exact ih _ (pairwise_insertByKey b acc h)

/-- the order in which the data sets are handed over does not matter: they are stacked by key -/
theorem sortBlocks_perm (bs bs' : List Block) (hp : bs.Perm bs') (hnd : (bs.map (·.key)).Nodup) :
    sortBlocks bs = sortBlocks bs' := by
  have h1 : (sortBlocks bs).Perm (sortBlocks bs') := (perm_sortBlocks bs).trans (hp.trans (perm_sortBlocks bs').symm)
  have hnd' : ((sortBlocks bs).map (·.key)).Nodup := ((perm_sortBlocks bs).map _).nodup_iff.mpr hnd
  refine List.Perm.eq_of_pairwise ?_ (pairwise_sortBlocks bs) (pairwise_sortBlocks bs') h1
  intro a b ha hb hab hba
  exact List.inj_on_of_nodup_map hnd' ha (h1.symm.subset hb) (le_antisymm hab hba)

theorem assemble_perm (bs bs' : List Block) (npar : Nat) (priors : List (Nat × Rat × Rat)) (hp : bs.Perm bs')
    (hnd : (bs.map (·.key)).Nodup) : assemble bs npar priors = assemble bs' npar priors := by
  unfold assemble
  rw [sortBlocks_perm bs bs' hp hnd]

end PV.Gls
