/-
  Helper lemmas for PV/Todo/C19.lean: round-half-even on non-negative rationals, powers of two
  as `zpow`, correctness of the lower bound of `ilog2`.
-/
import Mathlib.Tactic.Ring
import Mathlib.Tactic.Linarith
import Mathlib.Tactic.Positivity
import Mathlib.Tactic.FieldSimp
import Mathlib.Tactic.GCongr
import Mathlib.Tactic.SplitIfs
import Mathlib.Algebra.Order.Floor.Defs
import Mathlib.Algebra.Order.Field.Basic
import Mathlib.Data.Rat.Floor
import PV.Model.Format

namespace PV
open PV.Fmt

/-! ### round half even -/

theorem floor_toNat_cast (q : Rat) (hq : 0 ≤ q) :
    ((q.floor.toNat : Nat) : Rat) = ((q.floor : Int) : Rat) := by
  have h : 0 ≤ q.floor := Rat.le_floor_iff.mpr (by simpa using hq)
  have h' : ((q.floor.toNat : Nat) : Int) = q.floor := Int.toNat_of_nonneg h
  exact_mod_cast congrArg (Int.cast (R := Rat)) h'

theorem rhe_abs (q : Rat) (hq : 0 ≤ q) : |(roundHalfEvenNat q : Rat) - q| ≤ 1 / 2 := by
  have h1 := Rat.floor_le q
  have h2 := Rat.lt_floor_add_one q
  have h3 := floor_toNat_cast q hq
  push_cast at h2
  unfold roundHalfEvenNat
  simp only
  rw [abs_le]
  split_ifs <;> push_cast <;> constructor <;> linarith

/-- a natural lower bound survives rounding -/
theorem rhe_ge (q : Rat) (N : Nat) (h : (N : Rat) ≤ q) : N ≤ roundHalfEvenNat q := by
  have hq : (0 : Rat) ≤ q := le_trans (by positivity) h
  have hf : (N : Int) ≤ q.floor := Rat.le_floor_iff.mpr (by simpa using h)
  have hN : N ≤ q.floor.toNat := by omega
  unfold roundHalfEvenNat
  simp only
  split_ifs <;> omega

/-- a natural upper bound survives rounding -/
theorem rhe_le (q : Rat) (N : Nat) (hq : 0 ≤ q) (h : q ≤ (N : Rat)) : roundHalfEvenNat q ≤ N := by
  have h0 : 0 ≤ q.floor := Rat.le_floor_iff.mpr (by simpa using hq)
  have h3 := floor_toNat_cast q hq
  have h1 := Rat.floor_le q
  have hf : q.floor ≤ (N : Int) := by
    have : ((q.floor : Int) : Rat) ≤ ((N : Int) : Rat) := by push_cast; linarith
    exact_mod_cast this
  rcases Int.lt_or_eq_of_le hf with hlt | heq
  · unfold roundHalfEvenNat
    simp only
    split_ifs <;> omega
  · have hqN : q = (N : Rat) := by
      have : ((q.floor : Int) : Rat) = (N : Rat) := by rw [heq]; simp
      linarith
    have hfl : q.floor.toNat = N := by omega
    unfold roundHalfEvenNat
    simp only
    rw [hfl, hqN]
    simp

/-! ### powers of two -/

theorem pw_eq (e : Int) :
    (if e ≥ 0 then ((2 ^ e.toNat : Nat) : Rat) else 1 / ((2 ^ (-e).toNat : Nat) : Rat))
      = (2 : Rat) ^ e := by
  split_ifs with h
  · obtain ⟨n, rfl⟩ := Int.eq_ofNat_of_zero_le h
    simp
  · obtain ⟨n, rfl⟩ : ∃ n : Nat, e = -(n : Int) := ⟨(-e).toNat, by omega⟩
    simp

theorem ilog2_le (q : Rat) (hq : 0 < q) : (2 : Rat) ^ (ilog2 q) ≤ q := by
  unfold ilog2
  simp only [pw_eq]
  split_ifs with h1 h2
  · -- the only case that needs the analysis of `Nat.log2`
    have hnum : 0 < q.num := Rat.num_pos.mpr hq
    have hden : 0 < q.den := q.den_pos
    have ha : 2 ^ (Nat.log2 q.num.toNat) ≤ q.num.toNat := Nat.log2_self_le (by omega)
    have hb : q.den < 2 ^ (Nat.log2 q.den + 1) := Nat.lt_log2_self
    have hqe : q = ((q.num.toNat : Nat) : Rat) / ((q.den : Nat) : Rat) := by
      have hc : ((q.num.toNat : Nat) : Rat) = ((q.num : Int) : Rat) := by
        have : ((q.num.toNat : Nat) : Int) = q.num := Int.toNat_of_nonneg (le_of_lt hnum)
        exact_mod_cast congrArg (Int.cast (R := Rat)) this
      rw [hc]; exact (Rat.num_div_den q).symm
    have haQ : ((2 : Rat) ^ (Nat.log2 q.num.toNat)) ≤ ((q.num.toNat : Nat) : Rat) := by
      exact_mod_cast ha
    have hbQ : ((q.den : Nat) : Rat) ≤ (2 : Rat) ^ (Nat.log2 q.den + 1) := by
      exact_mod_cast le_of_lt hb
    have hexp : ((Nat.log2 q.num.toNat : Nat) : Int) - ((Nat.log2 q.den : Nat) : Int) - 1
        = ((Nat.log2 q.num.toNat : Nat) : Int) - ((Nat.log2 q.den + 1 : Nat) : Int) := by
      push_cast; ring
    rw [hexp, zpow_sub₀ (by norm_num : (2 : Rat) ≠ 0), zpow_natCast, zpow_natCast]
    have hdQ : (0 : Rat) < ((q.den : Nat) : Rat) := by exact_mod_cast hden
    calc (2 : Rat) ^ (Nat.log2 q.num.toNat) / (2 : Rat) ^ (Nat.log2 q.den + 1)
        ≤ ((q.num.toNat : Nat) : Rat) / ((q.den : Nat) : Rat) :=
          div_le_div₀ (by positivity) haQ hdQ hbQ
      _ = q := hqe.symm
  · exact h2
  · exact not_lt.mp h1

end PV
