/-
  Lemmas for the pobs model (PV/Model/Pobs.lean): strided slicing of the flattened replica block returns
  the columns; the constructor rebuilds every chain from its samples.
-/
import Mathlib.Tactic.Ring
import Mathlib.Tactic.FieldSimp
import PV.Model.Pobs
import PV.Proofs.C05Lemmas
import PV.Proofs.C03bLemmas
import PV.Proofs.C11cLemmas

namespace PV.Pobs
open PV Scalar

/-! ### `l[a :: w]` on a flattened table of rows of width `w` is column `a` -/

theorem strideF_flatten {β : Type} (w a : Nat) (ha : a < w) :
    ∀ (rows : List (List β)) (fuel : Nat), rows.length < fuel → (∀ r ∈ rows, r.length = w) →
      strideF fuel w a rows.flatten = rows.filterMap (·[a]?)
  | [], fuel, hf, _ => by
    cases fuel with
    | zero => omega
    | succ f => simp [strideF]
  | r :: rs, fuel, hf, hw => by
    cases fuel with
    | zero => omega
    | succ f =>
      have hr : r.length = w := hw r (by simp)
      have hdrop : (r :: rs).flatten.drop a = r[a]'(by omega) :: (r.drop (a + 1) ++ rs.flatten) := by
        rw [List.flatten_cons, List.drop_append_of_le_length (by omega)]
        rw [List.drop_eq_getElem_cons (by omega)]
        rfl
      have hdropw : (r :: rs).flatten.drop w = rs.flatten := by
        rw [List.flatten_cons, ← hr, List.drop_left]
      unfold strideF
      rw [hdrop]
      simp only [hdropw]
      rw [strideF_flatten w a ha rs f (by simp at hf; omega) (fun r' hr' => hw r' (by simp [hr']))]
      have : r[a]? = some (r[a]'(by omega)) := List.getElem?_eq_getElem (by omega)
      simp [this]

theorem stride_flatten {β : Type} (w a : Nat) (ha : a < w) (rows : List (List β))
    (hw : ∀ r ∈ rows, r.length = w) : stride w a rows.flatten = rows.filterMap (·[a]?) := by
  unfold stride
  apply strideF_flatten w a ha rows _ _ hw
  have : rows.length ≤ rows.flatten.length := by
    have hpos : 0 < w := by omega
    induction rows with
    | nil => simp
    | cons r rs ih =>
      have hr : r.length = w := hw r (by simp)
      have := ih (fun r' hr' => hw r' (by simp [hr']))
      simp only [List.length_cons, List.flatten_cons, List.length_append]
      omega
  omega

variable {α : Type} [Scalar α]

theorem rowsOf_width : ∀ (idl : List Int) (cols : List (List α)), ∀ r ∈ rowsOf idl cols, r.length = cols.length + 1
  | [], _, r, hr => by simp [rowsOf] at hr
  | c :: cs, cols, r, hr => by
    simp only [rowsOf, List.mem_cons] at hr
    rcases hr with rfl | hr
    · simp
    · have := rowsOf_width cs (cols.map List.tail) r hr
      simpa using this

theorem rowsOf_col0 : ∀ (idl : List Int) (cols : List (List α)),
    (rowsOf idl cols).filterMap (·[0]?) = idl.map Tok.cfg
  | [], _ => by simp [rowsOf]
  | c :: cs, cols => by
    simp only [rowsOf, List.filterMap_cons, List.getElem?_cons_zero, List.map_cons]
    rw [rowsOf_col0 cs]

theorem rowsOf_col : ∀ (idl : List Int) (cols : List (List α)) (a : Nat) (col : List α),
    cols[a]? = some col → col.length = idl.length →
    (rowsOf idl cols).filterMap (·[a + 1]?) = col.map Tok.num
  | [], _, a, col, _, hl => by
    have : col = [] := by simpa using hl
    simp [rowsOf, this]
  | c :: cs, cols, a, col, hc, hl => by
    cases col with
    | nil => simp at hl
    | cons x xs =>
      simp only [rowsOf, List.filterMap_cons, List.getElem?_cons_succ, List.getElem?_map, hc, Option.map_some,
        List.headD_cons, List.map_cons]
      rw [rowsOf_col cs (cols.map List.tail) a xs (by simp [hc]) (by simpa using hl)]

/-- **the strided reads of `_import_array` return the written columns** -/
theorem stride_rows (idl : List Int) (cols : List (List α)) :
    stride (cols.length + 1) 0 (rowsOf idl cols).flatten = idl.map Tok.cfg ∧
    ∀ a col, cols[a]? = some col → col.length = idl.length →
      stride (cols.length + 1) (1 + a) (rowsOf idl cols).flatten = col.map Tok.num := by
  refine ⟨?_, ?_⟩
  · rw [stride_flatten _ 0 (by omega) _ (rowsOf_width idl cols), rowsOf_col0]
  · intro a col hc hl
    have ha : a < cols.length := by
      by_contra h
      rw [List.getElem?_eq_none (by omega)] at hc
      cases hc
    rw [stride_flatten _ (1 + a) (by omega) _ (rowsOf_width idl cols), Nat.add_comm 1 a, rowsOf_col idl cols a col hc hl]

theorem mapM_asCfg (l : List Int) : (l.map (Tok.cfg (α := α))).mapM asCfg = some l := by
  induction l with
  | nil => rfl
  | cons c cs ih => simp [List.mapM_cons, asCfg, ih]

theorem mapM_asNum (l : List α) : (l.map Tok.num).mapM asNum = some l := by
  induction l with
  | nil => rfl
  | cons c cs ih => simp [List.mapM_cons, asNum, ih]

theorem mapM_some_of_forall {β γ : Type} (f : β → Option γ) (g : β → γ) :
    ∀ (l : List β), (∀ x ∈ l, f x = some (g x)) → l.mapM f = some (l.map g)
  | [], _ => rfl
  | x :: xs, h => by
    rw [List.mapM_cons, h x (by simp), mapM_some_of_forall f g xs (fun y hy => h y (by simp [hy]))]
    rfl

theorem mapM_ok_of_forall {ε β γ : Type} (f : β → Except ε γ) (g : β → γ) :
    ∀ (l : List β), (∀ x ∈ l, f x = .ok (g x)) → l.mapM f = .ok (l.map g)
  | [], _ => rfl
  | x :: xs, h => by
    rw [List.mapM_cons, h x (by simp), mapM_ok_of_forall f g xs (fun y hy => h y (by simp [hy]))]
    rfl

/-- reading a written block returns the configuration numbers and the columns -/
theorem readBlock_written (id : String) (idl : List Int) (cols : List (List α))
    (hl : ∀ col ∈ cols, col.length = idl.length) :
    readBlock { id := id, nc := idl.length, na := cols.length, toks := (rowsOf idl cols).flatten } = .ok (idl, cols) := by
  obtain ⟨h0, hc⟩ := stride_rows idl cols
  unfold readBlock
  simp only []
  rw [h0, mapM_asCfg]
  have hcols : (List.range cols.length).mapM (fun a => (stride (cols.length + 1) (1 + a) (rowsOf idl cols).flatten).mapM asNum)
      = some ((List.range cols.length).map (fun a => cols.getD a [])) := by
    apply mapM_some_of_forall
    intro a ha
    have ha' : a < cols.length := List.mem_range.mp ha
    have hget : cols[a]? = some cols[a] := List.getElem?_eq_getElem ha'
    rw [hc a cols[a] hget (hl _ (List.getElem_mem ha')), mapM_asNum]
    simp [List.getD_eq_getElem?_getD, hget]
  have : (List.range cols.length).map (fun a => cols.getD a []) = cols := by
    apply List.ext_getElem
    · simp
    · intro i h1 h2
      simp [List.getD_eq_getElem?_getD, h2]
  rw [hcols, this]
  simp

end PV.Pobs

/-! ### the constructor rebuilds an observable from its samples -/

namespace PV.Pobs
open PV Scalar PV.RealS PV.C05

/-- the samples of a chain: fluctuation + replica mean -/
def samplesOf (r : Rep ℝ) : List ℝ := r.deltas.map (· + r.rvalue)

/-- hypotheses under which a single-ensemble observable is determined by its per-configuration samples -/
structure Rebuildable (o : Obs ℝ) : Prop where
  wf : o.WF = true
  one : o.mcNames.length = 1
  nocov : o.covs = []
  zero : ∀ r ∈ o.reps, r.deltas.sum = 0
  five : ∀ r ∈ o.reps, 5 ≤ r.idl.len
  flag : o.reweighted = false
  /-- the central value is the weighted mean of the replica means (what the constructor computes) -/
  primary : o.value = Scalar.sum (o.reps.map (fun r => ofNatS r.idl.len * r.rvalue))
      / ofNatS ((o.reps.map (·.idl.len)).foldr (· + ·) 0)

theorem dedupSorted_of_strict : ∀ (l : List String), l.Pairwise (· < ·) → Py.dedupSorted l = l
  | [], _ => rfl
  | [_], _ => rfl
  | x :: y :: r, h => by
    have hxy : x < y := (List.pairwise_cons.mp h).1 y (by simp)
    have hne : (x == y) = false := by simpa using ne_of_lt hxy
    rw [Py.dedupSorted, hne]
    simp only [Bool.false_eq_true, if_false]
    rw [dedupSorted_of_strict (y :: r) (List.pairwise_cons.mp h).2]

theorem mkRep_samples (o : Obs ℝ) (H : Rebuildable o) (r : Rep ℝ) (hr : r ∈ o.reps) :
    mkRep (r.name, Idl.list r.idl.toList, samplesOf r) = .ok r := by
  obtain ⟨hwf, _, _, hz, h5, _, _⟩ := H
  have hlen := ((wf_parts hwf).2 r hr).2
  have hwf' := hwf
  simp only [Obs.WF, Bool.and_eq_true, List.all_eq_true, beq_iff_eq] at hwf'
  have hrw := hwf'.1.1.1.2 r hr
  have hnorm : Idl.normalise (.list r.idl.toList) = .ok r.idl := by
    apply JsonDoc.normalise_toList_self r.idl hrw.1.1
    refine ⟨?_, ?_⟩
    · intro s n st he
      have h5r := h5 r hr
      rw [he] at hrw h5r
      simp only [decide_eq_true_eq] at hrw
      refine ⟨hrw.2, ?_⟩
      simp only [Idl.len, Idl.toList, List.length_map, List.length_range] at h5r
      omega
    · intro l he
      rw [he] at hrw
      simpa using hrw.2
  have hne : r.deltas ≠ [] := by
    intro h
    have := h5 r hr
    rw [h] at hlen
    simp at hlen
    omega
  have hmean : mean (samplesOf r) = r.rvalue := by
    unfold samplesOf
    rw [C03b.mean_add_const r.deltas r.rvalue hne]
    unfold mean
    simp only [sum_eq, hz r hr, zero_div, zero_add]
  unfold mkRep
  simp only [hnorm]
  have hl2 : ((samplesOf r).length != r.idl.len) = false := by
    simp [samplesOf, hlen]
  simp only [bind, Except.bind, pure, Except.pure, hl2, Bool.false_eq_true, if_false]
  rw [hmean]
  have hd : (samplesOf r).map (· - r.rvalue) = r.deltas := by
    unfold samplesOf
    rw [List.map_map]
    conv_rhs => rw [← List.map_id r.deltas]
    apply List.map_congr_left
    intro x _
    simp
  rw [hd]

theorem mkObs_rebuild (o : Obs ℝ) (H : Rebuildable o) :
    mkObs (o.reps.map samplesOf) o.names (some (o.reps.map (fun r => Idl.list r.idl.toList))) = .ok o := by
  have hH := H
  obtain ⟨hwf, hone, hnocov, hz, h5, hflag, hprim⟩ := H
  have hnames := (wf_parts hwf).1
  have hfin : mkFinish (o.reps.map samplesOf) o.names (o.reps.map (fun r => Idl.list r.idl.toList)) = .ok o := by
    unfold mkFinish
    have hzip : List.zip o.names (List.zip (o.reps.map (fun r => Idl.list r.idl.toList)) (o.reps.map samplesOf))
        = o.reps.map (fun r => (r.name, Idl.list r.idl.toList, samplesOf r)) := by
      unfold Obs.names
      rw [List.zip_map', List.zip_map']
    rw [hzip]
    have hsorted : Py.sortBy (fun (a b : String × Idl × List ℝ) => decide (a.1 ≤ b.1))
        (o.reps.map (fun r => (r.name, Idl.list r.idl.toList, samplesOf r)))
        = o.reps.map (fun r => (r.name, Idl.list r.idl.toList, samplesOf r)) := by
      apply sortBy_of_sorted
      rw [List.pairwise_map]
      unfold Obs.names at hnames
      rw [List.pairwise_map] at hnames
      exact hnames.imp (fun h => by simpa using le_of_lt h)
    rw [hsorted]
    have hm : (o.reps.map (fun r => (r.name, Idl.list r.idl.toList, samplesOf r))).mapM mkRep = .ok o.reps := by
      rw [List.mapM_map]
      have := mapM_ok_of_forall (fun r => mkRep (r.name, Idl.list r.idl.toList, samplesOf r)) id o.reps
        (fun r hr => mkRep_samples o hH r hr)
      simpa [Function.comp_def] using this
    simp only [bind, Except.bind, hm, pure, Except.pure]
    congr 1
    cases o with
    | mk value reps covs reweighted =>
      simp only at hprim hnocov hflag
      subst hnocov hflag
      simp only [Obs.mk.injEq, and_true]
      exact hprim.symm
  rw [mkObs_eq]
  have h1 : ((o.reps.map samplesOf).length != o.names.length) = false := by simp [Obs.names]
  have h2 : ((o.reps.map (fun r => Idl.list r.idl.toList)).length != o.names.length) = false := by simp [Obs.names]
  have h3 : ((Py.sortedSetStr o.names).length != o.names.length) = false := by
    have : Py.sortedSetStr o.names = o.names := by
      unfold Py.sortedSetStr
      rw [sortBy_of_sorted _ _ (hnames.imp (fun h => by simpa using le_of_lt h))]
      exact dedupSorted_of_strict _ hnames
    simp [this]
  have h4 : ¬ (Py.sortedSetStr (o.names.map Py.ensOf)).length > 1 := by
    have : (Py.sortedSetStr (o.names.map Py.ensOf)).length = 1 := hone
    omega
  have h5' : ((o.reps.map samplesOf).any (·.length ≤ 4)) = false := by
    rw [List.any_eq_false]
    intro s hs
    obtain ⟨r, hr, rfl⟩ := List.mem_map.mp hs
    have := h5 r hr
    have hl := ((wf_parts hwf).2 r hr).2
    simp [samplesOf, hl]
    omega
  simp only [h1, h2, h3, h4, h5', Bool.false_eq_true, if_false, hfin, ite_self]

end PV.Pobs

/-! ### write, then read -/

namespace PV.Pobs
open PV Scalar PV.RealS PV.C05

/-- what `create_pobs_string` demands of a list (since fix 776c1b2) together with the conditions under which
    the samples determine each observable; `fix` is the treatment of the separator on import -/
structure PWritable (fix : String → String) (o0 : Obs ℝ) (rest : List (Obs ℝ)) : Prop where
  each : ∀ o ∈ o0 :: rest, Rebuildable o
  chains : ∀ o ∈ rest, o.reps.map (fun r => (r.name, r.idl)) = o0.reps.map (fun r => (r.name, r.idl))
  names : ∀ r ∈ o0.reps, fix (stripBar r.name) = r.name

theorem colOf_of_mem (o : Obs ℝ) (hwf : o.WF = true) (r : Rep ℝ) (hr : r ∈ o.reps) :
    colOf o r.name = samplesOf r := by
  unfold colOf
  rw [rep?_of_mem o ((wf_parts hwf).1.imp (fun h => ne_of_lt h)) r hr]
  rfl

theorem write_ok (fix : String → String) (o0 : Obs ℝ) (rest : List (Obs ℝ)) (H : PWritable fix o0 rest) :
    write (o0 :: rest) = .ok (o0.reps.map (blockOf (o0 :: rest))) := by
  obtain ⟨heach, hch, _⟩ := H
  have hch' : ∀ o ∈ o0 :: rest, o.reps.map (fun r => (r.name, r.idl)) = o0.reps.map (fun r => (r.name, r.idl)) := by
    intro o ho
    rcases List.mem_cons.mp ho with rfl | ho
    · rfl
    · exact hch o ho
  have hnm : ∀ o ∈ o0 :: rest, o.names = o0.names := by
    intro o ho
    have := congrArg (List.map Prod.fst) (hch' o ho)
    simpa [Obs.names, List.map_map, Function.comp_def] using this
  unfold write
  have g1 : (o0 :: rest).any (fun o => o.mcNames.length != 1 || o.covs.length != 0) = false := by
    rw [List.any_eq_false]
    intro o ho
    have := heach o ho
    simp [this.one, this.nocov]
  have g2 : (o0 :: rest).any (fun o => o.mcNames != o0.mcNames) = false := by
    rw [List.any_eq_false]
    intro o ho
    simp [Obs.mcNames, hnm o ho]
  have g3 : (o0 :: rest).any (fun o => o.reps.length != o0.reps.length) = false := by
    rw [List.any_eq_false]
    intro o ho
    have := congrArg List.length (hch' o ho)
    simp at this
    simp [this]
  have g4 : (o0 :: rest).any (fun o => o.reps.map (fun r => (r.name, r.idl.toList)) != o0.reps.map (fun r => (r.name, r.idl.toList))) = false := by
    rw [List.any_eq_false]
    intro o ho
    have := congrArg (List.map (fun p : String × Idl => (p.1, p.2.toList))) (hch' o ho)
    simp only [List.map_map, Function.comp_def] at this
    simp [this]
  have g5 : (o0 :: rest).any (fun o => o.reps.any (fun r => r.deltas.length != r.idl.len)) = false := by
    rw [List.any_eq_false]
    intro o ho
    rw [Bool.not_eq_true, List.any_eq_false]
    intro r hr
    have := ((wf_parts (heach o ho).wf).2 r hr).2
    simp [this]
  simp only [g1, g2, g3, g4, g5, Bool.false_eq_true, if_false]

theorem cols_of_chains (o0 o : Obs ℝ) (hwf : o.WF = true)
    (hch : o.reps.map (fun r => (r.name, r.idl)) = o0.reps.map (fun r => (r.name, r.idl))) :
    o0.reps.map (fun r0 => colOf o r0.name) = o.reps.map samplesOf := by
  have hn : o0.reps.map (·.name) = o.reps.map (·.name) := by
    have := congrArg (List.map Prod.fst) hch
    simpa [List.map_map, Function.comp_def] using this.symm
  have : o0.reps.map (fun r0 => colOf o r0.name) = (o0.reps.map (·.name)).map (colOf o) := by
    rw [List.map_map]; rfl
  rw [this, hn, List.map_map]
  apply List.map_congr_left
  intro r hr
  exact colOf_of_mem o hwf r hr

theorem pobs_roundtrip (fix : String → String) (o0 : Obs ℝ) (rest : List (Obs ℝ)) (H : PWritable fix o0 rest) :
    (write (o0 :: rest)).bind (readWith fix) = .ok (o0 :: rest) := by
  rw [write_ok fix o0 rest H]
  obtain ⟨heach, hch, hfix⟩ := H
  set ol := o0 :: rest with hol
  have hch' : ∀ o ∈ ol, o.reps.map (fun r => (r.name, r.idl)) = o0.reps.map (fun r => (r.name, r.idl)) := by
    intro o ho
    rcases List.mem_cons.mp ho with rfl | ho
    · rfl
    · exact hch o ho
  -- reading the blocks
  have hblocks : (o0.reps.map (blockOf ol)).mapM readBlock
      = .ok (o0.reps.map (fun r0 => (r0.idl.toList, ol.map (fun o => colOf o r0.name)))) := by
    rw [List.mapM_map]
    have := mapM_ok_of_forall (fun r0 => readBlock (blockOf ol r0))
      (fun r0 => (r0.idl.toList, ol.map (fun o => colOf o r0.name))) o0.reps ?_
    · simpa [Function.comp_def] using this
    intro r0 hr0
    have hl : ∀ col ∈ ol.map (fun o => colOf o r0.name), col.length = r0.idl.toList.length := by
      intro col hcol
      obtain ⟨o, ho, rfl⟩ := List.mem_map.mp hcol
      have hmem : (r0.name, r0.idl) ∈ o.reps.map (fun r => (r.name, r.idl)) := by
        rw [hch' o ho]; exact List.mem_map.mpr ⟨r0, hr0, rfl⟩
      obtain ⟨r, hr, hre⟩ := List.mem_map.mp hmem
      have hname : r.name = r0.name := congrArg Prod.fst hre
      have hidl : r.idl = r0.idl := congrArg Prod.snd hre
      rw [← hname, colOf_of_mem o (heach o ho).wf r hr]
      have := ((wf_parts (heach o ho).wf).2 r hr).2
      simp [samplesOf, this, Idl.len, hidl]
    have := readBlock_written (stripBar r0.name) r0.idl.toList (ol.map (fun o => colOf o r0.name)) hl
    simpa [blockOf, Idl.len] using this
  unfold readWith
  simp only [Except.bind, bind, hblocks]
  -- the chains of the first observable are not empty
  have hne : o0.reps ≠ [] := by
    intro h
    have := (heach o0 (by simp [hol])).one
    simp [Obs.mcNames, Obs.names, h, Py.sortedSetStr, Py.sortBy, Py.dedupSorted] at this
  have hna : naOf (o0.reps.map (fun r0 => (r0.idl.toList, ol.map (fun o => colOf o r0.name)))) = ol.length := by
    cases hr : o0.reps with
    | nil => exact absurd hr hne
    | cons r1 rs => simp [naOf]
  rw [hna]
  have := mapM_ok_of_forall (fun i =>
      (mkObs ((o0.reps.map (fun r0 => (r0.idl.toList, ol.map (fun o => colOf o r0.name)))).map (fun b => b.2.getD i []))
        ((o0.reps.map (blockOf ol)).map (fun b => fix b.id))
        (some ((o0.reps.map (fun r0 => (r0.idl.toList, ol.map (fun o => colOf o r0.name)))).map (fun b => Idl.list b.1)))).mapError Err.ctor)
      (fun i => ol.getD i o0) (List.range ol.length) ?_
  · rw [this]
    congr 1
    apply List.ext_getElem
    · simp
    · intro i h1 h2
      simp [List.getD_eq_getElem?_getD, h2]
  intro i hi
  have hi' : i < ol.length := List.mem_range.mp hi
  have hoi : ol.getD i o0 = ol[i] := by simp [List.getD_eq_getElem?_getD, hi']
  have homem : ol[i] ∈ ol := List.getElem_mem hi'
  have hsamp : (o0.reps.map (fun r0 => (r0.idl.toList, ol.map (fun o => colOf o r0.name)))).map (fun b => b.2.getD i [])
      = ol[i].reps.map samplesOf := by
    rw [List.map_map, ← cols_of_chains o0 ol[i] (heach _ homem).wf (hch' _ homem)]
    apply List.map_congr_left
    intro r0 _
    simp [Function.comp_def, List.getD_eq_getElem?_getD, hi']
  have hnames : (o0.reps.map (blockOf ol)).map (fun b => fix b.id) = ol[i].names := by
    rw [List.map_map]
    have h1 : o0.reps.map ((fun b => fix b.id) ∘ blockOf ol) = o0.reps.map (·.name) := by
      apply List.map_congr_left
      intro r hr
      simp [Function.comp_def, blockOf, hfix r hr]
    rw [h1]
    have := congrArg (List.map Prod.fst) (hch' _ homem)
    simpa [Obs.names, List.map_map, Function.comp_def] using this.symm
  have hidl : (o0.reps.map (fun r0 => (r0.idl.toList, ol.map (fun o => colOf o r0.name)))).map (fun b => Idl.list b.1)
      = ol[i].reps.map (fun r => Idl.list r.idl.toList) := by
    rw [List.map_map]
    have := congrArg (List.map (fun p : String × Idl => Idl.list p.2.toList)) (hch' _ homem)
    simpa [List.map_map, Function.comp_def] using this.symm
  rw [hsamp, hnames, hidl, mkObs_rebuild ol[i] (heach _ homem), hoi]
  rfl

end PV.Pobs

/-! ### separator, refusal, central value -/

namespace PV.Pobs
open PV Scalar PV.RealS PV.C05

/-- the documented treatment of the separator: the writer removes `|`, the reader re-inserts it at position
    `k`; for a chain `e|r` (no further `|`) and `k = len(e)` the name is restored -/
theorem fix_restores (e r : List Char) (he : '|' ∉ e) (hr : '|' ∉ r) :
    fixOf (some e.length) (stripBar (String.ofList (e ++ '|' :: r))) = String.ofList (e ++ '|' :: r) := by
  have hfe : e.filter (· != '|') = e := List.filter_eq_self.mpr (fun c hc => by
    have : c ≠ '|' := fun h => he (h ▸ hc)
    simpa using this)
  have hfr : r.filter (· != '|') = r := List.filter_eq_self.mpr (fun c hc => by
    have : c ≠ '|' := fun h => hr (h ▸ hc)
    simpa using this)
  simp [fixOf, insertBar, stripBar, List.filter_append, hfe, hfr, List.filter_cons]

/-- a chain name without separator read with `separator_insertion=None` -/
theorem fix_none (n : List Char) (hn : '|' ∉ n) : fixOf none (stripBar (String.ofList n)) = String.ofList n := by
  have hf : n.filter (· != '|') = n := List.filter_eq_self.mpr (fun c hc => by
    have : c ≠ '|' := fun h => hn (h ▸ hc)
    simpa using this)
  simp [fixOf, stripBar, hf]

variable {α : Type} [Scalar α]

/-- what the writer accepts has the chains and configuration lists of the first observable throughout -/
theorem write_ok_same (o0 : Obs α) (rest : List (Obs α)) (bs : List (Block α)) (h : write (o0 :: rest) = .ok bs) :
    ∀ o ∈ o0 :: rest, o.reps.map (fun r => (r.name, r.idl.toList)) = o0.reps.map (fun r => (r.name, r.idl.toList)) := by
  unfold write at h
  simp only [] at h
  split at h
  · cases h
  split at h
  · cases h
  split at h
  · cases h
  split at h
  · cases h
  rename_i h4
  intro o ho
  rw [Bool.not_eq_true, List.any_eq_false] at h4
  have := h4 o ho
  simpa using this

/-- the central value of whatever the constructor returns is the weighted mean of the replica means -/
theorem mkObs_value (samples : List (List α)) (names : List String) (il : List Idl) (o : Obs α)
    (h : mkObs samples names (some il) = .ok o) :
    o.value = Scalar.sum (o.reps.map (fun r => ofNatS r.idl.len * r.rvalue))
      / ofNatS ((o.reps.map (·.idl.len)).foldr (· + ·) 0) := by
  rw [mkObs_eq] at h
  have hfin : ∀ (hh : mkFinish samples names il = .ok o),
      o.value = Scalar.sum (o.reps.map (fun r => ofNatS r.idl.len * r.rvalue))
        / ofNatS ((o.reps.map (·.idl.len)).foldr (· + ·) 0) := by
    intro hh
    unfold mkFinish at hh
    obtain ⟨reps, _, hh⟩ := bind_ok' hh
    cases hh
    rfl
  split at h
  · cases h
  split at h
  · cases h
  split at h
  · split at h
    · cases h
    split at h
    · cases h
    split at h
    · cases h
    exact hfin h
  · split at h
    · cases h
    exact hfin h

theorem forall₂_mem_right {β γ : Type} {R : β → γ → Prop} {l₁ : List β} {l₂ : List γ}
    (h : List.Forall₂ R l₁ l₂) (b : γ) (hb : b ∈ l₂) : ∃ a ∈ l₁, R a b := by
  induction h with
  | nil => cases hb
  | cons hab _ ih =>
    rcases List.mem_cons.mp hb with rfl | hb
    · exact ⟨_, by simp, hab⟩
    · obtain ⟨a, ha, hr⟩ := ih hb
      exact ⟨a, by simp [ha], hr⟩

theorem mapError_ok {ε ε' β : Type} (f : ε → ε') (x : Except ε β) (b : β) (h : x.mapError f = .ok b) : x = .ok b := by
  cases x with
  | error e => cases h
  | ok a => cases h; rfl

/-- **every observable `read_pobs` returns has the weighted mean of its replica means as central value** -/
theorem read_value (fix : String → String) (bs : List (Block α)) (got : List (Obs α))
    (h : readWith fix bs = .ok got) :
    ∀ o ∈ got, o.value = Scalar.sum (o.reps.map (fun r => ofNatS r.idl.len * r.rvalue))
      / ofNatS ((o.reps.map (·.idl.len)).foldr (· + ·) 0) := by
  unfold readWith at h
  obtain ⟨blocks, _, h⟩ := bind_ok' h
  have hF := mapM_ok _ _ _ h
  intro o ho
  obtain ⟨i, _, hi⟩ := forall₂_mem_right hF o ho
  exact mkObs_value _ _ _ o (mapError_ok _ _ _ hi)

end PV.Pobs
