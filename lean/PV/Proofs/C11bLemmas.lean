/-
  PV.Proofs.C11bLemmas — the placeholder mechanism of the dictionary export (PV/Model/Tree.lean):
  string facts (a generated placeholder is recognised and decodes to its counter) and the mutual
  induction behind the round trip.
-/
import Std.Data.String.ToNat
import PV.Model.Tree

namespace PV.Tree

theorem afterPrefix_placeholder (reps : String) (n : Nat) :
    afterPrefix reps (placeholder reps n) = some (Nat.toDigits 10 n) := by
  unfold afterPrefix placeholder
  simp [String.toList_append, Nat.toList_repr]

theorem toDigits_head (n : Nat) : ∃ c r, Nat.toDigits 10 n = c :: r ∧ c.isDigit = true := by
  cases h : Nat.toDigits 10 n with
  | nil =>
    have := congrArg List.length h
    simp at this
  | cons c r =>
    exact ⟨c, r, rfl, Nat.isDigit_of_mem_toDigits (b := 10) (n := n) (by decide) (by decide) (by rw [h]; simp)⟩

theorem isPlaceholder_placeholder (reps : String) (n : Nat) : isPlaceholder reps (placeholder reps n) = true := by
  unfold isPlaceholder
  rw [afterPrefix_placeholder]
  obtain ⟨c, r, h, hc⟩ := toDigits_head n
  rw [h]; exact hc

theorem rstripWs_digits (l : List Char) (h : ∀ c ∈ l, c.isDigit = true) : rstripWs l = l := by
  unfold rstripWs
  cases hr : l.reverse with
  | nil => simpa using hr
  | cons c r =>
    have hc : c ∈ l := by
      have : c ∈ l.reverse := by rw [hr]; simp
      simpa using this
    have hd := h c hc
    have hw : (c == ' ' || c == '\t' || c == '\n' || c == '\r' || c == '\x0b' || c == '\x0c') = false := by
      simp only [Bool.or_eq_false_iff, beq_eq_false_iff_ne, ne_eq]
      refine ⟨⟨⟨⟨⟨?_, ?_⟩, ?_⟩, ?_⟩, ?_⟩, ?_⟩ <;> (intro e; subst e; revert hd; decide)
    rw [List.dropWhile_cons_of_neg (by simp [hw]), ← hr, List.reverse_reverse]

theorem phIndex_placeholder (reps : String) (n : Nat) : phIndex reps (placeholder reps n) = .ok n := by
  unfold phIndex
  rw [afterPrefix_placeholder]
  simp only
  rw [rstripWs_digits _ (fun c hc => Nat.isDigit_of_mem_toDigits (by decide) (by decide) hc)]
  have : String.ofList (Nat.toDigits 10 n) = Nat.repr n := by
    rfl
  rw [this, Nat.toNat?_repr]

theorem getElem?_of_prefix (ol0 ol : List Slot) (x : Slot) (h : ol0 ++ [x] <+: ol) : ol[ol0.length]? = some x := by
  obtain ⟨t, rfl⟩ := h
  simp

theorem slotTree_many : ∀ (l : List T) (ids : List Nat), obsIds l = some ids → slotTree (.many ids) = .list l
  | [], ids, h => by simp [obsIds] at h; subst h; rfl
  | .leaf .obs i :: r, ids, h => by
    simp only [obsIds, Option.map_eq_some_iff] at h
    obtain ⟨ids', h', rfl⟩ := h
    have := slotTree_many r ids' h'
    simp only [slotTree, T.list.injEq] at this ⊢
    simp [this]
  | .leaf .corr _ :: _, _, h => by simp [obsIds] at h
  | .leaf .arr _ :: _, _, h => by simp [obsIds] at h
  | .str _ :: _, _, h => by simp [obsIds] at h
  | .atom _ :: _, _, h => by simp [obsIds] at h
  | .list _ :: _, _, h => by simp [obsIds] at h
  | .dict _ :: _, _, h => by simp [obsIds] at h

/-- replacing one structure by its placeholder and looking it up again -/
theorem in_placeholder (reps : String) (ol0 ol : List Slot) (x : Slot) (c : Nat) (h : ol0 ++ [x] <+: ol) :
    inVal reps ol (.str (placeholder reps ol0.length)) c = .ok (slotTree x, c + 1) := by
  simp only [inVal, isPlaceholder_placeholder, phIndex_placeholder, getElem?_of_prefix ol0 ol x h, if_true]

def RT1 (reps : String) (kv : List (String × T)) (ol0 : List Slot) : Prop :=
  ∀ kv' ol1, exDict reps kv ol0 = .ok (kv', ol1) → ∃ new, ol1 = ol0 ++ new ∧
    ∀ ol c, ol1 <+: ol → inDict reps ol kv' c = .ok (kv, c + new.length)
def RT2 (reps : String) (v : T) (ol0 : List Slot) : Prop :=
  ∀ v' ol1, exDictVal reps v ol0 = .ok (v', ol1) → ∃ new, ol1 = ol0 ++ new ∧
    ∀ ol c, ol1 <+: ol → inVal reps ol v' c = .ok (v, c + new.length)
def RT3 (reps : String) (l : List T) (ol0 : List Slot) : Prop :=
  ∀ l' ol1, exList reps l ol0 = .ok (l', ol1) → ∃ new, ol1 = ol0 ++ new ∧
    ∀ ol c, ol1 <+: ol → inList reps ol l' c = .ok (l, c + new.length)
def RT4 (reps : String) (v : T) (ol0 : List Slot) : Prop :=
  ∀ v' ol1, exListVal reps v ol0 = .ok (v', ol1) → ∃ new, ol1 = ol0 ++ new ∧
    ∀ ol c, ol1 <+: ol → inVal reps ol v' c = .ok (v, c + new.length)

theorem roundtrip_all (reps : String) :
    (∀ kv ol, RT1 reps kv ol) ∧ (∀ v ol, RT2 reps v ol) ∧ (∀ l ol, RT3 reps l ol) ∧ (∀ v ol, RT4 reps v ol) := by
  apply exDict.mutual_induct reps (RT1 reps) (RT2 reps) (RT3 reps) (RT4 reps)

  -- exDictVal
  · intro kv ol e he _ v' ol1 h
    simp [exDictVal, he] at h
  · intro kv ol rest' ol'' hk ih v' ol1 h
    simp only [exDictVal, hk, Except.ok.injEq, Prod.mk.injEq] at h
    obtain ⟨rfl, rfl⟩ := h
    obtain ⟨new, hnew, hin⟩ := ih rest' ol'' hk
    exact ⟨new, hnew, fun ol' c hp => by simp only [inVal, hin ol' c hp]⟩
  · intro l ol ids hids v' ol1 h
    simp only [exDictVal, hids, Except.ok.injEq, Prod.mk.injEq] at h
    obtain ⟨rfl, rfl⟩ := h
    exact ⟨[.many ids], rfl, fun ol' c hp => by rw [in_placeholder reps ol ol' _ c hp, slotTree_many l ids hids]; rfl⟩
  · intro l ol hn e he _ v' ol1 h
    simp [exDictVal, hn, he] at h
  · intro l ol hn l' ol' hl ih v' ol1 h
    simp only [exDictVal, hn, hl, Except.ok.injEq, Prod.mk.injEq] at h
    obtain ⟨rfl, rfl⟩ := h
    obtain ⟨new, hnew, hin⟩ := ih l' ol' hl
    exact ⟨new, hnew, fun ol'' c hp => by simp only [inVal, hin ol'' c hp]⟩
  · intro k i ol v' ol1 h
    simp only [exDictVal, Except.ok.injEq, Prod.mk.injEq] at h
    obtain ⟨rfl, rfl⟩ := h
    exact ⟨[.one k i], rfl, fun ol' c hp => by rw [in_placeholder reps ol ol' _ c hp]; rfl⟩
  · intro s ol hs v' ol1 h
    simp [exDictVal, hs] at h
  · intro s ol hs v' ol1 h
    simp only [exDictVal, hs, Bool.false_eq_true, if_false, Except.ok.injEq, Prod.mk.injEq] at h
    obtain ⟨rfl, rfl⟩ := h
    exact ⟨[], by simp, fun ol' c _ => by simp [inVal, hs]⟩
  · intro j ol v' ol1 h
    simp only [exDictVal, Except.ok.injEq, Prod.mk.injEq] at h
    obtain ⟨rfl, rfl⟩ := h
    exact ⟨[], by simp, fun ol' c _ => by simp [inVal]⟩
  -- exListVal
  · intro l ol e he _ v' ol1 h
    simp [exListVal, he] at h
  · intro l ol l' ol' hl ih v' ol1 h
    simp only [exListVal, hl, Except.ok.injEq, Prod.mk.injEq] at h
    obtain ⟨rfl, rfl⟩ := h
    obtain ⟨new, hnew, hin⟩ := ih l' ol' hl
    exact ⟨new, hnew, fun ol'' c hp => by simp only [inVal, hin ol'' c hp]⟩
  · intro kv ol e he _ v' ol1 h
    simp [exListVal, he] at h
  · intro kv ol rest' ol'' hk ih v' ol1 h
    simp only [exListVal, hk, Except.ok.injEq, Prod.mk.injEq] at h
    obtain ⟨rfl, rfl⟩ := h
    obtain ⟨new, hnew, hin⟩ := ih rest' ol'' hk
    exact ⟨new, hnew, fun ol' c hp => by simp only [inVal, hin ol' c hp]⟩
  · intro k i ol v' ol1 h
    simp only [exListVal, Except.ok.injEq, Prod.mk.injEq] at h
    obtain ⟨rfl, rfl⟩ := h
    exact ⟨[.one k i], rfl, fun ol' c hp => by rw [in_placeholder reps ol ol' _ c hp]; rfl⟩
  · intro s ol hs v' ol1 h
    simp [exListVal, hs] at h
  · intro s ol hs v' ol1 h
    simp only [exListVal, hs, Bool.false_eq_true, if_false, Except.ok.injEq, Prod.mk.injEq] at h
    obtain ⟨rfl, rfl⟩ := h
    exact ⟨[], by simp, fun ol' c _ => by simp [inVal, hs]⟩
  · intro j ol v' ol1 h
    simp only [exListVal, Except.ok.injEq, Prod.mk.injEq] at h
    obtain ⟨rfl, rfl⟩ := h
    exact ⟨[], by simp, fun ol' c _ => by simp [inVal]⟩
  -- exList
  · intro ol l' ol1 h
    simp only [exList, Except.ok.injEq, Prod.mk.injEq] at h
    obtain ⟨rfl, rfl⟩ := h
    exact ⟨[], by simp, fun ol' c _ => by simp [inList]⟩
  · intro e rest ol e1 he _ l' ol1 h
    simp [exList, he] at h
  · intro e rest ol v' ol' he e1 hr _ _ l' ol1 h
    simp [exList, he, hr] at h
  · intro e rest ol v' ol' he r' ol'' hr ih1 ih2 l' ol1 h
    simp only [exList, he, hr, Except.ok.injEq, Prod.mk.injEq] at h
    obtain ⟨rfl, rfl⟩ := h
    obtain ⟨n1, hn1, hin1⟩ := ih1 v' ol' he
    obtain ⟨n2, hn2, hin2⟩ := ih2 r' ol'' hr
    refine ⟨n1 ++ n2, by rw [hn2, hn1, List.append_assoc], fun olx c hp => ?_⟩
    have hp1 : ol' <+: olx := List.IsPrefix.trans ⟨n2, hn2.symm⟩ hp
    simp only [inList, hin1 olx c hp1, hin2 olx _ hp, List.length_append, Nat.add_assoc]
  -- exDict
  · intro ol kv' ol1 h
    simp only [exDict, Except.ok.injEq, Prod.mk.injEq] at h
    obtain ⟨rfl, rfl⟩ := h
    exact ⟨[], by simp, fun ol' c _ => by simp [inDict]⟩
  · intro k v rest ol e1 he _ kv' ol1 h
    simp [exDict, he] at h
  · intro k v rest ol v' ol' he e1 hr _ _ kv' ol1 h
    simp [exDict, he, hr] at h
  · intro k v rest ol v' ol' he r' ol'' hr ih1 ih2 kv' ol1 h
    simp only [exDict, he, hr, Except.ok.injEq, Prod.mk.injEq] at h
    obtain ⟨rfl, rfl⟩ := h
    obtain ⟨n1, hn1, hin1⟩ := ih1 v' ol' he
    obtain ⟨n2, hn2, hin2⟩ := ih2 r' ol'' hr
    refine ⟨n1 ++ n2, by rw [hn2, hn1, List.append_assoc], fun olx c hp => ?_⟩
    have hp1 : ol' <+: olx := List.IsPrefix.trans ⟨n2, hn2.symm⟩ hp
    simp only [inDict, hin1 olx c hp1, hin2 olx _ hp, List.length_append, Nat.add_assoc]

end PV.Tree
