/-
  Helper lemmas for PV/Todo/C01a.lean: evaluation of `E.eval` at ℝ as plain Mathlib expressions.
-/
import Mathlib.Analysis.SpecialFunctions.Trigonometric.Deriv
import Mathlib.Analysis.SpecialFunctions.Trigonometric.ArctanDeriv
import Mathlib.Analysis.SpecialFunctions.Trigonometric.InverseDeriv
import Mathlib.Analysis.SpecialFunctions.Pow.Deriv
import Mathlib.Analysis.SpecialFunctions.Sqrt
import Mathlib.Analysis.SpecialFunctions.Arsinh
import Mathlib.Analysis.SpecialFunctions.Arcosh
import Mathlib.Analysis.SpecialFunctions.Artanh
import Mathlib.Analysis.SpecialFunctions.Log.Deriv
import Mathlib.Analysis.SpecialFunctions.ExpDeriv
import PV.Proofs.RealScalar
import PV.Model.Ops
import Mathlib.Analysis.Calculus.Deriv.Abs
import Mathlib.Tactic.Linarith
import Mathlib.Tactic.FieldSimp
import Mathlib.Tactic.Ring

namespace PV
namespace EvalR

variable (x : Nat → ℝ) (y : ℝ) (a b : E)

@[simp] theorem eval_var (i : Nat) : E.eval x y (.var i) = x i := rfl
@[simp] theorem eval_par : E.eval x y .par = y := rfl
@[simp] theorem eval_num (n : Int) : E.eval x y (.num n) = (n : ℝ) := rfl
@[simp] theorem eval_add : E.eval x y (.add a b) = E.eval x y a + E.eval x y b := rfl
@[simp] theorem eval_sub : E.eval x y (.sub a b) = E.eval x y a - E.eval x y b := rfl
@[simp] theorem eval_mul : E.eval x y (.mul a b) = E.eval x y a * E.eval x y b := rfl
@[simp] theorem eval_div : E.eval x y (.div a b) = E.eval x y a / E.eval x y b := rfl
@[simp] theorem eval_neg : E.eval x y (.neg a) = -E.eval x y a := rfl
@[simp] theorem eval_pow : E.eval x y (.pow a b) = E.eval x y a ^ E.eval x y b := rfl
@[simp] theorem eval_sqrt : E.eval x y (.sqrt a) = Real.sqrt (E.eval x y a) := rfl
@[simp] theorem eval_log : E.eval x y (.log a) = Real.log (E.eval x y a) := rfl
@[simp] theorem eval_exp : E.eval x y (.exp a) = Real.exp (E.eval x y a) := rfl
@[simp] theorem eval_sin : E.eval x y (.sin a) = Real.sin (E.eval x y a) := rfl
@[simp] theorem eval_cos : E.eval x y (.cos a) = Real.cos (E.eval x y a) := rfl
@[simp] theorem eval_tan : E.eval x y (.tan a) = Real.tan (E.eval x y a) := rfl
@[simp] theorem eval_sinh : E.eval x y (.sinh a) = Real.sinh (E.eval x y a) := rfl
@[simp] theorem eval_cosh : E.eval x y (.cosh a) = Real.cosh (E.eval x y a) := rfl
@[simp] theorem eval_tanh : E.eval x y (.tanh a) = Real.tanh (E.eval x y a) := rfl
@[simp] theorem eval_arcsin : E.eval x y (.arcsin a) = Real.arcsin (E.eval x y a) := rfl
@[simp] theorem eval_arccos : E.eval x y (.arccos a) = Real.arccos (E.eval x y a) := rfl
@[simp] theorem eval_arctan : E.eval x y (.arctan a) = Real.arctan (E.eval x y a) := rfl
@[simp] theorem eval_arcsinh : E.eval x y (.arcsinh a) = Real.arsinh (E.eval x y a) := rfl
@[simp] theorem eval_arccosh : E.eval x y (.arccosh a) = Real.arcosh (E.eval x y a) := rfl
@[simp] theorem eval_arctanh : E.eval x y (.arctanh a) = Real.artanh (E.eval x y a) := rfl
@[simp] theorem eval_abs : E.eval x y (.abs a) = |E.eval x y a| := by
  show Scalar.absS (E.eval x y a) = _
  exact RealS.absS_eq _

end EvalR
end PV
