/-
  Helper lemmas about the correlator model (C14 / C15).
-/
import PV.Model.Corr

namespace PV
open Corr Scalar

variable {β : Type}

/-- slice-wise combination of two correlators -/
def zipSpec (f : β → β → β) (x y : Option (Mat β)) : Option (Mat β) :=
  match x, y with
  | some u, some v => some (matZip f u v)
  | _, _ => none


theorem zipCorr_length (f : β → β → β) (a b : Corr β) (h : a.T = b.T) :
    (zipCorr f a b).length = a.T := by
  simp [zipCorr, Corr.T] at *; omega


theorem zipCorr_getD (f : β → β → β) (a b : Corr β) (h : a.T = b.T) (t : Nat) (ht : t < a.T) :
    (zipCorr f a b).getD t none = zipSpec f (a.content.getD t none) (b.content.getD t none) := by
  have h1 : t < a.content.length := by simpa [Corr.T] using ht
  have h2 : t < b.content.length := by simp [Corr.T] at h; omega
  simp [zipCorr, List.getD_eq_getElem?_getD, List.getElem?_zipWith, h1, h2, zipSpec]
  rfl


theorem applyFunc_getD [Scalar β] (f : β → β) (a : Corr β) (t : Nat) :
    ((a.content.map (·.map (·.map (·.map f)))).map nanToNone).getD t none
      = nanToNone ((a.content.getD t none).map (·.map (·.map f))) := by
  simp only [List.getD_eq_getElem?_getD, List.getElem?_map]
  cases a.content[t]? <;> simp [nanToNone]


theorem roll_index (n t : Nat) (dt : Int) (ht : t < n) :
    let s := (Int.emod (-dt) n).toNat
    s < n ∧ Int.toNat (Int.emod ((t : Int) - dt) (n : Int)) = if t < n - s then s + t else t - (n - s) := by
  intro s
  have hn : (n : Int) ≠ 0 := by omega
  have hn' : (0 : Int) < n := by omega
  have h0 : 0 ≤ (-dt) % (n : Int) := Int.emod_nonneg _ hn
  have h1 : (-dt) % (n : Int) < n := Int.emod_lt_of_pos _ hn'
  have hs : (s : Int) = (-dt) % (n : Int) := by
    show ((Int.emod (-dt) n).toNat : Int) = _
    rw [Int.toNat_of_nonneg]; rfl; exact h0
  have key : Int.emod ((t : Int) - dt) (n : Int) = ((t : Int) + s) % n := by
    show ((t : Int) - dt) % (n : Int) = _
    rw [hs, Int.add_emod_emod]; rfl
  refine ⟨by omega, ?_⟩
  rw [key]
  split
  · rw [Int.emod_eq_of_lt (by omega) (by omega)]; omega
  · have : ((t : Int) + s) = ((t : Int) + s - n) + 1 * n := by omega
    rw [this, Int.add_mul_emod_self_right, Int.emod_eq_of_lt (by omega) (by omega)]; omega


theorem rot_getD {α} (l : List (Option α)) (s t : Nat) (hs : s < l.length) (ht : t < l.length) :
    (l.drop s ++ l.take s).length = l.length ∧
    (l.drop s ++ l.take s).getD t none = l.getD (if t < l.length - s then s + t else t - (l.length - s)) none := by
  constructor
  · simp; omega
  · simp only [List.getD_eq_getElem?_getD, List.getElem?_append, List.length_drop]
    split
    · rw [List.getElem?_drop]
    · rw [List.getElem?_take]; rw [if_pos (by omega)]


theorem ofCells_getD (cells : List (Option β)) (padL padR : Nat) (t : Nat) :
    (ofCells cells padL padR).content.getD t none =
      (if padL ≤ t ∧ t < padL + cells.length then (cells.getD (t - padL) none).map (fun x => [[x]]) else none) := by
  unfold ofCells
  simp only [List.getD_eq_getElem?_getD, List.getElem?_append, List.length_append, List.length_replicate,
    List.length_map, List.getElem?_replicate, List.getElem?_map]
  by_cases h1 : t < padL
  · have : ¬ (padL ≤ t) := by omega
    have h2 : t < padL + cells.length := by omega
    simp [h1, this, h2]
  · by_cases h2 : t < padL + cells.length
    · have h3 : t - padL < cells.length := by omega
      simp [h1, h2, Nat.le_of_not_lt h1, List.getElem?_eq_getElem h3]
    · simp [h2]
      split <;> simp


theorem ofCells_cell? (cells : List (Option β)) (padL padR : Nat) (t : Nat) :
    (ofCells cells padL padR).cell? t =
      (if padL ≤ t ∧ t < padL + cells.length then (cells.getD (t - padL) none) else none) := by
  unfold Corr.cell?
  rw [ofCells_getD]
  by_cases hc : padL ≤ t ∧ t < padL + cells.length
  · rw [if_pos hc, if_pos hc]
    cases cells.getD (t - padL) none <;> rfl
  · rw [if_neg hc, if_neg hc]


/-- extra (not in the task list): a successful `build` has a non-empty window, so the hypotheses
    `2 ≤ a.T` / `4 ≤ a.T` of the derivative theorems below are implied by `h` (in fact `3 ≤ a.T`,
    `5 ≤ a.T`). -/
theorem build_ok_pos (T lo n padL padR : Nat) (f : Nat → Option β) (r : Corr β)
    (h : Corr.build T lo n padL padR f = .ok r) : 0 < n := by
  cases n with
  | zero => simp [Corr.build] at h
  | succ n => omega


theorem mapM_some_iff' {γ δ : Type} (f : γ → Option δ) : ∀ (l : List γ) (out : List δ),
    l.mapM f = some out ↔ out.length = l.length ∧ ∀ k (h : k < l.length), f l[k] = out[k]?
  | [], out => by
    cases out with
    | nil => simp
    | cons a t => simp
  | x :: xs, out => by
    rw [List.mapM_cons]
    cases hx : f x with
    | none =>
      simp only [Option.bind_eq_bind, Option.bind_none, reduceCtorEq, false_iff, not_and]
      intro hl hk
      have := hk 0 (by simp)
      simp only [List.getElem_cons_zero, hx] at this
      cases out with
      | nil => simp at hl
      | cons a t => simp at this
    | some y =>
      cases out with
      | nil =>
        simp only [Option.bind_eq_bind, Option.bind_some, List.length_nil, List.length_cons]
        cases h : xs.mapM f <;> simp
      | cons a t =>
        simp only [Option.bind_eq_bind, Option.bind_some, List.length_cons]
        cases h : xs.mapM f with
        | none =>
          simp only [Option.map_none, reduceCtorEq, false_iff, not_and, Option.bind_none]
          intro hl hk
          have hx' : xs.mapM f = some t := (mapM_some_iff' f xs t).2 ⟨by omega, fun k hk' => by
            have := hk (k + 1) (by simp; omega)
            simpa using this⟩
          rw [h] at hx'; cases hx'
        | some r =>
          have ih := mapM_some_iff' f xs r
          simp only [Option.bind_some, Option.pure_def, Option.some.injEq, List.cons.injEq]
          constructor
          · rintro ⟨rfl, rfl⟩
            obtain ⟨hl, hk⟩ := ih.1 h
            refine ⟨by omega, ?_⟩
            intro k hk'
            cases k with
            | zero => simp [hx]
            | succ k => simpa using hk k (by simpa using hk')
          · rintro ⟨hl, hk⟩
            have h0 := hk 0 (by simp)
            simp only [List.getElem_cons_zero, hx, List.getElem?_cons_zero, Option.some.injEq] at h0
            refine ⟨h0, ?_⟩
            have : xs.mapM f = some t := (mapM_some_iff' f xs t).2 ⟨by omega, fun k hk' => by
              have := hk (k + 1) (by simp; omega)
              simpa using this⟩
            rw [h] at this
            exact Option.some.inj this

theorem mapM_none_iff' {γ δ : Type} (f : γ → Option δ) : ∀ (l : List γ),
    l.mapM f = none ↔ ∃ k, ∃ h : k < l.length, f l[k] = none
  | [] => by simp
  | x :: xs => by
    rw [List.mapM_cons]
    cases hx : f x with
    | none =>
      simp only [Option.bind_eq_bind, Option.bind_none, true_iff]
      exact ⟨0, by simp, by simpa using hx⟩
    | some y =>
      simp only [Option.bind_eq_bind, Option.bind_some]
      cases h : xs.mapM f with
      | none =>
        simp only [Option.bind_none, true_iff]
        obtain ⟨k, hk, hf⟩ := (mapM_none_iff' f xs).1 h
        exact ⟨k + 1, by simp; omega, by simpa using hf⟩
      | some r =>
        simp only [Option.bind_some, Option.pure_def, reduceCtorEq, false_iff, not_exists]
        intro k hk hf
        cases k with
        | zero => simp [hx] at hf
        | succ k =>
          have : xs.mapM f = none := (mapM_none_iff' f xs).2 ⟨k, by simpa using hk, by simpa using hf⟩
          rw [h] at this; cases this


end PV
