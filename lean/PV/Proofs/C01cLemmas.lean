import Mathlib.Algebra.BigOperators.Group.List.Basic
import Mathlib.Tactic.Ring
import Mathlib.Tactic.Linarith
import Mathlib.Tactic.FieldSimp
import PV.Proofs.RealScalar
import PV.Proofs.C02bLemmas
import PV.Spec.Propagate

namespace PV
open Scalar PV.RealS

/-! ### `sorted(set(l))` -/

theorem mem_insertSorted (le : Int → Int → Bool) (x y : Int) (l : List Int) :
    y ∈ Py.insertSorted le x l ↔ y = x ∨ y ∈ l := by
  induction l with
  | nil => simp [Py.insertSorted]
  | cons z zs ih =>
    unfold Py.insertSorted
    split
    · simp [ih]; tauto
    · simp

theorem mem_sortBy_aux (le : Int → Int → Bool) (y : Int) (l acc : List Int) :
    y ∈ l.foldl (fun acc x => Py.insertSorted le x acc) acc ↔ y ∈ acc ∨ y ∈ l := by
  induction l generalizing acc with
  | nil => simp
  | cons z zs ih =>
    rw [List.foldl_cons, ih, mem_insertSorted]
    simp; tauto

theorem mem_sortBy (le : Int → Int → Bool) (y : Int) (l : List Int) :
    y ∈ Py.sortBy le l ↔ y ∈ l := by
  unfold Py.sortBy
  rw [mem_sortBy_aux]; simp

theorem insertSorted_sorted (x : Int) (l : List Int) (h : l.Pairwise (· ≤ ·)) :
    (Py.insertSorted (fun a b => decide (a ≤ b)) x l).Pairwise (· ≤ ·) := by
  induction l with
  | nil => simp [Py.insertSorted]
  | cons z zs ih =>
    unfold Py.insertSorted
    rw [List.pairwise_cons] at h
    split
    · rename_i hzx
      simp only [decide_eq_true_eq] at hzx
      rw [List.pairwise_cons]
      refine ⟨?_, ih h.2⟩
      intro a ha
      rcases (mem_insertSorted _ _ _ _).mp ha with rfl | ha
      · exact hzx
      · exact h.1 a ha
    · rename_i hzx
      simp only [decide_eq_true_eq, not_le] at hzx
      rw [List.pairwise_cons]
      refine ⟨?_, List.pairwise_cons.mpr h⟩
      intro a ha
      rcases List.mem_cons.mp ha with rfl | ha
      · exact le_of_lt hzx
      · exact le_trans (le_of_lt hzx) (h.1 a ha)

theorem sortBy_sorted_aux (l acc : List Int) (h : acc.Pairwise (· ≤ ·)) :
    (l.foldl (fun acc x => Py.insertSorted (fun a b => decide (a ≤ b)) x acc) acc).Pairwise (· ≤ ·) := by
  induction l generalizing acc with
  | nil => exact h
  | cons z zs ih => rw [List.foldl_cons]; exact ih _ (insertSorted_sorted z acc h)

theorem sortBy_sorted (l : List Int) :
    (Py.sortBy (fun a b => decide (a ≤ b)) l).Pairwise (· ≤ ·) :=
  sortBy_sorted_aux l [] List.Pairwise.nil

theorem mem_dedupSorted : ∀ (l : List Int) (y : Int), y ∈ Py.dedupSorted l ↔ y ∈ l
  | [], y => by simp [Py.dedupSorted]
  | [x], y => by simp [Py.dedupSorted]
  | x :: z :: r, y => by
    have ih := mem_dedupSorted (z :: r) y
    unfold Py.dedupSorted
    split
    · rename_i hxz
      have : x = z := by simpa using hxz
      subst this
      rw [ih]; simp
    · rw [List.mem_cons, ih]; simp

theorem dedupSorted_strict : ∀ (l : List Int), l.Pairwise (· ≤ ·) → (Py.dedupSorted l).Pairwise (· < ·)
  | [], _ => by simp [Py.dedupSorted]
  | [x], _ => by simp [Py.dedupSorted]
  | x :: z :: r, h => by
    have h' := List.pairwise_cons.mp h
    have ih := dedupSorted_strict (z :: r) h'.2
    unfold Py.dedupSorted
    split
    · exact ih
    · rename_i hxz
      have hne : x ≠ z := by simpa using hxz
      rw [List.pairwise_cons]
      refine ⟨?_, ih⟩
      intro a ha
      rw [mem_dedupSorted] at ha
      have hxz' : x < z := lt_of_le_of_ne (h'.1 z List.mem_cons_self) hne
      rcases List.mem_cons.mp ha with rfl | ha
      · exact hxz'
      · exact lt_of_lt_of_le hxz' ((List.pairwise_cons.mp h'.2).1 a ha)

theorem mem_sortedSet (l : List Int) (y : Int) : y ∈ Py.sortedSet l ↔ y ∈ l := by
  unfold Py.sortedSet
  rw [mem_dedupSorted, mem_sortBy]

theorem sortedSet_strict (l : List Int) : (Py.sortedSet l).Pairwise (· < ·) :=
  dedupSorted_strict _ (sortBy_sorted l)

/-- two strictly increasing lists with the same elements are equal -/
theorem strict_ext : ∀ (a b : List Int), a.Pairwise (· < ·) → b.Pairwise (· < ·) →
    (∀ y, y ∈ a ↔ y ∈ b) → a = b
  | [], [], _, _, _ => rfl
  | [], y :: _, _, _, h => by have := (h y).mpr List.mem_cons_self; simp at this
  | x :: _, [], _, _, h => by have := (h x).mp List.mem_cons_self; simp at this
  | x :: a, y :: b, ha, hb, h => by
    rw [List.pairwise_cons] at ha hb
    have hxy : x = y := by
      have h1 := (h x).mp List.mem_cons_self
      have h2 := (h y).mpr List.mem_cons_self
      rcases List.mem_cons.mp h1 with h1 | h1
      · exact h1
      · rcases List.mem_cons.mp h2 with h2 | h2
        · exact h2.symm
        · have := hb.1 x h1; have := ha.1 y h2; omega
    subst hxy
    congr 1
    refine strict_ext a b ha.2 hb.2 ?_
    intro z
    constructor
    · intro hz
      have := (h z).mp (List.mem_cons_of_mem _ hz)
      rcases List.mem_cons.mp this with rfl | h3
      · have := ha.1 z hz; omega
      · exact h3
    · intro hz
      have := (h z).mpr (List.mem_cons_of_mem _ hz)
      rcases List.mem_cons.mp this with rfl | h3
      · have := hb.1 z hz; omega
      · exact h3

theorem sortedSet_eq_of (l u : List Int) (hu : u.Pairwise (· < ·)) (h : ∀ y, y ∈ l ↔ y ∈ u) :
    Py.sortedSet l = u :=
  strict_ext _ _ (sortedSet_strict l) hu (fun y => by rw [mem_sortedSet, h])

/-! ### `normalise` keeps the sequence -/

theorem diffs_const_toList : ∀ (l : List Int) (d : Int), (∀ x ∈ Idl.diffs l, x = d) →
    (List.range l.length).map (fun (k : Nat) => l.headD 0 + d * (k : Int)) = l
  | [], _, _ => rfl
  | [x], _, _ => by simp
  | x :: y :: r, d, h => by
    have hd : y - x = d := h _ (by simp [Idl.diffs])
    have ih := diffs_const_toList (y :: r) d (fun z hz => h z (by simp [Idl.diffs]; right; exact hz))
    rw [List.length_cons, List.range_succ_eq_map, List.map_cons, List.map_map]
    simp only [List.headD_cons, Nat.cast_zero, mul_zero, add_zero] at ih ⊢
    congr 1
    refine Eq.trans (List.map_congr_left ?_) ih
    intro k _
    simp only [Function.comp, Nat.cast_succ]
    rw [← hd]; ring

theorem normalise_toList (i j : Idl) (h : Idl.normalise i = .ok j) : j.toList = i.toList := by
  cases i with
  | range s n st =>
    simp only [Idl.normalise] at h
    split at h
    · cases h
    · cases h; rfl
  | list l =>
    simp only [Idl.normalise] at h
    split at h
    · cases h
    · split at h
      · cases h
      · split at h
        · rename_i d hd
          cases h
          simp only [Idl.toList]
          apply diffs_const_toList
          intro x hx
          have : x ∈ Py.sortedSet (Idl.diffs l) := (mem_sortedSet _ _).mpr hx
          rw [hd] at this
          simpa using this
        · cases h; rfl

/-! ### `_merge_idx` -/

theorem mergeIdx_toList (idl : List Idl) (h : ∀ i ∈ idl, Idl.strictInc i.toList = true) :
    (mergeIdx idl).toList = Py.sortedSet (idl.flatMap Idl.toList) := by
  cases idl with
  | nil => simp [mergeIdx, Idl.toList, Py.sortedSet, Py.sortBy, Py.dedupSorted]
  | cons i0 rest =>
    simp only [mergeIdx]
    split
    · rename_i hall
      symm
      apply sortedSet_eq_of _ _ (strictInc_pairwise _ (h i0 List.mem_cons_self))
      intro y
      simp only [List.flatMap_cons, List.mem_append, List.mem_flatMap]
      constructor
      · rintro (hy | ⟨i, hi, hy⟩)
        · exact hy
        · have := List.all_eq_true.mp hall i hi
          simp only [Idl.sameSeq, Bool.and_eq_true, beq_iff_eq] at this
          rw [← this.1]; exact hy
      · intro hy; exact Or.inl hy
    · generalize Py.sortedSet (List.flatMap Idl.toList (i0 :: rest)) = u
      split
      · split
        · rename_i heq
          simpa using heq
        · rfl
      · rfl

/-! ### lookup by configuration number -/

/-- the entry of `d` at the position of configuration `c` in `L`, zero when `c` is absent -/
noncomputable def lookupL (L : List Int) (d : List ℝ) (c : Int) : ℝ :=
  if L.findIdx (· == c) < L.length then d.getD (L.findIdx (· == c)) 0 else 0

theorem findIdx_of_pairwise (l : List Int) (hpw : l.Pairwise (· < ·)) (k : Nat) (hk : k < l.length) :
    l.findIdx (· == l[k]) = k := by
  rw [List.findIdx_eq hk]
  refine ⟨by simp, ?_⟩
  intro j hj
  have := List.pairwise_iff_getElem.mp hpw j k (by omega) hk hj
  have hne : l[j] ≠ l[k] := by omega
  simpa using hne

theorem lookupL_getElem (L : List Int) (d : List ℝ) (hpw : L.Pairwise (· < ·)) (k : Nat)
    (hk : k < L.length) : lookupL L d L[k] = d.getD k 0 := by
  unfold lookupL
  rw [findIdx_of_pairwise L hpw k hk]
  simp [hk]

theorem lookupL_of_not_mem (L : List Int) (d : List ℝ) (c : Int) (h : c ∉ L) : lookupL L d c = 0 := by
  unfold lookupL
  have : ¬ (List.findIdx (fun x => x == c) L < L.length) := by
    intro hlt
    have := List.findIdx_getElem (w := hlt)
    simp only [beq_iff_eq] at this
    exact h (this ▸ List.getElem_mem _)
  simp [this]

theorem scatter_model (L : List Int) (d : List ℝ) (base : Int) (size : Nat)
    (hpw : L.Pairwise (· < ·)) (hlen : d.length = L.length)
    (hb : ∀ c ∈ L, base ≤ c ∧ (c - base).toNat < size) (c : Int) (hc : base ≤ c) :
    ((List.zip L d).foldl (fun acc (p : Int × ℝ) => acc.set (p.1 - base).toNat p.2)
        (List.replicate size 0)).getD (c - base).toNat 0 = lookupL L d c := by
  by_cases hmem : c ∈ L
  · obtain ⟨k, hk, rfl⟩ := List.mem_iff_getElem.mp hmem
    rw [lookupL_getElem L d hpw k hk]
    have hkd : k < d.length := by omega
    have hp : ((L[k], d[k]) : Int × ℝ) ∈ List.zip L d := by
      rw [List.mem_iff_getElem]
      exact ⟨k, by simp; omega, by simp [List.getElem_zip]⟩
    have hnd : (List.zip L d).Pairwise (fun p q => (p.1 - base).toNat ≠ (q.1 - base).toNat) := by
      have : ((List.zip L d).map Prod.fst).Pairwise
          (fun c c' => (c - base).toNat ≠ (c' - base).toNat) := by
        rw [List.map_fst_zip (by omega)]
        refine hpw.imp_of_mem ?_
        intro a b ha hb' hab
        have := (hb a ha).1; have := (hb b hb').1
        omega
      rw [List.pairwise_map] at this
      exact this
    have := scatter_getD_of_mem (fun c => (c - base).toNat) (List.zip L d) (List.replicate size 0)
      hnd (L[k], d[k]) hp (by simpa using (hb _ hmem).2)
    rw [this]
    simp [List.getD_eq_getElem?_getD, hkd]
  · rw [lookupL_of_not_mem L d c hmem]
    rw [scatter_getD_of_not_mem (fun c => (c - base).toNat)]
    · simp only [List.getD_eq_getElem?_getD, List.getElem?_replicate]
      split <;> simp
    · intro p hp he
      have hpL : p.1 ∈ L := (List.of_mem_zip (a := p.1) (b := p.2) hp).1
      have := (hb p.1 hpL).1
      have he' : (p.1 - base).toNat = (c - base).toNat := he
      have : p.1 = c := by omega
      exact hmem (this ▸ hpL)

/-! ### `_expand_deltas_for_merge` by configuration number -/

theorem expand_eq (d : List ℝ) (idx new : Idl) (s : ℝ)
    (hidx : idx.toList.Pairwise (· < ·)) (hnew : new.toList.Pairwise (· < ·))
    (hsub : ∀ c ∈ idx.toList, c ∈ new.toList) (hlen : d.length = idx.len) :
    expandDeltasForMerge d idx new s
      = new.toList.map (fun c => lookupL idx.toList d c * ((new.len : ℝ) / (idx.len : ℝ)) * s) := by
  unfold expandDeltasForMerge
  split
  · rename_i h
    simp only [Bool.and_eq_true, Idl.sameSeq, beq_iff_eq] at h
    obtain ⟨_, hseq⟩ := h
    have hll : new.len = idx.len := by simp [Idl.len, hseq]
    rw [← hseq, hll]
    apply List.ext_getElem
    · simp [hlen, Idl.len]
    · intro k h1 h2
      simp only [List.getElem_map]
      have hk : k < idx.toList.length := by simpa using h2
      rw [lookupL_getElem idx.toList d hidx k hk]
      have hne : (idx.len : ℝ) ≠ 0 := by
        have : 0 < idx.len := by unfold Idl.len; omega
        exact_mod_cast (Nat.pos_iff_ne_zero.mp this)
      rw [div_self hne]
      have : k < d.length := by simpa using h1
      simp [List.getD_eq_getElem?_getD, this]
  · simp only [ofNatS_eq, ofNat_eq_lit, lit_eq, Nat.cast_zero]
    apply List.map_congr_left
    intro c hc
    congr 2
    have hfirst : ∀ c ∈ new.toList, new.first ≤ c := headD_le_of_pairwise new.toList hnew
    have hlast : ∀ c ∈ new.toList, c ≤ new.last := le_getLastD_of_pairwise new.toList hnew
    have := scatter_model idx.toList d new.first (new.last - new.first + 1).toNat hidx
      (by simpa [Idl.len] using hlen)
      (fun c' hc' => by
        have := hfirst c' (hsub c' hc'); have := hlast c' (hsub c' hc')
        exact ⟨by omega, by omega⟩) c (hfirst c hc)
    rw [← this]

/-! ### chains of the inputs -/

theorem wf_rep (o : Obs ℝ) (h : o.WF = true) (n : String) (r : Rep ℝ) (hr : o.rep? n = some r) :
    Idl.strictInc r.idl.toList = true ∧ r.deltas.length = r.idl.len := by
  unfold Obs.WF at h
  simp only [Bool.and_eq_true] at h
  obtain ⟨⟨⟨⟨_, hreps⟩, _⟩, _⟩, _⟩ := h
  have := List.all_eq_true.mp hreps r (List.mem_of_find?_eq_some hr)
  simp only [Bool.and_eq_true, beq_iff_eq] at this
  exact ⟨this.1.1, this.1.2⟩

theorem flatMap_chainIdls (xs : List (Obs ℝ)) (n : String) :
    (xs.filterMap (fun o => (o.rep? n).map (·.idl))).flatMap Idl.toList
      = xs.flatMap (fun o => Spec.cfgs o n) := by
  induction xs with
  | nil => rfl
  | cons o xs ih =>
    rw [List.filterMap_cons, List.flatMap_cons, ← ih]
    cases h : o.rep? n with
    | none => simp [Spec.cfgs, h]
    | some r => simp [Spec.cfgs, h]

theorem merged_toList (xs : List (Obs ℝ)) (hwf : ∀ x ∈ xs, x.WF = true) (n : String) :
    (mergeIdx (xs.filterMap (fun o => (o.rep? n).map (·.idl)))).toList = Spec.unionCfgs xs n := by
  rw [mergeIdx_toList, flatMap_chainIdls]
  · rfl
  · intro i hi
    obtain ⟨o, ho, hoi⟩ := List.mem_filterMap.mp hi
    cases h : o.rep? n with
    | none => simp [h] at hoi
    | some r =>
      simp only [h, Option.map_some, Option.some.injEq] at hoi
      rw [← hoi]
      exact (wf_rep o (hwf o ho) n r h).1

theorem union_pairwise (xs : List (Obs ℝ)) (n : String) : (Spec.unionCfgs xs n).Pairwise (· < ·) :=
  sortedSet_strict _

theorem cfgs_sub_union (xs : List (Obs ℝ)) (n : String) (o : Obs ℝ) (ho : o ∈ xs) (r : Rep ℝ)
    (hr : o.rep? n = some r) : ∀ c ∈ r.idl.toList, c ∈ Spec.unionCfgs xs n := by
  intro c hc
  unfold Spec.unionCfgs
  rw [mem_sortedSet, List.mem_flatMap]
  exact ⟨o, ho, by simp [Spec.cfgs, hr, hc]⟩

/-! ### the scale factor for missing replicas -/

theorem scale_eq_sigma (xs : List (Obs ℝ)) (hwf : ∀ x ∈ xs, x.WF = true) (o : Obs ℝ) (e : String) :
    scaleFactorMissingRep o (newIdlD xs) e = Spec.sigma xs o e := by
  have hM : ∀ m, (mergeIdx (xs.filterMap (fun o => (o.rep? m).map (·.idl)))).len
      = (Spec.unionCfgs xs m).length := fun m => by
    unfold Idl.len; rw [merged_toList xs hwf m]
  unfold scaleFactorMissingRep Spec.sigma Spec.chainsOf Spec.allChains newIdlD
  simp only [List.filter_map, List.length_map, List.map_map, Function.comp_def, hM]

/-! ### pointwise sums -/

theorem addLists_map (cs : List Int) (F G : Int → ℝ) :
    addLists (cs.map F) (cs.map G) = cs.map (fun c => F c + G c) := by
  unfold addLists
  apply List.ext_getElem
  · simp
  · intro k h1 h2
    simp

theorem foldl_addLists_map (cs : List Int) (Fs : List (Int → ℝ)) (F0 : Int → ℝ) :
    (Fs.map (fun F => cs.map F)).foldl addLists (cs.map F0)
      = cs.map (fun c => F0 c + (Fs.map (fun F => F c)).sum) := by
  induction Fs generalizing F0 with
  | nil => simp
  | cons F Fs ih =>
    rw [List.map_cons, List.foldl_cons, addLists_map, ih]
    refine List.map_congr_left ?_
    intro c _
    simp only [List.map_cons, List.sum_cons]
    ring

/-! ### reading a fluctuation -/

theorem delta?_getD (o : Obs ℝ) (n : String) (r : Rep ℝ) (hr : o.rep? n = some r) (c : Int) :
    (o.delta? n c).getD 0 = lookupL r.idl.toList r.deltas c := by
  unfold Obs.delta? Idl.pos? lookupL
  simp only [hr]
  split <;> simp_all [List.getD_eq_getElem?_getD]

theorem delta?_of_map (o : Obs ℝ) (n : String) (r : Rep ℝ) (hr : o.rep? n = some r) (D : Int → ℝ)
    (hd : r.deltas = r.idl.toList.map D) (c : Int) (hc : c ∈ r.idl.toList) :
    o.delta? n c = some (D c) := by
  have hlt : List.findIdx (fun x => x == c) r.idl.toList < r.idl.toList.length :=
    List.findIdx_lt_length_of_exists ⟨c, hc, by simp⟩
  have hget := List.findIdx_getElem (w := hlt)
  simp only [beq_iff_eq] at hget
  unfold Obs.delta? Idl.pos?
  simp only [hr, Option.bind_eq_bind, Option.bind_some, hlt, ↓reduceIte]
  rw [hd, List.getElem?_map, List.getElem?_eq_getElem hlt, hget]
  rfl

/-! ### the fluctuations of the result, chain by chain -/

theorem newDeltas_eq (g : List ℝ) (xs : List (Obs ℝ)) (hwf : ∀ x ∈ xs, x.WF = true) (n : String) :
    newDeltas g xs (newIdlD xs) n (mergeIdx (xs.filterMap (fun o => (o.rep? n).map (·.idl))))
      = (Spec.unionCfgs xs n).map (fun c => Spec.delta g xs n c) := by
  have hil := merged_toList xs hwf n
  generalize mergeIdx (xs.filterMap (fun o => (o.rep? n).map (·.idl))) = il at hil
  have hlen : il.len = (Spec.unionCfgs xs n).length := by unfold Idl.len; rw [hil]
  unfold newDeltas
  -- the contributions, by configuration number
  have hcontrib : (List.zip g xs).filterMap (fun (g, o) =>
        (o.rep? n).map (fun r =>
          (expandDeltasForMerge r.deltas r.idl il
            (scaleFactorMissingRep o (newIdlD xs) (Py.ensOf n))).map (g * ·)))
      = (((List.zip g xs).filterMap (fun (p : ℝ × Obs ℝ) =>
          (p.2.rep? n).map (fun r => fun (c : Int) =>
            p.1 * (lookupL r.idl.toList r.deltas c * (((Spec.unionCfgs xs n).length : ℝ) / (r.idl.len : ℝ))
              * Spec.sigma xs p.2 (Py.ensOf n))))).map
          (fun F => (Spec.unionCfgs xs n).map F)) := by
    rw [List.map_filterMap]
    refine List.filterMap_congr ?_
    rintro ⟨a, o⟩ hp
    have ho : o ∈ xs := (List.of_mem_zip hp).2
    cases hrep : o.rep? n with
    | none => simp [hrep]
    | some r =>
      have hw := wf_rep o (hwf o ho) n r hrep
      simp only [hrep, Option.map_some, Option.some.injEq]
      rw [expand_eq r.deltas r.idl il _ (strictInc_pairwise _ hw.1)
        (by rw [hil]; exact union_pairwise xs n)
        (by rw [hil]; exact cfgs_sub_union xs n o ho r hrep) hw.2,
        scale_eq_sigma xs hwf, hil, hlen, List.map_map]
      rfl
  rw [hcontrib]
  have hrep0 : List.replicate il.len (0 : ℝ) = (Spec.unionCfgs xs n).map (fun _ => (0 : ℝ)) := by
    rw [hlen]; simp
  have hrep0' : List.replicate il.len (@OfNat.ofNat ℝ 0 (Scalar.instOfNatScalar 0))
      = (Spec.unionCfgs xs n).map (fun _ => (0 : ℝ)) := by
    rw [← hrep0]; simp
  rw [hrep0', foldl_addLists_map]
  refine List.map_congr_left ?_
  intro c _
  rw [zero_add]
  unfold Spec.delta
  rw [sum_eq, List.map_filterMap]
  congr 1
  refine List.filterMap_congr ?_
  rintro ⟨a, o⟩ hp
  cases hrep : o.rep? n with
  | none => simp [hrep]
  | some r =>
    simp only [hrep, Option.map_some, Option.some.injEq]
    simp only [ofNat_eq_lit, lit_eq, Nat.cast_zero]
    rw [delta?_getD o n r hrep c]
    unfold Spec.weight Spec.cfgs
    simp only [hrep, ofNatS_eq, Idl.len]
    ring

/-! ### the chain of the result -/

theorem find?_map_pairs (l : List (String × Idl)) (F : String × Idl → Rep ℝ)
    (hF : ∀ p, (F p).name = p.1) (n : String) (hn : ∃ p ∈ l, p.1 = n) :
    ∃ p ∈ l, p.1 = n ∧ (l.map F).find? (fun r => r.name == n) = some (F p) := by
  induction l with
  | nil => obtain ⟨p, hp, _⟩ := hn; cases hp
  | cons q l ih =>
    by_cases hq : q.1 = n
    · exact ⟨q, List.mem_cons_self, hq, by simp [hF, hq]⟩
    · obtain ⟨p, hp, hpn⟩ := hn
      rcases List.mem_cons.mp hp with rfl | hp'
      · exact absurd hpn hq
      · obtain ⟨p', hp'l, hp'n, hfind⟩ := ih ⟨p, hp', hpn⟩
        refine ⟨p', List.mem_cons_of_mem _ hp'l, hp'n, ?_⟩
        simp [hF, hq, hfind]

/-- one chain of the result, from its entry in `new_idl_d` -/
noncomputable def resRep (f : List ℝ → ℝ) (g : List ℝ) (xs : List (Obs ℝ)) (p : String × Idl) : Rep ℝ :=
  match Idl.normalise p.2 with
  | .ok i =>
    { name := p.1, idl := i, deltas := newDeltas g xs (newIdlD xs) p.1 p.2,
      rvalue := f (xs.map (fun o => match o.rep? p.1 with | some r => r.rvalue | none => o.value)) }
  | .error _ =>
    { name := p.1, idl := p.2, deltas := newDeltas g xs (newIdlD xs) p.1 p.2,
      rvalue := f (xs.map (fun o => match o.rep? p.1 with | some r => r.rvalue | none => o.value)) }

theorem derivedCore_reps (f : List ℝ → ℝ) (g : List ℝ) (xs : List (Obs ℝ))
    (allcov : List (String × List (List ℝ))) :
    (derivedCore f g xs allcov).reps = (newIdlD xs).map (resRep f g xs) := by
  simp only [derivedCore, List.map_map]
  refine List.map_congr_left ?_
  rintro ⟨m, il⟩ _
  simp only [Function.comp, resRep]
  split <;> simp_all <;>
  · congr 1
    refine List.map_congr_left ?_
    intro o _
    cases o.rep? m <;> rfl

theorem derivedCore_rep (f : List ℝ → ℝ) (g : List ℝ) (xs : List (Obs ℝ))
    (allcov : List (String × List (List ℝ))) (n : String) (hn : n ∈ newSampleNames xs) :
    ∃ r, (derivedCore f g xs allcov).rep? n = some r
      ∧ r.idl.toList = (mergeIdx (xs.filterMap (fun o => (o.rep? n).map (·.idl)))).toList
      ∧ r.deltas = newDeltas g xs (newIdlD xs) n
          (mergeIdx (xs.filterMap (fun o => (o.rep? n).map (·.idl)))) := by
  unfold Obs.rep?
  rw [derivedCore_reps]
  obtain ⟨p, hp, hpn, hfind⟩ := find?_map_pairs (newIdlD xs) (resRep f g xs) (fun p => by
      unfold resRep
      split <;> rfl) n
    ⟨(n, mergeIdx (xs.filterMap (fun o => (o.rep? n).map (·.idl)))), by
      unfold newIdlD
      exact List.mem_map.mpr ⟨n, hn, rfl⟩, rfl⟩
  refine ⟨_, hfind, ?_⟩
  have hp' : p = (n, mergeIdx (xs.filterMap (fun o => (o.rep? n).map (·.idl)))) := by
    unfold newIdlD at hp
    obtain ⟨m, _, hm⟩ := List.mem_map.mp hp
    subst hm
    simp only at hpn
    subst hpn
    rfl
  subst hp'
  unfold resRep
  split
  · rename_i i hi
    exact ⟨normalise_toList _ _ hi, rfl⟩
  · exact ⟨rfl, rfl⟩

/-! ### every chain name is its ensemble's name or starts with `ensemble|` -/

theorem ensOf_prefix_or_eq (m : String) : ((Py.ensOf m ++ "|").isPrefixOf m || m == Py.ensOf m) = true := by
  have htl : (Py.ensOf m).toList = m.toList.takeWhile (· != '|') := by simp [Py.ensOf]
  have hsplit := List.takeWhile_append_dropWhile (p := (· != '|')) (l := m.toList)
  cases hd : m.toList.dropWhile (· != '|') with
  | nil =>
    rw [hd, List.append_nil] at hsplit
    have : m = Py.ensOf m := by
      apply String.ext_iff.mpr |> fun f => f
      rw [htl, hsplit]
    simp [← this]
  | cons c rest =>
    have hc : (c != '|') = false := by
      have := List.head_dropWhile_not (p := (· != '|')) (l := m.toList) (by rw [hd]; simp)
      simpa [hd] using this
    have hc' : c = '|' := by simpa using hc
    have hpre : (Py.ensOf m ++ "|").toList <+: m.toList := by
      rw [String.toList_append, htl]
      refine ⟨rest, ?_⟩
      have h2 : m.toList = List.takeWhile (fun x => x != '|') m.toList ++ '|' :: rest := by
        conv => lhs; rw [← hsplit, hd, hc']
      conv => rhs; rw [h2]
      simp
    have : (Py.ensOf m ++ "|").isPrefixOf m = true := by
      unfold String.isPrefixOf
      exact String.startsWith_string_iff.mpr hpre
    simp [this]

end PV
