import Mathlib.Algebra.BigOperators.Group.List.Basic
import Mathlib.Algebra.BigOperators.Group.Finset.Basic
import Mathlib.Tactic.Ring
import Mathlib.Tactic.Linarith
import PV.Proofs.RealScalar
import PV.Spec.Wolff

namespace PV
open Scalar PV.RealS

/-- `dot` as a finite sum -/
theorem dot_eq_sum (a b : List ℝ) :
    dot a b = ∑ j ∈ Finset.range a.length, a.getD j 0 * b.getD j 0 := by
  induction a generalizing b with
  | nil => simp [dot]
  | cons x xs ih =>
    cases b with
    | nil => simp [dot]
    | cons y ys =>
      simp only [dot, List.length_cons, Finset.sum_range_succ', ih]
      simp [add_comm]

theorem strictInc_pairwise : ∀ (l : List Int), Idl.strictInc l = true → l.Pairwise (· < ·)
  | [], _ => List.Pairwise.nil
  | [x], _ => by simp
  | x :: y :: r, h => by
    simp only [Idl.strictInc, Bool.and_eq_true, decide_eq_true_eq] at h
    have ih := strictInc_pairwise (y :: r) h.2
    refine List.Pairwise.cons ?_ ih
    intro z hz
    rcases List.mem_cons.mp hz with rfl | hz
    · exact h.1
    · exact lt_trans h.1 ((List.pairwise_cons.mp ih).1 z hz)

/-! ### scatter -/

theorem scatter_length (f : Int → Nat) (P : List (Int × ℝ)) (init : List ℝ) :
    (P.foldl (fun acc (p : Int × ℝ) => acc.set (f p.1) p.2) init).length = init.length := by
  induction P generalizing init with
  | nil => rfl
  | cons p P ih => simp [List.foldl_cons, ih]

theorem scatter_getD_of_not_mem (f : Int → Nat) (P : List (Int × ℝ)) (init : List ℝ) (j : Nat)
    (h : ∀ p ∈ P, f p.1 ≠ j) :
    (P.foldl (fun acc (p : Int × ℝ) => acc.set (f p.1) p.2) init).getD j 0 = init.getD j 0 := by
  induction P generalizing init with
  | nil => rfl
  | cons p P ih =>
    rw [List.foldl_cons, ih _ (fun q hq => h q (List.mem_cons_of_mem _ hq))]
    have := h p List.mem_cons_self
    simp [List.getD_eq_getElem?_getD, this]

theorem scatter_getD_of_mem (f : Int → Nat) (P : List (Int × ℝ)) (init : List ℝ)
    (hnd : P.Pairwise (fun p q => f p.1 ≠ f q.1)) (p : Int × ℝ) (hp : p ∈ P)
    (hlt : f p.1 < init.length) :
    (P.foldl (fun acc (p : Int × ℝ) => acc.set (f p.1) p.2) init).getD (f p.1) 0 = p.2 := by
  induction P generalizing init with
  | nil => cases hp
  | cons q P ih =>
    rw [List.foldl_cons]
    rw [List.pairwise_cons] at hnd
    rcases List.mem_cons.mp hp with rfl | hp'
    · rw [scatter_getD_of_not_mem f P _ _ (fun q hq => (hnd.1 q hq).symm)]
      simp [List.getD_eq_getElem?_getD, hlt]
    · exact ih _ hnd.2 hp' (by simpa using hlt)

/-! ### fluct -/

theorem fluct_of_not_mem (r : Rep ℝ) (c : Int) (h : c ∉ r.idl.toList) : Spec.fluct r c = 0 := by
  unfold Spec.fluct Idl.pos?
  have : ¬ (List.findIdx (fun x => x == c) r.idl.toList < r.idl.toList.length) := by
    intro hlt
    have := List.findIdx_getElem (w := hlt)
    simp only [beq_iff_eq] at this
    exact h (this ▸ List.getElem_mem _)
  simp [this]

theorem fluct_of_mem (r : Rep ℝ) (c : Int) (h : c ∈ r.idl.toList) :
    ∃ k, ∃ hk : k < r.idl.toList.length, r.idl.toList[k] = c ∧ Spec.fluct r c = r.deltas.getD k 0 := by
  have hlt : List.findIdx (fun x => x == c) r.idl.toList < r.idl.toList.length :=
    List.findIdx_lt_length_of_exists ⟨c, h, by simp⟩
  refine ⟨_, hlt, ?_, ?_⟩
  · have := List.findIdx_getElem (w := hlt)
    simpa using this
  · unfold Spec.fluct Idl.pos?
    simp [hlt]

/-! ### bounds of a strictly increasing list -/

theorem headD_le_of_pairwise (l : List Int) (h : l.Pairwise (· < ·)) (c : Int) (hc : c ∈ l) :
    l.headD 0 ≤ c := by
  cases l with
  | nil => cases hc
  | cons x xs =>
    rcases List.mem_cons.mp hc with rfl | hc'
    · simp
    · exact le_of_lt ((List.pairwise_cons.mp h).1 c hc')

theorem le_getLastD_of_pairwise (l : List Int) (h : l.Pairwise (· < ·)) (c : Int) (hc : c ∈ l) :
    c ≤ l.getLastD 0 := by
  have hne : l ≠ [] := List.ne_nil_of_mem hc
  have hl : l.getLastD 0 = l.getLast hne := by
    rw [List.getLastD_eq_getLast?, List.getLast?_eq_some_getLast hne]; rfl
  rw [hl]
  have hsplit := List.dropLast_append_getLast hne
  rw [← hsplit] at h hc
  rw [List.pairwise_append] at h
  rcases List.mem_append.mp hc with hc' | hc'
  · exact le_of_lt (h.2.2 c hc' _ (by simp))
  · simp at hc'; exact le_of_eq hc'

/-- `d` is the chain expanded to spacing `gap`: position `j` holds the fluctuation of
    configuration `first + j·gap`, and every configuration of the chain has a position -/
def IsExpansion (r : Rep ℝ) (gap : Int) (d : List ℝ) : Prop :=
  (∀ j : Nat, d.getD j 0 = Spec.fluct r (r.idl.first + (j : Int) * gap)) ∧
  (∀ c ∈ r.idl.toList, ∃ j : Nat, j < d.length ∧ c = r.idl.first + (j : Int) * gap)

theorem scatter_isExpansion (r : Rep ℝ) (gap : Int) (hgap : 0 < gap)
    (hpw : r.idl.toList.Pairwise (· < ·)) (hlen : r.deltas.length = r.idl.toList.length)
    (hmod : ∀ c ∈ r.idl.toList, (c - r.idl.first) % gap = 0) :
    IsExpansion r gap
      ((List.zip r.idl.toList r.deltas).foldl
        (fun acc (p : Int × ℝ) => acc.set (Py.fdiv (p.1 - r.idl.first) gap).toNat p.2)
        (List.replicate (Py.fdiv (r.idl.last - r.idl.first + gap) gap).toNat 0)) := by
  have hfirst : ∀ c ∈ r.idl.toList, r.idl.first ≤ c := headD_le_of_pairwise r.idl.toList hpw
  have hlast : ∀ c ∈ r.idl.toList, c ≤ r.idl.last := le_getLastD_of_pairwise r.idl.toList hpw
  have hfd : ∀ a : Int, Py.fdiv a gap = a / gap := fun a =>
    Int.fdiv_eq_ediv_of_nonneg a (le_of_lt hgap)
  -- every configuration sits at `first + idx·gap` with `idx` below the size
  have hidx : ∀ c ∈ r.idl.toList, c = r.idl.first + (((Py.fdiv (c - r.idl.first) gap).toNat : Nat) : Int) * gap ∧
      (Py.fdiv (c - r.idl.first) gap).toNat < (Py.fdiv (r.idl.last - r.idl.first + gap) gap).toNat := by
    intro c hc
    have h1 := hfirst c hc
    have h2 := hlast c hc
    have h3 := hmod c hc
    rw [hfd, hfd]
    have hq : 0 ≤ (c - r.idl.first) / gap := Int.ediv_nonneg (by omega) (le_of_lt hgap)
    have hmul : (c - r.idl.first) / gap * gap = c - r.idl.first := Int.ediv_mul_cancel (Int.dvd_of_emod_eq_zero h3)
    have hadd : (r.idl.last - r.idl.first + gap) / gap = (r.idl.last - r.idl.first) / gap + 1 :=
      Int.add_ediv_of_dvd_right (dvd_refl gap) |>.trans (by rw [Int.ediv_self (ne_of_gt hgap)])
    have hmono : (c - r.idl.first) / gap ≤ (r.idl.last - r.idl.first) / gap :=
      Int.ediv_le_ediv hgap (by omega)
    refine ⟨?_, ?_⟩
    · rw [Int.toNat_of_nonneg hq, hmul]; ring
    · rw [hadd]; omega
  have hinj : ∀ c ∈ r.idl.toList, ∀ c' ∈ r.idl.toList, (Py.fdiv (c - r.idl.first) gap).toNat = (Py.fdiv (c' - r.idl.first) gap).toNat →
      c = c' := by
    intro c hc c' hc' he
    rw [(hidx c hc).1, (hidx c' hc').1, he]
  have hfst : (List.zip r.idl.toList r.deltas).map Prod.fst = r.idl.toList :=
    List.map_fst_zip (by omega)
  have hnd : (List.zip r.idl.toList r.deltas).Pairwise
      (fun p q => (Py.fdiv (p.1 - r.idl.first) gap).toNat ≠ (Py.fdiv (q.1 - r.idl.first) gap).toNat) := by
    have : ((List.zip r.idl.toList r.deltas).map Prod.fst).Pairwise
        (fun c c' => (Py.fdiv (c - r.idl.first) gap).toNat ≠ (Py.fdiv (c' - r.idl.first) gap).toNat) := by
      rw [hfst]
      refine hpw.imp_of_mem ?_
      intro a b ha hb hab he
      exact absurd (hinj a ha b hb he) (ne_of_lt hab)
    rw [List.pairwise_map] at this
    exact this
  refine ⟨?_, ?_⟩
  · intro j
    by_cases hc : r.idl.first + (j : Int) * gap ∈ r.idl.toList
    · obtain ⟨k, hk, hkc, hfl⟩ := fluct_of_mem r _ hc
      rw [hfl]
      have hkD : k < r.deltas.length := by omega
      have hmem : ((r.idl.first + (j : Int) * gap, r.deltas[k]) : Int × ℝ) ∈ List.zip r.idl.toList r.deltas := by
        rw [List.mem_iff_getElem]
        refine ⟨k, by simp; omega, ?_⟩
        simp [List.getElem_zip, ← hkc]
      have hj : (Py.fdiv (r.idl.first + (j : Int) * gap - r.idl.first) gap).toNat = j := by
        rw [hfd]
        have : r.idl.first + (j : Int) * gap - r.idl.first = (j : Int) * gap := by ring
        rw [this, Int.mul_ediv_cancel _ (ne_of_gt hgap)]
        simp
      have := scatter_getD_of_mem (fun c => (Py.fdiv (c - r.idl.first) gap).toNat) _
        (List.replicate (Py.fdiv (r.idl.last - r.idl.first + gap) gap).toNat 0) hnd _ hmem
        (by simpa using (hidx _ hc).2)
      simp only [hj] at this
      rw [this]
      simp [List.getD_eq_getElem?_getD, hkD]
    · rw [fluct_of_not_mem r _ hc]
      rw [scatter_getD_of_not_mem (fun c => (Py.fdiv (c - r.idl.first) gap).toNat)]
      · simp only [List.getD_eq_getElem?_getD, List.getElem?_replicate]
        split <;> simp
      · intro p hp he
        have hpL : p.1 ∈ r.idl.toList := (List.of_mem_zip (a := p.1) (b := p.2) hp).1
        apply hc
        have := (hidx p.1 hpL).1
        rw [he] at this
        rw [← this]; exact hpL
  · intro c hc
    refine ⟨(Py.fdiv (c - r.idl.first) gap).toNat, ?_, (hidx c hc).1⟩
    rw [scatter_length (fun c => (Py.fdiv (c - r.idl.first) gap).toNat)]
    simpa using (hidx c hc).2

theorem range_isExpansion (r : Rep ℝ) (s : Int) (n : Nat) (gap : Int)
    (hr : r.idl = .range s n gap) (hgap : 0 < gap) (hn : 0 < n) (hlen : r.deltas.length = n) :
    IsExpansion r gap r.deltas := by
  have hL : r.idl.toList = (List.range n).map (fun (k : Nat) => s + gap * (k : Int)) := by
    rw [hr]; rfl
  have hf : r.idl.first = s := by
    unfold Idl.first
    rw [hL]
    obtain ⟨m, rfl⟩ : ∃ m, n = m + 1 := ⟨n - 1, by omega⟩
    simp [List.range_succ_eq_map]
  have hmem : ∀ c, c ∈ r.idl.toList ↔ ∃ k : Nat, k < n ∧ s + gap * (k : Int) = c := by
    intro c; simp [hL, List.mem_map, List.mem_range]
  refine ⟨?_, ?_⟩
  · intro j
    rw [hf]
    by_cases hj : j < n
    · have hc : s + (j : Int) * gap ∈ r.idl.toList := (hmem _).mpr ⟨j, hj, by ring⟩
      obtain ⟨k, hk, hkc, hfl⟩ := fluct_of_mem r _ hc
      rw [hfl]
      simp only [hL, List.getElem_map, List.getElem_range] at hkc
      have hkj : (k : Int) = (j : Int) := by
        have h1 : gap * (k : Int) = gap * (j : Int) := by linarith
        exact Int.eq_of_mul_eq_mul_left (ne_of_gt hgap) h1
      have : k = j := by omega
      rw [this]
    · have hc : s + (j : Int) * gap ∉ r.idl.toList := by
        rw [hmem]
        rintro ⟨k, hk, hkc⟩
        have h1 : gap * (k : Int) = gap * (j : Int) := by linarith
        have := Int.eq_of_mul_eq_mul_left (ne_of_gt hgap) h1
        omega
      rw [fluct_of_not_mem r _ hc]
      simp [List.getD_eq_getElem?_getD, List.getElem?_eq_none (show r.deltas.length ≤ j by omega)]
  · intro c hc
    obtain ⟨k, hk, hkc⟩ := (hmem c).mp hc
    exact ⟨k, by omega, by rw [hf, ← hkc]; ring⟩

/-- the chain hypotheses of the Gamma method (mirrors `ChainOK` of the property file) -/
theorem expandDeltas_isExpansion (r : Rep ℝ) (gap : Int) (hgap : 0 < gap)
    (hinc : Idl.strictInc r.idl.toList = true) (hlen : r.deltas.length = r.idl.len)
    (hpos : 0 < r.idl.len) (hmod : ∀ c ∈ r.idl.toList, (c - r.idl.first) % gap = 0) :
    IsExpansion r gap (expandDeltas r.deltas r.idl gap) := by
  have hpw := strictInc_pairwise _ hinc
  have hsc := scatter_isExpansion r gap hgap hpw hlen hmod
  cases hidl : r.idl with
  | list l =>
    rw [hidl] at hsc
    unfold expandDeltas
    simp only [ofNat_eq_lit, lit_eq, Nat.cast_zero]
    exact hsc
  | range s n st =>
    unfold expandDeltas
    by_cases hst : st = gap
    · subst hst
      have hn : r.idl.len = n := by rw [hidl]; simp [Idl.len, Idl.toList]
      simp only [beq_self_eq_true, if_true]
      exact range_isExpansion r s n st hidl hgap (by omega) (by omega)
    · have : (st == gap) = false := by simpa using hst
      simp only [this, Bool.false_eq_true, if_false, ofNat_eq_lit, lit_eq, Nat.cast_zero]
      rw [hidl] at hsc
      exact hsc

/-- shifted dot product of the expanded array = pair sum by configuration number -/
theorem dot_shift_eq_gammaRep (r : Rep ℝ) (gap : Int) (d : List ℝ) (hgap : 0 < gap)
    (hpw : r.idl.toList.Pairwise (· < ·)) (hexp : IsExpansion r gap d) (t : Nat) :
    dot (d.take (d.length - t)) (d.drop t) = Spec.gammaRep r gap t := by
  obtain ⟨hval, hcov⟩ := hexp
  have hnd : r.idl.toList.Nodup := hpw.imp (fun h => ne_of_lt h)
  rw [dot_eq_sum]
  have hlen : (d.take (d.length - t)).length = d.length - t := by
    rw [List.length_take]; omega
  rw [hlen]
  have h1 : ∑ j ∈ Finset.range (d.length - t),
        (d.take (d.length - t)).getD j 0 * (d.drop t).getD j 0
      = ∑ j ∈ Finset.range (d.length - t), d.getD j 0 * d.getD (t + j) 0 := by
    refine Finset.sum_congr rfl ?_
    intro j hj
    have hj' : j < d.length - t := Finset.mem_range.mp hj
    simp only [List.getD_eq_getElem?_getD, List.getElem?_take, hj', if_true, List.getElem?_drop]
  have h2 : ∑ j ∈ Finset.range (d.length - t), d.getD j 0 * d.getD (t + j) 0
      = ∑ j ∈ Finset.range d.length, d.getD j 0 * d.getD (t + j) 0 := by
    refine Finset.sum_subset (Finset.range_mono (by omega)) ?_
    intro j _ hj
    have hj' : d.length ≤ t + j := by
      have := mt Finset.mem_range.mpr hj
      omega
    simp [List.getD_eq_getElem?_getD, List.getElem?_eq_none hj']
  rw [h1, h2]
  let g : Int → ℝ := fun c => Spec.fluct r c * Spec.fluct r (c + (t : Int) * gap)
  let φ : Nat → Int := fun j => r.idl.first + (j : Int) * gap
  have h3 : ∑ j ∈ Finset.range d.length, d.getD j 0 * d.getD (t + j) 0
      = ∑ j ∈ Finset.range d.length, g (φ j) := by
    refine Finset.sum_congr rfl ?_
    intro j _
    simp only [g, φ]
    rw [hval j, hval (t + j)]
    congr 2
    push_cast; ring
  have hinj : ∀ a ∈ Finset.range d.length, ∀ b ∈ Finset.range d.length, φ a = φ b → a = b := by
    intro a _ b _ hab
    simp only [φ] at hab
    have h : (a : Int) * gap = (b : Int) * gap := by linarith
    have := Int.eq_of_mul_eq_mul_right (ne_of_gt hgap) h
    omega
  have h4 : ∑ j ∈ Finset.range d.length, g (φ j) = ∑ c ∈ (Finset.range d.length).image φ, g c :=
    (Finset.sum_image hinj).symm
  have h5 : ∑ c ∈ r.idl.toList.toFinset, g c = ∑ c ∈ (Finset.range d.length).image φ, g c := by
    refine Finset.sum_subset ?_ ?_
    · intro c hc
      obtain ⟨j, hj, hcj⟩ := hcov c (List.mem_toFinset.mp hc)
      exact Finset.mem_image.mpr ⟨j, Finset.mem_range.mpr hj, hcj.symm⟩
    · intro c _ hc
      have : c ∉ r.idl.toList := fun h => hc (List.mem_toFinset.mpr h)
      simp only [g]
      rw [fluct_of_not_mem r c this, zero_mul]
  rw [h3, h4, ← h5, List.sum_toFinset g hnd]
  unfold Spec.gammaRep
  rw [sum_eq]

theorem sum_map_indicator (l : List Int) (p : Int → Bool) :
    (l.map (fun c => if p c = true then (1 : ℝ) else 0)).sum = ((l.filter p).length : ℝ) := by
  induction l with
  | nil => simp
  | cons x xs ih =>
    by_cases hx : p x = true
    · simp [hx, ih]; ring
    · simp [hx, ih]

theorem fluct_ones (r : Rep ℝ) (hlen : r.deltas = List.replicate r.idl.len 1) (c : Int) :
    Spec.fluct r c = if r.idl.toList.contains c = true then 1 else 0 := by
  by_cases hc : c ∈ r.idl.toList
  · obtain ⟨k, hk, _, hfl⟩ := fluct_of_mem r c hc
    rw [hfl, hlen]
    have hk' : k < r.idl.len := hk
    simp [List.getD_eq_getElem?_getD, hk', hc]
  · rw [fluct_of_not_mem r c hc]
    simp [hc]

theorem gammaRep_ones (r : Rep ℝ) (gap : Int) (t : Nat)
    (hlen : r.deltas = List.replicate r.idl.len 1) :
    Spec.gammaRep r gap t = (Spec.pairsRep r gap t : ℝ) := by
  unfold Spec.gammaRep Spec.pairsRep
  rw [sum_eq, ← sum_map_indicator]
  congr 1
  refine List.map_congr_left ?_
  intro c hc
  rw [fluct_ones r hlen c, fluct_ones r hlen (c + (t : Int) * gap)]
  have : r.idl.toList.contains c = true := by simpa using hc
  rw [if_pos this, one_mul]

end PV
