/-
  Helper lemmas for C13.
-/
import Mathlib.Algebra.BigOperators.Group.List.Basic
import Mathlib.Tactic.Ring
import Mathlib.Tactic.Linarith
import Mathlib.Tactic.FieldSimp
import PV.Proofs.RealScalar
import PV.Model.Resample

namespace PV
open Scalar
open PV.RealS

theorem c13_sum_affine (c d : ℝ) (x : List ℝ) :
    (x.map (fun xi => (c - xi) / d)).sum = ((x.length : ℝ) * c - x.sum) / d := by
  induction x with
  | nil => simp
  | cons a t ih =>
    simp only [List.map_cons, List.sum_cons, List.length_cons, ih]
    push_cast
    ring


theorem c13_sum_sq_scale (m d : ℝ) (x : List ℝ) :
    (x.map (fun xi => ((m - xi) / d) ^ 2)).sum = (x.map (fun xi => (xi - m) ^ 2)).sum / d ^ 2 := by
  induction x with
  | nil => simp
  | cons a t ih =>
    simp only [List.map_cons, List.sum_cons, ih]
    ring


theorem c13_len_ne (x : List ℝ) (hn : 2 ≤ x.length) :
    (x.length : ℝ) ≠ 0 ∧ (x.length : ℝ) - 1 ≠ 0 := by
  have h : (2 : ℝ) ≤ (x.length : ℝ) := by exact_mod_cast hn
  constructor
  · intro h0; linarith
  · intro h0; linarith


theorem c13_getD_zipWith (a : ℝ) (x y : List ℝ) (hl : x.length = y.length) (k : Nat) :
    (List.zipWith (fun s t => s + a * t) x y).getD k 0 = x.getD k 0 + a * y.getD k 0 := by
  by_cases hk : k < x.length
  · have hk' : k < y.length := hl ▸ hk
    have hz : k < (List.zipWith (fun s t => s + a * t) x y).length := by simp; omega
    simp only [List.getD_eq_getElem?_getD, List.getElem?_eq_getElem hz, List.getElem?_eq_getElem hk,
      List.getElem?_eq_getElem hk', Option.getD_some, List.getElem_zipWith]
  · have hk' : ¬ k < y.length := hl ▸ hk
    have hz : (List.zipWith (fun s t => s + a * t) x y).length ≤ k := by simp; omega
    simp only [List.getD_eq_getElem?_getD, List.getElem?_eq_none hz,
      List.getElem?_eq_none (Nat.le_of_not_lt hk), List.getElem?_eq_none (Nat.le_of_not_lt hk'),
      Option.getD_none]
    ring


theorem c13_sum_lin (a : ℝ) (f g : Nat → ℝ) (row : List Nat) :
    (row.map (fun k => f k + a * g k)).sum = (row.map f).sum + a * (row.map g).sum := by
  induction row with
  | nil => simp
  | cons k t ih => simp only [List.map_cons, List.sum_cons, ih]; ring


end PV
