/-
  Helper lemmas for PV/Todo/C02a.lean: Python slices as index maps, and the invariant of the
  tau_exp loop.  Everything holds for every lawless `Scalar α`.
-/
import PV.Proofs.Window

namespace PV
open Scalar

/-! ### Python slices as maps over `List.range` -/

/-- `[s:e]` with `0 ≤ s, e ≤ n` selects `s, s+1, …, e-1` -/
theorem sliceIndices_fwd (n s e : Nat) (hs : s ≤ n) (he : e ≤ n) :
    Py.sliceIndices n (some (s : Int)) (some (e : Int)) 1
      = (List.range (e - s)).map (fun k => s + k) := by
  unfold Py.sliceIndices
  simp only [show (1 : Int) > 0 from by decide, if_true]
  have h1 : ¬ ((s : Int) < 0) := by omega
  have h2 : ¬ ((e : Int) < 0) := by omega
  have h3 : ¬ ((s : Int) > (n : Int)) := by omega
  have h4 : ¬ ((e : Int) > (n : Int)) := by omega
  simp only [h1, h2, h3, h4, if_false]
  by_cases hle : (e : Int) ≤ (s : Int)
  · have : e - s = 0 := by omega
    simp [hle, this]
  · simp only [hle, if_false, Int.ediv_one, Int.mul_one]
    have hc : ((e : Int) - (s : Int) - 1 + 1).toNat = e - s := by omega
    rw [hc]
    apply List.map_congr_left
    intro k _
    omega

/-- `[s::-1]` with `s < n` selects `s, s-1, …, 0` -/
theorem sliceIndices_bwd_none (n s : Nat) (hs : s < n) :
    Py.sliceIndices n (some (s : Int)) none (-1)
      = (List.range (s + 1)).map (fun k => s - k) := by
  unfold Py.sliceIndices
  simp only [show ¬ ((-1 : Int) > 0) from by decide, show ((-1 : Int) < 0) from by decide,
    if_true, if_false]
  have h1 : ¬ ((s : Int) < 0) := by omega
  have h2 : ¬ ((s : Int) < -1) := by omega
  have h3 : ¬ ((s : Int) > (n : Int) - 1) := by omega
  have h4 : ¬ ((s : Int) ≤ -1) := by omega
  simp only [h1, h2, h3, h4, if_false, Int.neg_neg, Int.ediv_one]
  have hc : ((s : Int) - -1 - 1 + 1).toNat = s + 1 := by omega
  rw [hc]
  apply List.map_congr_left
  intro k hk
  have : k < s + 1 := by simpa using hk
  omega

/-- `[s:e:-1]` with `s < n`, `0 ≤ e` selects `s, s-1, …, e+1` -/
theorem sliceIndices_bwd_some (n s e : Nat) (hs : s < n) :
    Py.sliceIndices n (some (s : Int)) (some (e : Int)) (-1)
      = (List.range (s - e)).map (fun k => s - k) := by
  unfold Py.sliceIndices
  simp only [show ¬ ((-1 : Int) > 0) from by decide, show ((-1 : Int) < 0) from by decide,
    if_true, if_false]
  have h1 : ¬ ((s : Int) < 0) := by omega
  have h2 : ¬ ((s : Int) < -1) := by omega
  have h3 : ¬ ((s : Int) > (n : Int) - 1) := by omega
  have h5 : ¬ ((e : Int) < 0) := by omega
  have h6 : ¬ ((e : Int) < -1) := by omega
  simp only [h1, h2, h3, h5, h6, if_false, Int.neg_neg, Int.ediv_one]
  by_cases hgt : (e : Int) > (n : Int) - 1
  · have : s - e = 0 := by omega
    have hle : (s : Int) ≤ (n : Int) - 1 := by omega
    simp [hgt, this, hle]
  · simp only [hgt, if_false]
    by_cases hle : (s : Int) ≤ (e : Int)
    · have : s - e = 0 := by omega
      simp [hle, this]
    · simp only [hle, if_false]
      have hc : ((s : Int) - (e : Int) - 1 + 1).toNat = s - e := by omega
      rw [hc]
      apply List.map_congr_left
      intro k hk
      have : k < s - e := by simpa using hk
      omega

variable {α : Type}

/-- selecting in-range positions is a `map` of `getD` -/
theorem filterMap_getElem?_eq_map (l : List α) (d : α) (idx : List Nat)
    (h : ∀ j ∈ idx, j < l.length) :
    idx.filterMap (fun i => l[i]?) = idx.map (fun i => l.getD i d) := by
  induction idx with
  | nil => rfl
  | cons j js ih =>
    have hj : j < l.length := h j (by simp)
    have ih' := ih (fun k hk => h k (by simp [hk]))
    simp [List.getD, List.getElem?_eq_getElem hj, ih']

theorem slice_fwd (l : List α) (d : α) (s e : Nat) (hs : s ≤ l.length) (he : e ≤ l.length) :
    Py.slice l (some (s : Int)) (some (e : Int))
      = (List.range (e - s)).map (fun k => l.getD (s + k) d) := by
  unfold Py.slice
  rw [sliceIndices_fwd _ _ _ hs he, filterMap_getElem?_eq_map l d]
  · simp [List.map_map, Function.comp_def]
  · intro j hj
    simp only [List.mem_map, List.mem_range] at hj
    obtain ⟨k, hk, rfl⟩ := hj
    omega

theorem slice_bwd_none (l : List α) (d : α) (s : Nat) (hs : s < l.length) :
    Py.slice l (some (s : Int)) none (-1)
      = (List.range (s + 1)).map (fun k => l.getD (s - k) d) := by
  unfold Py.slice
  rw [sliceIndices_bwd_none _ _ hs, filterMap_getElem?_eq_map l d]
  · simp [List.map_map, Function.comp_def]
  · intro j hj
    simp only [List.mem_map, List.mem_range] at hj
    obtain ⟨k, hk, rfl⟩ := hj
    omega

theorem slice_bwd_some (l : List α) (d : α) (s e : Nat) (hs : s < l.length) :
    Py.slice l (some (s : Int)) (some (e : Int)) (-1)
      = (List.range (s - e)).map (fun k => l.getD (s - k) d) := by
  unfold Py.slice
  rw [sliceIndices_bwd_some _ _ _ hs, filterMap_getElem?_eq_map l d]
  · simp [List.map_map, Function.comp_def]
  · intro j hj
    simp only [List.mem_map, List.mem_range] at hj
    obtain ⟨k, hk, rfl⟩ := hj
    omega

/-- two consecutive index maps glued together -/
theorem range_map_append (f g : Nat → α) (m n : Nat) :
    (List.range m).map f ++ (List.range n).map g
      = (List.range (m + n)).map (fun k => if k < m then f k else g (k - m)) := by
  apply List.ext_getElem
  · simp
  · intro k h1 h2
    simp only [List.length_append, List.length_map, List.length_range] at h1
    by_cases hk : k < m
    · rw [List.getElem_append_left (by simpa using hk)]
      simp [hk]
    · rw [List.getElem_append_right (by simpa using hk)]
      simp [hk]

theorem zipWith_range_map {β γ : Type} (op : α → β → γ) (f : Nat → α) (g : Nat → β) (n : Nat) :
    List.zipWith op ((List.range n).map f) ((List.range n).map g)
      = (List.range n).map (fun k => op (f k) (g k)) := by
  apply List.ext_getElem
  · simp
  · intro k h1 h2
    simp

/-! ### the array of stored `δρ` values -/

section
variable [Scalar α]

/-- the `e_drho` array with the entries `1 .. m` filled in -/
def drhoFilled (drhoAt : Nat → α) (wmax m : Nat) : List α :=
  (List.range wmax).map (fun j => if 1 ≤ j ∧ j ≤ m then drhoAt j else 0)

theorem drhoFilled_init (drhoAt : Nat → α) (wmax : Nat) :
    (List.replicate wmax (0 : α)).set 1 (drhoAt 1) = drhoFilled drhoAt wmax 1 := by
  unfold drhoFilled
  apply List.ext_getElem
  · simp
  · intro k h1 h2
    simp only [List.length_set, List.length_replicate] at h1
    simp only [List.getElem_set, List.getElem_replicate, List.getElem_map, List.getElem_range]
    by_cases hk : 1 = k
    · subst hk; simp
    · have : ¬ (1 ≤ k ∧ k ≤ 1) := by omega
      simp [hk, this]

theorem drhoFilled_set (drhoAt : Nat → α) (wmax m : Nat) :
    (drhoFilled drhoAt wmax m).set (m + 1) (drhoAt (m + 1)) = drhoFilled drhoAt wmax (m + 1) := by
  unfold drhoFilled
  apply List.ext_getElem
  · simp
  · intro k h1 h2
    simp only [List.getElem_set, List.getElem_map, List.getElem_range]
    by_cases hk : m + 1 = k
    · subst hk; simp
    · by_cases hk1 : 1 ≤ k ∧ k ≤ m
      · have : 1 ≤ k ∧ k ≤ m + 1 := by omega
        simp [hk, hk1, this]
      · have : ¬ (1 ≤ k ∧ k ≤ m + 1) := by omega
        simp [hk, hk1, this]

theorem drhoFilled_getD (drhoAt : Nat → α) (wmax m n : Nat) (h1 : 1 ≤ n) (h2 : n ≤ m)
    (h3 : n < wmax) : (drhoFilled drhoAt wmax m).getD n 0 = drhoAt n := by
  unfold drhoFilled
  simp [List.getD, h3, h1, h2]

/-- invariant of the tau_exp loop: entering iteration `n` with the entries `1 .. n` stored -/
theorem texpLoop_spec (rho : List α) (nSigma : α) (drhoAt : Nat → α) (wmax : Nat)
    (hM : 2 ≤ wmax / 2) :
    ∀ (fuel n : Nat), 1 ≤ n → n ≤ max 1 (wmax / 2 - 2) → n + fuel = wmax / 2 →
      ∃ W, texpLoop rho nSigma drhoAt wmax fuel n (drhoFilled drhoAt wmax n)
            = some (W, drhoFilled drhoAt wmax (W + 1)) ∧
        IsFirst (fun n => rho.getD n 0 - nSigma * drhoAt n < 0) n (max 1 (wmax / 2 - 2)) W := by
  intro fuel
  induction fuel with
  | zero => intro n h1 h2 h3; omega
  | succ f ih =>
    intro n h1 h2 h3
    unfold texpLoop
    simp only [drhoFilled_set]
    have hn : n < wmax := by omega
    rw [drhoFilled_getD drhoAt wmax (n + 1) n h1 (by omega) hn]
    by_cases hc : rho.getD n 0 - nSigma * drhoAt n < 0 ∨
        (n : Int) ≥ ((wmax / 2 : Nat) : Int) - 2
    · rw [if_pos hc]
      refine ⟨n, rfl, Nat.le_refl _, h2, ?_, ?_⟩
      · intro m hm1 hm2; omega
      · intro hlt
        rcases hc with hc | hc
        · exact hc
        · omega
    · rw [if_neg hc]
      have hc' := not_or.mp hc
      obtain ⟨W, hW, hf1, hf2, hf3, hf4⟩ := ih (n + 1) (by omega) (by omega) (by omega)
      refine ⟨W, hW, by omega, hf2, ?_, hf4⟩
      intro m hm1 hm2
      by_cases hmn : m = n
      · subst hmn; exact hc'.1
      · exact hf3 m (by omega) hm2

end

end PV
