/-
  Further helper lemmas for C19.
-/
import Mathlib.Tactic.Ring
import Mathlib.Tactic.Linarith
import Mathlib.Tactic.Positivity
import Mathlib.Algebra.Order.Floor.Defs
import Mathlib.Data.Rat.Floor
import PV.Model.Format
import PV.Proofs.C19Lemmas

namespace PV
open PV.Fmt

theorem dec_key (a : Rat) (n : Nat) (ha : 0 ≤ a) :
    |(roundHalfEvenNat (a * ((10 ^ n : Nat) : Rat)) : Rat) / ((10 ^ n : Nat) : Rat) - a|
      ≤ 1 / (2 * ((10 ^ n : Nat) : Rat)) := by
  have hP : (0 : Rat) < ((10 ^ n : Nat) : Rat) := by positivity
  generalize ((10 ^ n : Nat) : Rat) = P at hP ⊢
  have h := rhe_abs (a * P) (by positivity)
  have e : (roundHalfEvenNat (a * P) : Rat) / P - a = ((roundHalfEvenNat (a * P) : Rat) - a * P) / P := by
    field_simp
  rw [e, abs_div, abs_of_pos hP]
  calc _ ≤ (1 / 2) / P := by gcongr
    _ = 1 / (2 * P) := by field_simp


theorem half_unit' (q : Rat) (n : Nat) :
    |(roundDec q n).toRat - q| ≤ 1 / ((10 ^ n : Nat) : Rat) / 2 := by
  have e : 1 / ((10 ^ n : Nat) : Rat) / 2 = 1 / (2 * ((10 ^ n : Nat) : Rat)) := by
    rw [div_div, mul_comm]
  rw [e]
  unfold roundDec Dec.toRat
  by_cases hq : q < 0
  · have := dec_key (-q) n (by linarith)
    simp only [hq, ↓reduceIte, decide_true]
    rw [show (-1 : Rat) * ((roundHalfEvenNat (-q * ((10 ^ n : Nat) : Rat)) : Rat) / ((10 ^ n : Nat) : Rat)) - q
        = -((roundHalfEvenNat (-q * ((10 ^ n : Nat) : Rat)) : Rat) / ((10 ^ n : Nat) : Rat) - -q) by ring, abs_neg]
    exact this
  · have := dec_key q n (by linarith)
    simp only [hq, ↓reduceIte, decide_false, Bool.false_eq_true, one_mul]
    exact this


theorem roundDouble_nonneg (q : Rat) (hq : 0 ≤ q) : 0 ≤ roundDouble q := by
  unfold roundDouble
  split_ifs with h
  · exact hq
  · simp only [pw_eq]
    have hp := zpow_pos (by norm_num : (0 : Rat) < 2) (ilog2 q - 52)
    positivity


theorem readBack_same (x : ValErr) (h : x.err.n = x.val.n) : (readBack x).2 = x.err.toRat := by
  unfold readBack
  have : ¬ (x.val.n > 0 ∧ x.err.n = 0) := by omega
  simp only [if_neg this, mul_one]


theorem roundDec_m_bounds (dd : Rat) (n lo hi : Nat) (h0 : 0 ≤ dd)
    (h1 : (lo : Rat) ≤ dd * ((10 ^ n : Nat) : Rat)) (h2 : dd * ((10 ^ n : Nat) : Rat) ≤ (hi : Rat)) :
    lo ≤ (roundDec dd n).m ∧ (roundDec dd n).m ≤ hi := by
  have hneg : ¬ dd < 0 := not_lt.mpr h0
  simp only [roundDec, if_neg hneg]
  exact ⟨rhe_ge _ _ h1, rhe_le _ _ (by positivity) h2⟩


theorem scaled_err (E d P T : Rat) (hP : 0 < P) (h : |E - d * P| ≤ 1 / 2 + d * P / T) :
    |E * (1 / P) - d| ≤ 1 / P / 2 + d / T := by
  have e : E * (1 / P) - d = (E - d * P) / P := by field_simp
  rw [e, abs_div, abs_of_pos hP, div_le_iff₀ hP]
  have e2 : (1 / P / 2 + d / T) * P = 1 / 2 + d * P / T := by field_simp
  rw [e2]; exact h


end PV
