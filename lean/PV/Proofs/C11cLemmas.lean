/-
  PV.Proofs.C11cLemmas — the numeric part of a json document (PV/Model/JsonDoc.lean): enumerating chains ensemble by
  ensemble visits every chain once, sorting by name restores the order of the observable, the configuration list in
  normal form is what the constructor makes of its explicit list, and the round trip `fromDoc (toDoc ol) = ol`.
-/
import PV.Model.JsonDoc
import PV.Proofs.C05Lemmas
import PV.Proofs.C04Lemmas
import PV.Proofs.C11Lemmas
import Mathlib.Data.List.Perm.Basic
namespace PV.JsonDoc
open PV Scalar

/-! ### names: ensemble of a chain -/

theorem takeWhile_append_of_not_mem (e rest : List Char) (h : '|' ∉ e) :
    (e ++ '|' :: rest).takeWhile (· != '|') = e := by
  induction e with
  | nil => simp
  | cons c e ih =>
    have hc : c ≠ '|' := fun h' => h (by simp [h'])
    have he : '|' ∉ e := fun h' => h (by simp [h'])
    simp [List.takeWhile_cons, hc, ih he]

theorem takeWhile_self_of_not_mem (e : List Char) (h : '|' ∉ e) : e.takeWhile (· != '|') = e := by
  induction e with
  | nil => simp
  | cons c e ih =>
    have hc : c ≠ '|' := fun h' => h (by simp [h'])
    have he : '|' ∉ e := fun h' => h (by simp [h'])
    simp [List.takeWhile_cons, hc, ih he]

theorem not_mem_takeWhile (n : List Char) : '|' ∉ n.takeWhile (· != '|') := by
  induction n with
  | nil => simp
  | cons c n ih =>
    by_cases hc : c = '|'
    · simp [List.takeWhile_cons, hc]
    · simp only [List.takeWhile_cons, bne_iff_ne, ne_eq, hc, not_false_eq_true, if_true, List.mem_cons, not_or]
      exact ⟨fun h => hc h.symm, ih⟩

/-- a chain belongs to the ensemble `e` (no '|' in `e`) iff its name is `e` or starts with `e|` -/
theorem belongs_iff (e n : List Char) (he : '|' ∉ e) :
    ((e ++ ['|']).isPrefixOf n = true ∨ n = e) ↔ n.takeWhile (· != '|') = e := by
  constructor
  · rintro (h | h)
    · rw [List.isPrefixOf_iff_prefix] at h
      obtain ⟨t, rfl⟩ := h
      simpa using takeWhile_append_of_not_mem e t he
    · subst h; exact takeWhile_self_of_not_mem _ he
  · intro h
    have hsplit := List.takeWhile_append_dropWhile (p := (· != '|')) (l := n)
    rw [h] at hsplit
    cases hd : n.dropWhile (· != '|') with
    | nil => right; rw [hd] at hsplit; simpa using hsplit.symm
    | cons c t =>
      left
      have hc : c = '|' := by
        have := List.head_dropWhile_not (p := (· != '|')) (l := n) (w := by rw [hd]; simp)
        simpa [hd] using this
      rw [List.isPrefixOf_iff_prefix]
      refine ⟨t, ?_⟩
      rw [← hsplit, hd, hc]; simp
end PV.JsonDoc

namespace PV.JsonDoc
open PV Scalar

theorem filter_or_perm {β : Type} (p q : β → Bool) (l : List β) (hdis : ∀ x ∈ l, ¬ (p x = true ∧ q x = true)) :
    (l.filter p ++ l.filter q).Perm (l.filter (fun x => p x || q x)) := by
  induction l with
  | nil => simp
  | cons a l ih =>
    have ih' := ih (fun x hx => hdis x (by simp [hx]))
    have ha := hdis a (by simp)
    cases hp : p a <;> cases hq : q a
    · simpa [List.filter_cons, hp, hq] using ih'
    · simp only [List.filter_cons, hp, hq, Bool.false_eq_true, if_false, if_true, Bool.or_true]
      exact (List.perm_middle).trans (List.Perm.cons a ih')
    · simp only [List.filter_cons, hp, hq, Bool.false_eq_true, if_false, if_true, Bool.or_false, List.cons_append]
      exact List.Perm.cons a ih'
    · exact absurd ⟨hp, hq⟩ ha

theorem perm_flatMap_filter {β κ : Type} [DecidableEq κ] (f : β → κ) : ∀ (K : List κ) (l : List β),
    K.Nodup → (∀ x ∈ l, f x ∈ K) → (K.flatMap (fun k => l.filter (fun x => decide (f x = k)))).Perm l
  | [], l, _, hcov => by
    cases l with
    | nil => simp
    | cons a l => exact absurd (hcov a (by simp)) (by simp)
  | k :: K, l, hK, hcov => by
    rw [List.nodup_cons] at hK
    simp only [List.flatMap_cons]
    have hrest : K.flatMap (fun k' => l.filter (fun x => decide (f x = k')))
        = K.flatMap (fun k' => (l.filter (fun x => !decide (f x = k))).filter (fun x => decide (f x = k'))) := by
      apply List.flatMap_congr
      intro k' hk'
      rw [List.filter_filter]
      apply List.filter_congr
      intro x _
      by_cases h : f x = k'
      · have : f x ≠ k := fun h2 => hK.1 (h2 ▸ h ▸ hk')
        simp [h, this]
        exact fun h3 => hK.1 (h3 ▸ hk')
      · simp [h]
    rw [hrest]
    have ih := perm_flatMap_filter f K (l.filter (fun x => !decide (f x = k))) hK.2 (by
      intro x hx
      rw [List.mem_filter] at hx
      have := hcov x hx.1
      simp only [Bool.not_eq_true', decide_eq_false_iff_not] at hx
      rcases List.mem_cons.mp this with h | h
      · exact absurd h hx.2
      · exact h)
    exact (List.Perm.append_left _ ih).trans (List.filter_append_perm _ l)
end PV.JsonDoc

namespace PV.JsonDoc
open PV Scalar

variable {α : Type}

theorem toList_ensOf (n : String) : (Py.ensOf n).toList = n.toList.takeWhile (· != '|') := by
  simp [Py.ensOf]

theorem ensOf_no_bar (n : String) : '|' ∉ (Py.ensOf n).toList := by
  rw [toList_ensOf]; exact not_mem_takeWhile _

/-- for an ensemble name `e` that is the ensemble of some chain, `eContent e` is a rearrangement of the
    chains whose ensemble is `e` -/
theorem eContent_perm [Scalar α] (o : Obs α) (e : String) (he : '|' ∉ e.toList) :
    (o.eContent e).Perm (o.reps.filter (fun r => decide (Py.ensOf r.name = e))) := by
  unfold Obs.eContent
  refine (filter_or_perm _ _ o.reps ?_).trans ?_
  · intro r _ ⟨h1, h2⟩
    simp only [beq_iff_eq] at h2
    rw [h2, List.isPrefixOf_iff_prefix] at h1
    have := h1.length_le
    simp at this
  · apply List.Perm.of_eq
    apply List.filter_congr
    intro r _
    have hb := belongs_iff e.toList r.name.toList he
    have e1 : ((e ++ "|").toList.isPrefixOf r.name.toList = true ∨ r.name = e) ↔ Py.ensOf r.name = e := by
      have h1 : (e ++ "|").toList = e.toList ++ ['|'] := by simp
      rw [h1]
      constructor
      · intro h
        have := hb.mp (h.imp id (fun h => by rw [h]))
        apply String.ext_iff.mpr |> fun f => f
        rw [toList_ensOf]; exact this
      · intro h
        have h' : r.name.toList.takeWhile (· != '|') = e.toList := by rw [← toList_ensOf, h]
        rcases hb.mpr h' with h2 | h2
        · exact Or.inl h2
        · exact Or.inr (String.ext_iff.mpr h2)
    rw [Bool.eq_iff_iff]
    simp only [Bool.or_eq_true, beq_iff_eq, decide_eq_true_eq]
    exact e1
end PV.JsonDoc

namespace PV.JsonDoc
open PV Scalar
variable {α : Type}

/-- enumerating the chains ensemble by ensemble (`mc_names`, `e_content`) visits every chain exactly once -/
theorem chains_perm [Scalar α] (o : Obs α) : (o.mcNames.flatMap o.eContent).Perm o.reps := by
  have hK : o.mcNames.Nodup := (C04.pairwise_sortedSetStr _).imp (fun h => ne_of_lt h)
  have hcov : ∀ r ∈ o.reps, Py.ensOf r.name ∈ o.mcNames := by
    intro r hr
    unfold Obs.mcNames
    rw [C04.mem_sortedSetStr]
    exact List.mem_map.mpr ⟨r.name, List.mem_map.mpr ⟨r, hr, rfl⟩, rfl⟩
  refine (List.Perm.flatMap_left _ (fun e he => ?_)).trans (perm_flatMap_filter (fun r : Rep α => Py.ensOf r.name) o.mcNames o.reps hK hcov)
  apply eContent_perm
  unfold Obs.mcNames at he
  rw [C04.mem_sortedSetStr] at he
  obtain ⟨n, _, rfl⟩ := List.mem_map.mp he
  exact ensOf_no_bar n
end PV.JsonDoc

namespace PV.JsonDoc
open PV Scalar
variable {α : Type}

/-- sorting by name a rearrangement of a list whose names are strictly increasing gives that list back -/
theorem sortBy_perm_of_sorted {β : Type} (key : β → String) (L M : List β) (hp : L.Perm M)
    (hM : M.Pairwise (fun a b => key a < key b)) :
    Py.sortBy (fun a b => decide (key a ≤ key b)) L = M := by
  have h1 : (Py.sortBy (fun a b => decide (key a ≤ key b)) L).Perm M := (C04.perm_sortBy _ L).trans hp
  have h2 : (Py.sortBy (fun a b => decide (key a ≤ key b)) L).Pairwise (fun a b => key a ≤ key b) := by
    have := C04.pairwise_sortBy (fun a b : β => decide (key a ≤ key b))
      (fun a b => by simp only [decide_eq_true_eq]; exact le_total _ _)
      (fun a b c hab hbc => by simp only [decide_eq_true_eq] at *; exact le_trans hab hbc) L
    exact this.imp (fun h => by simpa using h)
  have hnd : (M.map key).Nodup := (List.pairwise_map.mpr hM).imp (fun h => ne_of_lt h)
  refine List.Perm.eq_of_pairwise ?_ h2 (hM.imp (fun h => le_of_lt h)) h1
  intro a b ha hb hab hba
  have hk : key a = key b := le_antisymm hab hba
  exact List.inj_on_of_nodup_map hnd (h1.subset ha) hb hk

theorem fixName_eContent [Scalar α] (o : Obs α) (e : String) (r : Rep α) (hr : r ∈ o.eContent e) :
    fixName e r.name = r.name := by
  unfold Obs.eContent at hr
  rw [List.mem_append, List.mem_filter, List.mem_filter] at hr
  unfold fixName
  rcases hr with ⟨_, h⟩ | ⟨_, h⟩
  · rw [List.isPrefixOf_iff_prefix] at h
    obtain ⟨t, ht⟩ := h
    have h1 : (e ++ "|").toList = e.toList ++ ['|'] := by simp
    rw [h1] at ht
    have hlen : r.name.toList.length > e.toList.length := by rw [← ht]; simp
    have hget : r.name.toList.getD e.toList.length ' ' = '|' := by
      rw [← ht]; simp [List.getD_eq_getElem?_getD]
    rw [if_pos hlen, hget]
    simp
  · simp only [beq_iff_eq] at h
    simp [h]
end PV.JsonDoc

namespace PV.JsonDoc
open PV Scalar

/-- a configuration list in normal form (range exactly when equally spaced, at least two configurations,
    strictly increasing) is what the constructor makes of its explicit list -/
theorem normalise_toList_self (i : Idl) (hs : Idl.strictInc i.toList = true)
    (hform : (∀ s n st, i = Idl.range s n st → 0 < st ∧ 2 ≤ n) ∧ (∀ l, i = Idl.list l → equallySpaced l = false)) :
    Idl.normalise (.list i.toList) = .ok i := by
  have hpos := C01b.diffs_pos_of_strictInc i.toList hs
  have h1 : (Py.sortedSet (Idl.diffs i.toList)).any (· < 0) = false := by
    rw [List.any_eq_false]
    intro x hx
    have := hpos x ((C01b.mem_sortedSet _ _).1 hx)
    simp; omega
  have h2 : (Py.sortedSet (Idl.diffs i.toList)).any (· == 0) = false := by
    rw [List.any_eq_false]
    intro x hx
    have := hpos x ((C01b.mem_sortedSet _ _).1 hx)
    simp; omega
  cases i with
  | list l =>
    replace hform := hform.2 l rfl
    simp only [Idl.toList] at h1 h2 ⊢
    simp only [Idl.normalise, h1, h2, Bool.false_eq_true, if_false]
    split
    · rename_i d hd
      exfalso
      have hall : ∀ e ∈ Idl.diffs l, e = d := by
        intro e he
        have := (C01b.mem_sortedSet e _).2 he
        rw [hd] at this
        simpa using this
      have : equallySpaced l = true := by
        rw [C01b.equallySpaced_iff]
        refine ⟨?_, d, hall⟩
        intro hnil
        have : d ∈ Py.sortedSet (Idl.diffs l) := by rw [hd]; simp
        rw [C01b.mem_sortedSet, hnil] at this
        simp at this
      rw [hform] at this; cases this
    · rfl
  | range s n st =>
    obtain ⟨hst, hn⟩ := hform.1 s n st rfl
    have hd : Idl.diffs (Idl.range s n st).toList = List.replicate (n - 1) st := C01b.diffs_range s n st
    have hss : Py.sortedSet (Idl.diffs (Idl.range s n st).toList) = [st] := by
      apply C01b.sortedSet_singleton_of
      · rw [hd]; intro h; have := congrArg List.length h; simp at this; omega
      · intro e he; rw [hd] at he; exact (List.mem_replicate.mp he).2
    have hhead : (Idl.range s n st).toList.headD 0 = s := by
      obtain ⟨m, rfl⟩ : ∃ m, n = m + 1 := ⟨n - 1, by omega⟩
      simp [Idl.toList, List.range_succ_eq_map]
    have hlen := C01b.length_toList_range s n st
    simp only [Idl.normalise, hss, List.any_cons, List.any_nil, Bool.or_false, decide_eq_true_eq, beq_iff_eq,
      hhead, hlen]
    rw [if_neg (by omega), if_neg (by omega)]
end PV.JsonDoc

namespace PV.JsonDoc
open PV Scalar RealS

theorem chain_decode (idl : List Int) (D : List (List ℝ)) (R V : List ℝ) (i : Nat)
    (hD : i < D.length) (hR : i < R.length) (hV : i < V.length)
    (hlen : ∀ d ∈ D, d.length = idl.length) (hn : 0 < idl.length) (hz : (D[i]).sum = 0) :
    let rows := encodeRep idl D R V
    let col := column rows i
    let off := sum col / ofNatS rows.length
    col.map (· - off) = D[i] ∧ off + V[i] = R[i] ∧ rows.map (·.1) = idl := by
  intro rows col off
  have hcol : col = (D[i]).map (fun x => x + (R[i] - V[i])) := c11_column idl D R V hlen i hD hR hV
  have hoff : off = R[i] - V[i] := by
    have := c11_off_encode idl D R V hn hlen i hD hR hV
    simp only [c11off] at this
    show sum col / ofNatS rows.length = _
    simp only [sum_eq, ofNatS_eq] at this ⊢
    rw [this, hz]; simp
  refine ⟨?_, ?_, ?_⟩
  · rw [hcol, hoff, List.map_map]
    conv_rhs => rw [← List.map_id (D[i])]
    apply List.map_congr_left
    intro x _
    simp
  · rw [hoff]; ring
  · have := c11_decode_fst idl D R V
    simpa [decodeRep] using this
end PV.JsonDoc

namespace PV.JsonDoc
open PV Scalar RealS

theorem mapM_ok_of_forall {ε β γ : Type} (f : β → Except ε γ) (g : β → γ) :
    ∀ (xs : List β), (∀ x ∈ xs, f x = .ok (g x)) → xs.mapM f = .ok (xs.map g)
  | [], _ => rfl
  | x :: xs, h => by
    rw [List.mapM_cons, h x (by simp), mapM_ok_of_forall f g xs (fun y hy => h y (by simp [hy]))]
    rfl

theorem reshape_flatten (cov : List (List ℝ)) (m : Nat) (h : ∀ row ∈ cov, row.length = m) :
    reshape cov.flatten [cov.length, m] = cov := by
  unfold reshape
  induction cov with
  | nil => simp
  | cons r rest ih =>
    have hr : r.length = m := h r (by simp)
    have ih' := ih (fun row hrow => h row (by simp [hrow]))
    simp only [List.length_cons, List.range_succ_eq_map, List.map_cons, List.flatten_cons, Nat.zero_mul,
      List.drop_zero, List.map_map]
    congr 1
    · rw [← hr]; simp
    · conv_rhs => rw [← ih']
      apply List.map_congr_left
      intro i _
      simp only [Function.comp]
      rw [Nat.succ_mul, Nat.add_comm (i * m) m, ← hr, ← List.drop_drop]
      simp
end PV.JsonDoc

namespace PV.JsonDoc
open PV Scalar RealS

/-- chain `n` of `o`, found by name, is the chain at the same position as in `o0` when both list the same
    names -/
theorem rep_at (o : Obs ℝ) (hwf : o.WF = true) (r : Rep ℝ) (hr : r ∈ o.reps) :
    deltasOf o r.name = r.deltas ∧ rvalueOf o r.name = r.rvalue := by
  obtain ⟨hn, _⟩ := C05.wf_parts hwf
  have hnd : o.names.Nodup := hn.imp (fun h => ne_of_lt h)
  have := C05.rep?_of_mem o hnd r hr
  simp [deltasOf, rvalueOf, this]

theorem wf_idl_form (o : Obs ℝ) (hwf : o.WF = true) (r : Rep ℝ) (hr : r ∈ o.reps) :
    Idl.strictInc r.idl.toList = true ∧ r.deltas.length = r.idl.len ∧
    (match r.idl with | .range _ _ st => 0 < st | .list l => equallySpaced l = false) := by
  simp only [Obs.WF, Bool.and_eq_true, List.all_eq_true, beq_iff_eq] at hwf
  have := hwf.1.1.1.2 r hr
  refine ⟨this.1.1, this.1.2, ?_⟩
  cases hi : r.idl with
  | range s n st => rw [hi] at this; simpa using this.2
  | list l => rw [hi] at this; simpa using this.2
end PV.JsonDoc

namespace PV.JsonDoc
open PV Scalar RealS

theorem cov?_of_mem (o : Obs ℝ) (hwf : o.WF = true) (c : CovIn ℝ) (hc : c ∈ o.covs) : o.cov? c.name = some c := by
  simp only [Obs.WF, Bool.and_eq_true] at hwf
  have hp := C05.strictSortedStr_pairwise _ hwf.1.1.2
  have hnd : (o.covs.map (·.name)).Nodup := hp.imp (fun h => ne_of_lt h)
  unfold Obs.cov?
  cases hf : List.find? (fun x => x.name == c.name) o.covs with
  | none =>
    have := List.find?_eq_none.mp hf c hc
    simp at this
  | some c' =>
    have h1 := List.mem_of_find?_eq_some hf
    have h2 := List.find?_some hf
    simp only [beq_iff_eq] at h2
    rw [List.inj_on_of_nodup_map hnd h1 hc h2]

theorem wf_cov_shape (o : Obs ℝ) (hwf : o.WF = true) (c : CovIn ℝ) (hc : c ∈ o.covs) :
    c.cov.length = c.grad.length ∧ ∀ row ∈ c.cov, row.length = c.grad.length := by
  simp only [Obs.WF, Bool.and_eq_true, List.all_eq_true, beq_iff_eq] at hwf
  exact hwf.2 c hc

local notation "𝟘" => (@OfNat.ofNat ℝ 0 (Scalar.instOfNatScalar 0))

/-- the hypotheses under which a structure is written (`_assert_equal_properties`) and under which
    constructed / derived observables live -/
structure Writable (ol : List (Obs ℝ)) : Prop where
  ne : ol ≠ []
  wf : ∀ o ∈ ol, o.WF = true
  chains : ∀ o ∈ ol, o.reps.map (fun r => (r.name, r.idl)) = (head0 ol).reps.map (fun r => (r.name, r.idl))
  flag : ∀ o ∈ ol, o.reweighted = (head0 ol).reweighted
  zero : ∀ o ∈ ol, ∀ r ∈ o.reps, r.deltas.sum = 0
  nonempty : ∀ r ∈ (head0 ol).reps, 1 ≤ r.idl.len ∧ ∀ s n st, r.idl = Idl.range s n st → 2 ≤ n
  covs : ∀ o ∈ ol, o.covs.map (fun c => (c.name, c.cov)) = (head0 ol).covs.map (fun c => (c.name, c.cov))

theorem doc_roundtrip (ol : List (Obs ℝ)) (H : Writable ol) : fromDoc (toDoc ol) ol.length = .ok ol := by
  obtain ⟨hne, hwf, hch, hfl, hz, hnon, hcov⟩ := H
  obtain ⟨o0, ho0⟩ : ∃ o0, o0 = head0 ol := ⟨_, rfl⟩
  rw [← ho0] at hch hfl hnon hcov
  have ho0m : o0 ∈ ol := by
    cases ol with
    | nil => exact absurd rfl hne
    | cons a t => simp [ho0, head0]
  have hwf0 := hwf o0 ho0m
  obtain ⟨hn0, _⟩ := C05.wf_parts hwf0
  -- the chains of the document, sorted by name, are the chains of o0 in their order
  let G : Rep ℝ → String × List (Int × List ℝ) := fun r =>
    (r.name, encodeRep r.idl.toList (ol.map (deltasOf · r.name)) (ol.map (rvalueOf · r.name)) (ol.map (·.value)))
  have hchains : (toDoc ol).data.flatMap (fun e => e.replica.map (fun r => (fixName e.id r.name, r.rows)))
      = (o0.mcNames.flatMap o0.eContent).map G := by
    simp only [toDoc, List.flatMap_map, List.map_map, List.map_flatMap]
    rw [← ho0]
    apply List.flatMap_congr
    intro e _
    apply List.map_congr_left
    intro r hr
    simp only [Function.comp, G]
    rw [fixName_eContent o0 e r hr]
  have hsorted : Py.sortBy (fun a b => decide (a.1 ≤ b.1))
      ((toDoc ol).data.flatMap (fun e => e.replica.map (fun r => (fixName e.id r.name, r.rows)))) = o0.reps.map G := by
    rw [hchains]
    apply sortBy_perm_of_sorted (fun p : String × List (Int × List ℝ) => p.1)
    · exact (chains_perm o0).map G
    · rw [List.pairwise_map]
      exact hn0.imp_of_mem (fun _ _ h => h) |> fun h => by
        simpa [Obs.names, List.pairwise_map] using hn0
  unfold fromDoc
  simp only []
  rw [hsorted]
  refine (mapM_ok_of_forall _ (fun i => ol.getD i default) _ ?_).trans ?_
  · intro i hi
    have hi' : i < ol.length := List.mem_range.mp hi
    obtain ⟨o, hoi⟩ : ∃ o, o = ol[i] := ⟨_, rfl⟩
    have hom : o ∈ ol := hoi ▸ List.getElem_mem hi'
    have hgetD : ol.getD i default = o := by simp [List.getD_eq_getElem?_getD, hi', hoi]
    have hval : (toDoc ol).value[i]? = some o.value := by simp [toDoc, hi', hoi]
    rw [hval, hgetD]
    simp only
    -- the chains of o sit at the same positions as those of o0
    have hwfo := hwf o hom
    have hcho := hch o hom
    have hlen_reps : o.reps.length = o0.reps.length := by simpa using congrArg List.length hcho
    let g' : Rep ℝ → Rep ℝ := fun r0 => { name := r0.name, idl := r0.idl, deltas := deltasOf o r0.name, rvalue := rvalueOf o r0.name }
    have hreps : o0.reps.map g' = o.reps := by
      apply List.ext_getElem
      · simp [hlen_reps]
      · intro j h1 h2
        have h1' : j < o0.reps.length := by simpa using h1
        have hj := congrArg (fun l => l[j]?) hcho
        simp only [List.getElem?_map, List.getElem?_eq_getElem h2, List.getElem?_eq_getElem h1', Option.map_some,
          Option.some.injEq, Prod.mk.injEq] at hj
        obtain ⟨hname, hidl⟩ := hj
        have hat := rep_at o hwfo o.reps[j] (List.getElem_mem h2)
        simp only [List.getElem_map, g']
        rw [← hname, ← hidl, hat.1, hat.2]
    -- every member of the structure has, for each chain of o0, the chain of that name and configuration list
    have hfind : ∀ o' ∈ ol, ∀ r0 ∈ o0.reps, ∃ r' ∈ o'.reps, r'.name = r0.name ∧ r'.idl = r0.idl := by
      intro o' ho' r0 hr0
      have : (r0.name, r0.idl) ∈ o'.reps.map (fun r => (r.name, r.idl)) := by
        rw [hch o' ho']; exact List.mem_map.mpr ⟨r0, hr0, rfl⟩
      obtain ⟨r', hr', he⟩ := List.mem_map.mp this
      simp only [Prod.mk.injEq] at he
      exact ⟨r', hr', he.1, he.2⟩
    have hstep : ∀ r0 ∈ o0.reps,
        (match (Idl.list (List.map (fun (q : Int × List ℝ) => q.1) (G r0).2)).normalise with
          | Except.error e => (Except.error (DErr.idl e) : Except DErr (Rep ℝ))
          | Except.ok i' =>
            Except.ok
              { name := (G r0).1, idl := i',
                deltas := List.map (fun x => x - sum (column (G r0).2 i) / ofNatS (G r0).2.length) (column (G r0).2 i),
                rvalue := sum (column (G r0).2 i) / ofNatS (G r0).2.length + o.value }) = .ok (g' r0) := by
      intro r0 hr0
      obtain ⟨hs0, hdl0, hf0⟩ := wf_idl_form o0 hwf0 r0 hr0
      obtain ⟨hne0, htwo0⟩ := hnon r0 hr0
      have hD : i < (ol.map (deltasOf · r0.name)).length := by simpa using hi'
      have hR : i < (ol.map (rvalueOf · r0.name)).length := by simpa using hi'
      have hV : i < (ol.map (·.value)).length := by simpa using hi'
      have hlenD : ∀ d ∈ ol.map (deltasOf · r0.name), d.length = r0.idl.toList.length := by
        intro d hd
        obtain ⟨o', ho', rfl⟩ := List.mem_map.mp hd
        obtain ⟨r', hr', hn', hi''⟩ := hfind o' ho' r0 hr0
        have := rep_at o' (hwf o' ho') r' hr'
        rw [← hn', this.1, (wf_idl_form o' (hwf o' ho') r' hr').2.1, hi'']
        rfl
      have hzD : ((ol.map (deltasOf · r0.name))[i]).sum = 0 := by
        obtain ⟨r', hr', hn', _⟩ := hfind o hom r0 hr0
        have := rep_at o hwfo r' hr'
        simp only [List.getElem_map, ← hoi]
        rw [← hn', this.1]
        exact hz o hom r' hr'
      obtain ⟨c1, c2, c3⟩ := chain_decode r0.idl.toList (ol.map (deltasOf · r0.name)) (ol.map (rvalueOf · r0.name))
        (ol.map (·.value)) i hD hR hV hlenD hne0 hzD
      have hform : (∀ s n st, r0.idl = Idl.range s n st → 0 < st ∧ 2 ≤ n) ∧ (∀ l, r0.idl = Idl.list l → equallySpaced l = false) := by
        constructor
        · intro s n st hi0
          rw [hi0] at hf0
          exact ⟨by simpa using hf0, htwo0 s n st hi0⟩
        · intro l hi0
          rw [hi0] at hf0; simpa using hf0
      have hnorm := normalise_toList_self r0.idl hs0 hform
      simp only [G]
      rw [c3, hnorm]
      simp only [List.getElem_map, ← hoi] at c1 c2
      simp only [g']
      rw [c1, c2]
    have hm : ∀ F : String × List (Int × List ℝ) → Except DErr (Rep ℝ), (∀ r0 ∈ o0.reps, F (G r0) = .ok (g' r0)) →
        List.mapM (F ∘ G) o0.reps = .ok (o0.reps.map g') := fun F h => mapM_ok_of_forall (F ∘ G) g' o0.reps h
    rw [List.mapM_map, hm _ hstep, hreps]
    simp only
    have hcovs : (toDoc ol).cdata.map (fun (c : CovDoc ℝ) => ({ name := c.id, cov := reshape c.cov c.shape, grad := c.grad.map (·.getD i 𝟘) } : CovIn ℝ)) = o.covs := by
      have hco := hcov o hom
      have hlenc : o.covs.length = o0.covs.length := by simpa using congrArg List.length hco
      simp only [toDoc, ← ho0, List.map_map]
      apply List.ext_getElem
      · simp [hlenc]
      · intro j h1 h2
        have h1' : j < o0.covs.length := by simpa using h1
        have hj := congrArg (fun l => l[j]?) hco
        simp only [List.getElem?_map, List.getElem?_eq_getElem h2, List.getElem?_eq_getElem h1', Option.map_some,
          Option.some.injEq, Prod.mk.injEq] at hj
        obtain ⟨hname, hcv⟩ := hj
        have hcm : o.covs[j] ∈ o.covs := List.getElem_mem h2
        obtain ⟨hsq, hrows⟩ := wf_cov_shape o hwfo _ hcm
        have hfind := cov?_of_mem o hwfo _ hcm
        simp only [List.getElem_map, Function.comp]
        rw [← hname, ← hcv]
        have hresh : reshape o.covs[j].cov.flatten [o.covs[j].cov.length, (o.covs[j].cov.headD []).length] = o.covs[j].cov := by
          apply reshape_flatten
          intro row hrow
          rw [hrows row hrow]
          cases hcc : o.covs[j].cov with
          | nil => rw [hcc] at hrow; cases hrow
          | cons r0 rest =>
            simp only [List.headD_cons]
            exact (hrows r0 (by rw [hcc]; simp)).symm
        rw [hresh]
        have hext : ∀ (a b : CovIn ℝ), a.name = b.name → a.cov = b.cov → a.grad = b.grad → a = b := by
          intro a b h1 h2 h3; cases a; cases b; simp_all
        refine hext _ _ rfl rfl ?_
        show List.map _ _ = o.covs[j].grad
        apply List.ext_getElem
        · simp [hsq]
        · intro k hk1 hk2
          simp only [List.getElem_map, List.getElem_range, Function.comp, List.getD_eq_getElem?_getD, List.getElem?_map,
            List.getElem?_eq_getElem hi', Option.map_some, Option.getD_some, ← hoi, hfind,
            List.getElem?_eq_getElem hk2]
    have hflag : (toDoc ol).reweighted = o.reweighted := by
      simp only [toDoc, ← ho0]; exact (hfl o hom).symm
    have hextO : ∀ (a b : Obs ℝ), a.value = b.value → a.reps = b.reps → a.covs = b.covs → a.reweighted = b.reweighted → a = b := by
      intro a b h1 h2 h3 h4; cases a; cases b; simp_all
    congr 1
    exact hextO _ _ rfl rfl hcovs hflag
  · congr 1
    apply List.ext_getElem
    · simp
    · intro j h1 h2
      simp [List.getD_eq_getElem?_getD, h2]
end PV.JsonDoc
