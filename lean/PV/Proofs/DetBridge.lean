/-
  PV.Proofs.DetBridge — the list-of-rows determinant of PV/Model/Gevp.lean (Laplace expansion along the first row) is
  Mathlib's `Matrix.det`; `List.set` is `updateRow`; the score of `_sort_vectors` as a product of determinants.
-/
import Mathlib.LinearAlgebra.Matrix.Determinant.Basic
import Mathlib.Algebra.BigOperators.Fin
import Mathlib.Data.Real.Basic
import PV.Model.Gevp
import PV.Proofs.RealScalar

namespace PV.DetBridge
open PV Scalar PV.RealS Matrix BigOperators

def ShapedR (A : List (List ℝ)) (m n : Nat) : Prop := A.length = m ∧ ∀ r ∈ A, r.length = n
noncomputable def toMR (A : List (List ℝ)) (m n : Nat) : Matrix (Fin m) (Fin n) ℝ := fun i j => (A.getD i []).getD j 0

theorem sum_range_eq_fin (n : Nat) (f : Nat → ℝ) : ((List.range n).map f).sum = ∑ j : Fin n, f j := by
  induction n with
  | zero => simp
  | succ n ih => rw [List.range_succ, List.map_append, List.sum_append, ih, Fin.sum_univ_castSucc]; simp

theorem det_eq : ∀ (n : Nat) (M : List (List ℝ)), ShapedR M n n → detAux n M = (toMR M n n).det
  | 0, M, _ => by simp [detAux]
  | n + 1, M, h => by
    obtain ⟨hl, hr⟩ := h
    match M, hl, hr with
    | row :: rest, hl, hr =>
      have hrow : row.length = n + 1 := hr row (by simp)
      have hrest : rest.length = n := by simpa using hl
      rw [Matrix.det_succ_row_zero]
      simp only [detAux, sum_eq, hrow]
      rw [sum_range_eq_fin]
      apply Finset.sum_congr rfl
      intro j _
      have hsub : ShapedR (rest.map (fun r => r.eraseIdx j)) n n := by
        refine ⟨by simpa using hrest, ?_⟩
        intro r hr'
        obtain ⟨r0, hr0, rfl⟩ := List.mem_map.mp hr'
        have := hr r0 (by simp [hr0])
        rw [List.length_eraseIdx]
        simp [this, j.2]
      rw [det_eq n _ hsub]
      have hM : toMR (rest.map (fun r => r.eraseIdx j)) n n
          = (toMR (row :: rest) (n + 1) (n + 1)).submatrix Fin.succ j.succAbove := by
        funext i k
        have hi : (i : Nat) < rest.length := by rw [hrest]; exact i.2
        have hri : (rest[(i : Nat)]).length = n + 1 := hr _ (by simp [List.getElem_mem hi])
        simp only [toMR, Matrix.submatrix_apply, List.getD_eq_getElem?_getD, List.getElem?_map,
          List.getElem?_eq_getElem hi, Option.map_some, Option.getD_some, Fin.val_succ, List.getElem?_cons_succ]
        rw [List.getElem?_eraseIdx]
        by_cases hk : (k : Nat) < (j : Nat)
        · have : (j.succAbove k : Nat) = k := by
            rw [Fin.succAbove_of_castSucc_lt]; · simp
            exact Fin.lt_def.mpr (by simpa using hk)
          simp [hk, this]
        · have : (j.succAbove k : Nat) = k + 1 := by
            rw [Fin.succAbove_of_le_castSucc]; · simp
            exact Fin.le_def.mpr (by simpa using Nat.le_of_not_lt hk)
          simp [hk, this]
      rw [hM]
      have hsgn : (if (j : Nat) % 2 == 0 then (1 : ℝ) else -1) = (-1 : ℝ) ^ (j : Nat) := by
        rcases Nat.even_or_odd (j : Nat) with he | ho
        · have : (j : Nat) % 2 = 0 := Nat.even_iff.mp he
          simp [this, he.neg_one_pow]
        · have : (j : Nat) % 2 = 1 := Nat.odd_iff.mp ho
          simp [this, ho.neg_one_pow]
      have hA0 : row.getD (j : Nat) 0 = toMR (row :: rest) (n + 1) (n + 1) 0 j := by
        simp [toMR]
      simp only [ofNat_eq_lit, lit_eq, Nat.cast_one, Nat.cast_zero] at hsgn ⊢
      rw [← hA0]
      rw [hsgn]
end PV.DetBridge

namespace PV.DetBridge
open PV Scalar PV.RealS Matrix BigOperators

theorem det_model_eq (M : List (List ℝ)) (n : Nat) (h : ShapedR M n n) : PV.det M = (toMR M n n).det := by
  unfold PV.det
  rw [h.1]
  exact det_eq n M h

theorem shaped_set (M : List (List ℝ)) (n : Nat) (h : ShapedR M n n) (i : Nat) (v : List ℝ) (hv : v.length = n) :
    ShapedR (M.set i v) n n := by
  refine ⟨by simpa using h.1, ?_⟩
  intro r hr
  rcases List.mem_or_eq_of_mem_set hr with h1 | h1
  · exact h.2 r h1
  · rw [h1]; exact hv

theorem toMR_set (M : List (List ℝ)) (n : Nat) (h : ShapedR M n n) (i : Fin n) (v : List ℝ) :
    toMR (M.set i v) n n = (toMR M n n).updateRow i (fun j => v.getD j 0) := by
  funext a b
  have hi : (i : Nat) < M.length := by rw [h.1]; exact i.2
  by_cases hab : a = i
  · subst hab
    simp [toMR, Matrix.updateRow_self, List.getD_eq_getElem?_getD, List.getElem?_set_self hi]
  · have hne : (i : Nat) ≠ (a : Nat) := fun e => hab (Fin.ext e.symm)
    simp [toMR, Matrix.updateRow_ne hab, List.getD_eq_getElem?_getD, List.getElem?_set_ne hne]

theorem foldl_mul_eq_prod (n : Nat) (f : Nat → ℝ) (a : ℝ) :
    (List.range n).foldl (fun acc k => acc * f k) a = a * ∏ k : Fin n, f k := by
  induction n generalizing a with
  | zero => simp
  | succ n ih =>
    rw [List.range_succ, List.foldl_append, ih, Fin.prod_univ_castSucc]
    simp [mul_assoc]
end PV.DetBridge

namespace PV.DetBridge
open PV Scalar PV.RealS Matrix BigOperators

/-- the score of the model's `_sort_vectors`, for a square reference and vectors of the right length, is the product of
    |det| of the reference with row `perm[k]` replaced by vector k - as Mathlib determinants -/
theorem permScore_eq (ref vecs : List (List ℝ)) (perm : List Nat) (n : Nat) (href : ShapedR ref n n)
    (hperm : ∀ k, k < n → perm.getD k 0 < n) (hvecs : ∀ k, k < n → (vecs.getD k []).length = n) :
    permScore ref vecs perm = ∏ k : Fin n,
      |((toMR ref n n).updateRow ⟨perm.getD k 0, hperm k k.2⟩ (fun j => (vecs.getD k []).getD j 0)).det| := by
  unfold permScore
  rw [href.1]
  have h1 : (1 : ℝ) = 1 := rfl
  have := foldl_mul_eq_prod n (fun k => absS (PV.det (ref.set (perm.getD k 0) (vecs.getD k [])))) 1
  simp only [ofNat_eq_lit, lit_eq, Nat.cast_one] at this ⊢
  rw [this, one_mul]
  apply Finset.prod_congr rfl
  intro k _
  rw [absS_eq, det_model_eq _ n (shaped_set ref n href _ _ (hvecs k k.2)),
    toMR_set ref n href ⟨perm.getD k 0, hperm k k.2⟩]
end PV.DetBridge
