/-
  One-variable derivative facts used by the gradient-site theorems of C01 (helper lemmas).
-/
import Mathlib.Analysis.SpecialFunctions.Arcosh
import Mathlib.Analysis.SpecialFunctions.Arsinh
import Mathlib.Analysis.SpecialFunctions.Artanh
import Mathlib.Analysis.SpecialFunctions.ExpDeriv
import Mathlib.Analysis.SpecialFunctions.Log.Deriv
import Mathlib.Analysis.SpecialFunctions.Pow.Deriv
import Mathlib.Analysis.SpecialFunctions.Sqrt
import Mathlib.Analysis.SpecialFunctions.Trigonometric.ArctanDeriv
import Mathlib.Analysis.SpecialFunctions.Trigonometric.Deriv
import Mathlib.Analysis.SpecialFunctions.Trigonometric.InverseDeriv
import PV.Proofs.C01aLemmas
import PV.Proofs.RealScalar

namespace PV
open Scalar

namespace DerivFacts
variable (a c d : ℝ)

theorem add_const : HasDerivAt (fun t : ℝ => t + c) 1 a := (hasDerivAt_id' a).add_const c
theorem const_add : HasDerivAt (fun t : ℝ => c + t) 1 a := (hasDerivAt_id' a).const_add c
theorem sub_const : HasDerivAt (fun t : ℝ => t - c) 1 a := (hasDerivAt_id' a).sub_const c
theorem const_sub : HasDerivAt (fun t : ℝ => c - t) (-1) a := (hasDerivAt_id' a).const_sub c
theorem mul_const : HasDerivAt (fun t : ℝ => t * c) c a :=
  ((hasDerivAt_id' a).mul_const c).congr_deriv (one_mul c)
theorem const_mul : HasDerivAt (fun t : ℝ => c * t) c a :=
  ((hasDerivAt_id' a).const_mul c).congr_deriv (mul_one c)
theorem div_const : HasDerivAt (fun t : ℝ => t / c) (1 / c) a := (hasDerivAt_id' a).div_const c
theorem const_div (ha : a ≠ 0) : HasDerivAt (fun t : ℝ => c / t) (-c / a ^ (2 : ℝ)) a := by
  have h := (hasDerivAt_const a c).fun_div (hasDerivAt_id' a) ha
  refine h.congr_deriv ?_
  rw [Real.rpow_two]; ring
theorem rpow_const (ha : 0 < a) : HasDerivAt (fun t : ℝ => t ^ c) (c * a ^ (c - 1)) a :=
  Real.hasDerivAt_rpow_const (Or.inl ha.ne')
theorem const_rpow (hc : 0 < c) : HasDerivAt (fun t : ℝ => c ^ t) (c ^ a * Real.log c) a :=
  (Real.hasStrictDerivAt_const_rpow hc a).hasDerivAt
theorem sqrt (ha : 0 < a) : HasDerivAt (fun t : ℝ => Real.sqrt t) (1 / 2 / Real.sqrt a) a :=
  (Real.hasDerivAt_sqrt ha.ne').congr_deriv (by rw [div_div])
theorem log (ha : a ≠ 0) : HasDerivAt (fun t : ℝ => Real.log t) (1 / a) a :=
  (Real.hasDerivAt_log ha).congr_deriv (one_div a).symm
theorem tan (ha : Real.cos a ≠ 0) :
    HasDerivAt (fun t : ℝ => Real.tan t) (1 / Real.cos a ^ (2 : ℝ)) a :=
  (Real.hasDerivAt_tan ha).congr_deriv (by rw [Real.rpow_two])
theorem tanh : HasDerivAt (fun t : ℝ => Real.tanh t) (1 / Real.cosh a ^ (2 : ℝ)) a := by
  have h := (Real.hasDerivAt_sinh a).fun_div (Real.hasDerivAt_cosh a) (Real.cosh_pos a).ne'
  have hf : (fun t : ℝ => Real.tanh t) = fun t => Real.sinh t / Real.cosh t := by
    funext t; exact Real.tanh_eq_sinh_div_cosh t
  rw [hf]
  refine h.congr_deriv ?_
  rw [Real.rpow_two]
  congr 1
  have := Real.cosh_sq a
  nlinarith [this]
theorem abs (ha : a ≠ 0) : HasDerivAt (fun t : ℝ => |t|) (a / |a|) a := by
  rcases lt_or_gt_of_ne ha with h | h
  · refine (hasDerivAt_abs_neg h).congr_deriv ?_
    rw [abs_of_neg h, div_neg, div_self ha]
  · refine (hasDerivAt_abs_pos h).congr_deriv ?_
    rw [abs_of_pos h, div_self ha]
theorem arcsin (h1 : -1 < a) (h2 : a < 1) :
    HasDerivAt (fun t : ℝ => Real.arcsin t) (1 / Real.sqrt (1 - a * a)) a :=
  (Real.hasDerivAt_arcsin h1.ne' h2.ne).congr_deriv (by rw [sq])
theorem arccos (h1 : -1 < a) (h2 : a < 1) :
    HasDerivAt (fun t : ℝ => Real.arccos t) (-(1 / Real.sqrt (1 - a * a))) a :=
  (Real.hasDerivAt_arccos h1.ne' h2.ne).congr_deriv (by rw [sq])
theorem arctan : HasDerivAt (fun t : ℝ => Real.arctan t) (1 / (1 + a * a)) a :=
  (Real.hasDerivAt_arctan a).congr_deriv (by rw [sq])
theorem arsinh : HasDerivAt (fun t : ℝ => Real.arsinh t) (1 / Real.sqrt (a * a + 1)) a :=
  (Real.hasDerivAt_arsinh a).congr_deriv (by rw [sq, one_div, add_comm])
theorem arcosh (ha : 1 < a) :
    HasDerivAt (fun t : ℝ => Real.arcosh t) (1 / Real.sqrt (a * a - 1)) a :=
  (Real.hasDerivAt_arcosh ha).congr_deriv (by rw [sq, one_div])
theorem artanh (h1 : -1 < a) (h2 : a < 1) :
    HasDerivAt (fun t : ℝ => Real.artanh t) (1 / (1 - a * a)) a := by
  have hp : 0 < 1 + a := by linarith
  have hm : 0 < 1 - a := by linarith
  have hq : 0 < (1 + a) / (1 - a) := div_pos hp hm
  have hn : HasDerivAt (fun t : ℝ => 1 + t) 1 a := (hasDerivAt_id' a).const_add 1
  have hd : HasDerivAt (fun t : ℝ => 1 - t) (-1) a := (hasDerivAt_id' a).const_sub 1
  have h1 := hn.fun_div hd hm.ne'
  have h2 := h1.sqrt hq.ne'
  have h3 := h2.log (Real.sqrt_pos.mpr hq).ne'
  have hf : (fun t : ℝ => Real.artanh t) = fun t => Real.log (Real.sqrt ((1 + t) / (1 - t))) := by
    funext t; rfl
  rw [hf]
  refine h3.congr_deriv ?_
  have hs : Real.sqrt ((1 + a) / (1 - a)) * Real.sqrt ((1 + a) / (1 - a)) = (1 + a) / (1 - a) :=
    Real.mul_self_sqrt hq.le
  have hs0 : Real.sqrt ((1 + a) / (1 - a)) ≠ 0 := (Real.sqrt_pos.mpr hq).ne'
  have e : 1 - a * a = (1 - a) * (1 + a) := by ring
  rw [div_div, mul_assoc, hs, e]
  field_simp
  ring

end DerivFacts

theorem lt_one_eq {i n : Nat} (h : i < n) (hn : n = 1) : i = 0 := by omega
theorem lt_two_cases {i n : Nat} (h : i < n) (hn : n = 2) : i = 0 ∨ i = 1 := by omega
theorem lt_four_cases {i n : Nat} (h : i < n) (hn : n = 4) : i = 0 ∨ i = 1 ∨ i = 2 ∨ i = 3 := by
  omega

end PV
