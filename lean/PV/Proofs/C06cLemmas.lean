/-
  The executable model of `covariance` (PV/Model/Cov.lean) on observables that live on one common chain is
  the normalised Gram matrix of their fluctuations: bridge from the list model to Mathlib matrices, from which
  positive semidefiniteness follows (PV/Props/C06Alg.lean: `c06_gram_psd`, `c06_rescale_psd`).
-/
import PV.Props.C06Alg
import PV.Proofs.C06bLemmas
import PV.Proofs.C11cLemmas
import PV.Model.Cov

namespace PV.C06c
open PV Scalar PV.RealS Matrix

/-- the observable lives on the one chain `n` with configuration list `idl` and has no covariance input -/
structure OnChain (n : String) (idl : Idl) (o : Obs ℝ) : Prop where
  nocov : o.covs = []
  rep : ∃ r, o.reps = [r] ∧ r.name = n ∧ r.idl = idl ∧ r.deltas.length = idl.len

/-- its fluctuations -/
def fl (o : Obs ℝ) : List ℝ := (o.reps.map (·.deltas)).flatten

theorem fl_of (o : Obs ℝ) (r : Rep ℝ) (h : o.reps = [r]) : fl o = r.deltas := by simp [fl, h]

theorem sortedSetStr_single (x : String) : Py.sortedSetStr [x] = [x] := by
  simp [Py.sortedSetStr, Py.sortBy, Py.insertSorted, Py.dedupSorted]

theorem mcNames_of {n : String} {idl : Idl} {o : Obs ℝ} (h : OnChain n idl o) : o.mcNames = [Py.ensOf n] := by
  obtain ⟨r, hr, hn, _, _⟩ := h.rep
  simp [Obs.mcNames, Obs.names, hr, hn, sortedSetStr_single]

theorem eContent_of {n : String} {idl : Idl} {o : Obs ℝ} (h : OnChain n idl o) :
    o.eContent (Py.ensOf n) = o.reps := by
  have hp := JsonDoc.chains_perm o
  rw [mcNames_of h] at hp
  obtain ⟨r, hr, _⟩ := h.rep
  simp only [List.flatMap_cons, List.flatMap_nil, List.append_nil] at hp
  rw [hr] at hp ⊢
  exact List.perm_singleton.mp hp

theorem filterMap_total {β : Type} (l : List Int) (f : Int → Option β) (g : Nat → β)
    (h : ∀ m (hm : m < l.length), f l[m] = some (g m)) : l.filterMap f = (List.range l.length).map g := by
  induction l generalizing g with
  | nil => simp
  | cons a t ih =>
    have h0 := h 0 (by simp)
    simp only [List.getElem_cons_zero] at h0
    rw [List.filterMap_cons, h0, ih (fun m => g (m + 1)) (fun m hm => by
      have := h (m + 1) (by simpa using hm)
      rwa [List.getElem_cons_succ] at this)]
    simp [List.range_succ_eq_map, List.map_map, Function.comp_def]

theorem restrict_self (r : Rep ℝ) (hp : r.idl.toList.Pairwise (· < ·)) (hl : r.deltas.length = r.idl.len) :
    restrictTo r (intersectCfgs r.idl r.idl) = r.deltas := by
  have hI : intersectCfgs r.idl r.idl = r.idl.toList := by
    unfold intersectCfgs
    apply List.filter_eq_self.mpr
    intro c hc
    simpa using hc
  rw [hI]
  unfold restrictTo
  have hlen : r.deltas.length = r.idl.toList.length := hl
  rw [filterMap_total _ _ (fun j => r.deltas.getD j 0)]
  · apply List.ext_getElem
    · simp [hlen]
    · intro k h1 h2
      simp [List.getD_eq_getElem?_getD, h2]
  · intro m hm
    have hm' : m < r.deltas.length := by omega
    simp only [C05.pos?_getElem r.idl hp m hm]
    simp [List.getD_eq_getElem?_getD, hm']

/-- **the element of the model on a common chain is the normalised inner product of the fluctuations** -/
theorem covElement_onChain (n : String) (idl : Idl) (hp : idl.toList.Pairwise (· < ·))
    (o1 o2 : Obs ℝ) (h1 : OnChain n idl o1) (h2 : OnChain n idl o2) :
    covElement o1 o2 = dot (fl o1) (fl o2) / Real.sqrt (dot (fl o1) (fl o1) * dot (fl o2) (fl o2)) := by
  have hm1 := mcNames_of h1
  have hm2 := mcNames_of h2
  have he1 := eContent_of h1
  have he2 := eContent_of h2
  obtain ⟨r1, hr1, hn1, hi1, hl1⟩ := h1.rep
  obtain ⟨r2, hr2, hn2, hi2, hl2⟩ := h2.rep
  rw [fl_of o1 r1 hr1, fl_of o2 r2 hr2]
  have hc1 := h1.nocov
  have hc2 := h2.nocov
  unfold covElement
  have hany : (!(o1.names ++ o1.covNames).any (fun m => (o2.names ++ o2.covNames).contains m)) = false := by
    simp [Obs.names, Obs.covNames, hr1, hr2, hc1, hc2, hn1, hn2]
  rw [hany]
  simp only [Bool.false_eq_true, if_false, hm1, hm2, hc1, List.filterMap_nil]
  have hfilt : [Py.ensOf n].filter (fun e => [Py.ensOf n].contains e) = [Py.ensOf n] := by simp
  rw [hfilt]
  simp only [List.map_cons, List.map_nil, he1, he2, hr1, hr2]
  have hfind : List.find? (fun x => x.name == r1.name) [r2] = some r2 := by simp [hn1, hn2]
  simp only [List.filterMap_cons, List.filterMap_nil, hfind, Option.map_some]
  have hidl : r2.idl = r1.idl := by rw [hi1, hi2]
  have hp1 : r1.idl.toList.Pairwise (· < ·) := by rw [hi1]; exact hp
  have hcf : intersectCfgs r1.idl r2.idl = intersectCfgs r1.idl r1.idl := by rw [hidl]
  have hd1 : restrictTo r1 (intersectCfgs r1.idl r2.idl) = r1.deltas := by
    rw [hcf]; exact restrict_self r1 hp1 (by rw [hl1, hi1])
  have hd2 : restrictTo r2 (intersectCfgs r1.idl r2.idl) = r2.deltas := by
    rw [← hidl]; exact restrict_self r2 (by rw [hidl]; exact hp1) (by rw [hl2, hi2])
  by_cases hemp : (intersectCfgs r1.idl r2.idl).isEmpty = true
  · -- no configurations at all: both sides vanish
    have hnil : r1.idl.toList = [] := by
      have : intersectCfgs r1.idl r1.idl = r1.idl.toList := by
        unfold intersectCfgs
        apply List.filter_eq_self.mpr
        intro c hc
        simpa using hc
      rw [hcf, this] at hemp
      simpa using hemp
    have hz1 : r1.deltas = [] := by
      have : r1.deltas.length = 0 := by rw [hl1, ← hi1]; simp [Idl.len, hnil]
      simpa using this
    simp [hemp, hz1, dot, sum_eq, ofNat_eq_lit, lit_eq, Scalar.isZero]
  · simp only [hemp, Bool.false_eq_true, if_false, hd1, hd2, List.map_cons, List.map_nil, sum_eq, List.sum_cons,
      List.sum_nil, add_zero, ofNat_eq_lit, lit_eq, Nat.cast_zero]
    by_cases hz : dot r1.deltas r2.deltas = 0
    · simp [hz, Scalar.isZero]
    · have : Scalar.isZero (dot r1.deltas r2.deltas) = false := by simpa [Scalar.isZero] using hz
      simp only [this, Bool.false_eq_true, if_false]
      rfl

/-! ### bridge to Mathlib matrices -/

theorem dot_eq_sum : ∀ (L : Nat) (a b : List ℝ), a.length = L → b.length = L →
    dot a b = ∑ k : Fin L, a.getD k 0 * b.getD k 0
  | 0, a, b, ha, hb => by
    have : a = [] := by simpa using ha
    subst this
    simp [dot, ofNat_eq_lit, lit_eq]
  | L + 1, a, b, ha, hb => by
    cases a with
    | nil => simp at ha
    | cons x xs =>
      cases b with
      | nil => simp at hb
      | cons y ys =>
        rw [Fin.sum_univ_succ]
        simp only [dot, Fin.val_zero, List.getD_cons_zero, Fin.val_succ, List.getD_cons_succ]
        rw [dot_eq_sum L xs ys (by simpa using ha) (by simpa using hb)]

/-- the matrix of fluctuations: row i = fluctuations of observable i on the common chain -/
noncomputable def X (obs : List (Obs ℝ)) (L : Nat) : Matrix (Fin obs.length) (Fin L) ℝ :=
  fun i k => (fl (obs.getD i default)).getD k 0

/-- 1 / norm of the fluctuations -/
noncomputable def dinv (obs : List (Obs ℝ)) : Fin obs.length → ℝ :=
  fun i => 1 / Real.sqrt (dot (fl (obs.getD i default)) (fl (obs.getD i default)))

/-- the model's matrix as a Mathlib matrix -/
noncomputable def modelM (obs : List (Obs ℝ)) (dv : List ℝ) (correlation : Bool) : Matrix (Fin obs.length) (Fin obs.length) ℝ :=
  fun i j => ((covarianceMatrix obs dv correlation).getD i []).getD j 0

theorem fl_length {n : String} {idl : Idl} {o : Obs ℝ} (h : OnChain n idl o) : (fl o).length = idl.len := by
  obtain ⟨r, hr, _, _, hl⟩ := h.rep
  rw [fl_of o r hr, hl]

theorem dot_comm : ∀ a b : List ℝ, dot a b = dot b a
  | [], b => by cases b <;> simp [dot]
  | x :: xs, [] => by simp [dot]
  | x :: xs, y :: ys => by simp [dot, dot_comm xs ys, mul_comm]

theorem covMatrix_entry' (obs : List (Obs ℝ)) (dv : List ℝ) (correlation : Bool) (i j : Nat)
    (hi : i < obs.length) (hj : j < obs.length) :
    ((covarianceMatrix obs dv correlation).getD i []).getD j 0 =
      (let el := fun (a b : Nat) => covElement (obs.getD (min a b) default) (obs.getD (max a b) default)
       let c := el i j / Transc.sqrt (el i i) / Transc.sqrt (el j j)
       if correlation then c else dv.getD i 0 * c * dv.getD j 0) := by
  unfold covarianceMatrix
  simp [List.getD_eq_getElem?_getD, List.getElem?_map, List.getElem?_range, hi, hj]

/-- entry (i, j) of the model's correlation matrix on a common chain, for observables with non-constant data -/
theorem corr_entry (n : String) (idl : Idl) (hp : idl.toList.Pairwise (· < ·)) (obs : List (Obs ℝ)) (dv : List ℝ)
    (hall : ∀ o ∈ obs, OnChain n idl o ∧ 0 < dot (fl o) (fl o)) (i j : Fin obs.length) :
    modelM obs dv true i j
      = dot (fl (obs.getD i default)) (fl (obs.getD j default))
        / (Real.sqrt (dot (fl (obs.getD i default)) (fl (obs.getD i default)))
           * Real.sqrt (dot (fl (obs.getD j default)) (fl (obs.getD j default)))) := by
  have hmem : ∀ k : Fin obs.length, obs.getD k default ∈ obs := by
    intro k
    simp [List.getD_eq_getElem?_getD, k.isLt]
  have hel : ∀ a b : Fin obs.length, covElement (obs.getD (min a.val b.val) default) (obs.getD (max a.val b.val) default)
      = dot (fl (obs.getD a default)) (fl (obs.getD b default))
        / Real.sqrt (dot (fl (obs.getD a default)) (fl (obs.getD a default)) * dot (fl (obs.getD b default)) (fl (obs.getD b default))) := by
    intro a b
    rcases le_total a.val b.val with h | h
    · rw [Nat.min_eq_left h, Nat.max_eq_right h]
      exact covElement_onChain n idl hp _ _ (hall _ (hmem a)).1 (hall _ (hmem b)).1
    · rw [Nat.min_eq_right h, Nat.max_eq_left h]
      rw [covElement_onChain n idl hp _ _ (hall _ (hmem b)).1 (hall _ (hmem a)).1]
      rw [dot_comm, mul_comm]
  have hself : ∀ a : Fin obs.length, covElement (obs.getD (min a.val a.val) default) (obs.getD (max a.val a.val) default) = 1 := by
    intro a
    rw [hel a a]
    have hpos := (hall _ (hmem a)).2
    rw [Real.sqrt_mul_self hpos.le, div_self hpos.ne']
  unfold modelM
  rw [covMatrix_entry' obs dv true i j i.isLt j.isLt]
  simp only [if_true]
  rw [hself i, hself j, hel i j]
  show _ / Real.sqrt 1 / Real.sqrt 1 = _
  rw [Real.sqrt_one, div_one, div_one, Real.sqrt_mul (hall _ (hmem i)).2.le]

/-- **the model's correlation matrix on a common chain is `D (X Xᵀ) D`** with X the matrix of fluctuations and
    D = diag(1 / ‖δ_i‖) -/
theorem corr_is_gram (n : String) (idl : Idl) (hp : idl.toList.Pairwise (· < ·)) (obs : List (Obs ℝ)) (dv : List ℝ)
    (hall : ∀ o ∈ obs, OnChain n idl o ∧ 0 < dot (fl o) (fl o)) :
    modelM obs dv true = diagonal (dinv obs) * (X obs idl.len * (X obs idl.len)ᵀ) * diagonal (dinv obs) := by
  have hmem : ∀ k : Fin obs.length, obs.getD k default ∈ obs := by
    intro k
    simp [List.getD_eq_getElem?_getD, k.isLt]
  ext i j
  rw [corr_entry n idl hp obs dv hall i j]
  rw [Matrix.mul_diagonal, Matrix.diagonal_mul, Matrix.mul_apply]
  simp only [Matrix.transpose_apply, X, dinv]
  rw [dot_eq_sum idl.len _ _ (fl_length (hall _ (hmem i)).1) (fl_length (hall _ (hmem j)).1)]
  have h1 : Real.sqrt (dot (fl (obs.getD i default)) (fl (obs.getD i default))) ≠ 0 :=
    (Real.sqrt_pos.mpr (hall _ (hmem i)).2).ne'
  have h2 : Real.sqrt (dot (fl (obs.getD j default)) (fl (obs.getD j default))) ≠ 0 :=
    (Real.sqrt_pos.mpr (hall _ (hmem j)).2).ne'
  field_simp

/-- **positive semidefiniteness of the model's correlation matrix on a common chain** -/
theorem corr_psd (n : String) (idl : Idl) (hp : idl.toList.Pairwise (· < ·)) (obs : List (Obs ℝ)) (dv : List ℝ)
    (hall : ∀ o ∈ obs, OnChain n idl o ∧ 0 < dot (fl o) (fl o)) :
    (modelM obs dv true).IsSymm ∧ ∀ v : Fin obs.length → ℝ, 0 ≤ v ⬝ᵥ (modelM obs dv true) *ᵥ v := by
  rw [corr_is_gram n idl hp obs dv hall]
  have hg := c06_gram_psd (X obs idl.len)ᵀ
  rw [Matrix.transpose_transpose] at hg
  obtain ⟨hs, _, hpos⟩ := hg
  have hr := c06_rescale_psd (X obs idl.len * (X obs idl.len)ᵀ) (dinv obs) hpos
  exact ⟨hr.2 hs, hr.1⟩

/-- the covariance matrix is the correlation matrix rescaled by the errors -/
theorem cov_is_rescaled (obs : List (Obs ℝ)) (dv : List ℝ) :
    modelM obs dv false = diagonal (fun i : Fin obs.length => dv.getD i 0) * modelM obs dv true
      * diagonal (fun i : Fin obs.length => dv.getD i 0) := by
  ext i j
  rw [Matrix.mul_diagonal, Matrix.diagonal_mul]
  unfold modelM
  rw [covMatrix_entry' obs dv false i j i.isLt j.isLt, covMatrix_entry' obs dv true i j i.isLt j.isLt]
  simp

theorem cov_psd (n : String) (idl : Idl) (hp : idl.toList.Pairwise (· < ·)) (obs : List (Obs ℝ)) (dv : List ℝ)
    (hall : ∀ o ∈ obs, OnChain n idl o ∧ 0 < dot (fl o) (fl o)) :
    (modelM obs dv false).IsSymm ∧ ∀ v : Fin obs.length → ℝ, 0 ≤ v ⬝ᵥ (modelM obs dv false) *ᵥ v := by
  rw [cov_is_rescaled]
  obtain ⟨hs, hpos⟩ := corr_psd n idl hp obs dv hall
  have hr := c06_rescale_psd (modelM obs dv true) (fun i : Fin obs.length => dv.getD i 0) hpos
  exact ⟨hr.2 hs, hr.1⟩

end PV.C06c
