/-
  PV.Proofs.C16Lemmas — helper lemmas about the model of the GEVP control flow (PV/Model/Gevp.lean).
-/
import Mathlib.Data.List.Perm.Basic
import Mathlib.Data.List.Nodup
import Mathlib.Data.List.Range
import Mathlib.Order.Basic
import Mathlib.Data.Real.Basic
import PV.Model.Gevp
import PV.Proofs.RealScalar

namespace PV
open Scalar

/-! ### permutations -/

theorem permsAux_perm : ∀ (n : Nat) (l p : List Nat), l.length = n → l.Nodup → p ∈ permsAux n l → p.Perm l
  | 0, l, p, hl, _, hp => by
    have : l = [] := List.eq_nil_of_length_eq_zero hl
    subst this
    simp [permsAux] at hp
    subst hp
    exact List.Perm.refl _
  | n + 1, l, p, hl, hnd, hp => by
    simp only [permsAux, List.mem_flatMap, List.mem_map] at hp
    obtain ⟨x, hx, q, hq, rfl⟩ := hp
    have hlen : (l.erase x).length = n := by
      rw [List.length_erase_of_mem hx]; omega
    have ih := permsAux_perm n (l.erase x) q hlen (hnd.erase x) hq
    exact (List.Perm.cons x ih).trans (List.perm_cons_erase hx).symm

theorem perms_perm {N : Nat} {p : List Nat} (hp : p ∈ perms N) : p.Perm (List.range N) :=
  permsAux_perm N (List.range N) p (List.length_range) (List.nodup_range) hp

theorem perms_nodup {N : Nat} {p : List Nat} (hp : p ∈ perms N) : p.Nodup :=
  (perms_perm hp).nodup_iff.mpr List.nodup_range

theorem perms_length {N : Nat} {p : List Nat} (hp : p ∈ perms N) : p.length = N := by
  have := (perms_perm hp).length_eq
  simpa using this

/-- for a duplicate-free list, mapping every element to its index gives `0, 1, …` -/
theorem map_idxOf_self (l : List Nat) (h : l.Nodup) : l.map (fun s => l.idxOf s) = List.range l.length := by
  apply List.ext_getElem
  · simp
  · intro i h1 h2
    simp only [List.getElem_map, List.getElem_range]
    exact List.Nodup.idxOf_getElem h i (by simpa using h1)

/-- `applyPerm` with a permutation of `range N` re-orders the list: it loses and duplicates nothing -/
theorem applyPerm_perm {β : Type} (vs : List β) (p : List Nat) (hp : p.Perm (List.range vs.length)) :
    (applyPerm vs p).Perm (vs.map some) := by
  have hnd : p.Nodup := hp.nodup_iff.mpr List.nodup_range
  have hlen : p.length = vs.length := by simpa using hp.length_eq
  unfold applyPerm
  rw [hlen]
  -- over `range N` or over `p` (a permutation of it) the multiset of images is the same
  have h1 : ((List.range vs.length).map (fun s => vs[p.idxOf s]?)).Perm (p.map (fun s => vs[p.idxOf s]?)) :=
    (hp.map _).symm
  refine h1.trans ?_
  have h2 : p.map (fun s => vs[p.idxOf s]?) = (p.map (fun s => p.idxOf s)).map (fun k => vs[k]?) := by
    simp [List.map_map, Function.comp_def]
  rw [h2, map_idxOf_self p hnd, hlen]
  apply List.Perm.of_eq
  apply List.ext_getElem
  · simp
  · intro i h1 h2
    simp at h1
    simp [h1]

/-! ### the search loop -/

variable {α : Type} [Scalar α]

theorem bestPerm_fold_mem (score : List Nat → α) (ps : List (List Nat)) (st : α × Option (List Nat)) :
    let r := ps.foldl (fun (st : α × Option (List Nat)) p => if st.1 < score p then (score p, some p) else st) st
    r.2 = st.2 ∨ ∃ p ∈ ps, r.2 = some p := by
  induction ps generalizing st with
  | nil => simp
  | cons q qs ih =>
    simp only [List.foldl_cons]
    by_cases h : st.1 < score q
    · rw [if_pos h]
      rcases ih (score q, some q) with h1 | ⟨p, hp, h2⟩
      · right; exact ⟨q, by simp, h1⟩
      · right; exact ⟨p, by simp [hp], h2⟩
    · rw [if_neg h]
      rcases ih st with h1 | ⟨p, hp, h2⟩
      · left; exact h1
      · right; exact ⟨p, by simp [hp], h2⟩

/-- the permutation the search settles on is one of the candidates (or the one kept from before) -/
theorem bestPerm_mem (score : List Nat → α) (ps : List (List Nat)) (prev : Option (List Nat)) :
    bestPerm score ps prev = prev ∨ ∃ p ∈ ps, bestPerm score ps prev = some p :=
  bestPerm_fold_mem score ps (0, prev)

/-- relation between an input slice and the slice `_sort_vectors` returns for it -/
def SliceRel (a b : Option (List (List α))) : Prop :=
  match a, b with
  | none, none => True
  | some v, some w => w.Perm v
  | _, _ => False

theorem bestPerm_some_mem (score : List Nat → α) (N : Nat) (prev : Option (List Nat))
    (hprev : ∀ q, prev = some q → q ∈ perms N) (bp : List Nat)
    (h : bestPerm score (perms N) prev = some bp) : bp ∈ perms N := by
  rcases bestPerm_mem score (perms N) prev with h1 | ⟨p, hp, h2⟩
  · exact hprev bp (by rw [← h1, h])
  · have : some bp = some p := by rw [← h, h2]
    cases this
    exact hp

/-- over the reals: if exactly one candidate has a positive score and all others score zero, the search
    returns that candidate, whatever was kept from before -/
theorem bestPerm_unique (score : List Nat → ℝ) (ps : List (List Nat)) (prev : Option (List Nat))
    (σ : List Nat) (hσ : σ ∈ ps) (hpos : 0 < score σ) (hz : ∀ p ∈ ps, p ≠ σ → score p = 0) :
    bestPerm score ps prev = some σ := by
  unfold bestPerm
  -- invariant: the state is (0, prev) until σ is met and (score σ, some σ) afterwards
  have key : ∀ (l : List (List Nat)) (st : ℝ × Option (List Nat)), (∀ p ∈ l, p ≠ σ → score p = 0) →
      (st = (0, prev) ∨ st = (score σ, some σ)) → (st = (0, prev) → σ ∈ l) →
      (l.foldl (fun (st : ℝ × Option (List Nat)) p => if st.1 < score p then (score p, some p) else st) st).2 = some σ := by
    intro l
    induction l with
    | nil =>
      intro st _ hst hin
      rcases hst with h | h
      · exact absurd (hin h) (by simp)
      · simp [h]
    | cons q qs ih =>
      intro st hzl hst hin
      simp only [List.foldl_cons]
      by_cases hq : q = σ
      · subst hq
        have : (if st.1 < score q then (score q, some q) else st) = (score q, some q) := by
          rcases hst with h | h
          · subst h; simp [hpos]
          · subst h; simp
        rw [this]
        exact ih _ (fun p hp => hzl p (by simp [hp])) (Or.inr rfl) (fun h => by
          have := congrArg Prod.fst h
          simp at this
          exact absurd this (ne_of_gt hpos))
      · have hzq : score q = 0 := hzl q (by simp) hq
        have : (if st.1 < score q then (score q, some q) else st) = st := by
          rcases hst with h | h
          · subst h; simp [hzq]
          · subst h; simp [hzq, le_of_lt hpos]
        rw [this]
        exact ih st (fun p hp => hzl p (by simp [hp])) hst (fun h => by
          have := hin h
          simp at this
          rcases this with h' | h'
          · exact absurd h'.symm hq
          · exact h')
  have h0 : (@OfNat.ofNat ℝ 0 (instOfNatScalar 0)) = (0 : ℝ) := by simp
  rw [h0]
  exact key ps (0, prev) hz (Or.inl rfl) (fun _ => hσ)

end PV
