/-
  PV.Proofs.C04cLemmas — helper lemmas for the closure of the C04 invariant under `correlate`,
  `merge_obs` and `reweight` (PV/Model/Combine.lean): what an accepted call has computed.
-/
import PV.Proofs.C04Lemmas
import PV.Proofs.C05Lemmas
import PV.Proofs.RealScalar
import PV.Model.Combine
import PV.Spec.WF

namespace PV.C04
open PV Scalar

variable {α : Type} [Elem α]

omit [Elem α] in
theorem wf_reweighted [Scalar α] (o : Obs α) (b : Bool) : Spec.wfC04 ({ o with reweighted := b } : Obs α) = Spec.wfC04 o := rfl

omit [Elem α] in
theorem range_step_of_wf [Scalar α] (a : Obs α) (hW : a.WF = true) :
    ∀ s n st, Idl.range s n st ∈ a.reps.map (·.idl) → st ≠ 0 := by
  intro s n st hm
  obtain ⟨r, hr, hri⟩ := List.mem_map.1 hm
  simp only [Obs.WF, Bool.and_eq_true, List.all_eq_true] at hW
  have := (hW.1.1.1.2 r hr).2
  rw [hri] at this
  simp at this
  omega

theorem correlate_ok (a b o : Obs α) (h : correlate a b = .ok o) :
    ∃ o', mkObs ((List.zip a.reps b.reps).map (fun (ra, rb) => List.zipWith (· * ·) (Rep.samples ra) (Rep.samples rb))) a.names (some (a.reps.map (·.idl))) = .ok o'
      ∧ o = { o' with reweighted := a.reweighted || b.reweighted } := by
  unfold correlate at h
  simp only [bind, Except.bind, pure, Except.pure, throw, throwThe, MonadExceptOf.throw] at h
  repeat' split at h
  all_goals first | (cases h; done) | skip
  rename_i o' ho'
  exact ⟨o', ho', by cases h; rfl⟩

theorem mergeObs_ok (l : List (Obs α)) (o : Obs α) (h : mergeObs l = .ok o) :
    ∃ o', (let sorted := Py.sortBy (fun (a b : Rep α) => a.name ≤ b.name) (l.flatMap (·.reps))
           mkObs (sorted.map Rep.samples) (sorted.map (·.name)) (some (sorted.map (·.idl)))) = .ok o'
      ∧ o = { o' with reweighted := l.any (·.reweighted) } := by
  unfold mergeObs at h
  simp only [bind, Except.bind, pure, Except.pure, throw, throwThe, MonadExceptOf.throw] at h
  repeat' split at h
  all_goals first | (cases h; done) | skip
  rename_i o' ho'
  exact ⟨o', ho', by cases h; rfl⟩

theorem reweight1_ok (w o res : Obs α) (ac : Bool) (h : reweight1 w o ac = .ok res) :
    ∃ s ws tmp norm r, findSite "truediv_obs" = some s
      ∧ mkObs ws (o.reps.map (·.name)) (some (o.reps.map (·.idl))) = .ok tmp
      ∧ (norm = w ∨ ∃ ws', mkObs ws' (o.reps.map (·.name)) (some (o.reps.map (·.idl))) = .ok norm)
      ∧ applySite s [tmp, norm] 0 = .ok r ∧ res = { r with reweighted := true } := by
  unfold reweight1 at h
  simp only [bind, Except.bind, pure, Except.pure, throw, throwThe, MonadExceptOf.throw] at h
  repeat' split at h
  all_goals first | (cases h; done) | skip
  · rename_i tmp htmp _ _ s hs _ r hr
    exact ⟨s, _, tmp, w, r, hs, htmp, Or.inl rfl, hr, by cases h; rfl⟩
  · rename_i tmp htmp _ _ norm hnorm _ s hs _ r hr
    exact ⟨s, _, tmp, norm, r, hs, htmp, Or.inr ⟨_, hnorm⟩, hr, by cases h; rfl⟩

theorem covs_unique (x : Obs ℝ) (hx : Spec.wfC04 x = true) :
    ∀ c ∈ x.covs, ∀ c' ∈ x.covs, c.name = c'.name → c = c' := by
  have hW : x.WF = true := by
    unfold Spec.wfC04 at hx; simp only [Bool.and_eq_true] at hx; exact hx.1
  simp only [Obs.WF, Bool.and_eq_true] at hW
  have hp := C05.strictSortedStr_pairwise _ hW.1.1.2
  have hnd : (x.covs.map (·.name)).Nodup := hp.imp (fun h => ne_of_lt h)
  intro c hc c' hc' e
  exact List.inj_on_of_nodup_map hnd hc hc' e

end PV.C04
