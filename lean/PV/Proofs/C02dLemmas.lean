/-
  PV.Proofs.C02dLemmas — `r_length` (the quantity the window bound w_max is taken from) against `_expand_deltas`.
-/
import Mathlib.Tactic.Ring
import Mathlib.Tactic.Linarith
import PV.Model.Gamma

namespace PV.C02d
open Scalar PV
open Scalar
variable {α : Type} [Scalar α]

theorem foldl_set_length {β : Type} (l : List (Int × β)) (k : Int → Nat) (init : List β) :
    (l.foldl (fun acc (x : Int × β) => acc.set (k x.1) x.2) init).length = init.length := by
  induction l generalizing init with
  | nil => rfl
  | cons x xs ih => rw [List.foldl_cons, ih, List.length_set]

theorem fdiv_add_self (x g : Int) (hg : 0 < g) : Py.fdiv (x + g) g = Py.fdiv x g + 1 := by
  unfold Py.fdiv
  have := Int.add_mul_fdiv_right x 1 (c := g) (by omega)
  simpa using this

theorem range_first (s : Int) (n : Nat) (st : Int) (hn : 0 < n) : (Idl.range s n st).first = s := by
  unfold Idl.first Idl.toList
  cases n with
  | zero => omega
  | succ m => simp [List.range_succ_eq_map]

theorem range_last (s : Int) (n : Nat) (st : Int) (hn : 0 < n) : (Idl.range s n st).last = s + st * ((n : Int) - 1) := by
  unfold Idl.last Idl.toList
  cases n with
  | zero => omega
  | succ m =>
    show ((List.range (m + 1)).map (fun (k : Nat) => s + st * (k : Int))).getLastD 0 = _
    rw [List.range_succ, List.map_append]
    simp

/-- the window bound counts the positions of the expanded chain: `r_length` is the length of the array that
    `_expand_deltas` builds, for ranges and lists alike -/
theorem rLength_eq_expanded_length (d : List α) (idx : Idl) (gap : Int) (hg : 0 < gap)
    (hlen : d.length = idx.len) (hne : 0 < idx.len) (hle : idx.first ≤ idx.last) :
    ((expandDeltas d idx gap).length : Int) = rLength idx gap := by
  have hsz : (((Py.fdiv (idx.last - idx.first + gap) gap).toNat : Nat) : Int) = rLength idx gap := by
    unfold rLength
    rw [fdiv_add_self _ _ hg]
    have : 0 ≤ Py.fdiv (idx.last - idx.first) gap := by
      unfold Py.fdiv
      exact Int.fdiv_nonneg (by omega) (by omega)
    omega
  cases idx with
  | list l =>
    simp only [expandDeltas]
    rw [foldl_set_length _ (fun c => (Py.fdiv (c - (Idl.list l).first) gap).toNat), List.length_replicate]
    exact hsz
  | range s n st =>
    simp only [expandDeltas]
    split
    · rename_i h
      have hst : st = gap := by simpa using h
      have hn : 0 < n := by simpa [Idl.len, Idl.toList] using hne
      unfold rLength
      rw [range_first s n st hn, range_last s n st hn, hlen]
      have hl : (Idl.range s n st).len = n := by simp [Idl.len, Idl.toList]
      rw [hl, hst]
      have : s + gap * ((n : Int) - 1) - s = ((n : Int) - 1) * gap := by ring
      rw [this]
      unfold Py.fdiv
      rw [Int.mul_fdiv_cancel _ (by omega)]
      omega
    · rw [foldl_set_length _ (fun c => (Py.fdiv (c - (Idl.range s n st).first) gap).toNat), List.length_replicate]
      exact hsz


end PV.C02d
