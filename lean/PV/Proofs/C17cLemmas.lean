/-
  Lemmas about the fit window of `fit_t0` (PV/Model/FlowWindow.lean).
-/
import PV.Model.FlowWindow

namespace PV.Flow

theorem pySlice_nonneg {α : Type} (l : List α) (a b : Nat) :
    pySlice l (a : Int) (b : Int) = (l.drop (min a l.length)).take (min b l.length - min a l.length) := by
  unfold pySlice
  have ha : ¬ ((a : Int) < 0) := by omega
  have hb : ¬ ((b : Int) < 0) := by omega
  simp only [ha, hb, if_false]
  have h1 : (min (a : Int) (l.length : Int)).toNat = min a l.length := by omega
  have h2 : (min (b : Int) (l.length : Int)).toNat = min b l.length := by omega
  rw [h1, h2]

/-- the clipped window is the stretch of indices [zc - fr, zc + fr) ∩ [0, n) (Nat subtraction) -/
theorem window_clipped {α : Type} (l : List α) (zc fr : Nat) (hz : zc ≤ l.length) :
    pySlice l (max ((zc : Int) - fr) 0) ((zc : Int) + fr)
      = (l.drop (zc - fr)).take (min (zc + fr) l.length - (zc - fr)) := by
  have h1 : max ((zc : Int) - fr) 0 = ((zc - fr : Nat) : Int) := by omega
  have h2 : (zc : Int) + fr = ((zc + fr : Nat) : Int) := by omega
  rw [h1, h2, pySlice_nonneg]
  have : min (zc - fr) l.length = zc - fr := by omega
  rw [this]

end PV.Flow
