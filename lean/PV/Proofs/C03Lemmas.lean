/-
  Helper lemmas for PV/Todo/C03.lean: the affine relabelling `c ↦ a*c + b` (a ≥ 1) of the
  configuration numbers commutes with every integer bookkeeping step of the Gamma method.
-/
import Mathlib.Tactic.Ring
import Mathlib.Tactic.Linarith
import Mathlib.Tactic.Positivity
import PV.Proofs.RealScalar
import PV.Model.Relabel
import PV.Model.History

namespace PV
open Scalar

/-! ### integer facts -/

theorem mul_min_of_pos (a x y : Int) (ha : 1 ≤ a) : min (a * x) (a * y) = a * min x y := by
  rcases Int.le_total x y with h | h
  · rw [Int.min_eq_left h, Int.min_eq_left (Int.mul_le_mul_of_nonneg_left h (by omega))]
  · rw [Int.min_eq_right h, Int.min_eq_right (Int.mul_le_mul_of_nonneg_left h (by omega))]

theorem foldl_min_scale (a : Int) (ha : 1 ≤ a) (l : List Int) (init : Int) :
    (l.map (a * ·)).foldl min (a * init) = a * l.foldl min init := by
  induction l generalizing init with
  | nil => rfl
  | cons x xs ih => simp only [List.map_cons, List.foldl_cons, mul_min_of_pos a init x ha, ih]

theorem foldl_gcd_scale (a : Nat) (l : List Int) (ai : Int) (hai : ai.natAbs = a) (g : Nat) :
    (l.map (ai * ·)).foldl (fun g d => Nat.gcd g d.natAbs) (a * g)
      = a * l.foldl (fun g d => Nat.gcd g d.natAbs) g := by
  induction l generalizing g with
  | nil => rfl
  | cons x xs ih =>
    simp only [List.map_cons, List.foldl_cons, Int.natAbs_mul, hai, Nat.gcd_mul_left, ih]

theorem diffs_affine (a b : Int) (l : List Int) :
    Idl.diffs (l.map (fun c => a * c + b)) = (Idl.diffs l).map (a * ·) := by
  induction l with
  | nil => rfl
  | cons x xs ih =>
    cases xs with
    | nil => rfl
    | cons y ys =>
      simp only [List.map_cons, Idl.diffs] at ih ⊢
      rw [ih]
      congr 1
      ring

/-! ### configuration lists -/

theorem Idl.toList_affine (a b : Int) (i : Idl) :
    (i.affine a b).toList = i.toList.map (fun c => a * c + b) := by
  cases i with
  | range s n st =>
    simp only [Idl.affine, Idl.toList, List.map_map]
    congr 1
    funext k
    simp only [Function.comp]
    ring
  | list l => rfl

theorem Idl.len_affine (a b : Int) (i : Idl) : (i.affine a b).len = i.len := by
  simp only [Idl.len, Idl.toList_affine, List.length_map]

theorem Idl.first_affine (a b : Int) (i : Idl) (h : i.toList ≠ []) :
    (i.affine a b).first = a * i.first + b := by
  unfold Idl.first
  rw [Idl.toList_affine]
  cases hl : i.toList with
  | nil => exact absurd hl h
  | cons x xs => rfl

theorem Idl.last_affine (a b : Int) (i : Idl) (h : i.toList ≠ []) :
    (i.affine a b).last = a * i.last + b := by
  unfold Idl.last
  rw [Idl.toList_affine]
  cases hl : i.toList with
  | nil => exact absurd hl h
  | cons x xs =>
    simp only [List.map_cons, List.getLastD_cons]
    exact List.getLastD_map (f := fun c => a * c + b)

theorem Idl.last_sub_first_affine (a b : Int) (i : Idl) :
    (i.affine a b).last - (i.affine a b).first = a * (i.last - i.first) := by
  by_cases h : i.toList = []
  · have h' : (i.affine a b).toList = [] := by rw [Idl.toList_affine, h]; rfl
    simp [Idl.last, Idl.first, h, h']
  · rw [Idl.first_affine a b i h, Idl.last_affine a b i h]; ring

/-! ### `_determine_gap` -/

theorem repGap_affine (a b : Int) (ha : 1 ≤ a) (i : Idl) :
    repGap (i.affine a b) = a * repGap i := by
  cases i with
  | range s n st => rfl
  | list l =>
    simp only [Idl.affine, repGap, diffs_affine]
    have h := foldl_gcd_scale a.natAbs (Idl.diffs l) a rfl 0
    rw [Nat.mul_zero] at h
    rw [h]
    rw [Int.natCast_mul, Int.natAbs_of_nonneg (by omega)]

variable {α : Type}

@[simp] theorem Rep.affine_idl (a b : Int) (r : Rep α) : (r.affine a b).idl = r.idl.affine a b := rfl
@[simp] theorem Rep.affine_deltas (a b : Int) (r : Rep α) : (r.affine a b).deltas = r.deltas := rfl

section
variable [Scalar α]

omit [Scalar α] in
theorem determineGap_affine (ens : String) (reps : List (Rep α)) (a b : Int) (ha : 1 ≤ a)
    (hne : reps ≠ []) :
    determineGap ens (reps.map (Rep.affine a b))
      = (match determineGap ens reps with
         | .ok g => .ok (a * g)
         | .error e => .error e) := by
  unfold determineGap
  have hg : (reps.map (Rep.affine a b)).map (fun r => repGap r.idl)
      = (reps.map (fun r => repGap r.idl)).map (a * ·) := by
    simp only [List.map_map]
    apply List.map_congr_left
    intro r _
    exact repGap_affine a b ha r.idl
  simp only [hg]
  generalize hG : reps.map (fun r => repGap r.idl) = G
  cases G with
  | nil => cases reps with
    | nil => exact absurd rfl hne
    | cons r rs => simp at hG
  | cons g gs =>
    have hmin : ((g :: gs).map (a * ·)).foldl min (((g :: gs).map (a * ·)).headD 1)
        = a * (g :: gs).foldl min ((g :: gs).headD 1) := by
      have := foldl_min_scale a ha (g :: gs) g
      simpa using this
    rw [hmin]
    have hall : ((g :: gs).map (a * ·)).all
          (fun x => Py.fmod x (a * (g :: gs).foldl min ((g :: gs).headD 1)) == 0)
        = (g :: gs).all (fun x => Py.fmod x ((g :: gs).foldl min ((g :: gs).headD 1)) == 0) := by
      rw [List.all_map]
      congr 1
      funext x
      simp only [Function.comp, Py.fmod, Int.mul_fmod_mul_of_pos _ _ (show 0 < a by omega)]
      have : a ≠ 0 := by omega
      simp [this]
    rw [hall]
    split <;> rfl

/-! ### `r_length`, `_expand_deltas`, `_calc_gamma` -/

theorem rLength_affine (a b : Int) (ha : 1 ≤ a) (i : Idl) (g : Int) :
    rLength (i.affine a b) (a * g) = rLength i g := by
  have hpos : 0 < a := by omega
  have h := Idl.last_sub_first_affine a b i
  simp only [rLength, Py.fdiv, h, Int.mul_fdiv_mul_of_pos _ _ hpos]

omit [Scalar α] in
theorem scatter_congr (l : List Int) (f : Int → Int) (k k' : Int → Nat)
    (h : ∀ c ∈ l, k' (f c) = k c) (d : List α) (init : List α) :
    (List.zip (l.map f) d).foldl (fun acc (x : Int × α) => acc.set (k' x.1) x.2) init
      = (List.zip l d).foldl (fun acc (x : Int × α) => acc.set (k x.1) x.2) init := by
  induction l generalizing d init with
  | nil => rfl
  | cons c cs ih =>
    cases d with
    | nil => rfl
    | cons y ys =>
      simp only [List.map_cons, List.zip_cons_cons, List.foldl_cons]
      rw [h c (by simp)]
      exact ih (fun c' hc' => h c' (by simp [hc'])) ys _

/-- the scatter part of `_expand_deltas` -/
def scatterE (deltas : List α) (idx : Idl) (gap : Int) : List α :=
  (List.zip idx.toList deltas).foldl
    (fun acc (x : Int × α) => acc.set (Py.fdiv (x.1 - idx.first) gap).toNat x.2)
    (List.replicate (Py.fdiv (idx.last - idx.first + gap) gap).toNat 0)

theorem expandDeltas_eq (deltas : List α) (idx : Idl) (gap : Int) :
    expandDeltas deltas idx gap =
      (match idx with
       | .range _ _ st => if st == gap then deltas else scatterE deltas idx gap
       | .list _ => scatterE deltas idx gap) := by
  cases idx <;> rfl

theorem scatterE_affine (a b : Int) (ha : 1 ≤ a) (deltas : List α) (i : Idl) (g : Int) :
    scatterE deltas (i.affine a b) (a * g) = scatterE deltas i g := by
  have hpos : 0 < a := by omega
  unfold scatterE
  have hsize : Py.fdiv ((i.affine a b).last - (i.affine a b).first + a * g) (a * g)
      = Py.fdiv (i.last - i.first + g) g := by
    rw [Idl.last_sub_first_affine, ← Int.mul_add]
    exact Int.mul_fdiv_mul_of_pos _ _ hpos
  rw [hsize, Idl.toList_affine]
  refine scatter_congr i.toList (fun c => a * c + b) (fun c => (Py.fdiv (c - i.first) g).toNat)
    (fun c => (Py.fdiv (c - (i.affine a b).first) (a * g)).toNat) ?_ deltas _
  intro c hc
  show (Py.fdiv (a * c + b - (i.affine a b).first) (a * g)).toNat = (Py.fdiv (c - i.first) g).toNat
  have hne : i.toList ≠ [] := List.ne_nil_of_mem hc
  rw [Idl.first_affine a b i hne]
  rw [show a * c + b - (a * i.first + b) = a * (c - i.first) by ring]
  simp only [Py.fdiv, Int.mul_fdiv_mul_of_pos _ _ hpos]

theorem expandDeltas_affine (a b : Int) (ha : 1 ≤ a) (deltas : List α) (i : Idl) (g : Int) :
    expandDeltas deltas (i.affine a b) (a * g) = expandDeltas deltas i g := by
  rw [expandDeltas_eq, expandDeltas_eq]
  cases i with
  | range s n st =>
    have h := scatterE_affine a b ha deltas (.range s n st) g
    simp only [Idl.affine] at h ⊢
    rw [h]
    have hne : a ≠ 0 := by omega
    have : (a * st == a * g) = (st == g) := by
      simp [hne]
    rw [this]
  | list l =>
    exact scatterE_affine a b ha deltas (.list l) g

theorem calcGamma_affine (a b : Int) (ha : 1 ≤ a) (deltas : List α) (i : Idl) (w : Nat) (g : Int) :
    calcGamma deltas (i.affine a b) w (a * g) = calcGamma deltas i w g := by
  unfold calcGamma
  rw [expandDeltas_affine a b ha]

end
/-! ### lengths and loop bounds (for the tau_int ≥ 1/2 theorem) -/

theorem Except.ok_bind' {ε α β : Type} (x : α) (f : α → Except ε β) : (Except.ok x >>= f) = f x := rfl

section
variable {α : Type} [Scalar α]

theorem foldl_addL_length {β : Type} (f : β → List α) (w : Nat) (hf : ∀ r, (f r).length = w)
    (l : List β) (init : List α) (hi : init.length = w) :
    (l.foldl (fun acc r => addL acc (f r)) init).length = w := by
  induction l generalizing init with
  | nil => exact hi
  | cons x xs ih =>
    apply ih
    simp [addL, hi, hf]

theorem calcGamma_length (d : List α) (i : Idl) (w : Nat) (g : Int) : (calcGamma d i w g).length = w := by
  simp [calcGamma]

theorem windowLoop_bound (gw : List α) (wmax : Nat) :
    ∀ (fuel n W : Nat), windowLoop gw wmax fuel n = some W → n ≤ W ∧ W < n + fuel := by
  intro fuel
  induction fuel with
  | zero => intro n W h; simp [windowLoop] at h
  | succ f ih =>
    intro n W h
    unfold windowLoop at h
    split at h
    · cases h; omega
    · have := ih _ _ h; omega

theorem texpLoop_bound (rho : List α) (nSigma : α) (drhoAt : Nat → α) (wmax : Nat) :
    ∀ (fuel n : Nat) (drho : List α) (W : Nat) (d : List α),
      texpLoop rho nSigma drhoAt wmax fuel n drho = some (W, d) → n ≤ W ∧ W < n + fuel := by
  intro fuel
  induction fuel with
  | zero => intro n drho W d h; simp [texpLoop] at h
  | succ f ih =>
    intro n drho W d h
    simp only [texpLoop] at h
    split at h
    · cases h; omega
    · have := ih _ _ _ _ h; omega
end

section
variable {α : Type} [Transc α]
theorem cumsum_length (l : List α) : (cumsum l).length = l.length := by
  induction l with
  | nil => rfl
  | cons x xs ih => simp [cumsum, ih]
end

theorem getD_nonneg_of_forall (l : List ℝ) (h : ∀ x ∈ l, 0 ≤ x) (d : ℝ) (hd : 0 ≤ d) (n : Nat) :
    0 ≤ l.getD n d := by
  rw [List.getD_eq_getElem?_getD]
  cases hx : l[n]? with
  | none => simpa using hd
  | some x => exact h x (List.mem_of_getElem? hx)

theorem bias_ge (t eN m : ℝ) (ht : 1 / 2 < t) (heN : 0 < eN) (hm : 0 ≤ m) :
    1 / 2 ≤ t * (1 + (2 * m + 1) / eN) / (1 + 1 / eN) := by
  have hB : 0 < 1 + 1 / eN := by positivity
  rw [le_div_iff₀ hB]
  have h1 : 1 / eN ≤ (2 * m + 1) / eN := by
    apply div_le_div_of_nonneg_right _ heN.le
    linarith
  nlinarith

end PV
