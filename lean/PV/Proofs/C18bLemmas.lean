/-
  PV.Proofs.C18bLemmas — `readlines()` on a byte prefix of a text of complete lines.
-/
import PV.Model.Text
import Mathlib.Data.List.Basic
namespace PV.Text

theorem rl_line (cur l s : List Char) (h : '\n' ∉ l) :
    rl cur (l ++ '\n' :: s) = (cur.reverse ++ l ++ ['\n']) :: rl [] s := by
  induction l generalizing cur with
  | nil => simp [rl]
  | cons c l ih =>
    have hc : c ≠ '\n' := fun e => h (by simp [e])
    have hl : '\n' ∉ l := fun e => h (by simp [e])
    simp only [List.cons_append, rl, hc, if_false]
    rw [ih (c :: cur) hl]
    simp

theorem rl_rest (cur l : List Char) (h : '\n' ∉ l) :
    rl cur l = if (cur.reverse ++ l).isEmpty then [] else [cur.reverse ++ l] := by
  induction l generalizing cur with
  | nil => simp [rl]
  | cons c l ih =>
    have hc : c ≠ '\n' := fun e => h (by simp [e])
    have hl : '\n' ∉ l := fun e => h (by simp [e])
    simp only [rl, hc, if_false]
    rw [ih (c :: cur) hl]
    simp

/-- text of complete lines -/
def text (Ls : List (List Char)) : List Char := Ls.flatMap (· ++ ['\n'])

theorem readlines_lines_rest (Ls : List (List Char)) (hnl : ∀ l ∈ Ls, '\n' ∉ l) (p : List Char) (hp : '\n' ∉ p) :
    readlines (text Ls ++ p) = Ls.map (· ++ ['\n']) ++ (if p.isEmpty then [] else [p]) := by
  unfold readlines
  induction Ls with
  | nil => simpa [text] using rl_rest [] p hp
  | cons l Ls ih =>
    have h1 : '\n' ∉ l := hnl l (by simp)
    have : text (l :: Ls) ++ p = l ++ '\n' :: (text Ls ++ p) := by simp [text]
    rw [this, rl_line [] l _ h1, ih (fun l hl => hnl l (by simp [hl]))]
    simp

/-- a byte prefix of a text of complete lines: some complete lines and the beginning of the next one -/
theorem take_text (Ls : List (List Char)) (k : Nat) :
    ∃ m p, m ≤ Ls.length ∧ (text Ls).take k = text (Ls.take m) ++ p ∧
      ((∀ l ∈ Ls, '\n' ∉ l) → '\n' ∉ p) := by
  induction Ls generalizing k with
  | nil => exact ⟨0, [], by simp, by simp [text], fun _ => by simp⟩
  | cons l Ls ih =>
    have ht : text (l :: Ls) = (l ++ ['\n']) ++ text Ls := by simp [text]
    by_cases hk : l.length + 1 ≤ k
    · obtain ⟨m, p, hm, hpre, hp⟩ := ih (k - (l.length + 1))
      refine ⟨m + 1, p, by simp; omega, ?_, fun h => hp (fun l' hl' => h l' (by simp [hl']))⟩
      rw [ht, List.take_append, List.take_of_length_le (by simp; omega)]
      simp only [List.length_append, List.length_singleton, hpre, List.take_succ_cons]
      simp [text]
    · refine ⟨0, l.take k, by simp, ?_, fun h hmem => h l (by simp) (List.mem_of_mem_take hmem)⟩
      rw [ht, List.take_append, List.take_append]
      have h1 : k - (l ++ ['\n']).length = 0 := by simp; omega
      have h2 : k - l.length = 0 := by omega
      rw [h1, h2]
      simp [text]

end PV.Text
