/-
  PV.Proofs.C17Lemmas — helper lemmas for the configuration bookkeeping of the readers
  (PV/Model/Bytes.lean: renumber, select / pick / everyNth).
-/
import Mathlib.Data.List.Basic
import Mathlib.Data.List.Range
import Mathlib.Data.Int.Basic
import Mathlib.Tactic.Ring
import Mathlib.Tactic.Linarith
import PV.Model.Bytes

set_option linter.unusedSimpArgs false

namespace PV
open PV.Bytes


theorem everyNth_zip {β γ : Type} (step : Nat) : ∀ (n : Nat) (l1 : List β) (l2 : List γ),
    everyNth step n (l1.zip l2) = (everyNth step n l1).zip (everyNth step n l2) := by
  intro n l1
  induction l1 generalizing n with
  | nil => intro l2; simp [everyNth]
  | cons x xs ih =>
    intro l2
    cases l2 with
    | nil => simp [everyNth]
    | cons y ys =>
      have := ih (n + 1) ys
      simp only [everyNth, List.zip_cons_cons, List.zipIdx_cons, List.filterMap_cons] at this ⊢
      by_cases h : n % step == 0
      · simp only [h, if_true]
        rw [this]
        simp
      · simp only [h]
        simpa using this

theorem everyNth_sublist {β : Type} (step n : Nat) (l : List β) : (everyNth step n l).Sublist l := by
  induction l generalizing n with
  | nil => simp [everyNth]
  | cons x xs ih =>
    simp only [everyNth, List.zipIdx_cons, List.filterMap_cons]
    by_cases h : n % step == 0
    · simp only [h, if_true]
      exact (ih (n + 1)).cons_cons x
    · simp only [h]
      exact (ih (n + 1)).cons x

theorem pick_zip {β γ : Type} (i0 i1 step : Nat) (l1 : List β) (l2 : List γ) :
    pick i0 i1 step (l1.zip l2) = (pick i0 i1 step l1).zip (pick i0 i1 step l2) := by
  unfold pick
  rw [← everyNth_zip]
  simp only [List.zip, List.take_zipWith, List.drop_zipWith]

theorem pick_sublist {β : Type} (i0 i1 step : Nat) (l : List β) : (pick i0 i1 step l).Sublist l :=
  (everyNth_sublist _ _ _).trans ((List.drop_sublist _ _).trans (List.take_sublist _ _))



theorem succ_mod_cases (n step : Nat) (h : 0 < step) :
    (n + 1) % step = if n % step + 1 = step then 0 else n % step + 1 := by
  have hd := Nat.div_add_mod n step
  have hr := Nat.mod_lt n h
  split
  · rename_i he
    have : n + 1 = step * (n / step + 1) := by
      rw [Nat.mul_add, Nat.mul_one]; omega
    rw [this, Nat.mul_mod_right]
  · rename_i he
    have hlt : n % step + 1 < step := by omega
    have : n + 1 = step * (n / step) + (n % step + 1) := by omega
    rw [this, Nat.mul_add_mod, Nat.mod_eq_of_lt hlt]

/-- distance from position `n` to the next multiple of `step` -/
def toNext (step n : Nat) : Nat := (step - n % step) % step

theorem everyNth_getElem? {β : Type} (step : Nat) (hs : 0 < step) : ∀ (l : List β) (n j : Nat),
    (everyNth step n l)[j]? = l[toNext step n + j * step]? := by
  intro l
  induction l with
  | nil => intro n j; simp [everyNth]
  | cons x xs ih =>
    intro n j
    have hr := Nat.mod_lt n hs
    have hsm := succ_mod_cases n step hs
    simp only [everyNth, List.zipIdx_cons, List.filterMap_cons]
    by_cases h : n % step = 0
    · have hb : (n % step == 0) = true := by simp [h]
      simp only [hb, if_true]
      have hoff : toNext step n = 0 := by simp [toNext, h]
      rw [hoff]
      cases j with
      | zero => simp
      | succ j =>
        have := ih (n + 1) j
        simp only [everyNth] at this
        rw [List.getElem?_cons_succ, this]
        have hoff' : toNext step (n + 1) = step - 1 := by
          unfold toNext
          rw [hsm, h]
          by_cases h1 : step = 1
          · subst h1; simp
          · have : ¬ (0 + 1 = step) := by omega
            rw [if_neg this]
            have : step - (0 + 1) < step := by omega
            rw [Nat.mod_eq_of_lt this]
        rw [hoff']
        have : 0 + (j + 1) * step = (step - 1 + j * step) + 1 := by
          rw [Nat.add_mul]; omega
        rw [this, List.getElem?_cons_succ]
    · have hb : (n % step == 0) = false := by simp [h]
      simp only [hb]
      have := ih (n + 1) j
      simp only [everyNth] at this
      simp only [Bool.false_eq_true, if_false]
      rw [this]
      have hoff : toNext step n = toNext step (n + 1) + 1 := by
        unfold toNext
        rw [hsm]
        have h1 : step - n % step < step := by omega
        rw [Nat.mod_eq_of_lt h1]
        split
        · rename_i he
          simp; omega
        · rename_i he
          have : step - (n % step + 1) < step := by omega
          rw [Nat.mod_eq_of_lt this]; omega
      rw [hoff]
      have : toNext step (n + 1) + 1 + j * step = (toNext step (n + 1) + j * step) + 1 := by omega
      rw [this, List.getElem?_cons_succ]



theorem fdiv_add_mul (s d : Int) (k : Nat) (hd : 0 < d) : Int.fdiv (s + (k : Int) * d) d = Int.fdiv s d + k := by
  rw [Int.fdiv_eq_ediv_of_nonneg _ (le_of_lt hd), Int.fdiv_eq_ediv_of_nonneg _ (le_of_lt hd)]
  exact Int.add_mul_ediv_right s k (ne_of_gt hd)


end PV
