/-
  PV.Spec.Propagate — the statement of C01 by configuration number: nothing here mentions
  array positions, scatter / gather, or the order in which inputs are visited.
-/
import PV.Model.Obs

namespace PV.Spec
open Scalar PV

variable {α : Type} [Scalar α]

/-- configurations of chain `n` in input `o` (empty when `o` lacks the chain) -/
def cfgs (o : Obs α) (n : String) : List Int :=
  match o.rep? n with | some r => r.idl.toList | none => []

/-- union of the inputs' configurations of chain `n`, ascending -/
def unionCfgs (xs : List (Obs α)) (n : String) : List Int := Py.sortedSet (xs.flatMap (fun o => cfgs o n))

/-- chains of ensemble `e` (names `e|...`) present in a list of names -/
def chainsOf (names : List String) (e : String) : List String := names.filter (fun m => (e ++ "|").isPrefixOf m || m == e)

/-- all chain names of the result -/
def allChains (xs : List (Obs α)) : List String := newSampleNames xs

/-- (ensemble size / size of the replicas the input has), both measured on the union
    configurations, when the input lacks whole replicas of ensemble `e`; 1 otherwise -/
def sigma (xs : List (Obs α)) (o : Obs α) (e : String) : α :=
  if !(o.mcNames.contains e) then 1 else
  let own := chainsOf o.names e
  let new := chainsOf (allChains xs) e
  if own.length > 0 && own.length < new.length then
    ofNatS ((new.map (fun m => (unionCfgs xs m).length)).foldr (· + ·) 0)
      / ofNatS (((allChains xs).filter (fun m => own.contains m)).map (fun m => (unionCfgs xs m).length) |>.foldr (· + ·) 0)
  else 1

/-- up-weighting of input `o` on chain `n`: (union size / own size) · sigma -/
def weight (xs : List (Obs α)) (o : Obs α) (n : String) : α :=
  ofNatS (unionCfgs xs n).length / ofNatS (cfgs o n).length * sigma xs o (Py.ensOf n)

/-- fluctuation of the result on configuration `c` of chain `n`:
    Σ_j (∂f/∂x_j) · w_j(n) · δ_j(n, c), with δ_j = 0 where input j was not measured -/
def delta (grad : List α) (xs : List (Obs α)) (n : String) (c : Int) : α :=
  sum ((List.zip grad xs).filterMap (fun (g, o) =>
    match o.rep? n with
    | none => none
    | some _ => some (g * (weight xs o n * (o.delta? n c).getD 0))))

/-- chain rule for the gradient w.r.t. external covariance input `name` -/
def covGrad (grad : List α) (xs : List (Obs α)) (name : String) (k : Nat) : α :=
  sum ((List.zip grad xs).filterMap (fun (g, o) => (o.cov? name).map (fun c => g * c.grad.getD k 0)))

end PV.Spec
