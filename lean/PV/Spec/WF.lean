/-
  PV.Spec.WF — the structural invariant of property C04, with a diagnostic (which clause fails).
-/
import PV.Model.Obs

namespace PV.Spec
open PV Scalar

variable {α : Type} [Scalar α]

/-- the C04 invariant: `Obs.WF` plus "a chain held as a range has at least two configurations"
    (the constructor never produces shorter ones).  A NaN central value (function applied outside
    its domain) is a floating-point number and does not violate the structural invariant. -/
def wfC04 (o : Obs α) : Bool :=
  o.WF && o.reps.all (fun r => match r.idl with | .range _ n _ => decide (2 ≤ n) | .list _ => true)

/-- first violated clause, for replay files -/
def wfDiag (o : Obs α) : String :=
  if !(strictSortedStr o.names) then "chain names not strictly sorted"
  else match o.reps.find? (fun r => !(Idl.strictInc r.idl.toList)) with
  | some r => "configuration numbers of " ++ r.name ++ " not strictly increasing"
  | none => match o.reps.find? (fun r => r.deltas.length != r.idl.len) with
  | some r => "length mismatch on " ++ r.name
  | none => match o.reps.find? (fun r => match r.idl with
        | .range _ n st => !(decide (st > 0)) || !(decide (2 ≤ n))
        | .list l => equallySpaced l) with
  | some r => "range / list normal form violated on " ++ r.name
  | none => if !(strictSortedStr o.covNames) then "covariance names not sorted / unique"
  else if !(o.covNames.all (fun n => !(n.contains '|') && !(o.names.contains n))) then "covariance name clashes"
  else "ok"

end PV.Spec
