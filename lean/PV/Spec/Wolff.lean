/-
  PV.Spec.Wolff — the Gamma method written from the papers (Wolff, hep-lat/0306017;
  Schaefer, Sommer, Virotta 1009.5228), by *configuration number*: nothing here
  mentions array positions, expansion, slices or loops of the implementation.
-/
import PV.Model.Obs
import PV.Model.Gamma

namespace PV.Spec
open Scalar PV

variable {α : Type}

section
variable [Scalar α]

/-- fluctuation of chain `r` on configuration `c`; zero where not measured -/
def fluct (r : Rep α) (c : Int) : α :=
  match r.idl.pos? c with
  | some k => r.deltas.getD k 0
  | none => 0

/-- Σ over pairs of configurations of chain `r` that are `t` measurement steps apart -/
def gammaRep (r : Rep α) (gap : Int) (t : Nat) : α :=
  sum (r.idl.toList.map (fun c => fluct r c * fluct r (c + (t : Int) * gap)))

/-- number of such pairs actually present -/
def pairsRep (r : Rep α) (gap : Int) (t : Nat) : Nat :=
  (r.idl.toList.filter (fun c => r.idl.toList.contains (c + (t : Int) * gap))).length

/-- Γ(t): sum over replicas of the pair sums divided by the number of pairs (at least 1) -/
def gamma (reps : List (Rep α)) (gap : Int) (t : Nat) : α :=
  let num := sum (reps.map (fun r => gammaRep r gap t))
  let cnt := (reps.map (fun r => pairsRep r gap t)).foldr (· + ·) 0
  num / ofNatS (max 1 cnt)

/-- (δρ(i))², eq. (E.11) of the paper, truncated at the largest available lag:
    (1/N) Σ_{k=1}^{wmax-1-i} (ρ(i+k) + ρ(|i-k|) - 2 ρ(i) ρ(k))² -/
def drhoSq (rho : Nat → α) (wmax : Nat) (eN : α) (i : Nat) : α :=
  sum ((List.range (wmax - 1 - i)).map (fun k0 =>
    let k := k0 + 1
    let x := rho (i + k) + rho (if i ≥ k then i - k else k - i) - 2 * rho i * rho k
    x * x)) / eN

/-- the summation window: first lag `n ≥ 1` whose criterion is negative, else `wmax - 1` -/
def window (g : Nat → α) (wmax : Nat) : Nat :=
  match (List.range (wmax - 2)).find? (fun k => g (k + 1) < 0) with
  | some k => k + 1
  | none => wmax - 1
end

section
variable [Transc α]
open Transc

/-- the per-ensemble estimator -/
def ensemble (fp : FpConsts α) (ens : String) (reps : List (Rep α)) (gap : Int) (wmax : Nat)
    (S tauExp nSigma : α) : Except GmErr (EnsResult α) :=
  let eNn : Nat := (reps.map (·.idl.len)).foldr (· + ·) 0
  let eN : α := ofNatS eNn
  -- Γ(t) for the lags 0 .. wmax-1, tabulated once (the table is only a cache: every entry is
  -- `gamma reps gap t`, defined by configuration number)
  let Gtab : List α := (List.range wmax).map (gamma reps gap)
  let G : Nat → α := fun t => Gtab.getD t 0
  let zero : List α := List.replicate wmax 0
  if absS (G 0) < fp.tenTiny then
    .ok { ens := ens, tauint := fp.half, dtauint := 0, dvalue := 0, ddvalue := 0, windowsize := 0,
          rho := zero, drho := zero, nTauint := [], nDtauint := [], margin := 1 }
  else
  let rhoL : List α := Gtab.map (· / G 0)
  let rho : Nat → α := fun t => rhoL.getD t 0
  -- τ(W) = 1/2 + Σ_{t=1}^{W} ρ(t), clamped above 1/2
  let tauRaw : Nat → α := fun W => fp.half + sum ((List.range W).map (fun t => rho (t + 1)))
  let nTau : List α := (List.range wmax).map (fun W =>
    if tauRaw W ≤ fp.half then fp.half + fp.eps else tauRaw W)
  let tau : Nat → α := fun W => nTau.getD W 0
  let dtau : Nat → α := fun W =>
    if W = 0 then 0 else tau W * 2 * sqrt (absS (ofNatS W + fp.half - tau W) / eN)
  let drho : Nat → α := fun i => sqrt (drhoSq rho wmax eN i)
  let bias : Nat → α := fun W => tau W * (1 + (2 * ofNatS W + 1) / eN) / (1 + 1 / eN)
  let nDtau := (List.range wmax).map dtau
  if 0 < tauExp then
    if wmax / 2 ≤ 1 then .error .tauExpTooShort else
    -- first n in 1 .. wmax/2 - 1 with ρ(n) - Nσ δρ(n) < 0, or n ≥ wmax/2 - 2
    let stop : Nat → Bool := fun n => rho n - nSigma * drho n < 0 ∨ (n : Int) ≥ ((wmax / 2 : Nat) : Int) - 2
    match (List.range (wmax / 2 - 1)).find? (fun k => stop (k + 1)) with
    | none => .error .tauExpTooShort
    | some k =>
      let W := k + 1
      let t := bias W + tauExp * absS (rho (W + 1))
      let dt := sqrt (dtau W * dtau W + tauExp * tauExp * (drho (W + 1) * drho (W + 1)))
      let dv := sqrt (2 * t * G 0 * (1 + 1 / eN) / eN)
      .ok { ens := ens, tauint := t, dtauint := dt, dvalue := dv,
            ddvalue := dv * sqrt ((ofNatS W + fp.half) / eN), windowsize := W,
            rho := rhoL,
            drho := (List.range wmax).map (fun i => if 1 ≤ i ∧ i ≤ W + 1 then drho i else 0),
            nTauint := nTau, nDtauint := nDtau,
            margin := minAbs ((List.range W).map (fun k => rho (k + 1) - nSigma * drho (k + 1))) }
  else if isZero S then
    let dv := sqrt (G 0 / (eN - 1))
    .ok { ens := ens, tauint := fp.half, dtauint := 0, dvalue := dv,
          ddvalue := dv * sqrt (fp.half / eN), windowsize := 0,
          rho := rhoL, drho := zero, nTauint := nTau, nDtauint := nDtau, margin := 1 }
  else
    if wmax ≤ 1 then .error .tauExpTooShort else
    let tauS : Nat → α := fun n => S / log ((2 * tau n + 1) / (2 * tau n - 1))
    let g : Nat → α := fun n => exp (-(ofNatS n) / tauS n) - tauS n / sqrt (ofNatS n * eN)
    let W := window g wmax
    let t := bias W
    let dv := sqrt (2 * t * G 0 * (1 + 1 / eN) / eN)
    .ok { ens := ens, tauint := t, dtauint := dtau W, dvalue := dv,
          ddvalue := dv * sqrt ((ofNatS W + fp.half) / eN), windowsize := W,
          rho := rhoL, drho := (List.range wmax).map (fun i => if i = W then drho i else 0),
          nTauint := nTau, nDtauint := nDtau,
          margin := minAbs ((List.range W).map (fun k => g (k + 1))) }

/-- `ensemble` with the Γ table as a parameter (same text): `ensemble_eq_analyse` shows by `rfl` that
    `ensemble = analyse` applied to the table of `gamma reps gap` -/
def analyse (fp : FpConsts α) (ens : String) (eN : α) (wmax : Nat) (Gtab : List α)
    (S tauExp nSigma : α) : Except GmErr (EnsResult α) :=
  let G : Nat → α := fun t => Gtab.getD t 0
  let zero : List α := List.replicate wmax 0
  if absS (G 0) < fp.tenTiny then
    .ok { ens := ens, tauint := fp.half, dtauint := 0, dvalue := 0, ddvalue := 0, windowsize := 0,
          rho := zero, drho := zero, nTauint := [], nDtauint := [], margin := 1 }
  else
  let rhoL : List α := Gtab.map (· / G 0)
  let rho : Nat → α := fun t => rhoL.getD t 0
  -- τ(W) = 1/2 + Σ_{t=1}^{W} ρ(t), clamped above 1/2
  let tauRaw : Nat → α := fun W => fp.half + sum ((List.range W).map (fun t => rho (t + 1)))
  let nTau : List α := (List.range wmax).map (fun W =>
    if tauRaw W ≤ fp.half then fp.half + fp.eps else tauRaw W)
  let tau : Nat → α := fun W => nTau.getD W 0
  let dtau : Nat → α := fun W =>
    if W = 0 then 0 else tau W * 2 * sqrt (absS (ofNatS W + fp.half - tau W) / eN)
  let drho : Nat → α := fun i => sqrt (drhoSq rho wmax eN i)
  let bias : Nat → α := fun W => tau W * (1 + (2 * ofNatS W + 1) / eN) / (1 + 1 / eN)
  let nDtau := (List.range wmax).map dtau
  if 0 < tauExp then
    if wmax / 2 ≤ 1 then .error .tauExpTooShort else
    -- first n in 1 .. wmax/2 - 1 with ρ(n) - Nσ δρ(n) < 0, or n ≥ wmax/2 - 2
    let stop : Nat → Bool := fun n => rho n - nSigma * drho n < 0 ∨ (n : Int) ≥ ((wmax / 2 : Nat) : Int) - 2
    match (List.range (wmax / 2 - 1)).find? (fun k => stop (k + 1)) with
    | none => .error .tauExpTooShort
    | some k =>
      let W := k + 1
      let t := bias W + tauExp * absS (rho (W + 1))
      let dt := sqrt (dtau W * dtau W + tauExp * tauExp * (drho (W + 1) * drho (W + 1)))
      let dv := sqrt (2 * t * G 0 * (1 + 1 / eN) / eN)
      .ok { ens := ens, tauint := t, dtauint := dt, dvalue := dv,
            ddvalue := dv * sqrt ((ofNatS W + fp.half) / eN), windowsize := W,
            rho := rhoL,
            drho := (List.range wmax).map (fun i => if 1 ≤ i ∧ i ≤ W + 1 then drho i else 0),
            nTauint := nTau, nDtauint := nDtau,
            margin := minAbs ((List.range W).map (fun k => rho (k + 1) - nSigma * drho (k + 1))) }
  else if isZero S then
    let dv := sqrt (G 0 / (eN - 1))
    .ok { ens := ens, tauint := fp.half, dtauint := 0, dvalue := dv,
          ddvalue := dv * sqrt (fp.half / eN), windowsize := 0,
          rho := rhoL, drho := zero, nTauint := nTau, nDtauint := nDtau, margin := 1 }
  else
    if wmax ≤ 1 then .error .tauExpTooShort else
    let tauS : Nat → α := fun n => S / log ((2 * tau n + 1) / (2 * tau n - 1))
    let g : Nat → α := fun n => exp (-(ofNatS n) / tauS n) - tauS n / sqrt (ofNatS n * eN)
    let W := window g wmax
    let t := bias W
    let dv := sqrt (2 * t * G 0 * (1 + 1 / eN) / eN)
    .ok { ens := ens, tauint := t, dtauint := dtau W, dvalue := dv,
          ddvalue := dv * sqrt ((ofNatS W + fp.half) / eN), windowsize := W,
          rho := rhoL, drho := (List.range wmax).map (fun i => if i = W then drho i else 0),
          nTauint := nTau, nDtauint := nDtau,
          margin := minAbs ((List.range W).map (fun k => g (k + 1))) }

/-- largest lag considered: half of the longest chain measured in units of the spacing -/
def wMax (reps : List (Rep α)) (gap : Int) : Nat :=
  (Py.fdiv ((reps.map (fun r => rLength r.idl gap)).foldl max 0) 2).toNat

def gammaMethod (fp : FpConsts α) (o : Obs α) (p : GmParams α) : Except GmErr (GmResult α) := do
  let ens ← o.mcNames.mapM (fun e => do
    let reps := o.eContent e
    let gap ← determineGap e reps
    ensemble fp e reps gap (wMax reps gap) (p.S e) (p.tauExp e) (p.nSigma e))
  -- external inputs: J Σ Jᵀ
  let covE := o.covs.map (fun c => (c.name, sqrt (covErrSq c)))
  let dv2 := sum (ens.map (fun r => r.dvalue * r.dvalue)) + sum (covE.map (fun c => c.2 * c.2))
  let dd2 := sum (ens.map (fun r => (r.dvalue * r.ddvalue) * (r.dvalue * r.ddvalue)))
  let dv := sqrt dv2
  let dd := if isZero dv then 0 else sqrt dd2 / dv
  pure { dvalue := dv, ddvalue := dd, ens := ens, covErr := covE }
end

end PV.Spec
