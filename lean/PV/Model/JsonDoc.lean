/-
  PV.Model.JsonDoc — one entry of `obsdata` in the json format (pyerrors/input/json.py): what
  `write_Obs_to_dict` / `write_List_to_dict` / `write_Array_to_dict` put into `value`, `data`, `cdata`,
  `reweighted` for the observables of a structure (`_gen_data_d_from_list` 39-57,
  `_gen_cdata_d_from_list` 59-73), and what `get_Obs_from_dict` / `get_List_from_dict` /
  `get_Array_from_dict` rebuild from it (`_gen_obsd_from_datad` 291-308, `_gen_covobsd_from_cdatad` 310-323,
  `Obs(deltas, names, idl=, means=)` with its sorting and normalisation of configuration lists).
  Tags and the layout string travel beside this numeric part and are compared by the harness.
-/
import PV.Model.Obs
import PV.Model.JsonRep

namespace PV.JsonDoc
open PV Scalar

variable {α : Type} [Scalar α]

structure RepDoc (α : Type) where
  name : String
  rows : List (Int × List α)        -- [config, x_1, ..., x_k]
  deriving Repr

structure EnsDoc (α : Type) where
  id : String
  replica : List (RepDoc α)
  deriving Repr

structure CovDoc (α : Type) where
  id : String
  shape : List Nat                   -- the `layout` string, parsed
  cov : List α                       -- `np.ravel(cov)`
  grad : List (List α)               -- grad[i][o]: entry i of the gradient of observable o
  deriving Repr

structure SDoc (α : Type) where
  value : List α
  data : List (EnsDoc α)
  cdata : List (CovDoc α)
  reweighted : Bool
  deriving Repr

/-- fluctuations / replica mean of chain `n` of `o` (empty / 0 if absent; `_assert_equal_properties`
    guarantees presence for the members of a structure) -/
def deltasOf (o : Obs α) (n : String) : List α := ((o.rep? n).map (·.deltas)).getD []
def rvalueOf (o : Obs α) (n : String) : α := ((o.rep? n).map (·.rvalue)).getD 0

/-- `ol[0]`, whose chains and covariance inputs label the document -/
def head0 (ol : List (Obs α)) : Obs α := ol.headD default

/-- `_gen_data_d_from_list` + `_gen_cdata_d_from_list` + value + flag, for the observables `ol` of one structure -/
def toDoc (ol : List (Obs α)) : SDoc α :=
  let o0 := head0 ol
  { value := ol.map (·.value)
    data := o0.mcNames.map (fun e =>
      { id := e
        replica := (o0.eContent e).map (fun r =>
          { name := r.name
            rows := encodeRep r.idl.toList (ol.map (deltasOf · r.name)) (ol.map (rvalueOf · r.name)) (ol.map (·.value)) }) })
    cdata := o0.covs.map (fun c =>
      { id := c.name
        shape := [c.cov.length, (c.cov.headD []).length]
        cov := c.cov.flatten
        grad := (List.range c.cov.length).map (fun i =>
          ol.map (fun o => ((o.cov? c.name).map (fun c' => c'.grad.getD i 0)).getD 0)) })
    reweighted := o0.reweighted }

/-- the replica-name repair of `_gen_obsd_from_datad`: a name longer than the ensemble id whose character
    after the id is not '|' gets one inserted -/
def fixName (id name : String) : String :=
  let n := name.toList
  let k := id.toList.length
  if n.length > k then
    if n.getD k ' ' != '|' then String.ofList (n.take k ++ ['|'] ++ n.drop k) else name
  else name

/-- `np.reshape(cov, layout)` for a two-dimensional layout -/
def reshape (cov : List α) (shape : List Nat) : List (List α) :=
  match shape with
  | [r, c] => (List.range r).map (fun i => (cov.drop (i * c)).take c)
  | _ => [cov]

inductive DErr | idl (e : Idl.NormErr) | missingValue
  deriving Repr

/-- `get_List_from_dict` / `get_Array_from_dict` (and `get_Obs_from_dict` for k = 1): the k observables of a structure -/
def fromDoc (d : SDoc α) (k : Nat) : Except DErr (List (Obs α)) :=
  let chains : List (String × List (Int × List α)) :=
    d.data.flatMap (fun e => e.replica.map (fun r => (fixName e.id r.name, r.rows)))
  let sorted := Py.sortBy (fun a b => a.1 ≤ b.1) chains
  (List.range k).mapM (fun i =>
    match d.value[i]? with
    | none => .error .missingValue
    | some v =>
      match sorted.mapM (fun (p : String × List (Int × List α)) =>
          let n := p.1
          let rows := p.2
          match Idl.normalise (.list (rows.map (fun (q : Int × List α) => q.1))) with
          | .error e => Except.error (DErr.idl e)
          | .ok i' =>
            let col := column rows i
            let off := sum col / ofNatS rows.length
            .ok ({ name := n, idl := i', deltas := col.map (· - off), rvalue := off + v } : Rep α)) with
      | .error e => .error e
      | .ok rs =>
        .ok { value := v, reps := rs
              covs := d.cdata.map (fun (c : CovDoc α) => ({ name := c.id, cov := reshape c.cov c.shape, grad := c.grad.map (·.getD i 0) } : CovIn α))
              reweighted := d.reweighted })

end PV.JsonDoc
