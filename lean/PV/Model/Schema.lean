/-
  PV.Model.Schema — a validator for the JSON-Schema keyword subset used by the schema shipped
  with pyerrors (`type`, `required`, `properties`, `items`, `$ref` into `$defs`; `prefixItems` is
  recorded but, the schema declaring draft-07, ignored exactly as a draft-07 validator ignores it).
  The schema term itself is REGENERATED from examples/json_schema.json (PV/Gen/Schema.lean).
-/
import Lean.Data.Json

namespace PV
open Lean

inductive Sch where
  | ref (name : String)
  | node (types : List String) (required : List String) (props : List (String × Sch))
         (items : Option Sch) (prefixItems : List Sch) (tupleItems : List Sch)
  deriving Repr, Inhabited

def jsonType (j : Json) : List String :=
  match j with
  | .null => ["null"]
  | .bool _ => ["boolean"]
  | .num n => if n.exponent == 0 then ["integer", "number"] else
      -- a number with zero fractional part is an integer for JSON Schema
      (if (n.mantissa % (10 ^ n.exponent : Nat)) == 0 then ["integer", "number"] else ["number"])
  | .str _ => ["string"]
  | .arr _ => ["array"]
  | .obj _ => ["object"]

/-- `none` = valid, `some path` = first violation -/
partial def validate (defs : List (String × Sch)) (s : Sch) (j : Json) (path : String := "$") : Option String :=
  match s with
  | .ref n => match defs.lookup n with
    | some t => validate defs t j path
    | none => some (path ++ ": unresolved $ref " ++ n)
  | .node types required props items _ tup =>
    if !types.isEmpty && !((jsonType j).any (types.contains ·)) then some (path ++ ": type") else
    match j with
    | .obj _ =>
      match required.find? (fun k => (j.getObjVal? k).toOption.isNone) with
      | some k => some (path ++ ": missing " ++ k)
      | none =>
        props.foldl (fun acc (k, sub) => match acc with
          | some e => some e
          | none => match (j.getObjVal? k).toOption with
            | some v => validate defs sub v (path ++ "." ++ k)
            | none => none) none
    | .arr a =>
      match items with
      | none =>
        -- tuple form: element i against schema i, further elements unconstrained
        (List.zip tup a.toList).zipIdx.foldl (fun acc ((sub, v), i) => match acc with
          | some e => some e
          | none => validate defs sub v (path ++ "[" ++ toString i ++ "]")) none
      | some it => (a.toList.zipIdx).foldl (fun acc (v, i) => match acc with
          | some e => some e
          | none => validate defs it v (path ++ "[" ++ toString i ++ "]")) none
    | _ => none

end PV
