/-
  PV.Model.Relabel — relabellings of the configuration numbers and replica names (C03).
-/
import PV.Model.Gamma

namespace PV

/-- all configuration numbers `c ↦ a*c + b` -/
def Idl.affine (a b : Int) : Idl → Idl
  | .range s n st => .range (a * s + b) n (a * st)
  | .list l => .list (l.map (fun c => a * c + b))

def Rep.affine {α : Type} (a b : Int) (r : Rep α) : Rep α := { r with idl := r.idl.affine a b }

def Rep.rename {α : Type} (f : String → String) (r : Rep α) : Rep α := { r with name := f r.name }

end PV
