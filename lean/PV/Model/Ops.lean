/-
  PV.Model.Ops — the overloaded operators of `Obs` as applications of the (regenerated)
  call sites to `derivedObs`, and evaluation of whole expression trees the way the Python
  interpreter dispatches them (obs.py 785-915).
-/
import PV.Model.Obs
import PV.Model.Expr
import PV.Gen.Grads

namespace PV
open Scalar

variable {α : Type} [Elem α]

/-- what autograd is specified to return at the seven sites without `man_grad`
    (the analytic derivative; contract of the external engine, measured by the correspondence) -/
def autoGrad : String → Option E
  | "abs" => some (.div (.var 0) (.abs (.var 0)))
  | "arcsin" => some (.div (.num 1) (.sqrt (.sub (.num 1) (.mul (.var 0) (.var 0)))))
  | "arccos" => some (.neg (.div (.num 1) (.sqrt (.sub (.num 1) (.mul (.var 0) (.var 0))))))
  | "arctan" => some (.div (.num 1) (.add (.num 1) (.mul (.var 0) (.var 0))))
  | "arcsinh" => some (.div (.num 1) (.sqrt (.add (.mul (.var 0) (.var 0)) (.num 1))))
  | "arccosh" => some (.div (.num 1) (.sqrt (.sub (.mul (.var 0) (.var 0)) (.num 1))))
  | "arctanh" => some (.div (.num 1) (.sub (.num 1) (.mul (.var 0) (.var 0))))
  | _ => none

def Site.gradTerms (s : Site) : Option (List E) :=
  match s.grads with
  | some g => some g
  | none => (autoGrad s.name).map (fun g => [g])

/-- `np.allclose(a, b)` on covariance matrices (rtol 1e-5, atol 1e-8), as far as the model needs
    it: exact equality is sufficient for matrices that were never changed -/
def covEqExact (a b : List (List α)) : Bool :=
  a.length == b.length && (List.zip a b).all (fun (r, s) =>
    r.length == s.length && (List.zip r s).all (fun (x, y) => !(x < y) && !(y < x)))

/-- apply one call site to observables `args` with plain-number partner `y` -/
def applySite (s : Site) (args : List (Obs α)) (y : α) : Except DerErr (Obs α) :=
  match s.gradTerms with
  | none => .error .gradShape
  | some gs =>
    let vals : Nat → α := fun i => (args.getD i default).value
    derivedObs (fun v => s.func.eval (fun i => v.getD i 0) y) (gs.map (fun g => g.eval vals y)) args covEqExact

def findSite (n : String) : Option Site := Gen.Grads.sites.find? (·.name == n)

/-- values flowing through an expression tree: an observable or a plain number -/
inductive V (α : Type) | obs (o : Obs α) | num (x : α)

/-- expression trees over the overloaded operators -/
inductive T (α : Type) where
  | leaf (i : Nat)
  | const (c : α)
  | un (f : String) (a : T α)
  | bin (op : String) (a b : T α)

inductive EvalErr | der (e : DerErr) | noSite (n : String) | badLeaf | unsupported (s : String)
  deriving Repr

def site! (n : String) : Except EvalErr Site :=
  match findSite n with | some s => .ok s | none => .error (.noSite n)

def app (n : String) (args : List (Obs α)) (y : α) : Except EvalErr (V α) := do
  let s ← site! n
  match applySite s args y with
  | .ok o => pure (.obs o)
  | .error e => throw (.der e)

/-- Python's dispatch of `a <op> b` for Obs / number operands -/
def binOp (op : String) (a b : V α) : Except EvalErr (V α) :=
  match op, a, b with
  | "add", .obs x, .obs y => app "add_obs" [x, y] 0
  | "add", .obs x, .num c => app "add_num" [x] c
  | "add", .num c, .obs x => app "add_num" [x] c                      -- __radd__: self + y
  | "mul", .obs x, .obs y => app "mul_obs" [x, y] 0
  | "mul", .obs x, .num c => app "mul_num" [x] c
  | "mul", .num c, .obs x => app "mul_num" [x] c                      -- __rmul__
  | "sub", .obs x, .obs y => app "sub_obs" [x, y] 0
  | "sub", .obs x, .num c => app "sub_num" [x] c
  | "sub", .num c, .obs x => do                                      -- __rsub__: -1 * (self - y)
      match ← app "sub_num" [x] c with
      | .obs d => app "mul_num" [d] (-1)
      | v => pure v
  | "div", .obs x, .obs y => app "truediv_obs" [x, y] 0
  | "div", .obs x, .num c => app "truediv_num" [x] c
  | "div", .num c, .obs x => app "rtruediv_num" [x] c
  | "pow", .obs x, .obs y => app "pow_obs" [x, y] 0
  | "pow", .obs x, .num c => app "pow_num" [x] c
  | "pow", .num c, .obs x => app "rpow" [x] c
  | "add", .num c, .num d => pure (.num (c + d))
  | "sub", .num c, .num d => pure (.num (c - d))
  | "mul", .num c, .num d => pure (.num (c * d))
  | "div", .num c, .num d => pure (.num (c / d))
  | "pow", .num c, .num d => pure (.num (Elem.pow c d))
  | o, _, _ => .error (.unsupported o)

def unOp (f : String) (a : V α) : Except EvalErr (V α) :=
  match f, a with
  | "neg", .obs x => app "mul_num" [x] (-1)                           -- __neg__: -1 * self
  | "neg", .num c => pure (.num (-c))
  | "pos", v => pure v
  | f, .obs x => app f [x] 0
  | f, .num c => match findSite f with
    | some s => pure (.num (s.func.eval (fun _ => c) 0))
    | none => .error (.noSite f)

def T.eval (leaves : List (Obs α)) : T α → Except EvalErr (V α)
  | .leaf i => match leaves[i]? with | some o => .ok (.obs o) | none => .error .badLeaf
  | .const c => .ok (.num c)
  | .un f a => do unOp f (← a.eval leaves)
  | .bin op a b => do binOp op (← a.eval leaves) (← b.eval leaves)

end PV
