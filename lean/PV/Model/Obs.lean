/-
  PV.Model.Obs — the observable, its constructor checks, alignment by configuration
  number (`_merge_idx`, `_expand_deltas_for_merge`, `_reduce_deltas`) and linear error
  propagation (`derived_observable`, scalar branch with a given gradient).

  Mirrors pyerrors/obs.py; line numbers refer to the pinned tree.
-/
import PV.Scalar
import PV.Py

namespace PV
open Scalar

/-- a configuration list: Python `range` (kept as start / length / step, which is all
    the code ever reads: `len`, `.step`, indexing) or an explicit list -/
inductive Idl where
  | range (start : Int) (len : Nat) (step : Int)
  | list (l : List Int)
  deriving Repr, BEq, Inhabited

namespace Idl
def toList : Idl → List Int
  | range s n st => (List.range n).map (fun (k : Nat) => s + st * (k : Int))
  | list l => l
def len (i : Idl) : Nat := i.toList.length
def isRange : Idl → Bool | range .. => true | list _ => false
def first (i : Idl) : Int := i.toList.headD 0
def last (i : Idl) : Int := i.toList.getLastD 0
/-- sequence equality, which is what `==` on two ranges and `_check_lists_equal` test -/
def sameSeq (a b : Idl) : Bool := a.toList == b.toList

def diffs : List Int → List Int
  | x :: y :: r => (y - x) :: diffs (y :: r)
  | _ => []

/-- the normalisation performed by `Obs.__init__` (obs.py 103-117) on a list argument:
    `dc = np.unique(np.diff(idx))`; error on a negative or zero difference; a `range` when
    there is exactly one distinct difference; the list otherwise -/
inductive NormErr | unsorted | duplicate | negativeStep
  deriving Repr, BEq

def normalise : Idl → Except NormErr Idl
  | range s n st => if st < 0 then .error .negativeStep else .ok (range s n st)
  | list l =>
    let dc := Py.sortedSet (diffs l)
    if dc.any (· < 0) then .error .unsorted
    else if dc.any (· == 0) then .error .duplicate
    else match dc with
      | [d] => .ok (range (l.headD 0) l.length d)
      | _ => .ok (list l)

/-- strictly increasing -/
def strictInc : List Int → Bool
  | x :: y :: r => decide (x < y) && strictInc (y :: r)
  | _ => true

/-- position of configuration `c` -/
def pos? (i : Idl) (c : Int) : Option Nat :=
  let l := i.toList
  let k := l.findIdx (· == c)
  if k < l.length then some k else none
end Idl

/-- one Monte-Carlo chain of an observable -/
structure Rep (α : Type) where
  name : String
  idl : Idl
  deltas : List α
  rvalue : α
  deriving Repr, Inhabited

/-- an external covariance input: name, covariance matrix (row major), gradient column -/
structure CovIn (α : Type) where
  name : String
  cov : List (List α)
  grad : List α
  deriving Repr, Inhabited

structure Obs (α : Type) where
  value : α
  reps : List (Rep α)       -- kept sorted by name, as `self.names = sorted(names)` does
  covs : List (CovIn α)     -- sorted by name
  reweighted : Bool := false
  deriving Repr, Inhabited

variable {α : Type} [Scalar α]

namespace Obs
def names (o : Obs α) : List String := o.reps.map (·.name)
def covNames (o : Obs α) : List String := o.covs.map (·.name)
def N (o : Obs α) : Nat := (o.reps.map (·.idl.len)).foldr (· + ·) 0
def rep? (o : Obs α) (n : String) : Option (Rep α) := o.reps.find? (·.name == n)
def cov? (o : Obs α) (n : String) : Option (CovIn α) := o.covs.find? (·.name == n)
/-- `mc_names`: ensemble names of the Monte-Carlo chains -/
def mcNames (o : Obs α) : List String := Py.sortedSetStr (o.names.map Py.ensOf)
/-- `e_content[e]`: chains `e|...` sorted, followed by the chain called exactly `e` -/
def eContent (o : Obs α) (e : String) : List (Rep α) :=
  (o.reps.filter (fun r => (e ++ "|").toList.isPrefixOf r.name.toList)) ++ (o.reps.filter (fun r => r.name == e))
/-- value of the fluctuation on configuration `c` of chain `n`; `none` if not measured -/
def delta? (o : Obs α) (n : String) (c : Int) : Option α := do
  let r ← o.rep? n
  let k ← r.idl.pos? c
  r.deltas[k]?
end Obs

/-! ### Structural well-formedness (property C04) -/

def strictSortedStr : List String → Bool
  | x :: y :: r => decide (x < y) && strictSortedStr (y :: r)
  | _ => true

def equallySpaced (l : List Int) : Bool :=
  match Idl.diffs l with
  | [] => false
  | d :: ds => ds.all (· == d)

/-- the C04 invariant on the Monte-Carlo part and the covariance names -/
def Obs.WF (o : Obs α) : Bool :=
  strictSortedStr o.names
  && o.reps.all (fun r =>
        Idl.strictInc r.idl.toList
        && r.deltas.length == r.idl.len
        && (match r.idl with
            | .range _ _ st => decide (st > 0)
            | .list l => !equallySpaced l))
  && strictSortedStr o.covNames
  && o.covNames.all (fun n => !(n.contains '|') && !(o.names.contains n))
  && o.covs.all (fun c => c.cov.length == c.grad.length && c.cov.all (·.length == c.grad.length))

/-! ### Constructor (obs.py 60-143) -/

inductive MkErr
  | lenSamplesNames | lenIdl | namesNotUnique | multipleEnsembles | tooFewSamples
  | unsorted | duplicate | negativeStep | samplesIdlMismatch
  deriving Repr, BEq

def mean (l : List α) : α := sum l / ofNatS l.length

/-- `Obs(samples, names, idl)`; names are strings by construction of the model (the
    `TypeError` for non-string names is covered by the correspondence check only) -/
def mkObs (samples : List (List α)) (names : List String) (idl : Option (List Idl)) :
    Except MkErr (Obs α) := do
  if samples.length != names.length then throw .lenSamplesNames
  if let some il := idl then
    if il.length != names.length then throw .lenIdl
  if names.length > 1 then
    if (Py.sortedSetStr names).length != names.length then throw .namesNotUnique
    if (Py.sortedSetStr (names.map Py.ensOf)).length > 1 then throw .multipleEnsembles
  if samples.any (·.length ≤ 4) then throw .tooFewSamples
  -- `sorted(zip(names, idl))` / `sorted(zip(names, samples))`
  let idls : List Idl := match idl with
    | some il => il
    | none => samples.map (fun s => Idl.range 1 s.length 1)
  let triples := Py.sortBy (fun a b => a.1 ≤ b.1) (List.zip names (List.zip idls samples))
  let reps ← triples.mapM (fun (n, i, s) => do
    let i' ← match Idl.normalise i with
      | .ok x => pure x
      | .error .unsorted => throw MkErr.unsorted
      | .error .duplicate => throw MkErr.duplicate
      | .error .negativeStep => throw MkErr.negativeStep
    if s.length != i'.len then throw MkErr.samplesIdlMismatch
    let m := mean s
    pure ({ name := n, idl := i', deltas := s.map (· - m), rvalue := m } : Rep α))
  let Ntot := (reps.map (·.idl.len)).foldr (· + ·) 0
  let v := sum (reps.map (fun r => ofNatS r.idl.len * r.rvalue)) / ofNatS Ntot
  pure { value := v, reps := reps, covs := [] }

/-! ### Alignment by configuration number -/

/-- `_merge_idx` (obs.py 1091-1111) followed by the normalisation `Obs.__init__` applies
    to whatever it is handed -/
def mergeIdx (idl : List Idl) : Idl :=
  match idl with
  | [] => .list []
  | i0 :: rest =>
    -- `_check_lists_equal`: `range == range` and `list == list` compare as sequences,
    -- a range never equals a list
    if rest.all (fun i => i.sameSeq i0 && (i.isRange == i0.isRange)) then i0
    else
      let u := Py.sortedSet (idl.flatMap Idl.toList)
      match u with
      | a :: b :: _ =>
        let step := b - a
        let last := u.getLastD a
        -- `range(u[0], u[-1] + 1, u[1] - u[0])`
        let n := ((last + 1 - a - 1) / step + 1).toNat
        let r := Idl.range a n step
        if r.toList == u then r else .list u
      | _ => .list u

/-- scatter `deltas` (defined on `idx`) into a zero array indexed by `cfg - new[0]`, gather
    at `new`, and multiply by `len(new)/len(idx) * scalefactor` (obs.py 1140-1169) -/
def expandDeltasForMerge (deltas : List α) (idx : Idl) (newIdx : Idl) (scale : α) : List α :=
  if idx.isRange && newIdx.isRange && idx.sameSeq newIdx then
    -- early return: `deltas` or `deltas * scalefactor`
    deltas.map (· * scale)
  else
    let base := newIdx.first
    let size := (newIdx.last - base + 1).toNat
    let ret0 : List α := List.replicate size 0
    let ret := (List.zip idx.toList deltas).foldl
      (fun acc (c, d) => acc.set (c - base).toNat d) ret0
    let f : α := ofNatS newIdx.len / ofNatS idx.len
    newIdx.toList.map (fun c => (ret.getD (c - base).toNat 0) * f * scale)

/-- `_reduce_deltas` (obs.py 1362-1388); `none` = the ValueError -/
def reduceDeltas (deltas : List α) (old new : Idl) : Option (List α) :=
  if deltas.length != old.len then none
  else if old.sameSeq new then some deltas
  else
    let pairs := List.zip old.toList deltas
    let picked := pairs.filter (fun (c, _) => new.toList.contains c)
    if picked.length < new.len then none else some (picked.map (·.2))

/-! ### derived_observable, scalar branch (obs.py 1201-1359) -/

inductive DerErr | inconsistentCov (name : String) | nameClash | gradShape
  deriving Repr, BEq

/-- `_compute_scalefactor_missing_rep(obs).get(ens, 1)` -/
def scaleFactorMissingRep (o : Obs α) (newIdl : List (String × Idl)) (ens : String) : α :=
  -- obs.mc_names: ensembles of obs.names that are not covariance names
  if !(o.mcNames.contains ens) then 1 else
  let pre := ens ++ "|"
  -- a chain called exactly like its ensemble (no '|') is a replica of it as well (as in `e_content`)
  let own := (o.names.filter (fun m => pre.isPrefixOf m || m == ens))
  let new := (newIdl.filter (fun p => pre.isPrefixOf p.1 || p.1 == ens))
  if own.length > 0 && own.length < new.length then
    let tot := (new.map (fun p => p.2.len)).foldr (· + ·) 0
    let ownTot := ((newIdl.filter (fun p => own.contains p.1)).map (fun p => p.2.len)).foldr (· + ·) 0
    ofNatS tot / ofNatS ownTot
  else 1

def addLists (a b : List α) : List α := List.zipWith (· + ·) a b

/-- the `allcov` dictionary with its consistency check (obs.py 1210-1217) -/
def collectCov (covEq : List (List α) → List (List α) → Bool) :
    List (CovIn α) → List (String × List (List α)) → Except DerErr (List (String × List (List α)))
  | [], acc => .ok acc
  | c :: cs, acc =>
    match acc.find? (·.1 == c.name) with
    | some (_, m) => if covEq m c.cov then collectCov covEq cs acc else .error (.inconsistentCov c.name)
    | none => collectCov covEq cs (acc ++ [(c.name, c.cov)])

/-- names of the Monte-Carlo chains of the result: `sorted(set(new_names) - set(new_cov_names))` -/
def newSampleNames (data : List (Obs α)) : List String :=
  let newNames := Py.sortedSetStr (data.flatMap (fun o => o.names ++ o.covNames))
  let newCovNames := Py.sortedSetStr (data.flatMap (·.covNames))
  newNames.filter (fun n => !(newCovNames.contains n))

/-- `new_idl_d`: per chain the merged configuration list of the inputs that have it -/
def newIdlD (data : List (Obs α)) : List (String × Idl) :=
  (newSampleNames data).map (fun n => (n, mergeIdx (data.filterMap (fun o => (o.rep? n).map (·.idl)))))

/-- the fluctuations of chain `n` of the result: Σ_j grad_j · expand(δ_j) (obs.py 1327-1333) -/
def newDeltas (grad : List α) (data : List (Obs α)) (newIdl : List (String × Idl)) (n : String) (il : Idl) : List α :=
  let contribs := (List.zip grad data).filterMap (fun (g, o) =>
    (o.rep? n).map (fun r =>
      (expandDeltasForMerge r.deltas r.idl il (scaleFactorMissingRep o newIdl (Py.ensOf n))).map (g * ·)))
  contribs.foldl addLists (List.replicate il.len 0)

/-- the construction of the result once the checks have passed -/
def derivedCore (func : List α → α) (grad : List α) (data : List (Obs α))
    (allcov : List (String × List (List α))) : Obs α :=
  let newCovNames := Py.sortedSetStr (data.flatMap (·.covNames))
  let newIdl := newIdlD data
  let newReps : List (Rep α) := newIdl.map (fun (n, il) =>
    { name := n, idl := il, deltas := newDeltas grad data newIdl n il,
      rvalue := func (data.map (fun o => match o.rep? n with | some r => r.rvalue | none => o.value)) })
  let newCovs : List (CovIn α) := newCovNames.filterMap (fun n =>
    let parts := (List.zip grad data).filterMap (fun (g, o) => (o.cov? n).map (fun c => c.grad.map (g * ·)))
    match allcov.find? (·.1 == n), parts with
    | some (_, m), p :: ps => some { name := n, cov := m, grad := ps.foldl addLists p }
    | _, _ => none)
  -- `Obs(new_samples, names, means=..., idl=new_idl)` normalises the idl again
  let reps' := newReps.map (fun r =>
    match Idl.normalise r.idl with
    | .ok i => { r with idl := i }
    | .error _ => r)
  { value := func (data.map (·.value)), reps := reps', covs := newCovs,
    reweighted := data.any (·.reweighted) }

/-- `derived_observable(func, data, man_grad=grad)` for a scalar result. `func` is the
    user function (an external parameter of the model); `covEq` stands for `np.allclose`. -/
def derivedObs (func : List α → α) (grad : List α) (data : List (Obs α))
    (covEq : List (List α) → List (List α) → Bool) : Except DerErr (Obs α) :=
  if grad.length != data.length then .error .gradShape else
  match collectCov covEq (data.flatMap (·.covs)) [] with
  | .error e => .error e
  | .ok allcov =>
    -- a name used for a chain in one input and for a covariance input in another
    if (Py.sortedSetStr (data.flatMap (·.covNames))).any (fun n => data.any (fun o => o.names.contains n))
    then .error .nameClash
    else .ok (derivedCore func grad data allcov)

end PV
