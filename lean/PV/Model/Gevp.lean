/-
  PV.Model.Gevp — the control flow of `Corr.GEVP` (correlators.py 302-404), `_GEVP_solver` and
  `_sort_vectors` (1424-1513), `Corr.projected` (154-191) and the Hankel slicing of the
  matrix-pencil method (mpm.py 46-52).

  The eigen-decompositions are oracle inputs: `asc[t]` is the list of eigenvectors of timeslice `t`
  in the ASCENDING eigenvalue order in which LAPACK returns them (columns of `eigh(...)[1]`), or
  `none` when the slice is undefined.  Everything around them is pyerrors' own logic and is
  modelled as written: the `[::-1]` / `np.flip` that puts the largest eigenvalue first, the
  back-substitution `chol_inv.T @ w` of the Cholesky route, `[None] * (t0 + 1)` padding,
  undefined timeslices, the permutation search, state selection and the order of the refusals.
-/
import PV.Scalar

namespace PV
open Scalar

variable {α : Type} [Scalar α]

/-! ### small matrix helpers (row lists) -/

/-- determinant by Laplace expansion along the first row (`fuel` = number of rows) -/
def detAux : Nat → List (List α) → α
  | 0, _ => 1
  | _ + 1, [] => 1
  | n + 1, row :: rest =>
    sum ((List.range row.length).map (fun j =>
      (if j % 2 == 0 then (1 : α) else -1) * row.getD j 0 * detAux n (rest.map (fun r => r.eraseIdx j))))

def det (M : List (List α)) : α := detAux M.length M

/-- `M.T @ w` -/
def tMulVec (M : List (List α)) (w : List α) : List α :=
  (List.range w.length).map (fun i => sum ((List.range M.length).map (fun j => (M.getD j []).getD i 0 * w.getD j 0)))

/-- `M @ w` -/
def mulVec (M : List (List α)) (w : List α) : List α := M.map (fun row => dot row w)

/-! ### `itertools.permutations(range(N))` (lexicographic) -/

def permsAux : Nat → List Nat → List (List Nat)
  | 0, _ => [[]]
  | n + 1, l => l.flatMap (fun x => (permsAux n (l.erase x)).map (x :: ·))

def perms (N : Nat) : List (List Nat) := permsAux N (List.range N)

/-! ### `_sort_vectors` -/

/-- `prod_k |det(reference with row perm[k] replaced by vecs[k])|` -/
def permScore (ref vecs : List (List α)) (perm : List Nat) : α :=
  (List.range ref.length).foldl (fun acc k =>
    acc * absS (det (ref.set (perm.getD k 0) (vecs.getD k [])))) 1

/-- the loop `for perm in perms: if current_score > best_score: ...` with `best_score = 0` at entry;
    `prev` is the value `best_perm` still holds from the previous timeslice (Python keeps it) -/
def bestPerm (score : List Nat → α) (ps : List (List Nat)) (prev : Option (List Nat)) : Option (List Nat) :=
  (ps.foldl (fun (st : α × Option (List Nat)) p =>
    if st.1 < score p then (score p, some p) else st) ((0 : α), prev)).2

/-- `[vec_set_in[t][best_perm.index(s)] for s in range(N)]` -/
def applyPerm {β : Type} (vecs : List β) (perm : List Nat) : List (Option β) :=
  (List.range perm.length).map (fun s => vecs[perm.idxOf s]?)

inductive GErr
  | valueError (msg : String)
  | attributeError
  | typeError
  | linAlgError
  | indexError
  | unboundLocal
  deriving Repr, DecidableEq

/-- `_sort_vectors(vec_set, ts)`: every defined timeslice other than `ts` is re-ordered by the
    permutation with the largest score against the reference `vec_set[ts]` -/
def sortVectorsAux (ref : List (List α)) (ts : Nat) :
    Nat → List (Option (List (List α))) → Option (List Nat) → Except GErr (List (Option (List (List α))))
  | _, [], _ => .ok []
  | t, none :: rest, prev => do
    let r ← sortVectorsAux ref ts (t + 1) rest prev
    pure (none :: r)
  | t, some vs :: rest, prev =>
    if t == ts then do
      let r ← sortVectorsAux ref ts (t + 1) rest prev
      pure (some vs :: r)
    else
      match bestPerm (permScore ref vs) (perms ref.length) prev with
      | none => .error .unboundLocal
      | some bp => do
        let r ← sortVectorsAux ref ts (t + 1) rest (some bp)
        pure (some ((applyPerm vs bp).map (fun o => o.getD [])) :: r)

def sortVectors (vecSet : List (Option (List (List α)))) (ts : Nat) :
    Except GErr (List (Option (List (List α)))) :=
  if ts ≥ vecSet.length then .error .indexError else
  match vecSet.getD ts none with
  | none => .error .typeError
  | some ref => sortVectorsAux ref ts 0 vecSet none

/-! ### `_GEVP_solver` given LAPACK's ascending eigenvectors -/

/-- `eigh(Gt, G0)[1].T[::-1]` resp. `np.flip(chol_inv.T @ ev, axis=1).T`: largest eigenvalue first -/
def solverOut (cholInv : Option (List (List α))) (asc : List (List α)) : List (List α) :=
  match cholInv with
  | none => asc.reverse
  | some Li => (asc.map (tMulVec Li)).reverse

/-! ### `Corr.GEVP` -/

inductive SortMode | eigenvalue | eigenvector | none | unknown
  deriving Repr, DecidableEq

structure GevpIn (α : Type) where
  N : Nat
  T : Nat
  t0 : Nat
  ts : Option Nat
  sort : SortMode
  /-- method == 'cholesky' -/
  cholesky : Bool
  /-- which timeslices are defined -/
  defined : List Bool
  /-- G(t0) is positive definite (np.linalg.cholesky succeeds) -/
  pd : Bool
  /-- inverse Cholesky factor of G(t0) (oracle), used by the Cholesky route -/
  cholInv : List (List α)
  /-- ascending eigenvectors per timeslice (oracle), `none` = the solver raises -/
  asc : List (Option (List (List α)))

inductive GevpOut (α : Type)
  /-- sort=None: one vector per state -/
  | single (vs : List (List α))
  /-- per state the list over all timeslices -/
  | perT (vs : List (List (Option (List α))))

def GevpIn.isDef (g : GevpIn α) (t : Nat) : Bool := g.defined.getD t false

def GevpIn.solve (g : GevpIn α) (t : Nat) : Option (List (List α)) :=
  if !g.isDef t then none else
  (g.asc.getD t none).map (solverOut (if g.cholesky then some g.cholInv else none))

/-- the list `all_vecs`: `[None] * (t0 + 1)` followed by the solver output (or None) for t0 < t < T -/
def GevpIn.allVecs (g : GevpIn α) : List (Option (List (List α))) :=
  (List.range g.T).map (fun t => if t ≤ g.t0 then none else g.solve t)

/-- `[[v[s] if v is not None else None for v in all_vecs] for s in range(N)]` -/
def reorder (N : Nat) (allVecs : List (Option (List (List α)))) : List (List (Option (List α))) :=
  (List.range N).map (fun s => allVecs.map (fun v => v.bind (fun vs => vs[s]?)))

def gevp (g : GevpIn α) : Except GErr (GevpOut α) := do
  if g.N == 1 then throw (.valueError "GEVP methods only works on correlator matrices and not single correlators.")
  match g.ts with
  | some ts => if ts ≤ g.t0 then throw (.valueError "ts has to be larger than t0.")
  | none => pure ()
  -- G0 = _get_mat_at_t(t0)
  if g.t0 ≥ g.T then throw .indexError
  if !g.isDef g.t0 then throw .attributeError
  if !g.pd then throw .linAlgError
  match g.sort with
  | .none =>
    match g.ts with
    | none => throw (.valueError "ts is required if sort=None.")
    | some ts =>
      if ts ≥ g.T then throw .indexError
      if !g.isDef ts then throw (.valueError "Corr not defined at t0/ts.")
      match g.solve ts with
      | none => throw .linAlgError
      | some vs => pure (.single vs)
  | .eigenvalue => pure (.perT (reorder g.N g.allVecs))
  | .eigenvector =>
    match g.ts with
    | none => throw (.valueError "ts is required for the Eigenvector sorting method.")
    | some ts =>
      let sorted ← sortVectors g.allVecs ts
      pure (.perT (reorder g.N sorted))
  | .unknown => throw (.valueError "Unknown value for 'sort'. Choose 'Eigenvalue', 'Eigenvector' or None.")

/-! ### `Corr.projected` on central values -/

/-- `vector_l.T @ item @ vector_r` -/
def bilin (vl : List α) (M : List (List α)) (vr : List α) : α := dot vl (mulVec M vr)

/-- one vector for all timeslices -/
def projectedFixed (content : List (Option (List (List α)))) (v : List α) : List (Option α) :=
  content.map (fun c => c.map (fun M => bilin v M v))

/-- a list of vectors, one per timeslice (undefined where the vector or the slice is undefined) -/
def projectedList (content : List (Option (List (List α)))) (vs : List (Option (List α))) : List (Option α) :=
  (List.range content.length).map (fun t =>
    match content.getD t none, vs.getD t none with
    | some M, some v => some (bilin v M v)
    | _, _ => none)

/-! ### matrix pencil: `hankel(data[:n-p], data[n-p-1:])`, `y1 = [:, :p]`, `y2 = [:, 1:]` -/

/-- `scipy.linalg.hankel(c, r)[i][j]`: `c[i+j]` while `i + j < len(c)`, then `r[i + j - len(c) + 1]` -/
def hankelPy (c r : List α) : List (List α) :=
  (List.range c.length).map (fun i => (List.range r.length).map (fun j =>
    if i + j < c.length then c.getD (i + j) 0 else r.getD (i + j + 1 - c.length) 0))

def pencil (y : List α) (p : Nat) : List (List α) × List (List α) :=
  let n := y.length
  let H := hankelPy (y.take (n - p)) (y.drop (n - p - 1))
  (H.map (fun row => row.take p), H.map (fun row => row.drop 1))

end PV
