/-
  PV.Model.Text — line-oriented measurement files (sfcf separate / appended layouts,
  pyerrors/input/sfcf.py `_read_o_file` 430-447, `_read_chunk` 590-605): the file is read with
  `readlines()`, and the T data lines of a correlator block that starts at line `start` are used only
  if at least one more line follows them ("EOF before end of correlator data" otherwise).
-/

namespace PV.Text

/-- `readlines()`: pieces that end with (and include) the newline, plus a non-empty unterminated rest.
    `cur` is the current piece, reversed. -/
def rl : List Char → List Char → List (List Char)
  | cur, [] => if cur.isEmpty then [] else [cur.reverse]
  | cur, c :: s => if c = '\n' then (c :: cur).reverse :: rl [] s else rl (c :: cur) s

def readlines (s : List Char) : List (List Char) := rl [] s

/-- the T data lines from line `start`, refused unless one more line follows them -/
def readBlock (lines : List (List Char)) (start T : Nat) : Option (List (List Char)) :=
  if start + T + 1 > lines.length then none else some ((lines.drop start).take T)

end PV.Text
