/-
  PV.Model.Gls — the closed-form generalised least-squares estimator in exact rational arithmetic,
  certificate style: a Gauss-Jordan elimination proposes a solution and the solution is only returned
  after the defining equations have been checked exactly.  So nothing about the elimination has to be
  trusted or proved: whatever `solveChecked` returns satisfies `A x = b` (PV/Props/C07.lean).

  `gls A W y` returns the estimator p̂ and the sensitivity matrix S with
      (Aᵀ W A) p̂ = Aᵀ W y          and          (Aᵀ W A) S = Aᵀ W ,
  i.e. p̂ = S y: the map every linear fit of pyerrors has to reproduce in central value (p̂) and in every
  fluctuation and covariance-input gradient (rows of S applied to the data's fluctuations).
-/

namespace PV.Gls

abbrev Mat := List (List Rat)

def transpose (A : Mat) : Mat :=
  match A with
  | [] => []
  | r :: _ => (List.range r.length).map (fun j => A.map (fun row => row.getD j 0))

def dotR (a b : List Rat) : Rat := (List.zipWith (· * ·) a b).foldl (· + ·) 0

def mulVec (A : Mat) (x : List Rat) : List Rat := A.map (fun row => dotR row x)

def matMul (A B : Mat) : Mat :=
  let Bt := transpose B
  A.map (fun row => Bt.map (fun col => dotR row col))

def swapRows (rows : Mat) (i j : Nat) : Mat :=
  if i == j then rows else
  let ri := rows.getD i []
  let rj := rows.getD j []
  (rows.set i rj).set j ri

/-- Gauss-Jordan on the augmented rows `[A | b]` with `n` unknowns; `none` when a pivot is missing -/
def gaussJordan (n : Nat) (rows : Mat) : Option Mat :=
  (List.range n).foldlM (fun (rows : Mat) c =>
    match (rows.drop c).findIdx? (fun r => r.getD c 0 != 0) with
    | none => none
    | some k =>
      let rows := swapRows rows c (c + k)
      let p := rows.getD c []
      let piv := p.getD c 0
      let pn := p.map (· / piv)
      some ((List.zip (List.range rows.length) rows).map (fun (i, r) =>
        if i == c then pn else
          let f := r.getD c 0
          List.zipWith (fun a b => a - f * b) r pn))) rows

/-- a candidate solution of the square system `A x = b` -/
def gaussSolve (A : Mat) (b : List Rat) : Option (List Rat) :=
  let n := A.length
  let aug := List.zipWith (fun row bi => row ++ [bi]) A b
  (gaussJordan n aug).map (fun rows => rows.map (fun r => r.getD n 0))

/-- the candidate, returned only if it solves the system exactly -/
def solveChecked (A : Mat) (b : List Rat) : Option (List Rat) :=
  match gaussSolve A b with
  | none => none
  | some x => if x.length == A.length && mulVec A x == b then some x else none

/-- normal matrix `Aᵀ W A` and the matrix `Aᵀ W` -/
def normalMat (A W : Mat) : Mat := matMul (matMul (transpose A) W) A
def atw (A W : Mat) : Mat := matMul (transpose A) W

/-- estimator and sensitivities; `none` when the normal matrix is singular -/
def gls (A W : Mat) (y : List Rat) : Option (List Rat × Mat) :=
  let N := normalMat A W
  let B := atw A W
  match solveChecked N (mulVec B y) with
  | none => none
  | some p =>
    -- one checked solve per data point: column k of S solves N s = (Aᵀ W) e_k
    match (transpose B).mapM (fun col => solveChecked N col) with
    | none => none
    | some cols => some (p, transpose cols)

/-- chi-square `rᵀ W r` at `p` -/
def chisq (A W : Mat) (y p : List Rat) : Rat :=
  let r := List.zipWith (· - ·) y (mulVec A p)
  dotR r (mulVec W r)

/-- implicit-function sensitivities: the matrix `X` with `H X + M = 0`, column by column, each column returned
    only after the equation has been checked exactly; `none` when `H` is singular -/
def iftSens (H M : Mat) : Option Mat :=
  match (transpose M).mapM (fun col => solveChecked H (col.map (fun v => -v))) with
  | none => none
  | some cols => some (transpose cols)

end PV.Gls

namespace PV.Gls

/-! ### assembling the linear problem of a (combined) fit: `least_squares` stacks the data sets in the order
    `key_ls = sorted(keys)` whatever the order of the dictionaries, and appends one row per Gaussian prior -/

/-- the points of one key of a combined fit: design rows (basis functions at the abscissas), values, errors -/
structure Block where
  key : String
  rows : Mat
  y : List Rat
  dy : List Rat
  deriving Repr

/-- diagonal matrix -/
def diag (d : List Rat) : Mat :=
  (List.zip (List.range d.length) d).map (fun (i, v) => (List.range d.length).map (fun j => if i == j then v else 0))

/-- insertion sort by key (stable), as `sorted()` on the key list -/
def insertByKey (b : Block) : List Block → List Block
  | [] => [b]
  | c :: cs => if b.key ≤ c.key then b :: c :: cs else c :: insertByKey b cs

def sortBlocks (bs : List Block) : List Block := bs.foldl (fun acc b => insertByKey b acc) []

/-- unit row `e_i` of length `npar` -/
def unitRow (npar i : Nat) : List Rat := (List.range npar).map (fun j => if j == i then 1 else 0)

/-- design matrix, weights (inverse squared errors; prior rows with `1/dp²`) and data vector of an uncorrelated fit
    with priors `(parameter index, value, width)` -/
def assemble (bs : List Block) (npar : Nat) (priors : List (Nat × Rat × Rat)) : Mat × Mat × List Rat :=
  let s := sortBlocks bs
  let A := s.flatMap (·.rows) ++ priors.map (fun p => unitRow npar p.1)
  let y := s.flatMap (·.y) ++ priors.map (fun p => p.2.1)
  let w := (s.flatMap (·.dy)).map (fun e => 1 / (e * e)) ++ priors.map (fun p => 1 / (p.2.2 * p.2.2))
  (A, diag w, y)

/-- the fit: assemble, then the checked closed form -/
def fitLinear (bs : List Block) (npar : Nat) (priors : List (Nat × Rat × Rat)) : Option (List Rat × Mat × Rat) :=
  let (A, W, y) := assemble bs npar priors
  match gls A W y with
  | none => none
  | some (p, S) => some (p, S, chisq A W y p)

end PV.Gls
