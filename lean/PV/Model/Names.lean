/-
  PV.Model.Names — `sort_names` (pyerrors/input/utils.py 8-52): replica / file names are ordered by the
  number after `id` and then (stably) by the number after `r`; when neither pattern is present in every
  name, by the first number behind the common prefix.  The regular expressions `r(\d+)`, `id(\d+)` and
  `\d+` are modelled on ASCII names (first match, maximal digit run).
-/
import PV.Py

namespace PV.Names

def takeDigits (l : List Char) : List Char := l.takeWhile Char.isDigit

/-- `re.search(lit + r'(\d+)', s)`: the digit run behind the first occurrence of `lit` that is followed
    by a digit -/
def searchLitDigits (lit : List Char) : List Char → Option (List Char)
  | [] => none
  | c :: cs =>
    let s := c :: cs
    if lit.isPrefixOf s && ((s.drop lit.length).head?.map Char.isDigit).getD false
    then some (takeDigits (s.drop lit.length))
    else searchLitDigits lit cs

/-- `int(digits)` -/
def digitsToNat (ds : List Char) : Nat := ds.foldl (fun a c => 10 * a + (c.toNat - 48)) 0

def litKey (lit : String) (s : String) : Option Nat :=
  (searchLitDigits lit.toList s.toList).map digitsToNat

def idKey (s : String) : Option Nat := litKey "id" s
def rKey (s : String) : Option Nat := litKey "r" s

/-- stable `list.sort(key=k)` -/
def sortByKey {β : Type} (k : β → Nat) (l : List β) : List β :=
  Py.sortBy (fun a b => k a ≤ k b) l

inductive SErr | indexError
  deriving Repr, DecidableEq

/-- the prefix loop of the fallback: `sames` grows while the LAST other name agrees with the first at
    position `i` (the inner loop overwrites `is_same`); an other name shorter than `i+1` raises -/
def samesLoop (first : List Char) (others : List (List Char)) : Nat → Nat → List Char → Except SErr (List Char)
  | 0, _, acc => .ok acc.reverse
  | fuel + 1, i, acc =>
    match first[i]? with
    | none => .ok acc.reverse
    | some ch =>
      if others.any (fun rn => rn.length ≤ i) then .error .indexError
      else
        let isSame := match others.getLast? with
          | some rn => rn[i]? == some ch
          | none => false
        if isSame then samesLoop first others fuel (i + 1) (ch :: acc) else .ok acc.reverse

/-- `int(re.findall(r'\d+', x[len(sames):])[0])` -/
def fallbackKey (plen : Nat) (s : String) : Option Nat :=
  (searchLitDigits [] (s.toList.drop plen)).map digitsToNat

/-- `if all(id): ll.sort(key=id)` -/
def stage1 (ll : List String) : List String :=
  if ll.all (fun s => (idKey s).isSome) then sortByKey (fun s => (idKey s).getD 0) ll else ll

/-- `if all(r): ll.sort(key=r)` (stable) -/
def stage2 (l1 : List String) : List String :=
  if l1.all (fun s => (rKey s).isSome) then sortByKey (fun s => (rKey s).getD 0) l1 else l1

/-- the fallback: order by the first number behind the common prefix -/
def fallback (ll : List String) : Except SErr (List String) :=
  match ll with
  | [] => .ok ll
  | first :: rest =>
    match samesLoop first.toList (rest.map String.toList) first.length 0 [] with
    | .error e => .error e
    | .ok sames =>
      if ll.any (fun s => (fallbackKey sames.length s).isNone) then .error .indexError
      else .ok (sortByKey (fun s => (fallbackKey sames.length s).getD 0) ll)

def sortNames (ll : List String) : Except SErr (List String) :=
  if ll.length ≤ 1 then .ok ll else
  if ll.all (fun s => (idKey s).isSome) || (stage1 ll).all (fun s => (rKey s).isSome)
  then .ok (stage2 (stage1 ll)) else fallback ll

end PV.Names

namespace PV.Names

/-- how the replica-file readers (read_rwms, the gradient-flow readers; since fix 74a17bd) put an observable together: every file
    contributes (name derived from the file name, its data); the `Obs` constructor then sorts chains by name, data attached -/
def assembleByFile {δ : Type} (nameOf : String → String) (files : List (String × δ)) : List (String × δ) :=
  Py.sortBy (fun a b => decide (a.1 ≤ b.1)) (files.map (fun f => (nameOf f.1, f.2)))

/-- the assembly before the fix: the names were sorted on their own and then zipped with the data in file order -/
def assembleNamesSortedApart {δ : Type} (nameOf : String → String) (files : List (String × δ)) : List (String × δ) :=
  List.zip (Py.sortBy (fun a b => decide (a ≤ b)) (files.map (fun f => nameOf f.1))) (files.map (·.2))

end PV.Names
