/-
  PV.Model.Corr — correlators: a list of timeslices, each undefined (`none`) or an N×N matrix
  of cells (N = 1 for a single-valued correlator).  Mirrors pyerrors/correlators.py:
  arithmetic 1087-1357, index transformations 154-300 / 421-492, derivatives 576-702,
  effective mass 704-790, plateau 813-850.
  The cell type `β` is abstract (observables, complex observables, numbers); the driver runs
  the model on central values (`β := Float`), the theorems hold for every `β`.
-/
import PV.Scalar
import PV.Py

namespace PV
open Scalar

abbrev Mat (β : Type) := List (List β)

structure Corr (β : Type) where
  content : List (Option (Mat β))
  N : Nat
  prange : Option (Nat × Nat) := none
  deriving Repr

namespace Corr
variable {β : Type}

def T (c : Corr β) : Nat := c.content.length

/-- `Corr(newcontent, padding=[a, b], prange=...)` for single-valued content -/
def ofCells (cells : List (Option β)) (padL padR : Nat := 0) (prange : Option (Nat × Nat) := none) : Corr β :=
  { content := List.replicate padL none ++ cells.map (·.map (fun x => [[x]])) ++ List.replicate padR none,
    N := 1, prange := prange }

/-- entry of a single-valued correlator at timeslice `t` -/
def cell? (c : Corr β) (t : Nat) : Option β :=
  match c.content.getD t none with
  | some [[x]] => some x
  | _ => none

def mapM? (f : β → Option β) (m : Mat β) : Option (Mat β) := m.mapM (·.mapM f)

/-- the NaN pass of `__truediv__` / `_apply_func_to_corr`: a slice whose *sum* is NaN becomes undefined -/
def nanToNone [Scalar β] (m : Option (Mat β)) : Option (Mat β) :=
  match m with
  | none => none
  | some mm => if Scalar.isNaN (Scalar.sum (mm.map Scalar.sum)) then none else some mm

inductive CErr | shape | allNone | divZero | unsupported | oddT | needN1 | needMatrix | unknownVariant | noRange
  deriving Repr, BEq, DecidableEq

/-- element-wise on matrices of equal shape; `N = 1` operands broadcast like numpy -/
def matZip (f : β → β → β) (a b : Mat β) : Mat β :=
  match a, b with
  | [[x]], _ => b.map (·.map (f x))
  | _, [[y]] => a.map (·.map (fun x => f x y))
  | _, _ => List.zipWith (List.zipWith f) a b

/-- `Corr ⊙ Corr` timeslice-wise (the shape checks differ between `+` and `*`,`/`) -/
def zipCorr (f : β → β → β) (a b : Corr β) : List (Option (Mat β)) :=
  List.zipWith (fun x y => match x, y with
    | some u, some v => some (matZip f u v)
    | _, _ => none) a.content b.content

def add [Add β] (a b : Corr β) : Except CErr (Corr β) :=
  if a.N != b.N || a.T != b.T then .error .shape
  else .ok { content := zipCorr (· + ·) a b, N := a.N }

def mul [Mul β] (a b : Corr β) : Except CErr (Corr β) :=
  if !((a.N == 1 || b.N == 1 || a.N == b.N) && a.T == b.T) then .error .shape
  else .ok { content := zipCorr (· * ·) a b, N := max a.N b.N }

def div [Scalar β] (a b : Corr β) : Except CErr (Corr β) :=
  if !((a.N == 1 || b.N == 1 || a.N == b.N) && a.T == b.T) then .error .shape
  else
    let c := (zipCorr (· / ·) a b).map nanToNone
    if c.all (·.isNone) then .error .allNone else .ok { content := c, N := max a.N b.N }

/-- `Corr(<N x N array of single-valued correlators>)` (correlators.py 64-88): refused unless the array is square, every entry
    is single-valued and all have the same number of timeslices; timeslice `t` of the result is defined exactly where EVERY entry
    is defined, and then holds the matrix of the entries' cells -/
def ofMatrix (cs : List (List (Corr β))) : Except CErr (Corr β) :=
  let n := cs.length
  if cs.any (·.length != n) then .error .shape
  else if cs.flatten.any (·.N != 1) then .error .needN1
  else match cs.flatten with
    | [] => .error .shape
    | c0 :: _ =>
      if cs.flatten.any (·.T != c0.T) then .error .shape
      else .ok { content := (List.range c0.T).map (fun t => cs.mapM (·.mapM (·.cell? t))), N := n }

/-- `Corr ⊙ scalar` (Obs, CObs, int, float): every defined slice, `prange` kept -/
def mapCells (f : β → β) (a : Corr β) : Corr β :=
  { content := a.content.map (·.map (·.map (·.map f))), N := a.N, prange := a.prange }

/-- `_apply_func_to_corr(func)`: apply, NaN pass, all-undefined raises; `prange` dropped -/
def applyFunc [Scalar β] (f : β → β) (a : Corr β) : Except CErr (Corr β) :=
  let c := (a.content.map (·.map (·.map (·.map f)))).map nanToNone
  if c.all (·.isNone) then .error .allNone else .ok { content := c, N := a.N }

/-! ### index transformations -/

/-- `np.roll(content, dt)` -/
def roll (a : Corr β) (dt : Int) : Corr β := { content := Py.roll a.content dt, N := a.N }

def reverse (a : Corr β) : Corr β := { content := a.content.reverse, N := a.N }

/-- `thin(spacing, offset)`: keep slices with `(offset + t) % spacing == 0` -/
def thin (a : Corr β) (spacing : Nat) (offset : Int) : Corr β :=
  { content := (List.zip (List.range a.T) a.content).map (fun (t, x) =>
      if Py.fmod (offset + t) spacing != 0 then none else x), N := a.N }

/-- `symmetric()` / `anti_symmetric()` (sign = +1 / -1): slice 0 kept, slice t ↦ ½(C(t) ± C(T-t)) -/
def symmetrize [Scalar β] (sign : β) (half : β) (a : Corr β) : Except CErr (Corr β) :=
  if a.N != 1 then .error .needN1
  else if a.T % 2 != 0 then .error .oddT
  else
    let c := (List.range a.T).map (fun t =>
      if t == 0 then a.content.getD 0 none
      else match a.cell? t, a.cell? (a.T - t) with
        | some x, some y => some [[half * (x + sign * y)]]
        | _, _ => none)
    if c.all (·.isNone) then .error .allNone else .ok { content := c, N := 1, prange := a.prange }

/-- `item(i, j)` -/
def item (a : Corr β) (i j : Nat) : Except CErr (Corr β) :=
  if a.N == 1 then .error .needMatrix
  else .ok { content := a.content.map (fun m => match m with
      | none => none
      | some mm => match (mm.getD i [])[j]? with | some x => some [[x]] | none => none), N := 1 }

/-- `trace()` -/
def trace [Scalar β] (a : Corr β) : Except CErr (Corr β) :=
  if a.N == 1 then .error .needMatrix
  else .ok { content := a.content.map (·.map (fun mm =>
      [[Scalar.sum ((List.range a.N).map (fun i => (mm.getD i []).getD i 0))]])), N := 1 }

def transpose (m : Mat β) [Inhabited β] : Mat β :=
  (List.range m.length).map (fun j => m.map (fun r => r.getD j default))

/-- `Hankel(N, periodic)` of a single-valued correlator -/
def hankel (a : Corr β) (n : Nat) (periodic : Bool) : Except CErr (Corr β) :=
  if a.N != 1 then .error .needN1
  else .ok { content := (List.range a.T).map (fun t =>
      if periodic then
        ((List.range n).mapM (fun i => (List.range n).mapM (fun j => a.cell? ((t + i + j) % a.T))))
      else if t + 2 * (n - 1) ≥ a.T && n > 0 then none
      else (List.range n).mapM (fun i => (List.range n).mapM (fun j => a.cell? (t + i + j)))), N := n }

/-! ### derivatives, effective mass, plateau (single-valued correlators) -/

variable [Elem β]

/-- window helper: `out[k] = f (t)` for `t = lo + k`, `k < n`, then padded -/
def build (_T lo n padL padR : Nat) (f : Nat → Option β) : Except CErr (Corr β) :=
  let cells := (List.range n).map (fun k => f (lo + k))
  if cells.all (·.isNone) then .error .allNone
  else .ok (ofCells cells padL padR)

def half' : β := 1 / 2

/-- `deriv(variant)` -/
def deriv (a : Corr β) (variant : String) : Except CErr (Corr β) :=
  if a.N != 1 then .error .needN1 else
  let c := a.cell?
  let T := a.T
  match variant with
  | "symmetric" => build T 1 (T - 2) 1 1 (fun t => do
      let m ← c (t - 1); let p ← c (t + 1); pure ((1 / 2 : β) * (p - m)))
  | "forward" => build T 0 (T - 1) 0 1 (fun t => do let x ← c t; let p ← c (t + 1); pure (p - x))
  | "backward" => build T 1 (T - 1) 1 0 (fun t => do let m ← c (t - 1); let x ← c t; pure (x - m))
  | "improved" => build T 2 (T - 4) 2 2 (fun t => do
      let m2 ← c (t - 2); let m1 ← c (t - 1); let p1 ← c (t + 1); let p2 ← c (t + 2)
      pure ((1 / 12 : β) * (m2 - 8 * m1 + 8 * p1 - p2)))
  | "log" => do
      -- logcorr: log of the positive slices; self * logcorr.deriv('symmetric')
      let lc : Nat → Option β := fun t => do let x ← c t; if x ≤ 0 then none else pure (Transc.log x)
      if (List.range T).all (fun t => (lc t).isNone) then throw .allNone
      let d ← build T 1 (T - 2) 1 1 (fun t => do let m ← lc (t - 1); let p ← lc (t + 1); pure ((1 / 2 : β) * (p - m)))
      pure { content := (List.range T).map (fun t => match c t, d.cell? t with
          | some x, some y => some [[x * y]] | _, _ => none), N := 1 }
  | _ => .error .unknownVariant

/-- `second_deriv(variant)` (after the fix that tests the central slice) -/
def secondDeriv (a : Corr β) (variant : String) : Except CErr (Corr β) :=
  if a.N != 1 then .error .needN1 else
  let c := a.cell?
  let T := a.T
  match variant with
  | "symmetric" => build T 1 (T - 2) 1 1 (fun t => do
      let m ← c (t - 1); let x ← c t; let p ← c (t + 1); pure (p - 2 * x + m))
  | "big_symmetric" => build T 2 (T - 4) 2 2 (fun t => do
      let m ← c (t - 2); let x ← c t; let p ← c (t + 2); pure ((p - 2 * x + m) / 4))
  | "improved" => build T 2 (T - 4) 2 2 (fun t => do
      let m2 ← c (t - 2); let m1 ← c (t - 1); let x ← c t; let p1 ← c (t + 1); let p2 ← c (t + 2)
      pure ((1 / 12 : β) * (-p2 + 16 * p1 - 30 * x + 16 * m1 - m2)))
  | "log" => do
      let lc : Nat → Option β := fun t => do let x ← c t; if x ≤ 0 then none else pure (Transc.log x)
      if (List.range T).all (fun t => (lc t).isNone) then throw .allNone
      let d2 ← build T 1 (T - 2) 1 1 (fun t => do
        let m ← lc (t - 1); let x ← lc t; let p ← lc (t + 1); pure (p - 2 * x + m))
      let d1 ← build T 1 (T - 2) 1 1 (fun t => do let m ← lc (t - 1); let p ← lc (t + 1); pure ((1 / 2 : β) * (p - m)))
      pure { content := (List.range T).map (fun t => match c t, d2.cell? t, d1.cell? t with
          | some x, some y, some z => some [[x * (y + Elem.pow z 2)]] | _, _, _ => none), N := 1 }
  | _ => .error .unknownVariant

/-- `m_eff(variant)` for the closed-form variants; the root-finding variants take the solver as a
    parameter `root t ratio` -/
def mEff (a : Corr β) (variant : String) (root : Nat → β → β) : Except CErr (Corr β) :=
  if a.N != 1 then .error .needN1 else
  let c := a.cell?
  let T := a.T
  match variant with
  | "log" => do
      let r ← build T 0 (T - 1) 0 1 (fun t => do
        let x ← c t; let p ← c (t + 1)
        if Scalar.isZero p then none else if x / p < 0 then none else pure (x / p))
      -- `np.log(Corr)`: `_check_for_none` only (no NaN pass for log)
      pure (r.mapCells Transc.log)
  | "logsym" => do
      let r ← build T 1 (T - 2) 1 1 (fun t => do
        let m ← c (t - 1); let p ← c (t + 1)
        if Scalar.isZero p then none else if m / p < 0 then none else pure (m / p))
      pure ((r.mapCells Transc.log).mapCells (· / 2))
  | "arccosh" => do
      let r ← build T 1 (T - 2) 1 1 (fun t => do
        let m ← c (t - 1); let x ← c t; let p ← c (t + 1)
        if Scalar.isZero x then none else pure ((p + m) / (2 * x)))
      match applyFunc Elem.arccosh r with
      | .ok r => pure r
      | .error e => throw e
  | "cosh" | "periodic" =>
      build T 0 (T - 1) 0 1 (fun t => do
        let x ← c t; let p ← c (t + 1)
        if Scalar.isZero p then none else if x / p < 0 then none else pure (absS (root t (x / p))))
  | _ => .error .unknownVariant

/-- `plateau(range, method='avg')`: mean of the defined slices in the inclusive range -/
def plateauAvg (a : Corr β) (lo hi : Nat) : Except CErr β :=
  if a.N != 1 then .error .needN1 else
  let xs := ((List.range (hi + 1 - lo)).filterMap (fun k => a.cell? (lo + k)))
  if xs.isEmpty then .error .allNone else .ok (Scalar.sum xs / ofNatS xs.length)

end Corr
end PV
