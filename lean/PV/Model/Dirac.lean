/-
  PV.Model.Dirac — Gaussian-integer 4×4 matrices and the small expression languages the
  translator of dirac.py / special.py emits into.
-/
namespace PV

/-- matrix of Gaussian integers (re, im), row major -/
abbrev GMat := List (List (Int × Int))

namespace GMat
def cadd (a b : Int × Int) : Int × Int := (a.1 + b.1, a.2 + b.2)
def csub (a b : Int × Int) : Int × Int := (a.1 - b.1, a.2 - b.2)
def cmul (a b : Int × Int) : Int × Int := (a.1 * b.1 - a.2 * b.2, a.1 * b.2 + a.2 * b.1)
def conj (a : Int × Int) : Int × Int := (a.1, -a.2)

def col (m : GMat) (j : Nat) : List (Int × Int) := m.map (fun r => r.getD j (0, 0))
def mul (a b : GMat) : GMat :=
  a.map (fun r => (List.range 4).map (fun j =>
    (List.zipWith cmul r (col b j)).foldl cadd (0, 0)))
def add (a b : GMat) : GMat := List.zipWith (List.zipWith cadd) a b
def sub (a b : GMat) : GMat := List.zipWith (List.zipWith csub) a b
def smul (c : Int) (a : GMat) : GMat := a.map (·.map (fun e => (c * e.1, c * e.2)))
def dagger (a : GMat) : GMat := (List.range 4).map (fun j => (col a j).map conj)
def one : GMat := (List.range 4).map (fun i => (List.range 4).map (fun j => if i = j then (1, 0) else (0, 0)))
def zero : GMat := (List.range 4).map (fun _ => (List.range 4).map (fun _ => (0, 0)))
/-- entrywise halving; exact only when every entry is even (`allEven`) -/
def half (a : GMat) : GMat := a.map (·.map (fun e => (e.1 / 2, e.2 / 2)))
def allEven (a : GMat) : Bool := a.all (·.all (fun e => e.1 % 2 == 0 && e.2 % 2 == 0))
end GMat

/-- right-hand sides of the `Grid_gamma` branches -/
inductive GExpr where
  | one | g5 | g (i : Nat)
  | mul (a b : GExpr) | sub (a b : GExpr) | half (a : GExpr)
  deriving Repr, BEq, DecidableEq

def GExpr.eval (gam : List GMat) (g5 one : GMat) : GExpr → GMat
  | .one => one
  | .g5 => g5
  | .g i => gam.getD i []
  | .mul a b => GMat.mul (a.eval gam g5 one) (b.eval gam g5 one)
  | .sub a b => GMat.sub (a.eval gam g5 one) (b.eval gam g5 one)
  | .half a => GMat.half (a.eval gam g5 one)

/-- every `half` is applied to an all-even matrix (so `half` is exact) -/
def GExpr.halfExact (gam : List GMat) (g5 one : GMat) : GExpr → Bool
  | .mul a b => a.halfExact gam g5 one && b.halfExact gam g5 one
  | .sub a b => a.halfExact gam g5 one && b.halfExact gam g5 one
  | .half a => a.halfExact gam g5 one && GMat.allEven (a.eval gam g5 one)
  | _ => true

/-- body of the `kn` vjp: a term over the upstream gradient g, the constant 1/2 and three
    Bessel functions of neighbouring order -/
inductive KTerm where
  | g | half | kAbsNm1 | kNm1 | kNp1
  | neg (a : KTerm) | mul (a b : KTerm) | add (a b : KTerm)
  deriving Repr, BEq, DecidableEq

/-- permutation sign of a tuple: 0 when two entries coincide, else (-1)^(number of inversions) -/
def permSign (l : List Int) : Int :=
  let rec inv : List Int → Nat
    | [] => 0
    | x :: r => (r.filter (· < x)).length + inv r
  let rec distinct : List Int → Bool
    | [] => true
    | x :: r => !(r.contains x) && distinct r
  if distinct l then (if inv l % 2 == 0 then 1 else -1) else 0

end PV
