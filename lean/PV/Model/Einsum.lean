/-
  PV.Model.Einsum — the subscripts `linalg.einsum` hands to numpy: without `->` the output indices are made explicit
  (letters that occur once, alphabetically - numpy's implicit mode) before the jackknife axis is attached.
-/
namespace PV.Einsum

/-- insertion into a sorted list of characters -/
def ins (c : Char) : List Char → List Char
  | [] => [c]
  | d :: ds => if c ≤ d then c :: d :: ds else d :: ins c ds

def sortC : List Char → List Char
  | [] => []
  | c :: cs => ins c (sortC cs)

/-- the letters of the subscripts -/
def letters (s : List Char) : List Char := s.filter Char.isAlpha

/-- `linalg.einsum` without `->`: the output carries the letters that occur exactly once, in alphabetical order
    (numpy's implicit mode) -/
def implicitOut (s : List Char) : List Char :=
  sortC ((letters s).filter (fun c => (letters s).count c == 1))

/-- the subscripts the jackknife axis is attached to: explicit ones as they are, implicit ones completed -/
def complete (s : String) : String :=
  if (s.toList.contains '-') then s else s ++ "->" ++ String.ofList (implicitOut s.toList)

end PV.Einsum
