/-
  PV.Model.JsonRep — the numerical core of the json format (input/json.py): per replica a table
  with rows [config, x_1, ..., x_k] where x_j = δ_j(config) + (r_j − value_j) for the k
  observables of a structure; on reading, r_j − value_j is recovered as the column average.
-/
import PV.Scalar

namespace PV
open Scalar

variable {α : Type} [Scalar α]

/-- `_gen_data_d_from_list`: rows of one replica for k observables given their fluctuations
    (one list per observable), replica means and central values -/
def encodeRep (idl : List Int) (deltas : List (List α)) (rvals vals : List α) : List (Int × List α) :=
  (List.zip idl (List.range idl.length)).map (fun (c, i) =>
    (c, (List.zip deltas (List.zip rvals vals)).map (fun (d, r, v) => d.getD i 0 + (r - v))))

def column (rows : List (Int × List α)) (j : Nat) : List α := rows.map (fun r => r.2.getD j 0)

/-- `get_List_from_dict` for one replica: per observable j the offset (column average), the
    fluctuations (column − offset) and the replica mean (offset + value) -/
def decodeRep (rows : List (Int × List α)) (vals : List α) :
    List Int × List (List α) × List α :=
  let k := vals.length
  let n : α := ofNatS rows.length
  let offs := (List.range k).map (fun j => sum (column rows j) / n)
  (rows.map (·.1),
   (List.zip (List.range k) offs).map (fun (j, o) => (column rows j).map (· - o)),
   List.zipWith (· + ·) offs vals)

end PV
