/-
  PV.Model.Resample — `Obs.export_jackknife`, `import_jackknife`, `Obs.export_bootstrap`
  (obs.py 668-733, 1714-1761) on the per-configuration samples x_k = δ_k + r of a single chain.
-/
import PV.Scalar

namespace PV
open Scalar

variable {α : Type} [Scalar α]

/-- `export_jackknife`: entry 0 the central value, entry i+1 = (n·value − x_i)/(n − 1) -/
def exportJack (value : α) (x : List α) : List α :=
  let n : α := ofNatS x.length
  value :: x.map (fun xi => (n * value - xi) / (n - 1))

/-- `import_jackknife`: samples = jacks[1:] @ (ones − (n−1)·1); returns (value, samples) -/
def importJack (jacks : List α) : α × List α :=
  let js := jacks.drop 1
  let n : α := ofNatS js.length
  let tot := sum js
  (jacks.headD 0, js.map (fun j => tot - (n - 1) * j))

/-- `export_bootstrap` with a table of resampled configuration positions:
    entry b+1 = (Σ_{k ∈ table[b]} x_k)/length -/
def exportBoot (value : α) (x : List α) (table : List (List Nat)) : List α :=
  let n : α := ofNatS x.length
  value :: table.map (fun row => sum (row.map (fun k => x.getD k 0)) / n)

/-- `export_bootstrap(samples, random_numbers=table)` with its request check: the table has the documented
    shape (samples, length) - anything else is refused (a table of another width would be divided by the wrong
    number of configurations, a one-row table broadcast into identical samples) -/
def exportBootChecked (samples : Nat) (value : α) (x : List α) (table : List (List Nat)) : Option (List α) :=
  if table.length == samples && table.all (fun row => row.length == x.length) then
    some (exportBoot value x table)
  else none

def meanL (x : List α) : α := sum x / ofNatS x.length

end PV
