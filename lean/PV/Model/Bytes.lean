/-
  PV.Model.Bytes — binary measurement files as the readers of pyerrors/input/openQCD.py see them:
  a fixed-size header followed by records; `fp.read(n)` returns a possibly short block, and
  `struct.unpack` fails on a block of the wrong length.

  One generic record reader covers `read_rwms` (1.4 / 1.6), the gradient-flow readers
  (`_extract_flowed_energy_density`, `_read_flow_obs` for openQCD and sfqcd) and, with
  `chunked := true`, `read_ms5_xsf`.
-/
namespace PV.Bytes

abbrev B := List UInt8

/-- little-endian signed 32-bit integer (`struct.unpack('i', t)`); `none` when `t` is not 4 bytes -/
def le32 (t : B) : Option Int :=
  match t with
  | [a, b, c, d] =>
    let u : Nat := a.toNat + 256 * b.toNat + 65536 * c.toNat + 16777216 * d.toNat
    some (if u ≥ 2147483648 then (u : Int) - 4294967296 else (u : Int))
  | _ => none

def enc32 (i : Int) : B :=
  let u : Nat := (if i < 0 then i + 4294967296 else i).toNat
  [UInt8.ofNat (u % 256), UInt8.ofNat (u / 256 % 256), UInt8.ofNat (u / 65536 % 256), UInt8.ofNat (u / 16777216 % 256)]

/-- one record: configuration / trajectory number and its payload bytes -/
structure Rec where
  cfg : Int
  payload : B
  deriving Repr, BEq, DecidableEq

inductive RErr | shortPayload (cfg : Int) | shortHeader | badHeader
  deriving Repr, BEq, DecidableEq

/-- the record loop of the stream readers:
      t = fp.read(4); if len(t) < 4: break          -- a cut inside the number ends the file
      cfg = unpack('i', t); payload = fp.read(P)     -- all blocks of the record
      if len(payload) < P: raise                     -- struct.error / explicit length check
    `fuel` bounds the number of iterations (any value ≥ number of bytes suffices). -/
def readRecords (P : Nat) : (fuel : Nat) → B → List Rec → Except RErr (List Rec)
  | 0, _, acc => .ok acc.reverse
  | fuel + 1, bytes, acc =>
    let t := bytes.take 4
    if t.length < 4 then .ok acc.reverse
    else match le32 t with
      | none => .ok acc.reverse
      | some cfg =>
        let rest := bytes.drop 4
        let pl := rest.take P
        if pl.length < P then .error (.shortPayload cfg)
        else readRecords P fuel (rest.drop P) ({ cfg := cfg, payload := pl } :: acc)

/-- the chunked loop of `read_ms5_xsf`:
      chunk = fp.read(4 + P); if not chunk: break; unpack(chunk)  -- raises unless complete -/
def readChunks (P : Nat) : (fuel : Nat) → B → List Rec → Except RErr (List Rec)
  | 0, _, acc => .ok acc.reverse
  | fuel + 1, bytes, acc =>
    let ch := bytes.take (4 + P)
    if ch.length = 0 then .ok acc.reverse
    else if ch.length < 4 + P then .error (.shortPayload 0)
    else match le32 (ch.take 4) with
      | none => .error .badHeader
      | some cfg => readChunks P fuel (bytes.drop (4 + P)) ({ cfg := cfg, payload := ch.drop 4 } :: acc)

def encodeRecords (rs : List Rec) : B := rs.flatMap (fun r => enc32 r.cfg ++ r.payload)

/-- a whole file: header of `H` bytes (its interpretation fixes `P`), then records -/
def readFile (H : Nat) (payloadSize : B → Option Nat) (chunked : Bool) (file : B) : Except RErr (B × List Rec) :=
  let hdr := file.take H
  if hdr.length < H then .error .shortHeader
  else match payloadSize hdr with
    | none => .error .badHeader
    | some P =>
      let body := file.drop H
      match (if chunked then readChunks P (body.length + 1) body [] else readRecords P (body.length + 1) body []) with
      | .ok rs => .ok (hdr, rs)
      | .error e => .error e

/-! ### the integer bookkeeping shared by the readers (configuration numbering and selection) -/

/-- `configlist = [c // diffmeas for c in cfgs]`, shifted so that the first is 1 when it is larger
    (`assume thermalisation`); `diffmeas` is the difference of the last two entries -/
def renumber (cfgs : List Int) (thermal : Bool) : Option (List Int) :=
  match cfgs.reverse with
  | last :: prev :: _ =>
    let diff := last - prev
    if diff == 0 then none else
    let l := cfgs.map (fun c => Int.fdiv c diff)
    match l with
    | [] => none
    | first :: _ => if thermal && first > 1 then some (l.map (· - (first - 1))) else some l
  | _ => none

/-- `l[::step]` counting positions from `n`: every element whose position is a multiple of `step` -/
def everyNth {β : Type} (step : Nat) (n : Nat) (l : List β) : List β :=
  (l.zipIdx n).filterMap (fun (x, k) => if k % step == 0 then some x else none)

/-- `config_no.index(v)` (raises when absent) -/
def indexOf? (cl : List Int) (v : Int) : Option Nat :=
  let k := cl.findIdx (· == v)
  if k < cl.length then some k else none

def startIdx (cl : List Int) (rstart : Option Int) : Option Nat :=
  match rstart with | none => some 0 | some v => indexOf? cl v

def stopIdx (cl : List Int) (rstop : Option Int) : Option Nat :=
  match rstop with | none => some (cl.length - 1) | some v => indexOf? cl v

/-- `l[i0 : i1 + 1][::step]` -/
def pick {β : Type} (i0 i1 step : Nat) (l : List β) : List β :=
  everyNth (max step 1) 0 ((l.take (i1 + 1)).drop i0)

/-- `data[r_start_index : r_stop_index + 1][::r_step]` with indices found by value -/
def select {α} (cl : List Int) (data : List α) (rstart rstop : Option Int) (rstep : Nat) : Option (List Int × List α) :=
  match startIdx cl rstart, stopIdx cl rstop with
  | some i0, some i1 => some (pick i0 i1 rstep cl, pick i0 i1 rstep data)
  | _, _ => none

end PV.Bytes
