/-
  PV.Model.FlowWindow — the selection of the fit points in `fit_t0` (input/misc.py 41-52, the reduction behind
  extract_t0 / extract_w0 / extract_t0_hd5): the zero crossing is `np.argmax(values > 0)`, the fit uses the Python slice
  `[max(zc - fit_range, 0) : zc + fit_range]` of the flow times (since fix 1964c79; before, the start was `zc - fit_range`,
  which Python reads from the END of the list when it is negative).
-/
namespace PV.Flow

/-- Python `l[a:b]` for integer bounds: a negative bound counts from the end, both are clipped to the list -/
def pySlice {α : Type} (l : List α) (a b : Int) : List α :=
  let n : Int := l.length
  let norm (i : Int) : Nat := (if i < 0 then max (i + n) 0 else min i n).toNat
  (l.drop (norm a)).take (norm b - norm a)

/-- `np.argmax(mask)`: position of the first `true`, 0 when there is none -/
def argmaxTrue (mask : List Bool) : Nat :=
  let k := mask.findIdx id
  if k < mask.length then k else 0

/-- the fit window of `fit_t0`: `none` = the exception 'Desired flow time not in data' (zero crossing at position 0) -/
def fitWindow {α : Type} (l : List α) (positive : List Bool) (fitRange : Nat) : Option (List α) :=
  let zc := argmaxTrue positive
  if zc == 0 then none
  else some (pySlice l (max ((zc : Int) - fitRange) 0) ((zc : Int) + fitRange))

/-- the window before the fix -/
def fitWindowUnclipped {α : Type} (l : List α) (positive : List Bool) (fitRange : Nat) : Option (List α) :=
  let zc := argmaxTrue positive
  if zc == 0 then none
  else some (pySlice l ((zc : Int) - fitRange) ((zc : Int) + fitRange))

end PV.Flow
