/-
  PV.Model.History — the state that `gamma_method` calls can see and change:
  the class-level defaults `Obs.S_global / S_dict / tau_exp_global / ...` and, per object,
  the stored analysis.  Mirrors `_parse_kwarg` (obs.py 222-241).
-/
import PV.Model.Gamma

namespace PV
open Scalar

inductive Kw | S | tauExp | nSigma
  deriving Repr, BEq, DecidableEq

structure Globals (α : Type) where
  S : α
  tauExp : α
  nSigma : α
  Sd : List (String × α) := []
  ted : List (String × α) := []
  nsd : List (String × α) := []

variable {α : Type} [Scalar α]

def Globals.default (S te ns : α) : Globals α := { S := S, tauExp := te, nSigma := ns }

def Globals.glob (g : Globals α) : Kw → α
  | .S => g.S | .tauExp => g.tauExp | .nSigma => g.nSigma

def Globals.dict (g : Globals α) : Kw → List (String × α)
  | .S => g.Sd | .tauExp => g.ted | .nSigma => g.nsd

def dictSet (d : List (String × α)) (e : String) (v : α) : List (String × α) :=
  (d.filter (·.1 != e)) ++ [(e, v)]

def dictDel (d : List (String × α)) (e : String) : List (String × α) := d.filter (·.1 != e)

def dictGet? (d : List (String × α)) (e : String) : Option α := (d.find? (·.1 == e)).map (·.2)

def Globals.setGlob (g : Globals α) (k : Kw) (v : α) : Globals α :=
  match k with
  | .S => { g with S := v } | .tauExp => { g with tauExp := v } | .nSigma => { g with nSigma := v }

def Globals.setDict (g : Globals α) (k : Kw) (d : List (String × α)) : Globals α :=
  match k with
  | .S => { g with Sd := d } | .tauExp => { g with ted := d } | .nSigma => { g with nsd := d }

/-- `_parse_kwarg(name)` for one ensemble: explicit argument (rejected when negative) over
    per-ensemble dictionary over global default -/
def effective1 (g : Globals α) (kw : List (Kw × α)) (k : Kw) (e : String) : Except GmErr α :=
  match kw.find? (·.1 == k) with
  | some (_, v) => if v < 0 then .error .negativeParam else .ok v
  | none => match dictGet? (g.dict k) e with
    | some v => .ok v
    | none => .ok (g.glob k)

/-- effective `(S, tau_exp, N_sigma)` for every ensemble of an object -/
def effective (g : Globals α) (kw : List (Kw × α)) (enss : List String) :
    Except GmErr (List (String × α × α × α)) := do
  -- `_parse_kwarg('S'); _parse_kwarg('tau_exp'); _parse_kwarg('N_sigma')`
  let s ← enss.mapM (fun e => effective1 g kw .S e)
  let t ← enss.mapM (fun e => effective1 g kw .tauExp e)
  let n ← enss.mapM (fun e => effective1 g kw .nSigma e)
  pure (List.zip enss (List.zip s (List.zip t n)))

/-- operations of a session -/
inductive HOp (α : Type) where
  | setGlobal (k : Kw) (v : α)
  | setDict (k : Kw) (e : String) (v : α)
  | delDict (k : Kw) (e : String)
  | gm (i : Nat) (kw : List (Kw × α))
  | arith                      -- any arithmetic on (analysed) objects: creates new objects only

/-- world: defaults + per object the result of its last analysis (`none` = never analysed or
    the last call raised before storing a result).  `R` is the type of analysis results. -/
structure World (α R : Type) where
  g : Globals α
  res : List (Option R)

/-- one step; `analyse i params` is the analysis of object `i`'s (immutable) data -/
def step {R : Type} (enss : Nat → List String)
    (analyse : Nat → List (String × α × α × α) → Option R)
    (w : World α R) : HOp α → World α R
  | .setGlobal k v => { w with g := w.g.setGlob k v }
  | .setDict k e v => { w with g := w.g.setDict k (dictSet (w.g.dict k) e v) }
  | .delDict k e => { w with g := w.g.setDict k (dictDel (w.g.dict k) e) }
  | .arith => w
  | .gm i kw =>
    match effective w.g kw (enss i) with
    | .error _ => { w with res := w.res.set i none }
    | .ok p => { w with res := w.res.set i (analyse i p) }

def run {R : Type} (enss : Nat → List String)
    (analyse : Nat → List (String × α × α × α) → Option R)
    (w : World α R) (ops : List (HOp α)) : World α R :=
  ops.foldl (step enss analyse) w

/-- the defaults after a sequence of operations (analyses do not touch them) -/
def globalsAfter (g : Globals α) : List (HOp α) → Globals α
  | [] => g
  | .setGlobal k v :: r => globalsAfter (g.setGlob k v) r
  | .setDict k e v :: r => globalsAfter (g.setDict k (dictSet (g.dict k) e v)) r
  | .delDict k e :: r => globalsAfter (g.setDict k (dictDel (g.dict k) e)) r
  | _ :: r => globalsAfter g r

/-- specification of the stored result of object `i`: determined by the *last* analysis of `i`
    alone — its arguments and the defaults in force at that moment -/
def lastResult {R : Type} (enss : Nat → List String)
    (analyse : Nat → List (String × α × α × α) → Option R)
    (g : Globals α) (init : Option R) (i : Nat) : List (HOp α) → Option R
  | [] => init
  | op :: r =>
    let init' := match op with
      | .gm j kw => if j = i then
          (match effective g kw (enss i) with | .error _ => none | .ok p => analyse i p)
        else init
      | _ => init
    lastResult enss analyse (globalsAfter g [op]) init' i r

end PV
