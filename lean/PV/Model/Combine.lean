/-
  PV.Model.Combine — `reweight` (obs.py 1391-1432), `correlate` (1435-1478), `merge_obs`
  (1764-1795): they pair per-configuration samples of two observables.
-/
import PV.Model.Ops

namespace PV
open Scalar

variable {α : Type} [Elem α]

inductive CombErr
  | covobs | ensemblesDoNotFit | multipleEnsembles | notSubset (name : String)
  | shapes (name : String) | idlMismatch (name : String) | duplicateReplica
  | mk (e : MkErr) | der (e : DerErr)
  deriving Repr

def Rep.samples (r : Rep α) : List α := r.deltas.map (· + r.rvalue)

/-- `reweight(weight, [obs], all_configs=...)` for one observable -/
def reweight1 (w o : Obs α) (allConfigs : Bool) : Except CombErr (Obs α) := do
  if o.covs.length > 0 then throw .covobs
  if w.covs.length > 0 then throw .covobs
  if !(o.names.all (fun n => w.names.contains n)) then throw .ensemblesDoNotFit
  if o.mcNames.length > 1 || w.mcNames.length > 1 then throw .multipleEnsembles
  for r in o.reps do
    match w.rep? r.name with
    | none => throw .ensemblesDoNotFit
    | some wr => if !(r.idl.toList.all (fun c => wr.idl.toList.contains c)) then throw (.notSubset r.name)
  -- `sorted(obs.names)`: reps are kept sorted
  let wred ← o.reps.mapM (fun r =>
    match w.rep? r.name with
    | none => throw CombErr.ensemblesDoNotFit
    | some wr => match reduceDeltas wr.deltas wr.idl r.idl with
      | none => throw (CombErr.notSubset r.name)
      | some d => pure (d.map (· + wr.rvalue)))
  let newSamples := List.zipWith (fun ws r => List.zipWith (· * ·) ws (Rep.samples r)) wred o.reps
  let names := o.reps.map (·.name)
  let idls := o.reps.map (·.idl)
  let tmp ← match mkObs newSamples names (some idls) with
    | .ok x => pure x | .error e => throw (.mk e)
  let norm ← if allConfigs then pure w else
    match mkObs wred names (some idls) with
    | .ok x => pure x | .error e => throw (.mk e)
  match findSite "truediv_obs" with
  | none => throw (.der .gradShape)
  | some s => match applySite s [tmp, norm] 0 with
    | .ok r => pure { r with reweighted := true }
    | .error e => throw (.der e)

/-- `correlate(a, b)` -/
def correlate (a b : Obs α) : Except CombErr (Obs α) := do
  if a.mcNames.length > 1 || b.mcNames.length > 1 then throw .multipleEnsembles
  if a.names != b.names then throw .ensemblesDoNotFit
  if a.covs.length > 0 || b.covs.length > 0 then throw .covobs
  for (ra, rb) in List.zip a.reps b.reps do
    if ra.idl.len != rb.idl.len then throw (.shapes ra.name)
    -- `obs_a.idl[name] != obs_b.idl[name]`: range == range / list == list as sequences, range != list
    if !(ra.idl.sameSeq rb.idl && ra.idl.isRange == rb.idl.isRange) then throw (.idlMismatch ra.name)
  let samples := (List.zip a.reps b.reps).map (fun (ra, rb) => List.zipWith (· * ·) (Rep.samples ra) (Rep.samples rb))
  match mkObs samples a.names (some (a.reps.map (·.idl))) with
  | .ok o => pure { o with reweighted := a.reweighted || b.reweighted }
  | .error e => throw (.mk e)

/-- `merge_obs(list)` -/
def mergeObs (l : List (Obs α)) : Except CombErr (Obs α) := do
  let replist := l.flatMap (fun o => o.names ++ o.covNames)
  if (Py.sortedSetStr replist).length != replist.length then throw .duplicateReplica
  if l.any (fun o => o.covs.length > 0) then throw .covobs
  let reps := l.flatMap (·.reps)
  let sorted := Py.sortBy (fun (a b : Rep α) => a.name ≤ b.name) reps
  match mkObs (sorted.map Rep.samples) (sorted.map (·.name)) (some (sorted.map (·.idl))) with
  | .ok o => pure { o with reweighted := l.any (·.reweighted) }
  | .error e => throw (.mk e)

end PV
