/-
  PV.Model.Expr — a small expression language for the lambda bodies and hand-written
  gradients at the `derived_observable(...)` call sites of the `Obs` overloads.
  The terms themselves are REGENERATED from pyerrors/obs.py by driver/tr/tr_grads.py
  (PV/Gen/Grads.lean); this file only fixes their meaning.
-/
import PV.Scalar

namespace PV
open Scalar

inductive E where
  | var (i : Nat)          -- `x[i]` in the lambda; `self.value` / `y.value` in `man_grad`
  | par                    -- the non-observable partner `y` (a plain number)
  | num (n : Int)          -- integer literal
  | add (a b : E) | sub (a b : E) | mul (a b : E) | div (a b : E) | neg (a : E)
  | pow (a b : E)
  | sqrt (a : E) | log (a : E) | exp (a : E)
  | sin (a : E) | cos (a : E) | tan (a : E)
  | sinh (a : E) | cosh (a : E) | tanh (a : E)
  | arcsin (a : E) | arccos (a : E) | arctan (a : E)
  | arcsinh (a : E) | arccosh (a : E) | arctanh (a : E)
  | abs (a : E)
  deriving Repr, BEq, Inhabited

/-- meaning of a term: `x i` the central values, `y` the plain-number partner -/
def E.eval {α : Type} [Elem α] (x : Nat → α) (y : α) : E → α
  | .var i => x i
  | .par => y
  | .num n => Scalar.ofInt n
  | .add a b => a.eval x y + b.eval x y
  | .sub a b => a.eval x y - b.eval x y
  | .mul a b => a.eval x y * b.eval x y
  | .div a b => a.eval x y / b.eval x y
  | .neg a => -(a.eval x y)
  | .pow a b => Elem.pow (a.eval x y) (b.eval x y)
  | .sqrt a => Transc.sqrt (a.eval x y)
  | .log a => Transc.log (a.eval x y)
  | .exp a => Transc.exp (a.eval x y)
  | .sin a => Elem.sin (a.eval x y)
  | .cos a => Elem.cos (a.eval x y)
  | .tan a => Elem.tan (a.eval x y)
  | .sinh a => Elem.sinh (a.eval x y)
  | .cosh a => Elem.cosh (a.eval x y)
  | .tanh a => Elem.tanh (a.eval x y)
  | .arcsin a => Elem.arcsin (a.eval x y)
  | .arccos a => Elem.arccos (a.eval x y)
  | .arctan a => Elem.arctan (a.eval x y)
  | .arcsinh a => Elem.arcsinh (a.eval x y)
  | .arccosh a => Elem.arccosh (a.eval x y)
  | .arctanh a => Elem.arctanh (a.eval x y)
  | .abs a => absS (a.eval x y)

/-- one `derived_observable` call site of the `Obs` overloads -/
structure Site where
  name : String          -- e.g. "__mul__/Obs", "__rtruediv__/number", "sin"
  nvars : Nat            -- number of observables in the data list
  func : E               -- lambda body
  grads : Option (List E) -- `man_grad`, `none` when autograd is used
  deriving Repr, Inhabited

end PV
