/-
  PV.Model.Format — `_format_uncertainty` (obs.py), `Obs.__format__`, and what
  `_extract_val_and_dval` (fits.py) reads back, in exact decimal arithmetic on rationals
  (every double is a dyadic rational, so the model's inputs are the exact values).
-/
namespace PV.Fmt

/-- a decimal numeral: ± m / 10^n, printed with exactly n digits after the point -/
structure Dec where
  neg : Bool
  m : Nat
  n : Nat
  deriving Repr, BEq, DecidableEq

def Dec.toRat (d : Dec) : Rat := (if d.neg then -1 else 1) * ((d.m : Rat) / ((10 ^ d.n : Nat) : Rat))

/-- round half to even of a non-negative rational -/
def roundHalfEvenNat (q : Rat) : Nat :=
  let f := q.floor.toNat
  let r := q - (f : Rat)
  if r < 1 / 2 then f else if 1 / 2 < r then f + 1 else if f % 2 == 0 then f else f + 1

/-- `'%.nf' % q` for an exactly known q: correctly rounded, ties to even; the sign of a negative
    number is kept even when it rounds to zero (`'-0.00'`) -/
def roundDec (q : Rat) (n : Nat) : Dec :=
  let a := if q < 0 then -q else q
  { neg := decide (q < 0), m := roundHalfEvenNat (a * ((10 ^ n : Nat) : Rat)), n := n }

def padLeft (s : String) (len : Nat) (c : Char) : String :=
  String.mk (List.replicate (len - s.length) c) ++ s

def Dec.render (d : Dec) : String :=
  let digits := padLeft (toString d.m) (d.n + 1) '0'
  let ip := digits.take (digits.length - d.n)
  let fp := digits.drop (digits.length - d.n)
  (if d.neg then "-" else "") ++ ip ++ (if d.n > 0 then "." ++ fp else "")

/-- floor(log2 q) for q > 0 -/
def ilog2 (q : Rat) : Int :=
  let a := q.num.toNat
  let b := q.den
  let e : Int := (Nat.log2 a : Int) - (Nat.log2 b : Int)
  -- 2^e may be off by one from the true exponent: adjust
  let p (e : Int) : Rat := if e ≥ 0 then ((2 ^ e.toNat : Nat) : Rat) else 1 / ((2 ^ (-e).toNat : Nat) : Rat)
  if q < p e then e - 1 else if p (e + 1) ≤ q then e + 1 else e

/-- round a positive rational to the nearest double (53-bit significand, ties to even;
    no overflow / subnormal handling: the harness stays far from both) -/
def roundDouble (q : Rat) : Rat :=
  if q ≤ 0 then q else
  let e := ilog2 q - 52
  let p : Rat := if e ≥ 0 then ((2 ^ e.toNat : Nat) : Rat) else 1 / ((2 ^ (-e).toNat : Nat) : Rat)
  (roundHalfEvenNat (q / p) : Rat) * p

structure ValErr where
  val : Dec
  err : Dec
  deriving Repr, BEq

/-- `_format_uncertainty(value, dvalue, significance)` for finite `dvalue > 0`; `fexp` is the
    value of `np.floor(np.log10(dvalue))` (an external float computation with the contract
    10^fexp ≤ dvalue < 10^(fexp+1) up to rounding) -/
def formatUncertainty (v d : Rat) (sig : Nat) (fexp : Int) : ValErr :=
  if fexp < 0 then
    let k := ((-fexp) + sig - 1).toNat
    -- `dvalue * 10 ** (-fexp + significance - 1)` is a floating-point product
    { val := roundDec v k, err := roundDec (roundDouble (d * ((10 ^ k : Nat) : Rat))) 0 }
  else if fexp == 0 then
    { val := roundDec v (sig - 1), err := roundDec d (sig - 1) }
  else
    let n := ((sig : Int) - fexp - 1).toNat
    { val := roundDec v n, err := roundDec d n }

def ValErr.render (x : ValErr) : String := x.val.render ++ "(" ++ x.err.render ++ ")"

/-- `Obs.__format__` flags: '+' and ' ' put that character in front of a non-negative number -/
def withFlag (flag : String) (s : String) : String :=
  if (flag == "+" || flag == " ") && !(s.startsWith "-") then flag ++ s else s

/-- `str(CObs)` (obs.py 1050-1052, since fix 8d3fccf): the two parts are joined by '+' unless the imaginary part prints with its
    own sign -/
def cobsStr (re im : String) : String :=
  "(" ++ re ++ (if im.startsWith "-" then "" else "+") ++ im ++ "j)"

/-- `format(CObs, spec)` (obs.py 1056-1062): the imaginary part is formatted with the '+' flag -/
def cobsFormat (re im : String) : String := "(" ++ re ++ withFlag "+" im ++ "j)"

/-- what `_extract_val_and_dval` computes from the printed string: the error is scaled by
    10^-(decimals of the value) exactly when the value has a decimal point and the error has none -/
def readBack (x : ValErr) : Rat × Rat :=
  let factor : Rat := if x.val.n > 0 ∧ x.err.n = 0 then 1 / ((10 ^ x.val.n : Nat) : Rat) else 1
  (x.val.toRat, x.err.toRat * factor)

/-- unit of the last printed digit of the value -/
def unit (x : ValErr) : Rat := 1 / ((10 ^ x.val.n : Nat) : Rat)

end PV.Fmt
