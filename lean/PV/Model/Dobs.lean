/-
  PV.Model.Dobs — the per-replica table of the Zeuthen dobs format (input/dobs.py): one column per
  observable, the written number is fluctuation + (replica mean − central value), and `0` is the
  marker for "this observable was not measured on this configuration".
-/
import PV.Scalar

namespace PV
open Scalar

variable {α : Type} [Scalar α]

/-- column of one observable on the merged configuration list: its number where measured, else 0 -/
def dobsColumn (merged : List Int) (idl : List Int) (nums : List α) : List α :=
  merged.map (fun c => match (List.zip idl nums).find? (·.1 == c) with
    | some p => p.2
    | none => 0)

/-- import (after the fix that keeps a separate mask): the configurations whose written number
    is non-zero, with the sample number + central value -/
def dobsImport (merged : List Int) (col : List α) (value : α) : List (Int × α) :=
  (List.zip merged col).filterMap (fun (c, x) => if isZero x then none else some (c, x + value))

/-- what `import_dobs_string` builds from the surviving (configuration, sample) pairs of one chain:
    `obsmeans = np.average(deltas)`, `Obs([deltas - obsmeans], ..., means=obsmeans)`:
    configuration list, fluctuations, replica mean -/
def dobsChain (pairs : List (Int × α)) : List Int × List α × α :=
  let xs := pairs.map (·.2)
  let m := sum xs / ofNatS xs.length
  (pairs.map (·.1), xs.map (· - m), m)

end PV
