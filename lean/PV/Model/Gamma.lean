/-
  PV.Model.Gamma — `Obs.gamma_method` (obs.py 178-342), `_calc_gamma` (346-380, direct
  branch), `_expand_deltas` (1065-1088), `_determine_gap` (1841-1853).

  The FFT branch of `_calc_gamma` is not modelled separately: its contract is "equals the
  direct branch" and the correspondence check measures it on every case.
-/
import PV.Model.Obs

namespace PV
open Scalar

variable {α : Type}

/-- constants of the floating-point environment that appear in the code -/
structure FpConsts (α : Type) where
  tenTiny : α      -- `10 * np.finfo(float).tiny`
  eps : α          -- `np.finfo(np.float64).eps`
  half : α         -- 0.5

def fpFloat : FpConsts Float := { tenTiny := 2.2250738585072014e-307, eps := 2.220446049250313e-16, half := 0.5 }

inductive GmErr | noCommonSpacing (ens : String) | tauExpTooShort | negativeParam
  deriving Repr, BEq

section
variable [Scalar α]

/-- spacing of one chain: `range.step`, or `np.gcd.reduce(np.diff(list))` -/
def repGap (i : Idl) : Int :=
  match i with
  | .range _ _ st => st
  | .list l => ((Idl.diffs l).foldl (fun g d => Nat.gcd g d.natAbs) 0 : Nat)

/-- `_determine_gap` -/
def determineGap (ens : String) (reps : List (Rep α)) : Except GmErr Int :=
  let gaps := reps.map (fun r => repGap r.idl)
  let gap := gaps.foldl min (gaps.headD 1)
  if gaps.all (fun g => Py.fmod g gap == 0) then .ok gap else .error (.noCommonSpacing ens)

/-- `r_length` entry of one chain: the length of the expanded array, `(last - first) // gap + 1`, for ranges and
    lists alike (a range whose stride is a multiple k > 1 of the ensemble's spacing used to be counted as
    `len * k`, k - 1 phantom steps behind its last configuration) -/
def rLength (i : Idl) (gap : Int) : Int :=
  Py.fdiv (i.last - i.first) gap + 1

/-- `_expand_deltas` -/
def expandDeltas (deltas : List α) (idx : Idl) (gap : Int) : List α :=
  match idx with
  | .range _ _ st => if st == gap then deltas else
      let size := (Py.fdiv (idx.last - idx.first + gap) gap).toNat
      (List.zip idx.toList deltas).foldl
        (fun acc (c, d) => acc.set (Py.fdiv (c - idx.first) gap).toNat d) (List.replicate size 0)
  | .list _ =>
      let size := (Py.fdiv (idx.last - idx.first + gap) gap).toNat
      (List.zip idx.toList deltas).foldl
        (fun acc (c, d) => acc.set (Py.fdiv (c - idx.first) gap).toNat d) (List.replicate size 0)

/-- `_calc_gamma(..., fft=False)`: entry `n` is `deltas[0:N-n] . deltas[n:N]` -/
def calcGamma (deltas : List α) (idx : Idl) (wmax : Nat) (gap : Int) : List α :=
  let d := expandDeltas deltas idx gap
  (List.range wmax).map (fun n => dot (d.take (d.length - n)) (d.drop n))

def addL (a b : List α) : List α := List.zipWith (· + ·) a b

/-- `_compute_drho(i)` with the four Python slices transcribed literally
    (obs.py 284-289); the square root is applied by the caller -/
def drhoSq (rho : List α) (wmax : Nat) (eN : α) (i : Nat) : α :=
  let w : Int := wmax
  let I : Int := i
  let a := Py.slice rho (some (I + 1)) (some w)
  let stopB : Option Int := if I - (w - 1) / 2 ≤ 0 then none else some (2 * I - (2 * w) / 2)
  let b1 := Py.slice rho (some (I - 1)) stopB (-1)
  let b2 := Py.slice rho (some 1) (some (max 1 (w - 2 * I)))
  let c := Py.slice rho (some 1) (some (w - I))
  let ri := rho.getD i 0
  let tmp := List.zipWith (fun x y => x - y)
      (List.zipWith (· + ·) a (b1 ++ b2)) (c.map (fun x => 2 * ri * x))
  sum (tmp.map (fun x => x * x)) / eN
end

section
variable [Scalar α]

/-- `for n in range(1, w_max): if g_w[n - 1] < 0 or n >= w_max - 1: ...; break`
    (obs.py 319-327): the `n` at which the loop breaks, `none` if it runs out -/
def windowLoop (gw : List α) (wmax : Nat) : (fuel : Nat) → (n : Nat) → Option Nat
  | 0, _ => none
  | fuel + 1, n =>
    if gw.getD (n - 1) 0 < 0 ∨ n + 1 ≥ wmax then some n else windowLoop gw wmax fuel (n + 1)

/-- the `tau_exp` loop (obs.py 297-307): `_compute_drho(n + 1)` is stored, then the test uses the
    stored `e_drho[n]`; returns the breaking `n` and the final `e_drho` array -/
def texpLoop (rho : List α) (nSigma : α) (drhoAt : Nat → α) (wmax : Nat) :
    (fuel : Nat) → (n : Nat) → (drho : List α) → Option (Nat × List α)
  | 0, _, _ => none
  | fuel + 1, n, drho =>
    let drho := drho.set (n + 1) (drhoAt (n + 1))
    if rho.getD n 0 - nSigma * drho.getD n 0 < 0 ∨ (n : Int) ≥ ((wmax / 2 : Nat) : Int) - 2 then
      some (n, drho)
    else texpLoop rho nSigma drhoAt wmax fuel (n + 1) drho

/-- smallest |x| over a list, starting from 1 (conditioning of the window decision) -/
def minAbs (l : List α) : α := l.foldl (fun a b => if absS b < a then absS b else a) 1

end

/-- per-ensemble result of the analysis -/
structure EnsResult (α : Type) where
  ens : String
  tauint : α
  dtauint : α
  dvalue : α
  ddvalue : α
  windowsize : Nat
  rho : List α
  drho : List α
  nTauint : List α
  nDtauint : List α
  /-- margin of the comparison that decided the window (for conditioning, not compared) -/
  margin : α
  deriving Repr

structure GmResult (α : Type) where
  dvalue : α
  ddvalue : α
  ens : List (EnsResult α)
  covErr : List (String × α)
  deriving Repr

structure GmParams (α : Type) where
  S : String → α
  tauExp : String → α
  nSigma : String → α

section
variable [Transc α]
open Transc

def cumsum : List α → List α
  | [] => []
  | x :: xs => x :: (cumsum xs).map (x + ·)

/-- analysis of one ensemble -/
def gammaEnsemble (fp : FpConsts α) (ens : String) (reps : List (Rep α))
    (S tauExp nSigma : α) : Except GmErr (EnsResult α) := do
  let gap ← determineGap ens reps
  let rl := reps.map (fun r => rLength r.idl gap)
  let eNn : Nat := (reps.map (·.idl.len)).foldr (· + ·) 0
  let eN : α := ofNatS eNn
  let wmax : Nat := (Py.fdiv (rl.foldl max 0) 2).toNat
  let zero : List α := List.replicate wmax 0
  let gam0 := reps.foldl (fun acc r => addL acc (calcGamma r.deltas r.idl wmax gap)) zero
  let div0 := reps.foldl (fun acc r =>
      addL acc (calcGamma (List.replicate r.idl.len (1 : α)) r.idl wmax gap)) zero
  let div := div0.map (fun x => if x < 1 then 1 else x)
  let gamma := List.zipWith (· / ·) gam0 div
  let g0 := gamma.getD 0 0
  if absS g0 < fp.tenTiny then
    return { ens := ens, tauint := fp.half, dtauint := 0, dvalue := 0, ddvalue := 0, windowsize := 0,
             rho := zero, drho := zero, nTauint := [], nDtauint := [], margin := 1 }
  let rho := gamma.map (· / g0)
  let nTau0 := cumsum (fp.half :: rho.drop 1)
  let nTau := nTau0.map (fun x => if x ≤ fp.half then fp.half + fp.eps else x)
  let nDtau0 := (List.zip (List.range wmax) nTau).map (fun (i, t) =>
      t * 2 * sqrt (absS (ofNatS i + fp.half - t) / eN))
  let nDtau := nDtau0.set 0 0
  let drhoAt (i : Nat) : α := sqrt (drhoSq rho wmax eN i)
  let biasTau (n : Nat) : α := nTau.getD n 0 * (1 + (2 * ofNatS n + 1) / eN) / (1 + 1 / eN)
  if 0 < tauExp then
    -- critical slowing down analysis (obs.py 291-307)
    let drho1 := zero.set 1 (drhoAt 1)
    if wmax / 2 ≤ 1 then throw .tauExpTooShort
    match texpLoop rho nSigma drhoAt wmax (wmax / 2 - 1) 1 drho1 with
    | none => throw .tauExpTooShort   -- unreachable: `n >= w_max // 2 - 2` is met first
    | some (n, drho) =>
      let tau := biasTau n + tauExp * absS (rho.getD (n + 1) 0)
      let dtau := sqrt (nDtau.getD n 0 * nDtau.getD n 0
                        + tauExp * tauExp * (drho.getD (n + 1) 0 * drho.getD (n + 1) 0))
      let dv := sqrt (2 * tau * g0 * (1 + 1 / eN) / eN)
      return { ens := ens, tauint := tau, dtauint := dtau, dvalue := dv,
               ddvalue := dv * sqrt ((ofNatS n + fp.half) / eN), windowsize := n,
               rho := rho, drho := drho, nTauint := nTau, nDtauint := nDtau,
               margin := minAbs ((List.range n).map (fun k => rho.getD (k + 1) 0 - nSigma * drhoAt (k + 1))) }
  else if isZero S then
    let dv := sqrt (g0 / (eN - 1))
    return { ens := ens, tauint := fp.half, dtauint := 0, dvalue := dv,
             ddvalue := dv * sqrt (fp.half / eN), windowsize := 0,
             rho := rho, drho := zero, nTauint := nTau, nDtauint := nDtau, margin := 1 }
  else
    -- automatic windowing (obs.py 317-327)
    let tau : List α := (nTau.drop 1).map (fun t => S / log ((2 * t + 1) / (2 * t - 1)))
    let gw : List α := (List.zip (List.range tau.length) tau).map (fun (k, t) =>
        exp (-(ofNatS (k + 1)) / t) - t / sqrt (ofNatS (k + 1) * eN))
    match windowLoop gw wmax (wmax - 1) 1 with
    | none => throw .tauExpTooShort   -- `range(1, w_max)` empty: no result attribute is set
    | some n =>
      let tauB := biasTau n
      let dv := sqrt (2 * tauB * g0 * (1 + 1 / eN) / eN)
      return { ens := ens, tauint := tauB, dtauint := nDtau.getD n 0, dvalue := dv,
               ddvalue := dv * sqrt ((ofNatS n + fp.half) / eN), windowsize := n,
               rho := rho, drho := zero.set n (drhoAt n), nTauint := nTau, nDtauint := nDtau,
               margin := minAbs (gw.take n) }

/-- the first half of `gammaEnsemble`: the normalised autocorrelation table (same text as above) -/
def gammaTable (reps : List (Rep α)) (wmax : Nat) (gap : Int) : List α :=
  let zero : List α := List.replicate wmax 0
  let gam0 := reps.foldl (fun acc r => addL acc (calcGamma r.deltas r.idl wmax gap)) zero
  let div0 := reps.foldl (fun acc r =>
      addL acc (calcGamma (List.replicate r.idl.len (1 : α)) r.idl wmax gap)) zero
  let div := div0.map (fun x => if x < 1 then 1 else x)
  List.zipWith (· / ·) gam0 div

/-- the second half of `gammaEnsemble`: everything computed from the table (same text as above, with the
    table as a parameter).  `gammaEnsemble_eq_analyse` (PV/Proofs/C02cLemmas.lean) shows by `rfl` that
    `gammaEnsemble` is the composition of `determineGap`, `gammaTable` and `analyseGamma`. -/
def analyseGamma (fp : FpConsts α) (ens : String) (eN : α) (wmax : Nat) (gamma : List α)
    (S tauExp nSigma : α) : Except GmErr (EnsResult α) := do
  let zero : List α := List.replicate wmax 0
  let g0 := gamma.getD 0 0
  if absS g0 < fp.tenTiny then
    return { ens := ens, tauint := fp.half, dtauint := 0, dvalue := 0, ddvalue := 0, windowsize := 0,
             rho := zero, drho := zero, nTauint := [], nDtauint := [], margin := 1 }
  let rho := gamma.map (· / g0)
  let nTau0 := cumsum (fp.half :: rho.drop 1)
  let nTau := nTau0.map (fun x => if x ≤ fp.half then fp.half + fp.eps else x)
  let nDtau0 := (List.zip (List.range wmax) nTau).map (fun (i, t) =>
      t * 2 * sqrt (absS (ofNatS i + fp.half - t) / eN))
  let nDtau := nDtau0.set 0 0
  let drhoAt (i : Nat) : α := sqrt (drhoSq rho wmax eN i)
  let biasTau (n : Nat) : α := nTau.getD n 0 * (1 + (2 * ofNatS n + 1) / eN) / (1 + 1 / eN)
  if 0 < tauExp then
    -- critical slowing down analysis (obs.py 291-307)
    let drho1 := zero.set 1 (drhoAt 1)
    if wmax / 2 ≤ 1 then throw .tauExpTooShort
    match texpLoop rho nSigma drhoAt wmax (wmax / 2 - 1) 1 drho1 with
    | none => throw .tauExpTooShort   -- unreachable: `n >= w_max // 2 - 2` is met first
    | some (n, drho) =>
      let tau := biasTau n + tauExp * absS (rho.getD (n + 1) 0)
      let dtau := sqrt (nDtau.getD n 0 * nDtau.getD n 0
                        + tauExp * tauExp * (drho.getD (n + 1) 0 * drho.getD (n + 1) 0))
      let dv := sqrt (2 * tau * g0 * (1 + 1 / eN) / eN)
      return { ens := ens, tauint := tau, dtauint := dtau, dvalue := dv,
               ddvalue := dv * sqrt ((ofNatS n + fp.half) / eN), windowsize := n,
               rho := rho, drho := drho, nTauint := nTau, nDtauint := nDtau,
               margin := minAbs ((List.range n).map (fun k => rho.getD (k + 1) 0 - nSigma * drhoAt (k + 1))) }
  else if isZero S then
    let dv := sqrt (g0 / (eN - 1))
    return { ens := ens, tauint := fp.half, dtauint := 0, dvalue := dv,
             ddvalue := dv * sqrt (fp.half / eN), windowsize := 0,
             rho := rho, drho := zero, nTauint := nTau, nDtauint := nDtau, margin := 1 }
  else
    -- automatic windowing (obs.py 317-327)
    let tau : List α := (nTau.drop 1).map (fun t => S / log ((2 * t + 1) / (2 * t - 1)))
    let gw : List α := (List.zip (List.range tau.length) tau).map (fun (k, t) =>
        exp (-(ofNatS (k + 1)) / t) - t / sqrt (ofNatS (k + 1) * eN))
    match windowLoop gw wmax (wmax - 1) 1 with
    | none => throw .tauExpTooShort   -- `range(1, w_max)` empty: no result attribute is set
    | some n =>
      let tauB := biasTau n
      let dv := sqrt (2 * tauB * g0 * (1 + 1 / eN) / eN)
      return { ens := ens, tauint := tauB, dtauint := nDtau.getD n 0, dvalue := dv,
               ddvalue := dv * sqrt ((ofNatS n + fp.half) / eN), windowsize := n,
               rho := rho, drho := zero.set n (drhoAt n), nTauint := nTau, nDtauint := nDtau,
               margin := minAbs (gw.take n) }

/-- `errsq` of a covariance input: `grad^T cov grad` -/
def covErrSq (c : CovIn α) : α :=
  dot c.grad (c.cov.map (fun row => dot row c.grad))

/-- the whole `gamma_method` -/
def gammaMethod (fp : FpConsts α) (o : Obs α) (p : GmParams α) : Except GmErr (GmResult α) := do
  let ens ← o.mcNames.mapM (fun e => gammaEnsemble fp e (o.eContent e) (p.S e) (p.tauExp e) (p.nSigma e))
  let covE := o.covs.map (fun c => (c.name, sqrt (covErrSq c)))
  let dv2 := sum (ens.map (fun r => r.dvalue * r.dvalue)) + sum (covE.map (fun c => c.2 * c.2))
  let dd2 := sum (ens.map (fun r => (r.dvalue * r.ddvalue) * (r.dvalue * r.ddvalue)))
  let dv := sqrt dv2
  let dd := if isZero dv then 0 else sqrt dd2 / dv
  pure { dvalue := dv, ddvalue := dd, ens := ens, covErr := covE }
end

end PV
