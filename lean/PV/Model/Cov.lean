/-
  PV.Model.Cov — `_covariance_element` (obs.py 1654-1711) and the assembly of `covariance`
  (1515-1548): per ensemble Σ_r <a_r, b_r> on the common configurations divided by
  Σ_r sqrt(<a_r,a_r> <b_r,b_r>), plus J₁ Σ J₂ᵀ for shared covariance inputs.
-/
import PV.Model.Obs

namespace PV
open Scalar

variable {α : Type} [Transc α]

/-- `_intersection_idx` as a list of configuration numbers -/
def intersectCfgs (a b : Idl) : List Int := a.toList.filter (fun c => b.toList.contains c)

/-- fluctuations of `r` restricted to the configurations `cfgs` (by configuration number) -/
def restrictTo (r : Rep α) (cfgs : List Int) : List α :=
  cfgs.filterMap (fun c => match r.idl.pos? c with | some k => r.deltas[k]? | none => none)

def covElement (o1 o2 : Obs α) : α :=
  if !(o1.names ++ o1.covNames).any (fun n => (o2.names ++ o2.covNames).contains n) then 0 else
  let mc := o1.mcNames.filter (fun e => o2.mcNames.contains e)
  let ensPart : α := sum (mc.map (fun e =>
    let pairs := (o1.eContent e).filterMap (fun r1 => ((o2.eContent e).find? (·.name == r1.name)).map (fun r2 => (r1, r2)))
    let terms := pairs.filterMap (fun (r1, r2) =>
      let cf := intersectCfgs r1.idl r2.idl
      if cf.isEmpty then none else
        let d1 := restrictTo r1 cf
        let d2 := restrictTo r2 cf
        some (dot d1 d2, Transc.sqrt (dot d1 d1 * dot d2 d2)))
    let gamma := sum (terms.map (·.1))
    if isZero gamma then 0 else gamma / sum (terms.map (·.2))))
  let covPart : α := sum (o1.covs.filterMap (fun c1 =>
    (o2.cov? c1.name).map (fun c2 => dot c1.grad (c1.cov.map (fun row => dot row c2.grad)))))
  ensPart + covPart

/-- `covariance(obs, correlation=...)`: upper triangle mirrored, normalised to a correlation matrix,
    optionally rescaled by the errors `dv` -/
def covarianceMatrix (obs : List (Obs α)) (dv : List α) (correlation : Bool) : List (List α) :=
  let n := obs.length
  let el (i j : Nat) : α := covElement (obs.getD (min i j) default) (obs.getD (max i j) default)
  let diag : List α := (List.range n).map (fun i => el i i)
  (List.range n).map (fun i => (List.range n).map (fun j =>
    let c := el i j / Transc.sqrt (diag.getD i 1) / Transc.sqrt (diag.getD j 1)
    if correlation then c else dv.getD i 0 * c * dv.getD j 0))

end PV
