/-
  PV.Model.Pobs — the Zeuthen pobs format (input/dobs.py, `create_pobs_string` 88-176, `_import_array`
  249-284, `read_pobs` 300-397): one data block per replica, one row per configuration
  `cfg  num_1 ... num_na`, where `num_a = delta_a + r_value_a`.  The reader flattens the block into one
  token list `tmp`, takes the configuration numbers as `tmp[0 :: na+1]` and the samples of observable `a`
  as `tmp[1+a :: na+1]`, and hands the samples to the `Obs` constructor.  The file holds no central value.
-/
import PV.Model.Obs

namespace PV.Pobs
open PV Scalar

variable {α : Type} [Scalar α]

/-- a number in the data block -/
inductive Tok (α : Type) where
  | cfg (c : Int)
  | num (x : α)
  deriving Repr, BEq

/-- Python's `l[a :: w]` for `w > 0` (fuel = an upper bound on the number of elements) -/
def strideF {β : Type} : Nat → Nat → Nat → List β → List β
  | 0, _, _, _ => []
  | fuel + 1, w, a, l =>
    match l.drop a with
    | [] => []
    | x :: _ => x :: strideF fuel w a (l.drop w)

def stride {β : Type} (w a : Nat) (l : List β) : List β := strideF (l.length + 1) w a l

/-- the rows of one replica block: configuration number, then one number per observable (`cols[a][c]`) -/
def rowsOf : List Int → List (List α) → List (List (Tok α))
  | [], _ => []
  | c :: cs, cols => (Tok.cfg c :: cols.map (fun col => Tok.num (col.headD 0))) :: rowsOf cs (cols.map List.tail)

/-- one replica block as it stands in the file -/
structure Block (α : Type) where
  id : String                -- replica name with every '|' removed
  nc : Nat                   -- layout "nc i f<na>"
  na : Nat
  toks : List (Tok α)
  deriving Repr

inductive Err
  | notOneEnsemble | otherEnsemble | incompatible | format | ctor (e : MkErr)
  deriving Repr, BEq

/-- `name.replace('|', '')` -/
def stripBar (n : String) : String := String.ofList (n.toList.filter (· != '|'))

/-- `name[:k] + '|' + name[k:]` -/
def insertBar (k : Nat) (n : String) : String := String.ofList (n.toList.take k ++ '|' :: n.toList.drop k)

/-- the numbers of observable `o` on the chain called `n`: `o.deltas[n][c] + o.r_values[n]` -/
def colOf (o : Obs α) (n : String) : List α :=
  match o.rep? n with
  | some r => r.deltas.map (· + r.rvalue)
  | none => []

/-- the block of the chain `r0` of the first observable -/
def blockOf (ol : List (Obs α)) (r0 : Rep α) : Block α :=
  { id := stripBar r0.name, nc := r0.idl.len, na := ol.length,
    toks := (rowsOf r0.idl.toList (ol.map (fun o => colOf o r0.name))).flatten }

/-- `create_pobs_string`: the checks (one ensemble, the same for all, the same number of chains, and - since
    fix 776c1b2 - the same chains on the same configurations) and the replica blocks -/
def write (ol : List (Obs α)) : Except Err (List (Block α)) :=
  match ol with
  | [] => .error .incompatible          -- `obsl[0]` raises
  | o0 :: _ =>
    if ol.any (fun o => o.mcNames.length != 1 || o.covs.length != 0) then .error .notOneEnsemble
    else if ol.any (fun o => o.mcNames != o0.mcNames) then .error .otherEnsemble
    else if ol.any (fun o => o.reps.length != o0.reps.length) then .error .incompatible
    else if ol.any (fun o => o.reps.map (fun r => (r.name, r.idl.toList)) != o0.reps.map (fun r => (r.name, r.idl.toList))) then .error .incompatible
    else if ol.any (fun o => o.reps.any (fun r => r.deltas.length != r.idl.len)) then .error .incompatible
    else .ok (o0.reps.map (blockOf ol))

def asCfg : Tok α → Option Int
  | .cfg c => some c
  | .num _ => none

def asNum : Tok α → Option α
  | .num x => some x
  | .cfg _ => none

/-- `_import_array` on a block with layout "nc i f<na>": configuration numbers and one sample column per
    observable.  Token streams that do not have a configuration number in column 0 and numbers elsewhere
    are outside the model (`format`). -/
def readBlock (b : Block α) : Except Err (List Int × List (List α)) :=
  let w := b.na + 1
  match (stride w 0 b.toks).mapM asCfg,
        (List.range b.na).mapM (fun a => (stride w (1 + a) b.toks).mapM asNum) with
  | some idx, some cols => if idx.length != b.nc then .error .format else .ok (idx, cols)
  | _, _ => .error .format

/-- the treatment of the replica separator on import: `separator_insertion` = None / int -/
def fixOf : Option Nat → String → String
  | some k => insertBar k
  | none => id

/-- `len(deltas[0])`: the number of observables in the first block -/
def naOf (blocks : List (List Int × List (List α))) : Nat :=
  match blocks with
  | [] => 0
  | b :: _ => b.2.length

/-- `read_pobs`: `Obs([d[i] for d in deltas], names, idl=idl)` for every column -/
def readWith (fix : String → String) (bs : List (Block α)) : Except Err (List (Obs α)) := do
  let blocks ← bs.mapM readBlock
  let names := bs.map (fun b => fix b.id)
  (List.range (naOf blocks)).mapM (fun i =>
    (mkObs (blocks.map (fun b => b.2.getD i [])) names (some (blocks.map (fun b => Idl.list b.1)))).mapError Err.ctor)

def read (k : Option Nat) (bs : List (Block α)) : Except Err (List (Obs α)) := readWith (fixOf k) bs

end PV.Pobs
