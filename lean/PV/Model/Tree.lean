/-
  PV.Model.Tree — the placeholder mechanism of `dump_dict_to_json` / `load_json_dict`
  (pyerrors/input/json.py: `_ol_from_dict` 552-629, `_od_from_list_and_dict` 672-732).

  A nested dictionary of JSON-valid values and observables is exported as (i) the list `ol` of the
  observable structures found, in traversal order, and (ii) the same dictionary with every such
  structure replaced by the string `reps ++ str(counter)`; the import puts `ol[index]` back wherever
  a string matching `reps[0-9]+` is found.  Observable structures are opaque here (`leaf kind id`):
  how each of them is serialised is the business of the other C11 models.
-/

namespace PV.Tree

/-- what `isinstance` can tell apart among the structures: `Obs`, `Corr`, `numpy.ndarray` -/
inductive Kind | obs | corr | arr
  deriving DecidableEq, Repr

inductive T where
  | leaf (k : Kind) (id : Nat)
  | str (s : String)
  | atom (j : String)              -- any other JSON scalar (number, bool, null), as its JSON text
  | list (l : List T)
  | dict (kv : List (String × T))
  deriving Repr

/-- entries of `ol`: one structure, or a python list of `Obs` (exported as one List structure) -/
inductive Slot | one (k : Kind) (id : Nat) | many (ids : List Nat)
  deriving DecidableEq, Repr

inductive Err
  | notAlnum | placeholderClash (s : String) | valueError (s : String) | indexError (i : Nat) | noPlaceholder
  deriving DecidableEq, Repr

/-- `str.isalnum()` (ASCII part) -/
def isAlnum (reps : String) : Bool := reps.toList.all Char.isAlphanum && !reps.toList.isEmpty

/-- `reps + '%d' % counter` -/
def placeholder (reps : String) (n : Nat) : String := reps ++ Nat.repr n

/-- what follows the prefix `reps`, if `s` starts with it -/
def afterPrefix (reps s : String) : Option (List Char) :=
  if reps.toList.isPrefixOf s.toList then some (s.toList.drop reps.toList.length) else none

/-- `bool(re.match(r'%s[0-9]+' % reps, s))` for alphanumeric `reps`: `reps` followed by a digit -/
def isPlaceholder (reps s : String) : Bool :=
  match afterPrefix reps s with
  | some (c :: _) => c.isDigit
  | _ => false

/-- python's `str.strip()` on the right, ASCII white space -/
def rstripWs (l : List Char) : List Char :=
  (l.reverse.dropWhile (fun c => c == ' ' || c == '\t' || c == '\n' || c == '\r' || c == '\x0b' || c == '\x0c')).reverse

/-- `int(s[len(reps):])` for a string that matched: digits with single interior underscores, trailing
    white space tolerated (the leading character is a digit, so no sign and no leading white space) -/
def phIndex (reps s : String) : Except Err Nat :=
  match afterPrefix reps s with
  | none => .error (.valueError s)
  | some r => match (String.ofList (rstripWs r)).toNat? with
    | some n => .ok n
    | none => .error (.valueError s)

/-- `all([isinstance(o, Obs) for o in v])` with the identities of the members -/
def obsIds : List T → Option (List Nat)
  | [] => some []
  | .leaf .obs i :: r => (obsIds r).map (i :: ·)
  | _ => none

def slotTree : Slot → T
  | .one k i => .leaf k i
  | .many ids => .list (ids.map (.leaf .obs ·))

mutual
/-- `dict_replace_obs`: values of a dictionary, in order -/
def exDict (reps : String) : List (String × T) → List Slot → Except Err (List (String × T) × List Slot)
  | [], ol => .ok ([], ol)
  | (k, v) :: rest, ol =>
    match exDictVal reps v ol with
    | .error e => .error e
    | .ok (v', ol') =>
      match exDict reps rest ol' with
      | .error e => .error e
      | .ok (rest', ol'') => .ok ((k, v') :: rest', ol'')
/-- the `isinstance` cascade of `dict_replace_obs`: dict, list of Obs, list, structure, str -/
def exDictVal (reps : String) : T → List Slot → Except Err (T × List Slot)
  | .dict kv, ol => match exDict reps kv ol with
    | .error e => .error e
    | .ok (kv', ol') => .ok (.dict kv', ol')
  | .list l, ol => match obsIds l with
    | some ids => .ok (.str (placeholder reps ol.length), ol ++ [.many ids])
    | none => match exList reps l ol with
      | .error e => .error e
      | .ok (l', ol') => .ok (.list l', ol')
  | .leaf k i, ol => .ok (.str (placeholder reps ol.length), ol ++ [.one k i])
  | .str s, ol => if isPlaceholder reps s then .error (.placeholderClash s) else .ok (.str s, ol)
  | .atom j, ol => .ok (.atom j, ol)
/-- `list_replace_obs`: elements of a list, in order -/
def exList (reps : String) : List T → List Slot → Except Err (List T × List Slot)
  | [], ol => .ok ([], ol)
  | e :: rest, ol =>
    match exListVal reps e ol with
    | .error e => .error e
    | .ok (e', ol') =>
      match exList reps rest ol' with
      | .error e => .error e
      | .ok (rest', ol'') => .ok (e' :: rest', ol'')
/-- the cascade of `list_replace_obs`: list first (so a list of Obs inside a list is replaced member
    by member: the second `isinstance(e, list)` branch of the source is dead), dict, structure, str -/
def exListVal (reps : String) : T → List Slot → Except Err (T × List Slot)
  | .list l, ol => match exList reps l ol with
    | .error e => .error e
    | .ok (l', ol') => .ok (.list l', ol')
  | .dict kv, ol => match exDict reps kv ol with
    | .error e => .error e
    | .ok (kv', ol') => .ok (.dict kv', ol')
  | .leaf k i, ol => .ok (.str (placeholder reps ol.length), ol ++ [.one k i])
  | .str s, ol => if isPlaceholder reps s then .error (.placeholderClash s) else .ok (.str s, ol)
  | .atom j, ol => .ok (.atom j, ol)
end

/-- `_ol_from_dict(ind, reps)` -/
def exportDict (reps : String) (d : List (String × T)) : Except Err (List (String × T) × List Slot) :=
  if !isAlnum reps then .error .notAlnum else exDict reps d []

mutual
/-- `dict_replace_string`; the `Nat` is `counter` -/
def inDict (reps : String) (ol : List Slot) : List (String × T) → Nat → Except Err (List (String × T) × Nat)
  | [], c => .ok ([], c)
  | (k, v) :: rest, c =>
    match inVal reps ol v c with
    | .error e => .error e
    | .ok (v', c') =>
      match inDict reps ol rest c' with
      | .error e => .error e
      | .ok (rest', c'') => .ok ((k, v') :: rest', c'')
/-- both cascades of the import are the same: dict / list recursively, matching string replaced -/
def inVal (reps : String) (ol : List Slot) : T → Nat → Except Err (T × Nat)
  | .dict kv, c => match inDict reps ol kv c with
    | .error e => .error e
    | .ok (kv', c') => .ok (.dict kv', c')
  | .list l, c => match inList reps ol l c with
    | .error e => .error e
    | .ok (l', c') => .ok (.list l', c')
  | .str s, c =>
    if isPlaceholder reps s then
      match phIndex reps s with
      | .error e => .error e
      | .ok i => match ol[i]? with
        | none => .error (.indexError i)
        | some sl => .ok (slotTree sl, c + 1)
    else .ok (.str s, c)
  | .leaf k i, c => .ok (.leaf k i, c)
  | .atom j, c => .ok (.atom j, c)
def inList (reps : String) (ol : List Slot) : List T → Nat → Except Err (List T × Nat)
  | [], c => .ok ([], c)
  | e :: rest, c =>
    match inVal reps ol e c with
    | .error e => .error e
    | .ok (e', c') =>
      match inList reps ol rest c' with
      | .error e => .error e
      | .ok (rest', c'') => .ok (e' :: rest', c'')
end

/-- `_od_from_list_and_dict(ol, ind, reps)` -/
def importDict (reps : String) (ol : List Slot) (d : List (String × T)) : Except Err (List (String × T)) :=
  if !isAlnum reps then .error .notAlnum else
  match inDict reps ol d 0 with
  | .error e => .error e
  | .ok (d', c) => if c == 0 then .error .noPlaceholder else .ok d'

end PV.Tree
