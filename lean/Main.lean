/-
  Line-protocol driver: one JSON object per input line, one JSON object per output line.
  Run with `lake env lean --run Main.lean`.
-/
import PV.Driver

def main : IO Unit := PV.Driver.main
