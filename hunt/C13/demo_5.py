"""import_bootstrap cannot restore an observable that is not defined on configurations 1..N:
it has no idl argument and always builds the Obs on range(1, N+1). The re-imported
observable is therefore a different observable: original - imported is not an exact zero."""
import sys, inspect
sys.path.insert(0, sys.argv[1])
import numpy as np
import pyerrors as pe

rng = np.random.default_rng(3)
idl = [1, 3, 4, 8, 9, 20, 21, 22]
N, B = len(idl), 40
d = rng.normal(2, 1, N)
o = pe.Obs([d], ['ens|r1'], idl=[idl])
table = rng.integers(0, N, size=(B, N))
assert np.linalg.matrix_rank(np.vstack([np.bincount(r, minlength=N) for r in table])) == N  # unique reconstruction
b = o.export_bootstrap(B, random_numbers=table)
assert np.allclose(b[1:], [d[r].mean() for r in table])

if 'idl' in inspect.signature(pe.import_bootstrap).parameters:
    r = pe.import_bootstrap(b, 'ens|r1', table, idl=[idl])
else:
    r = pe.import_bootstrap(b, 'ens|r1', table)
diff = o - r
diff.gamma_method(S=0)
if list(r.idl['ens|r1']) != idl or diff.dvalue > 1e-10:
    print("C13 VIOLATED: import_bootstrap does not restore the observable defined on configs %s" % idl)
    print("  imported idl:", r.idl['ens|r1'], "(import_bootstrap signature: %s)" % inspect.signature(pe.import_bootstrap))
    print("  original - imported = %s, should be an exact zero" % diff)
    sys.exit(1)
print("ok")
