"""gamma_method(S=np.int64(0)) is refused (TypeError 'S is not in proper format') while
S=0, S=0.0, S=np.float64(0) and even S=False are accepted: numpy integers fail the
isinstance(tmp, (int, float)) test."""
import sys
sys.path.insert(0, sys.argv[1])
import numpy as np
import pyerrors as pe

rng = np.random.default_rng(1)
N = 10
d = rng.normal(0, 1, N)
o = pe.Obs([d], ['ens|r1'])
naive = np.std(d, ddof=1) / np.sqrt(N)
try:
    o.gamma_method(S=np.int64(0))
except Exception as e:
    print("C13 VIOLATED: gamma_method(S=np.int64(0)) raised %s: %s" % (type(e).__name__, e))
    sys.exit(1)
if not np.isclose(o.dvalue, naive):
    print("C13 VIOLATED: wrong naive error", o.dvalue, naive)
    sys.exit(1)
print("ok")
