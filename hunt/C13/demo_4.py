"""import_jackknife(jacks, name, idl) does not check that the configuration list has as many
entries as there are samples (it builds the Obs through the unchecked means= path).
A wrong idl is silently accepted and yields an inconsistent Obs (N = len(idl), but
len(jacks)-1 fluctuations) on which gamma_method and arithmetic run without complaint."""
import sys
sys.path.insert(0, sys.argv[1])
import numpy as np
import pyerrors as pe

rng = np.random.default_rng(2)
N = 10
d = rng.normal(3, 1, N)
o = pe.Obs([d], ['ens|r1'])
j = o.export_jackknife()
msgs = []
for wrong in (range(1, 8), range(1, 15)):
    try:
        r = pe.import_jackknife(j, 'ens|r1', idl=[wrong])
    except Exception:
        continue   # refusal is the correct behaviour (Obs([d], [name], idl=[wrong]) raises ValueError)
    r.gamma_method(S=0)
    msgs.append("idl=%r with %d samples accepted: N=%d, shape=%s, len(deltas)=%d, S=0 error %.6f (true naive error %.6f)"
                % (wrong, N, r.N, r.shape, len(r.deltas['ens|r1']), r.dvalue, np.std(d, ddof=1) / np.sqrt(N)))
if msgs:
    print("C13 VIOLATED (silent acceptance of a configuration list that does not fit the samples):\n  " + "\n  ".join(msgs))
    sys.exit(1)
print("ok")
