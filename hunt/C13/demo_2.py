"""export_bootstrap with a table whose rows do not contain N entries (m-out-of-n resampling,
or simply a wrong shape): the row counts are divided by N instead of by the number of drawn
configurations, so the returned numbers are NOT the means over the resampled configurations.
No shape check, no error."""
import sys
sys.path.insert(0, sys.argv[1])
import numpy as np
import pyerrors as pe

rng = np.random.default_rng(11)
N, M, B = 20, 10, 25
d = rng.normal(3, 1, N)
o = pe.Obs([d], ['ens|r1'])
table = rng.integers(0, N, size=(B, M))          # every row resamples M=10 of the 20 configurations
expected = np.array([d.mean()] + [d[row].mean() for row in table])
try:
    got = o.export_bootstrap(B, random_numbers=table)
except Exception as e:
    print("table refused (%s) - acceptable" % type(e).__name__)
    sys.exit(0)
if not np.allclose(got, expected, rtol=1e-12):
    print("C13 VIOLATED: table of shape (25, 10) for an Obs with 20 configs silently accepted;\n"
          "  samples are not the means over the resampled configurations:\n"
          "  got[1:4]      = %s\n  expected[1:4] = %s (ratio %s = M/N)" % (got[1:4], expected[1:4], got[1] / expected[1]))
    sys.exit(1)
print("ok")
