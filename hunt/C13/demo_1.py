"""export_bootstrap(random_numbers=table) ignores the number of rows of the table:
the output length is taken from the unrelated `samples` argument (default 500).
-> crash for any table that does not have exactly 500 rows, and a 1-row table is
silently broadcast into `samples` identical entries."""
import sys
sys.path.insert(0, sys.argv[1])
import numpy as np
import pyerrors as pe

rng = np.random.default_rng(7)
N, B = 20, 30
d = rng.normal(3, 1, N)
o = pe.Obs([d], ['ens|r1'])
table = rng.integers(0, N, size=(B, N))
expected = np.array([d.mean()] + [d[row].mean() for row in table])   # oracle: means over resampled configs

bad = []
try:
    got = o.export_bootstrap(random_numbers=table)
    if got.shape != expected.shape or not np.allclose(got, expected, rtol=1e-13):
        bad.append("export_bootstrap(random_numbers=<30x20 table>) returned wrong samples, shape %s" % (got.shape,))
except Exception as e:
    bad.append("export_bootstrap(random_numbers=<30x20 table>) raised %s: %s" % (type(e).__name__, e))

# second symptom: 1-row table with samples=5 -> silently 5 copies of one sample
try:
    got = o.export_bootstrap(5, random_numbers=table[:1])
    if len(got) != 2:
        bad.append("1-row table with samples=5 silently gave %d entries: %s (only ONE resampling was supplied)" % (len(got), got))
except Exception:
    pass  # a refusal of the inconsistent request is fine

if bad:
    print("C13 VIOLATED:\n  " + "\n  ".join(bad))
    sys.exit(1)
print("ok")
