"""Naive (S=0) error vs. jackknife error at small scales: gamma_method zeroes the error
when Gamma(0) < 10*tiny (~2e-307), i.e. for data with fluctuations below ~4e-154,
although the error and the jackknife samples are perfectly representable."""
import sys
sys.path.insert(0, sys.argv[1])
import numpy as np
import pyerrors as pe

rng = np.random.default_rng(1)
N = 6
scale = 1e-154
u = rng.normal(0, 1, N)
d = scale * u
o = pe.Obs([d], ['ens|r1'])
j = o.export_jackknife()
# oracle computed in units of `scale` to stay away from underflow
ju = j / scale
jack_err = scale * np.sqrt((N - 1) / N * np.sum((ju[1:] - ju[1:].mean()) ** 2))
naive = scale * np.std(u, ddof=1) / np.sqrt(N)
assert np.isclose(jack_err, naive, rtol=1e-10), (jack_err, naive)
o.gamma_method(S=0)
if not np.isclose(o.dvalue, jack_err, rtol=1e-8, atol=0):
    print("C13 VIOLATED: jackknife error %.6e (= naive error %.6e) but gamma_method(S=0) gives dvalue = %r" % (jack_err, naive, o.dvalue))
    sys.exit(1)
print("ok")
