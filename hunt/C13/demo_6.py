"""The only way the library offers to get hold of the name-seeded random numbers is
export_bootstrap(save_rng=file) (np.savetxt). Read back with np.loadtxt(file) the table is
integer valued but float64 - both export_bootstrap and import_bootstrap then die with a
TypeError from np.bincount instead of using the (perfectly well defined) table."""
import sys, os, tempfile
sys.path.insert(0, sys.argv[1])
import numpy as np
import pyerrors as pe

rng = np.random.default_rng(4)
N, B = 12, 30
d = rng.normal(1, 1, N)
o = pe.Obs([d], ['ens|r1'])
fn = os.path.join(tempfile.mkdtemp(), 'rng.txt')
b = o.export_bootstrap(B, save_rng=fn)
table = np.loadtxt(fn)                      # float64, all entries integer valued
assert np.array_equal(table, table.astype(int))
expected = np.array([d.mean()] + [d[row].mean() for row in table.astype(int)])
assert np.allclose(b, expected)             # the default-seeded export is consistent with the saved table
msgs = []
try:
    b2 = o.export_bootstrap(B, random_numbers=table)
    if not np.allclose(b2, expected):
        msgs.append("export with the reloaded table gives different samples")
except Exception as e:
    msgs.append("export_bootstrap(random_numbers=np.loadtxt(save_rng file)) raised %s: %s" % (type(e).__name__, e))
try:
    r = pe.import_bootstrap(b, 'ens|r1', table)
    if not np.allclose(r.deltas['ens|r1'], d - d.mean(), atol=1e-10):
        msgs.append("import with the reloaded table gives a different observable")
except Exception as e:
    msgs.append("import_bootstrap(b, name, np.loadtxt(save_rng file)) raised %s: %s" % (type(e).__name__, e))
if msgs:
    print("C13 VIOLATED (integer-valued table refused):\n  " + "\n  ".join(msgs))
    sys.exit(1)
print("ok")
