"""export_jackknife uses self.value as the mean but deltas + r_values as the data.
For an Obs whose central value is not the plain mean of its data (every Obs made by
import_jackknife from samples of a non-linear quantity, e.g. results of jack_matmul / einsum),
the exported samples are all shifted by N/(N-1) * (value - mean): they are not the
leave-one-out means of the observable's data and export(import(j)) != j."""
import sys
sys.path.insert(0, sys.argv[1])
import numpy as np
import pyerrors as pe

rng = np.random.default_rng(5)
N = 10
x = rng.normal(3, 1, N)
# genuine jackknife analysis of the non-linear quantity f = <x>^2 done outside pyerrors
loo = np.array([np.delete(x, i).mean() for i in range(N)])
jacks = np.concatenate([[x.mean() ** 2], loo ** 2])

o = pe.import_jackknife(jacks, 'ens|r1')
out = o.export_jackknife()

# oracle 1: round trip must give the samples back
# oracle 2: leave-one-out means of the data stored in the observable
data = o.deltas['ens|r1'] + o.r_values['ens|r1']
loo_data = np.array([np.delete(data, i).mean() for i in range(N)])

ok0 = out[0] == jacks[0]
ok1 = np.allclose(out[1:], jacks[1:], rtol=1e-12)
ok2 = np.allclose(out[1:], loo_data, rtol=1e-12)
if not (ok0 and ok1 and ok2):
    print("C13 VIOLATED: export_jackknife(import_jackknife(j)) != j")
    print("  j[1:4]        =", jacks[1:4])
    print("  exported[1:4] =", out[1:4])
    print("  LOO means of the Obs' own data[0:3] =", loo_data[:3])
    print("  constant shift =", (out[1:] - jacks[1:])[:3], " = N/(N-1)*(j[0]-mean(j[1:])) =", N / (N - 1) * (jacks[0] - jacks[1:].mean()))
    print("  spread of the jackknife samples (std) =", jacks[1:].std())
    sys.exit(1)
print("ok")
