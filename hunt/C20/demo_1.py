"""epsilon_tensor / epsilon_tensor_rank4 return garbage (127.0, 20.33, 9.2e18, ...) instead of -1
on every odd permutation when the indices are numpy unsigned integers (e.g. taken from an
index array of dtype uint8/uint16/uint32/uint64, as HDF5 index datasets often are)."""
import sys, itertools, warnings
sys.path.insert(0, sys.argv[1] if len(sys.argv) > 1 else '.')
import numpy as np
warnings.simplefilter('ignore')
from pyerrors.dirac import epsilon_tensor, epsilon_tensor_rank4


def sign(p):
    if len(set(p)) < len(p):
        return 0
    s = 1
    for a in range(len(p)):
        for b in range(a + 1, len(p)):
            if p[a] > p[b]:
                s = -s
    return s


bad = []
for dt in (np.uint8, np.uint16, np.uint32, np.uint64):
    for fn, rank in ((epsilon_tensor, 3), (epsilon_tensor_rank4, 4)):
        for lo in (0, 1):
            for t in itertools.product(range(lo, lo + rank), repeat=rank):
                try:
                    r = fn(*[dt(x) for x in t])
                except Exception as e:
                    bad.append((dt.__name__, t, 'raised ' + type(e).__name__))
                    continue
                if r != sign(t):
                    bad.append((dt.__name__, t, float(r), sign(t)))
if bad:
    print("VIOLATION: %d index tuples with wrong epsilon value; first few (dtype, tuple, got, expected):" % len(bad))
    for b in bad[:6]:
        print("  ", b)
    sys.exit(1)
print("ok")
