"""Re-exported pe.special.gammainc / gammaincc / betainc: the propagated x-derivative is inf / nan / 0
for moderately large shape parameters (a >~ 145 at x ~ a), although function value and true derivative are
perfectly ordinary numbers (e.g. gammainc(150, 150) = 0.51, derivative 0.0326).  The derivative formula
x**(a-1) * exp(-x) / gamma(a) overflows term by term."""
import sys, warnings
sys.path.insert(0, sys.argv[1] if len(sys.argv) > 1 else '.')
import numpy as np
import scipy.special as sp
warnings.simplefilter('ignore')
import pyerrors as pe

np.random.seed(1)


def deriv(f, xv):
    o = pe.pseudo_Obs(xv, 1e-3 * xv, 'e', samples=20)
    r = pe.derived_observable(lambda x, **kw: f(x[0]), [o])
    return r.value, (r.deltas['e'] / o.deltas['e'])[0]


bad = []
for a, x in [(50., 40.), (150., 150.), (160., 300.), (172., 172.), (200., 200.), (500., 480.)]:
    exp = np.exp(-x + (a - 1) * np.log(x) - sp.gammaln(a))  # analytic, evaluated in logs
    for name, sgn in (('gammainc', 1), ('gammaincc', -1)):
        v, d = deriv(lambda t: getattr(pe.special, name)(a, t), x)
        if not np.isclose(d, sgn * exp, rtol=1e-8):
            bad.append((name, a, x, 'value', v, 'deriv got', d, 'expected', sgn * exp))
for a, b, x in [(20., 30., 0.4), (600., 600., 0.5), (900., 700., 0.56)]:
    exp = np.exp((a - 1) * np.log(x) + (b - 1) * np.log1p(-x) - sp.betaln(a, b))
    v, d = deriv(lambda t: pe.special.betainc(a, b, t), x)
    if not np.isclose(d, exp, rtol=1e-8):
        bad.append(('betainc', (a, b), x, 'value', v, 'deriv got', d, 'expected', exp))
if bad:
    print("VIOLATION: non-analytic derivative propagated:")
    for b in bad:
        print("  ", b)
    sys.exit(1)
print("ok")
