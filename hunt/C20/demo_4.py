"""Re-exported functions at exact special arguments inside their domain propagate nan:
 rgamma = 1/Gamma is entire; at x = 0, -1, -2, -3 its value is 0 and its derivative is (-1)^k k! (1, -1, 2, -6),
   the library propagates nan (psi(x)/-gamma(x) = inf/inf);
 ive(n, x) at x = 0 for n >= 1: derivative is 0.5 (n=1) or 0 (n>=2), the library propagates nan (n/x)."""
import sys, warnings, math
sys.path.insert(0, sys.argv[1] if len(sys.argv) > 1 else '.')
import numpy as np
import scipy.special as sp
warnings.simplefilter('ignore')
import pyerrors as pe

np.random.seed(1)


def deriv(f, xv):
    o = pe.pseudo_Obs(xv, 1e-3, 'e', samples=20)
    r = pe.derived_observable(lambda x, **kw: f(x[0]), [o])
    return r.value, (r.deltas['e'] / o.deltas['e'])[0]


bad = []
h = 1e-6
for k in range(4):
    exp = (sp.rgamma(-k + h) - sp.rgamma(-k - h)) / (2 * h)  # numerical oracle, ~ (-1)^k k!
    assert abs(exp - (-1) ** k * math.factorial(k)) < 1e-4
    v, d = deriv(pe.special.rgamma, float(-k))
    if not np.isclose(d, exp, rtol=1e-4):
        bad.append(('rgamma', -k, 'value', v, 'deriv got', d, 'expected', (-1) ** k * math.factorial(k)))
for n in (1, 2, 3):
    exp = (sp.ive(n, h) - sp.ive(n, -h)) / (2 * h)
    v, d = deriv(lambda t: pe.special.ive(n, t), 0.0)
    if not np.isclose(d, exp, rtol=1e-4, atol=1e-5):
        bad.append(('ive', n, 0.0, 'value', v, 'deriv got', d, 'expected', round(exp, 6)))
if bad:
    print("VIOLATION: nan derivative at regular points:")
    for b in bad:
        print("  ", b)
    sys.exit(1)
print("ok")
