"""pe.special.kn(n, x) with the order given as a numpy unsigned integer 0 (np.uint8(0), np.uint64(0), e.g.
an element of np.arange(7, dtype=np.uint8)): value K_0(x) is right but the propagated derivative is
-inf / nan instead of -K_1(x), because np.abs(n - 1) wraps around to 255 / 2**64-1."""
import sys, warnings
sys.path.insert(0, sys.argv[1] if len(sys.argv) > 1 else '.')
import numpy as np
import scipy.special as sp
warnings.simplefilter('ignore')
import pyerrors as pe

np.random.seed(1)
bad = []
for dt in (np.uint8, np.uint16, np.uint32, np.uint64):
    for n in dt(0) + np.arange(0, 7, dtype=dt):
        for xv in (0.05, 1.3, 7.0, 20.0):
            o = pe.pseudo_Obs(xv, 0.01 * xv, 'e', samples=20)
            r = pe.derived_observable(lambda x, **kw: pe.special.kn(n, x[0]), [o])
            d = (r.deltas['e'] / o.deltas['e'])[0]
            m = int(n)
            # independent oracle: K_n' = -K_{n-1} - (n/x) K_n, K_{-1} = K_1
            exp = -sp.kv(abs(m - 1), xv) - m / xv * sp.kv(m, xv)
            if not np.isclose(d, exp, rtol=1e-10):
                bad.append((dt.__name__, m, xv, d, exp))
if bad:
    print("VIOLATION: wrong derivative of K_n for unsigned-integer order (dtype, n, x, got, expected):")
    for b in bad[:6]:
        print("  ", b)
    sys.exit(1)
print("ok")
