"""Grid_gamma returns the module-level constant arrays themselves (Identity, Gamma5) or writable views into
dirac.gamma (GammaX..GammaT).  A caller that scales the returned matrix in place (g *= -1) silently corrupts
the table: afterwards Grid_gamma('Gamma5') != GammaX GammaY GammaZ GammaT and 'GammaXGamma5' has the wrong sign.
Products / commutators are fresh arrays, so the behaviour is also inconsistent between tags."""
import sys
sys.path.insert(0, sys.argv[1] if len(sys.argv) > 1 else '.')
import numpy as np
from pyerrors.dirac import Grid_gamma

tags = ['Identity', 'Gamma5', 'GammaX', 'GammaY', 'GammaZ', 'GammaT', 'GammaXGamma5', 'GammaYGamma5', 'GammaZGamma5',
        'GammaTGamma5', 'SigmaXT', 'SigmaXY', 'SigmaXZ', 'SigmaYT', 'SigmaYZ', 'SigmaZT']
ref = {t: np.array(Grid_gamma(t)) for t in tags}
g = [ref['Gamma' + c] for c in 'XYZT']
assert np.array_equal(g[0] @ g[1] @ g[2] @ g[3], ref['Gamma5'])
for t in tags:           # a user works with a returned matrix in place
    m = Grid_gamma(t)
    m *= -1
bad = [t for t in tags if not np.array_equal(Grid_gamma(t), ref[t])]
if bad:
    print("VIOLATION: after in-place use of returned matrices the constant table changed for tags:", bad)
    sys.exit(1)
print("ok")
