"""An observable passed as the ORDER of kn / iv / ive / jn / yn / polygamma is silently accepted and its
fluctuations are dropped (derivative w.r.t. the order declared as None -> zero), so the error of the
result is underestimated without any warning.  (gammainc / betainc correctly refuse with NotImplementedError
for their shape parameters.)  Correct behaviour: refuse, or propagate d/d(order)."""
import sys, warnings
sys.path.insert(0, sys.argv[1] if len(sys.argv) > 1 else '.')
import numpy as np
import scipy.special as sp
warnings.simplefilter('ignore')
import pyerrors as pe

np.random.seed(1)
nu = pe.pseudo_Obs(2.0, 0.1, 'order', samples=50)
x = pe.pseudo_Obs(3.1, 0.01, 'arg', samples=50)
bad = []
h = 1e-5
for name, ref in (('iv', sp.iv), ('ive', sp.ive), ('kn', sp.kv), ('jn', sp.jv), ('yn', sp.yv)):
    f = getattr(pe.special, name)
    try:
        r = pe.derived_observable(lambda a, **kw: f(a[0], a[1]), [nu, x])
    except Exception:
        continue  # a refusal is fine
    true_d = (ref(2.0 + h, 3.1) - ref(2.0 - h, 3.1)) / (2 * h)  # d/d(order), numerically
    got = (r.deltas['order'] / nu.deltas['order'])[0]
    if not np.isclose(got, true_d, rtol=1e-4):
        bad.append((name, 'd/d(order) propagated', got, 'true', true_d))
if bad:
    print("VIOLATION: order given as Obs accepted, its error silently dropped:")
    for b in bad:
        print("  ", b)
    sys.exit(1)
print("ok")
