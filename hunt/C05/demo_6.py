"""<w o>/<w> does not depend on the normalisation of w, but the error of reweight()
silently changes (or becomes nan) when the weights are large / tiny, because the
gradient -x/y**2 of the division overflows / underflows in y**2."""
import sys, warnings
sys.path.insert(0, sys.argv[1])
import numpy as np
import pyerrors as pe
warnings.simplefilter('ignore')

rng = np.random.default_rng(11)
N = 40
wd = rng.normal(1, .3, N)
od = rng.normal(2, .5, N) + wd
# oracle: naive error of the ratio estimator, scale free by construction
A, B = (wd * od).mean(), wd.mean()
d = (wd * od - A) / B - A / B ** 2 * (wd - B)
exp_val, exp_err = A / B, np.sqrt(np.sum(d ** 2) / (N * (N - 1)))  # pyerrors applies the 1/(N-1) bias correction at S=0
bad = []
for sc in (1.0, 1e100, 1e160, 1e300, 1e-100, 1e-170, 1e-300):
    w = pe.Obs([wd * sc], ['A'])
    o = pe.Obs([od], ['A'])
    r = pe.reweight(w, [o])[0]
    r.gamma_method(S=0)
    ok = np.isclose(r.value, exp_val, rtol=1e-10) and np.isclose(r.dvalue, exp_err, rtol=1e-6)
    print("scale %g: %.10f +- %.10f  expected %.10f +- %.10f %s" % (sc, r.value, r.dvalue, exp_val, exp_err, '' if ok else 'WRONG'))
    if not ok:
        bad.append(sc)
if bad:
    print("VIOLATION: wrong error for weight scales", bad)
    sys.exit(1)
sys.exit(0)
