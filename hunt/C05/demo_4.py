"""reweight silently accepts a weight that contains a covobs (must raise); the two
normalisation modes then even disagree on the error."""
import sys
sys.path.insert(0, sys.argv[1])
import numpy as np
import pyerrors as pe

rng = np.random.default_rng(4)
N = 40
w = pe.Obs([rng.normal(1, .1, N)], ['A'])
o = pe.Obs([rng.normal(2, .3, N)], ['A'])
c = pe.cov_Obs(1.0, 0.04, 'cv')
wc = w * c                                   # weight with a covariance input
assert wc.cov_names == ['cv']
# control: the other direction and correlate / merge_obs refuse
for f in (lambda: pe.reweight(w, [o * c]), lambda: pe.correlate(wc, o), lambda: pe.merge_obs([wc])):
    try:
        f()
        raise SystemExit("control did not raise")
    except ValueError:
        pass
accepted = []
for allc in (False, True):
    try:
        r = pe.reweight(wc, [o], all_configs=allc)[0]
        r.gamma_method(S=0)
        accepted.append("all_configs=%s -> %s, names %s" % (allc, r, r.names))
    except Exception:
        pass
if accepted:
    print("VIOLATION: reweight accepts a weight containing a covobs instead of raising:")
    for a in accepted:
        print("  -", a)
    sys.exit(1)
print("ok")
sys.exit(0)
