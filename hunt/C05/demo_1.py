"""merge_obs stores the reweighted flag as numpy.bool_; everything derived from the
merged observable loses the flag (derived_observable tests `is True`), and the merged
observable cannot be written to JSON / pandas."""
import sys
sys.path.insert(0, sys.argv[1])
import numpy as np
import pyerrors as pe

rng = np.random.default_rng(1)
w1 = pe.Obs([rng.normal(1, .1, 20)], ['A|r1'])
w2 = pe.Obs([rng.normal(1, .1, 30)], ['A|r2'])
o1 = pe.Obs([rng.normal(2, .1, 20)], ['A|r1'])
o2 = pe.Obs([rng.normal(2, .1, 30)], ['A|r2'])
r1 = pe.reweight(w1, [o1])[0]
r2 = pe.reweight(w2, [o2])[0]
assert r1.reweighted is True and r2.reweighted is True
m = pe.merge_obs([r1, r2])           # union of two reweighted chains -> must be flagged
problems = []
if not m.reweighted:
    problems.append("merge_obs of reweighted Obs is not flagged reweighted")
for label, d in [("2 * merged", 2 * m), ("merged + plain", m + pe.merge_obs([o1, o2])), ("sqrt(merged)", np.sqrt(m))]:
    if not d.reweighted:             # oracle: an input is reweighted -> result must be reweighted
        problems.append("%s: reweighted = %r although it is derived from a reweighted Obs" % (label, d.reweighted))
# control: same derivation from an un-merged reweighted obs keeps the flag
assert (2 * r1).reweighted is True
try:
    s = pe.input.json.create_json_string(m)
    back = pe.input.json.import_json_string(s, verbose=False)
    if not back.reweighted:
        problems.append("JSON round trip of merged reweighted Obs lost the flag")
except Exception as e:
    problems.append("JSON export of merged reweighted Obs fails: %r" % (e,))
if problems:
    print("VIOLATION (type(merged.reweighted) = %s):" % repr(type(m.reweighted)))
    for p in problems:
        print("  -", p)
    sys.exit(1)
print("ok")
sys.exit(0)
