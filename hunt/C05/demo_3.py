"""pe.linalg.jack_matmul and pe.linalg.einsum drop the reweighted flag."""
import sys
sys.path.insert(0, sys.argv[1])
import numpy as np
import pyerrors as pe

rng = np.random.default_rng(3)
N = 50
w = pe.Obs([rng.normal(1, .1, N)], ['A'])
r = pe.reweight(w, [pe.Obs([rng.normal(1 + i, .1, N)], ['A']) for i in range(4)])
M = np.array([[r[0], r[1]], [r[2], r[3]]])
assert all(x.reweighted is True for x in M.ravel())
ref = pe.linalg.matmul(M, M)                       # exact propagation keeps the flag
assert all(x.reweighted for x in ref.ravel())
problems = []
for label, res in [("jack_matmul(M, M)", pe.linalg.jack_matmul(M, M)),
                   ("einsum('ij,jk->ik', M, M)", pe.linalg.einsum('ij,jk->ik', M, M)),
                   ("einsum('ii', M)", np.array([pe.linalg.einsum('ii', M)]))]:
    flags = [bool(x.reweighted) for x in res.ravel()]
    if not all(flags):                             # every input is reweighted -> every output must be
        problems.append("%s: reweighted flags %s" % (label, flags))
if problems:
    print("VIOLATION: results derived from reweighted Obs are not flagged:")
    for p in problems:
        print("  -", p)
    sys.exit(1)
print("ok")
sys.exit(0)
