"""reweight(..., all_configs=True) with an observable on a subset of the replicas:
the error depends on how the replica is NAMED. A replica whose name is the bare
ensemble name ('E' next to 'E|r2', accepted everywhere in the library) is not
counted by the missing-replica rescaling and the error comes out far too small."""
import sys
sys.path.insert(0, sys.argv[1])
import numpy as np
import pyerrors as pe

rng = np.random.default_rng(7)
n1, n2 = 30, 50
w1 = rng.normal(1, .2, n1)
w2 = rng.normal(1, .2, n2)
o1 = rng.normal(2, .4, n1)
# oracle: R = A / B, A = mean_{r1}(w o), B = mean_{r1+r2}(w), naive (uncorrelated) error propagation
x = w1 * o1
A = x.mean()
wall = np.concatenate([w1, w2])
B = wall.mean()
var = x.var() / (n1 * B ** 2) + A ** 2 / B ** 4 * wall.var() / (n1 + n2) - 2 * A / B ** 3 * np.cov(x, w1, bias=True)[0, 1] / (n1 + n2)
exp_val, exp_err = A / B, np.sqrt(var)
bad = []
for first in ('E|r1', 'E'):
    w = pe.Obs([w1, w2], [first, 'E|r2'])
    o = pe.Obs([o1], [first])
    r = pe.reweight(w, [o], all_configs=True)[0]
    r.gamma_method(S=0)
    ok = np.isclose(r.value, exp_val, rtol=1e-12) and abs(r.dvalue / exp_err - 1) < 0.05
    print("replica names (%r, 'E|r2'): %.6f +- %.6f   expected %.6f +- %.6f   %s" % (first, r.value, r.dvalue, exp_val, exp_err, 'ok' if ok else 'WRONG'))
    if not ok:
        bad.append(first)
if bad:
    print("VIOLATION: error of the reweighted observable depends on the replica name", bad)
    sys.exit(1)
sys.exit(0)
