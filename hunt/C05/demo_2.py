"""Obs.reweight documents the keyword all_configs but does not accept it."""
import sys
sys.path.insert(0, sys.argv[1])
import numpy as np
import pyerrors as pe

rng = np.random.default_rng(2)
wd = rng.normal(1, .3, 40)
od = rng.normal(2, .5, 20)
w = pe.Obs([wd], ['A'], idl=[range(1, 41)])
o = pe.Obs([od], ['A'], idl=[range(2, 41, 2)])          # every second configuration of w
expected = np.mean(wd[1::2] * od) / np.mean(wd)          # normalised on ALL configurations of w
assert 'all_configs' in pe.Obs.reweight.__doc__          # the keyword is documented for the method
try:
    r = o.reweight(w, all_configs=True)
except Exception as e:
    print("VIOLATION: o.reweight(w, all_configs=True) raises %r; expected value %.15g (pe.reweight gives %.15g)"
          % (e, expected, pe.reweight(w, [o], all_configs=True)[0].value))
    sys.exit(1)
if not (np.isclose(r.value, expected, rtol=1e-12) and r.reweighted is True):
    print("VIOLATION: wrong result", r.value, expected, r.reweighted)
    sys.exit(1)
print("ok")
sys.exit(0)
