"""C19 demo 1: the bare sign / padding flags '+' and ' ' (default significance) crash Obs.__format__ and CObs.__format__."""
import sys
sys.path.insert(0, sys.argv[1])
import numpy as np
import pyerrors as pe

rng = np.random.default_rng(7)
o = pe.Obs([1.2345 + 0.3 * rng.normal(size=500)], ['ens'])
o.gamma_method()
m = pe.Obs([-0.7 + 0.3 * rng.normal(size=500)], ['ens'])
m.gamma_method()
c = pe.CObs(o, m)

plain = format(o, '')           # default: two significant digits
assert plain == format(o, '2') == str(o)
problems = []
# oracle: a flag only affects the leading character
expected = [(o, '+', '+' + format(o, '')), (o, ' ', ' ' + format(o, '')),
            (m, '+', format(m, '')), (m, ' ', format(m, '')),
            (c, '+', '(+' + format(c, '')[1:]), (c, ' ', '( ' + format(c, '')[1:])]
for obj, flag, exp in expected:
    try:
        got = format(obj, flag)
    except Exception as e:
        problems.append(f"format({obj!r}, {flag!r}) raised {type(e).__name__}: {e} (expected {exp!r})")
        continue
    if got != exp:
        problems.append(f"format({obj!r}, {flag!r}) = {got!r}, expected {exp!r}")
if problems:
    print("VIOLATION: format flags without explicit significance are refused")
    print("\n".join(problems))
    sys.exit(1)
print("ok")
