"""C19 demo 2: is_zero_within_error ignores value and error for observables on small scales
(|value| and fluctuations below 1e-10): it answers True although the value is many sigma away from zero."""
import sys
sys.path.insert(0, sys.argv[1])
import numpy as np
import pyerrors as pe

rng = np.random.default_rng(11)
problems = []
cases = []
# Monte Carlo data on a small scale: value 5e-11, error about 1e-13  (about 500 sigma from zero)
o1 = pe.Obs([5e-11 + 2e-12 * rng.normal(size=400)], ['ens'])
o1.gamma_method()
cases.append(('Obs(5e-11 + 2e-12*noise)', o1))
# covariance observable: value 1e-11, error 1e-13 (100 sigma from zero)
o2 = pe.cov_Obs(1e-11, (1e-13) ** 2, 'cov')
o2.gamma_method()
cases.append(('cov_Obs(1e-11, 1e-26)', o2))
# same numbers rescaled by 1e6 as a control
o3 = pe.cov_Obs(1e-5, (1e-7) ** 2, 'cov2')
o3.gamma_method()
cases.append(('cov_Obs(1e-5, 1e-14)', o3))
for label, o in cases:
    for sigma in (1, 2, 3, 5):
        expected = bool(abs(o.value) <= sigma * o.dvalue)   # the definition of 'zero within sigma errors'
        got = bool(o.is_zero_within_error(sigma))
        if got != expected:
            problems.append(f"{label}: prints {o}, |value|/error = {abs(o.value) / o.dvalue:.1f}, "
                            f"is_zero_within_error({sigma}) = {got}, expected {expected}")
if problems:
    print("VIOLATION: zero-within-n-sigma test does not use value and error on small scales")
    print("\n".join(problems))
    sys.exit(1)
print("ok")
