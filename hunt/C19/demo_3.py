"""C19 demo 3: for errors >= 10 (significance 1) / >= 100 (significance 2) ... the printed error carries
more significant digits than requested and the value is not rounded to the decimal place of the
last requested error digit."""
import sys
sys.path.insert(0, sys.argv[1])
from decimal import Decimal as D, ROUND_HALF_EVEN
import pyerrors as pe

problems = []
for v, e, s in [(1234.5678, 123.4, 2), (1234.5678, 123.4, 1), (98765.4, 15.3, 1), (5.0e6, 43210.0, 3),
                (1234.5678, 1.234, 2), (1234.5678, 0.01234, 2), (1234.5678, 12.34, 2)]:
    o = pe.cov_Obs(v, e ** 2, 'c')
    o.gamma_method()
    e = float(o.dvalue)
    got = format(o, str(s))
    # oracle: unit of the last requested significant digit of the error
    unit = D(10) ** (D(e).adjusted() - s + 1)
    e_exp = (D(e) / unit).quantize(D(1), rounding=ROUND_HALF_EVEN) * unit
    v_exp = (D(v) / unit).quantize(D(1), rounding=ROUND_HALF_EVEN) * unit
    vs, es = got[:-1].split('(')
    nd = len(vs.partition('.')[2])
    e_got = D(es) if ('.' in es or nd == 0) else D(es) * D(10) ** -nd
    v_got = D(vs)
    if e_got != e_exp or v_got != v_exp:
        problems.append(f"value={v}, error={e}, significance={s}: printed {got!r}; error rounded to {s} "
                        f"significant digit(s) is {e_exp:f} and the value at that place is {v_exp:f}")
if problems:
    print("VIOLATION: error not rounded to the requested number of significant digits")
    print("\n".join(problems))
    sys.exit(1)
print("ok")
