"""Complex observables are not closed under ** : CObs has neither __pow__ nor
__rpow__, so CObs ** 2, CObs ** 0.5, 2 ** CObs, Obs ** CObs all raise
TypeError (Obs ** complex and complex ** Obs do return a CObs)."""
import sys
sys.path.insert(0, sys.argv[1])
import numpy as np
import pyerrors as pe

rng = np.random.default_rng(10)
a = pe.Obs([rng.normal(1.0, 0.1, 20)], ['A'])
b = pe.Obs([rng.normal(2.0, 0.1, 20)], ['A'])
z = pe.CObs(a, b)
zc = complex(a.value, b.value)
bad = []
for label, f, expect in (('z ** 2', lambda: z ** 2, zc ** 2), ('z ** 0.5', lambda: z ** 0.5, zc ** 0.5),
                         ('2 ** z', lambda: 2 ** z, 2 ** zc), ('a ** z', lambda: a ** z, a.value ** zc)):
    try:
        r = f()
        if not isinstance(r, pe.CObs) or abs(complex(r.real.value, r.imag.value) - expect) > 1e-10:
            bad.append(f'{label}: {r!r}, expected {expect}')
    except Exception as e:
        bad.append(f'{label}: {type(e).__name__}: {e}')
# control: the same power written as a product works
p = z * z
assert abs(complex(p.real.value, p.imag.value) - zc ** 2) < 1e-12
if bad:
    print('VIOLATION: arithmetic on complex observables not closed:')
    for x in bad:
        print('  ', x)
    sys.exit(1)
sys.exit(0)
