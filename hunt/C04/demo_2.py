"""Obs (op) numpy.complex64 returns an Obs with a COMPLEX central value and
complex fluctuations instead of a CObs (np.complex64 is not a subclass of
complex, so the isinstance(y, complex) dispatch in Obs.__mul__ etc. misses it)."""
import sys, operator
sys.path.insert(0, sys.argv[1])
import numpy as np
import pyerrors as pe

rng = np.random.default_rng(1)
a = pe.Obs([rng.normal(1.0, 0.1, 20)], ['A'])
y = np.complex64(1 + 1j)
bad = []
for name, op in [('mul', operator.mul), ('truediv', operator.truediv), ('add', operator.add),
                 ('sub', operator.sub), ('pow', operator.pow)]:
    r = op(a, y)
    expect = op(complex(a.value), complex(y))   # oracle for the central value
    ok = isinstance(r, pe.CObs)
    if ok:
        re = r.real.value if isinstance(r.real, pe.Obs) else r.real
        im = r.imag.value if isinstance(r.imag, pe.Obs) else r.imag
        ok = (not np.iscomplexobj(re)) and (not np.iscomplexobj(im)) and abs(complex(re, im) - expect) < 1e-6
    if not ok:
        bad.append((name, type(r).__name__, getattr(r, 'value', None)))
# arrays of complex64 go the same way
r = a * np.array([1j, 2], dtype=np.complex64)
if any(isinstance(x, pe.Obs) and np.iscomplexobj(x.value) for x in r):
    bad.append(('mul ndarray(complex64)', [type(x.value).__name__ for x in r]))
if bad:
    print('VIOLATION: real Obs with complex central value returned:', bad)
    sys.exit(1)
sys.exit(0)
