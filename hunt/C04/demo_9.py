"""A positive SEMI-definite (singular) covariance matrix, e.g. three fully
correlated errors C = v v^T, is refused as 'not positive-semidefinite' because
a rounding-level negative eigenvalue (-1e-17) is compared with `< 0`."""
import sys
sys.path.insert(0, sys.argv[1])
import numpy as np
import pyerrors as pe

bad = []
for v in (np.array([1.0, 2.0, 3.0]), np.array([0.1, 0.2, 0.3])):
    cov = np.outer(v, v)            # x^T cov x = (v.x)^2 >= 0: PSD by construction, exactly symmetric
    assert np.array_equal(cov, cov.T)
    try:
        ol = pe.cov_Obs([1.0, 2.0, 3.0], cov, 'sys')
        s = ol[0] + ol[1] + ol[2]
        s.gamma_method()
        if abs(s.dvalue - abs(v.sum())) > 1e-10:   # oracle: error of the sum is |sum v|
            bad.append(f'v={v}: error {s.dvalue}, expected {abs(v.sum())}')
    except Exception as e:
        bad.append(f'v={v}: cov_Obs raises {type(e).__name__}: {e} (eigenvalues {np.linalg.eigvalsh(cov)})')
if bad:
    print('VIOLATION: valid (semi-definite) covariance refused:')
    for b in bad:
        print('  ', b)
    sys.exit(1)
sys.exit(0)
