"""write_dobs / create_dobs_string writes the <cdata> blocks inside the loop
over the Monte-Carlo ensembles. A list of observables that depend only on
covariance inputs (cov_Obs) is written without any cdata: read_dobs returns
an observable without name and without error."""
import sys, os, tempfile
sys.path.insert(0, sys.argv[1])
import numpy as np
import pyerrors as pe

c = pe.cov_Obs(2.5, 0.1, 'cv')
c.gamma_method()
fn = os.path.join(tempfile.mkdtemp(), 'z')
pe.input.dobs.write_dobs([c], fn, 'name')
r = pe.input.dobs.read_dobs(fn)[0]
r.gamma_method()
expected_err = np.sqrt(0.1)  # oracle
ok = r.names == ['cv'] and list(r.covobs.keys()) == ['cv'] and abs(r.dvalue - expected_err) < 1e-12 and abs(r.value - 2.5) < 1e-14
if not ok:
    print(f'VIOLATION: dobs round trip of cov_Obs(2.5, 0.1, "cv"): names={r.names} cov_names={r.cov_names} '
          f'value={r.value} dvalue={r.dvalue} (expected names [\'cv\'], dvalue {expected_err})')
    sys.exit(1)
sys.exit(0)
