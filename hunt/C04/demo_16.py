"""Obs.reweight documents the keyword all_configs but does not accept it."""
import sys
sys.path.insert(0, sys.argv[1])
import numpy as np
import pyerrors as pe

rng = np.random.default_rng(11)
w = pe.Obs([rng.normal(1.0, 0.1, 20)], ['A'])
o = pe.Obs([rng.normal(1.0, 0.1, 7)], ['A'], idl=[[1, 2, 4, 5, 7, 9, 10]])
assert 'all_configs' in pe.Obs.reweight.__doc__
ref = pe.reweight(w, [o], all_configs=True)[0]          # oracle: the module level function
try:
    r = o.reweight(w, all_configs=True)
except Exception as e:
    print(f'VIOLATION: o.reweight(w, all_configs=True) raises {type(e).__name__}: {e}')
    sys.exit(1)
if not (r - ref).is_zero() or r.reweighted is not True:
    print('VIOLATION: method and function disagree')
    sys.exit(1)
sys.exit(0)
