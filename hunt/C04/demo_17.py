"""derived_observable replaces plain numbers in the CALLER's object array by
dummy covariance observables (np.asarray does not copy an ndarray, ravel gives
a view). linalg.eigh / eig / eigv / pinv / svd pass the user's matrix straight
through: after the call the user's matrix holds Obs named '###dummy_covobs###'
where the numbers were."""
import sys
sys.path.insert(0, sys.argv[1])
import numpy as np
import pyerrors as pe

rng = np.random.default_rng(12)
a = pe.Obs([rng.normal(3.0, 0.1, 20)], ['A'])
bad = []
for name in ('eigh', 'eig', 'eigv', 'pinv', 'svd'):
    M = np.array([[a, 0.5], [0.5, 2.0]], dtype=object)
    before = [type(x).__name__ for x in M.ravel()]
    getattr(pe.linalg, name)(M)
    after = [type(x).__name__ for x in M.ravel()]
    if before != after:
        bad.append(f'linalg.{name}: entries of the argument {before} -> {after} ({M[0, 1].names})')
v = np.array([a, 2.0], dtype=object)
pe.derived_observable(lambda x: x[0] * x[1], v)
if not isinstance(v[1], float):
    bad.append(f'derived_observable: v[1] = 2.0 became {type(v[1]).__name__} {v[1].names}')
if bad:
    print('VIOLATION: argument modified in place:')
    for b in bad:
        print('  ', b)
    sys.exit(1)
sys.exit(0)
