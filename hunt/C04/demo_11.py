"""read_dobs enters every covariance name into the per-chain dictionaries
shape and idl (shape 1, empty configuration list): the imported observable has
a 'chain' whose recorded length (1) differs from the length of its
configuration list (0), is not counted in N and has no fluctuations."""
import sys, os, tempfile
sys.path.insert(0, sys.argv[1])
import numpy as np
import pyerrors as pe

rng = np.random.default_rng(6)
o = pe.Obs([rng.normal(1.0, 0.1, 20)], ['E|r1']) * pe.cov_Obs(2.5, 0.1, 'cv')
fn = os.path.join(tempfile.mkdtemp(), 'z')
pe.input.dobs.write_dobs([o], fn, 'name')
back = pe.input.dobs.read_dobs(fn)[0]
# oracle: structure of the observable that was written
ok = sorted(back.idl.keys()) == sorted(o.idl.keys()) and sorted(back.shape.keys()) == sorted(o.shape.keys()) \
    and all(back.shape[k] == len(back.idl[k]) == len(back.deltas[k]) for k in back.shape) and back.N == sum(back.shape.values())
if not ok:
    print(f'VIOLATION: written idl keys {list(o.idl)} shape {o.shape}; read back idl {back.idl} shape {back.shape} deltas keys {list(back.deltas)} N {back.N}')
    sys.exit(1)
sys.exit(0)
