"""Obs.names is not sorted once a covariance name sorts before a chain name:
derived_observable appends the covariance names after the (sorted) chain names.
Prior names ('#prior...') of fits and the internal '###dummy_covobs###' hit
the same path: '#' sorts before all letters and digits. The dummy name even
survives in the result of linalg functions applied to matrices that contain
plain numbers, although it is no covariance input of the user."""
import sys
sys.path.insert(0, sys.argv[1])
import numpy as np
import pyerrors as pe

rng = np.random.default_rng(5)
b = pe.Obs([rng.normal(1.0, 0.1, 20)], ['B'])
c = pe.cov_Obs(1.0, 0.1, 'A')
bad = []
s = b + c
if s.names != sorted(set(s.names)):
    bad.append(f"(Obs on 'B') + cov_Obs(..., 'A'): names = {s.names}, sorted would be {sorted(s.names)}")
xs = np.arange(1, 6)
ys = [pe.Obs([rng.normal(2 + 0.5 * x, 0.1, 30)], ['ens']) for x in xs]
[y.gamma_method() for y in ys]
fr = pe.fits.least_squares(xs, ys, lambda p, x: p[0] + p[1] * x, priors=['2.0(5)', '0.5(5)'], silent=True)
n = fr.fit_parameters[0].names
if n != sorted(set(n)):
    bad.append(f'fit parameter with priors: names = {n}')
inv = pe.linalg.inv(np.array([[b, 0.0], [0.0, 2.0]]))
n = inv[0, 0].names
if n != ['B']:
    bad.append(f"linalg.inv([[b, 0], [0, 2]])[0, 0].names = {n}, cov_names = {inv[0, 0].cov_names} (expected ['B'] only)")
if bad:
    print('VIOLATION: names list not sorted / spurious name:')
    for x in bad:
        print('  ', x)
    sys.exit(1)
sys.exit(0)
