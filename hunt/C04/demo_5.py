"""merge_obs stores the reweighted flag as numpy.bool_ (np.max of a list of
bools). derived_observable tests `o.reweighted is True`, which is False for
np.True_: every arithmetic operation on the merged observable silently drops
the reweighted flag, and the json export of the merged observable crashes."""
import sys, os, tempfile
sys.path.insert(0, sys.argv[1])
import numpy as np
import pyerrors as pe

rng = np.random.default_rng(3)
w = pe.Obs([rng.normal(1.0, 0.1, 20)], ['E|r1'])
o1 = pe.Obs([rng.normal(1.0, 0.1, 20)], ['E|r1'])
o2 = pe.Obs([rng.normal(1.0, 0.1, 20)], ['E|r2'])
rw = pe.reweight(w, [o1])[0]
assert rw.reweighted is True
merged = pe.merge_obs([rw, o2])
bad = []
# oracle: one of the inputs is reweighted, hence every descendant is
assert bool(merged.reweighted)
if (2 * rw).reweighted is not True:
    print('control failed')
for label, r in [('2 * merged', 2 * merged), ('sin(merged)', np.sin(merged)), ('merged + o2', merged + o2)]:
    if not r.reweighted:
        bad.append(f'{label}: reweighted = {r.reweighted!r} (merged.reweighted = {merged.reweighted!r})')
try:
    fn = os.path.join(tempfile.mkdtemp(), 'x')
    pe.input.json.dump_to_json([merged], fn)
    back = pe.input.json.load_json(fn, verbose=False)
    if not back.reweighted:
        bad.append('json round trip lost the flag')
except Exception as e:
    bad.append(f'dump_to_json([merged]) raises {type(e).__name__}: {e}')
if bad:
    print('VIOLATION (wrong flag):')
    for b in bad:
        print('  ', b)
    sys.exit(1)
sys.exit(0)
