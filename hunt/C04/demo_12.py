"""pe.linalg.einsum with numpy's implicit output form ('ij,jk' without '->')
returns garbage: numpy puts the broadcast (jackknife) axis FIRST in implicit
mode, the wrapper assumes it is last, so a matrix index is taken for the
jackknife axis. The observables that come out have one fluctuation for a
configuration list of 20 (import_jackknife does not check the length)."""
import sys
sys.path.insert(0, sys.argv[1])
import numpy as np
import pyerrors as pe

rng = np.random.default_rng(7)
A = np.array([[pe.Obs([rng.normal(1.0 + i + 2 * j, 0.1, 20)], ['A']) for j in range(2)] for i in range(2)])
ref = A @ A                                              # oracle: plain matrix product
vals = np.vectorize(lambda o: o.value)(A)
assert np.allclose(np.vectorize(lambda o: o.value)(ref), vals @ vals)
res = pe.linalg.einsum('ij,jk', A, A)                    # same thing in implicit notation
bad = []
if np.shape(res) != (2, 2):
    bad.append(f'result shape {np.shape(res)} instead of (2, 2)')
o = np.asarray(res, dtype=object).ravel()[0]
n = o.names[0]
if len(o.deltas[n]) != len(o.idl[n]) or o.shape[n] != len(o.deltas[n]):
    bad.append(f'element 0: {len(o.deltas[n])} fluctuations, {len(o.idl[n])} configuration numbers, shape {o.shape[n]}')
if not bad:
    if not np.allclose(np.vectorize(lambda o: o.value)(res), vals @ vals, rtol=1e-3):
        bad.append('wrong values')
exp = pe.linalg.einsum('ij,jk->ik', A, A)                # explicit form works
if np.shape(exp) != (2, 2):
    print('explicit form broken as well')
if bad:
    print("VIOLATION: einsum('ij,jk', A, A):", '; '.join(bad))
    sys.exit(1)
sys.exit(0)
