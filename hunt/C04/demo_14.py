"""Obs + complex, Obs - complex, complex - Obs return a CObs whose imaginary
part is a bare float instead of an observable (Obs * complex, Obs / complex,
Obs ** complex return two observables). Functions that rely on the parts being
observables then crash, e.g. linalg.jack_matmul / linalg.einsum."""
import sys
sys.path.insert(0, sys.argv[1])
import numpy as np
import pyerrors as pe

rng = np.random.default_rng(9)
a = pe.Obs([rng.normal(1.0, 0.1, 20)], ['A'])
bad = []
for label, r, expect in (('a + 1j', a + 1j, complex(a.value, 1)), ('a - 1j', a - 1j, complex(a.value, -1)),
                         ('1j - a', 1j - a, complex(-a.value, 1)), ('1j + a', 1j + a, complex(a.value, 1)),
                         ('a * 1j', a * 1j, complex(0, a.value))):
    if not isinstance(r, pe.CObs):
        bad.append(f'{label}: {type(r).__name__}')
        continue
    for part, nm, ev in ((r.real, 'real', expect.real), (r.imag, 'imag', expect.imag)):
        if not isinstance(part, pe.Obs):
            bad.append(f'{label}: .{nm} is a bare {type(part).__name__} ({part!r})')
        elif abs(part.value - ev) > 1e-12:
            bad.append(f'{label}: .{nm} value {part.value} != {ev}')
w = a + 1j
M = np.array([[w, w], [w, w]])
try:
    r = pe.linalg.jack_matmul(M, M)
    ev = 2 * complex(a.value, 1) ** 2
    if abs(complex(r[0, 0].real.value, r[0, 0].imag.value) - ev) > 1e-8:
        bad.append('jack_matmul wrong value')
except Exception as e:
    bad.append(f'jack_matmul on a matrix of (a + 1j): {type(e).__name__}: {e}')
if bad:
    print('VIOLATION: complex observable with bare-number part:')
    for b in bad:
        print('  ', b)
    sys.exit(1)
sys.exit(0)
