"""pandas transport (dump_df/load_df, to_sql/read_sql) with an Obs column that
contains None: with the installed pandas (3.x string dtype) the column is
either returned as raw json strings / NaN (None in the first row) or the
import crashes (None elsewhere). The requirement pandas>=2.2 admits pandas 3."""
import sys, os, tempfile, warnings
sys.path.insert(0, sys.argv[1])
import numpy as np
import pandas as pd
import pyerrors as pe
warnings.simplefilter('ignore')

rng = np.random.default_rng(8)
a = pe.Obs([rng.normal(1.0, 0.1, 20)], ['A'])
d = tempfile.mkdtemp()
bad = []
for label, col in (('None first', [None, a, a]), ('None second', [a, None, a])):
    df = pd.DataFrame({'i': [1, 2, 3], 'o': col})
    try:
        pe.input.pandas.dump_df(df, os.path.join(d, 'df'))
        back = pe.input.pandas.load_df(os.path.join(d, 'df'))
    except Exception as e:
        bad.append(f'{label}: load_df raises {type(e).__name__}: {str(e)[:60]}')
        continue
    for x, y in zip(col, back['o']):
        if x is None:
            if y is not None:
                bad.append(f'{label}: None came back as {type(y).__name__} {y!r}')
        elif not isinstance(y, pe.Obs) or not (x - y).is_zero():
            bad.append(f'{label}: Obs came back as {type(y).__name__}')
if bad:
    print(f'VIOLATION (pandas {pd.__version__}):')
    for b in bad:
        print('  ', b)
    sys.exit(1)
sys.exit(0)
