"""read_dobs(write_dobs(o)) with all defaults renames the chain 'A' of a
single-replica ensemble to 'A|' (the separator is inserted after the ensemble
tag even when nothing follows). The re-imported observable is no longer
correlated with the original: o - o_back is not zero."""
import sys, os, tempfile
sys.path.insert(0, sys.argv[1])
import numpy as np
import pyerrors as pe

rng = np.random.default_rng(4)
o = pe.Obs([rng.normal(1.0, 0.1, 20)], ['A'])
fn = os.path.join(tempfile.mkdtemp(), 'z')
pe.input.dobs.write_dobs([o], fn, 'name')
back = pe.input.dobs.read_dobs(fn)[0]
diff = o - back
diff.gamma_method()
if back.names != o.names or not diff.is_zero(atol=1e-12):
    print(f'VIOLATION: names {o.names} -> {back.names}; (o - back).names = {diff.names}, error of o - back = {diff.dvalue} (expected 0)')
    sys.exit(1)
sys.exit(0)
