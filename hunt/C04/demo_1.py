"""Obs constructor silently accepts UNSORTED configuration numbers when they
come as an unsigned-integer numpy array (np.diff wraps around, so no negative
difference is ever seen)."""
import sys
sys.path.insert(0, sys.argv[1])
import numpy as np
import pyerrors as pe

samples = np.array([0.1, 0.2, 0.3, 0.4, 0.5])
bad = []
for dt in (np.uint64, np.uint32, np.uint8):
    idl = np.array([1, 3, 2, 4, 5], dtype=dt)
    # oracle: the list is not strictly increasing -> must be refused
    assert not all(int(idl[i]) < int(idl[i + 1]) for i in range(4))
    try:
        o = pe.Obs([samples], ['A'], idl=[idl])
    except Exception:
        continue
    bad.append((dt.__name__, o.idl['A']))
# control: the very same numbers as signed integers are refused
try:
    pe.Obs([samples], ['A'], idl=[np.array([1, 3, 2, 4, 5], dtype=np.int64)])
    control = 'accepted'
except ValueError:
    control = 'refused'
if bad:
    print('VIOLATION: unsorted configuration lists accepted for unsigned dtypes:', bad,
          '(same numbers as int64 are', control + ')')
    sys.exit(1)
sys.exit(0)
