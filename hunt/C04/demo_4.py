"""cov_Obs keeps the type of the mean it is given: integer means produce an
observable whose central value is an int / numpy.int64 (not a float); with
numpy integers Obs ** -1 then crashes, and a numpy integer / float32 scalar
mean is refused altogether although the Python int / float is accepted."""
import sys
sys.path.insert(0, sys.argv[1])
import numpy as np
import pyerrors as pe

bad = []
o = pe.cov_Obs(2, 0.1, 'c')
if not isinstance(o.value, (float, np.floating)):
    bad.append(f'cov_Obs(2, 0.1, "c").value is {type(o.value).__name__} {o.value!r}, expected float 2.0')
ol = pe.cov_Obs(np.array([2, 3]), [0.1, 0.1], 'c')
if not isinstance(ol[0].value, (float, np.floating)):
    bad.append(f'cov_Obs(np.array([2, 3]), ...)[0].value is {type(ol[0].value).__name__}')
try:
    inv = ol[0] ** -1
    if abs(inv.value - 1 / 2) > 1e-14:
        bad.append(f'(cov_Obs with mean 2) ** -1 = {inv.value}, expected 0.5')
except Exception as e:
    bad.append(f'(cov_Obs(np.array([2, 3]), ...)[0]) ** -1 raises {type(e).__name__}: {e}')
for m in (np.int64(2), np.float32(2.0)):
    try:
        x = pe.cov_Obs(m, 0.1, 'c')
        if not isinstance(x.value, (float, np.floating)) or x.value != 2.0:
            bad.append(f'cov_Obs({m!r}).value = {x.value!r}')
    except Exception as e:
        bad.append(f'cov_Obs({m!r}, 0.1, "c") raises {type(e).__name__}: {e} (Python number 2 / 2.0 is accepted)')
if bad:
    print('VIOLATION:')
    for b in bad:
        print('  ', b)
    sys.exit(1)
sys.exit(0)
