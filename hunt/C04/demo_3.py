"""import_jackknife builds the Obs through the internal means= path and thereby
skips every check of the constructor: a configuration list of the wrong length,
fewer than five samples and a non-string name are all accepted."""
import sys
sys.path.insert(0, sys.argv[1])
import numpy as np
import pyerrors as pe

rng = np.random.default_rng(2)
a = pe.Obs([rng.normal(1.0, 0.1, 20)], ['A'])
jk = a.export_jackknife()
bad = []

def must_refuse(label, f):
    try:
        o = f()
    except Exception:
        return
    n = o.names[0]
    bad.append(f'{label}: accepted -> names={o.names} len(idl)={len(o.idl[n])} len(deltas)={len(o.deltas[n])} shape={o.shape[n]} N={o.N}')

# 20 jackknife samples but only 4 configuration numbers (length mismatch)
must_refuse('idl of length 4 for 20 samples', lambda: pe.import_jackknife(jk, 'A', idl=[range(1, 5)]))
# 20 samples, 25 configuration numbers
must_refuse('idl of length 25 for 20 samples', lambda: pe.import_jackknife(jk, 'A', idl=[range(1, 26)]))
# fewer than five samples
must_refuse('3 samples', lambda: pe.import_jackknife(np.array([1.0, 1.1, 0.9, 1.0]), 'A'))
# non-string name
must_refuse('name=5', lambda: pe.import_jackknife(jk, 5))
# control: the plain constructor refuses all of these
for kw in (dict(samples=[np.ones(20)], names=['A'], idl=[range(1, 5)]), dict(samples=[np.ones(3)], names=['A']),
           dict(samples=[np.ones(20)], names=[5])):
    try:
        pe.Obs(**kw)
        print('control unexpectedly accepted', kw)
    except Exception:
        pass
if bad:
    print('VIOLATION: import_jackknife accepts malformed requests:')
    for b in bad:
        print('  ', b)
    sys.exit(1)
sys.exit(0)
