"""dobs round trip drops every configuration whose fluctuation is exactly
zero (sample == mean): the writer prints '0' and the reader takes 0 as 'not
measured'. Integer valued data does that easily: the configuration list, the
number of samples (here 4 < 5) and the error change."""
import sys, os, tempfile
sys.path.insert(0, sys.argv[1])
import numpy as np
import pyerrors as pe

data = np.array([1.0, 2.0, 3.0, 4.0, 5.0])      # mean 3 -> config 3 has fluctuation 0
o = pe.Obs([data], ['E|r1'])
fn = os.path.join(tempfile.mkdtemp(), 'z')
pe.input.dobs.write_dobs([o], fn, 'name')
back = pe.input.dobs.read_dobs(fn)[0]
# oracle: same configs, same samples
ok = back.names == ['E|r1'] and list(back.idl['E|r1']) == [1, 2, 3, 4, 5] and back.N == 5 \
    and np.allclose(back.deltas['E|r1'] + back.r_values['E|r1'], data)
if not ok:
    print(f"VIOLATION: idl {list(o.idl['E|r1'])} -> {list(back.idl['E|r1'])}, N {o.N} -> {back.N}, samples -> {back.deltas['E|r1'] + back.r_values['E|r1']}")
    sys.exit(1)
sys.exit(0)
