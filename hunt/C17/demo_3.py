"""read_ms5_xsf: replica numbers with different digit counts (r2, r10), automatic file detection.
Every reader of the package orders the replica by replica number (sort_names: r2 before r10) and
per-replicum list arguments (r_start, r_stop, names) follow that order. read_ms5_xsf re-sorts the
detected files alphabetically (r10 before r2) and applies idl[i] to that order: the selection meant
for r2 is taken from r10 and vice versa, silently."""
import sys, os, struct, tempfile, warnings
sys.path.insert(0, sys.argv[1] if len(sys.argv) > 1 else '.')
import numpy as np
warnings.simplefilter('ignore')
import pyerrors as pe
from pyerrors.input.utils import sort_names

tmax = 1
rng = np.random.default_rng(7)


def write_ms5(fn, cfgs, bi):
    with open(fn, 'wb') as fp:
        fp.write(struct.pack('dddd', 0.13, 1.5, 0.9, 1.1))
        fp.write(struct.pack('ii', tmax, 1))
        for ic, c in enumerate(cfgs):
            fp.write(struct.pack('=i', c))
            fp.write(struct.pack('=' + 'd' * (2 * tmax * 10), *bi[ic].ravel()))
            fp.write(struct.pack('=dddd', 1., 2., 3., 4.))


with tempfile.TemporaryDirectory() as d:
    cfgs = list(range(1, 21))
    fns = ['ensr2.ms5_xsf_dd.dat', 'ensr10.ms5_xsf_dd.dat']
    for fn in fns:
        write_ms5(os.path.join(d, fn), cfgs, rng.normal(size=(len(cfgs), 10, tmax, 2)))
    sys.stdout = open(os.devnull, 'w')
    order = sort_names(list(fns))            # the package's own replica order: r2, r10
    want = {'ens|r2': list(range(1, 11)), 'ens|r10': list(range(11, 21))}
    idl = [want['ens|r' + fn[4:].split('.')[0]] for fn in order]
    res = pe.input.openQCD.read_ms5_xsf(d, 'ens', 'dd', 'gA', idl=idl)
    sys.stdout = sys.__stdout__
    got = {n: list(res.real.idl[n]) for n in res.real.names}
if got != want:
    print('VIOLATION: read_ms5_xsf(idl=[1..10, 11..20]) for the replica (r2, r10) returned', {k: (v[0], v[-1]) for k, v in got.items()},
          'requested', {k: (v[0], v[-1]) for k, v in want.items()})
    sys.exit(1)
print('ok')
