"""read_sfcf_multi, appended layout: every correlator name has its own file per replicum, each with its own
gauge_name lines (configuration numbers). The configuration list of ALL returned correlators is taken from
the files of name_list[0]; a second correlator measured on other configurations (same count) is returned
with the configuration numbers of the first one, silently."""
import sys, os, tempfile, warnings
sys.path.insert(0, sys.argv[1] if len(sys.argv) > 1 else '.')
import numpy as np
warnings.simplefilter('ignore')
import pyerrors as pe

HEAD = """[run]

version     2.1
date        2022-01-19 11:03:58 +0100
host        node
dir         /scratch
user        user
gauge_name  {gauge}
gauge_md5   1ea28326e4090996111a320b8372811d
param_name  sfcf_unity_test.in
param_md5   d881e90d41188a33b8b0f1bd0bc53ea5
param_hash  686af5e712ee2902180f5428af94c6e7
data_name   ./output/data

"""


def block(name, quarks, off, wf, wf2, typ, vals):
    s = "[correlator]\n\nname      %s\nquarks    %s\noffset    %d\nwf        %d\n" % (name, quarks, off, wf)
    if typ in ('bb', 'bib'):
        s += "wf_2      %d\n" % wf2
    if typ == 'bb':
        s += "corr\n%+.16e %+.16e\n" % (vals[0].real, vals[0].imag)
    else:
        s += "corr_t\n"
        for t, v in enumerate(vals):
            s += "%3d %+.16e %+.16e\n" % (t + 1, v.real, v.imag)
    return s + "\n"


def write_appended(fn, rep, cfgs, blocks):
    """blocks: list of (name, quarks, off, wf, wf2, typ, data[cfg, T])"""
    with open(fn, 'w') as fp:
        for ic, c in enumerate(cfgs):
            fp.write(HEAD.format(gauge='/' + rep + '_n' + str(c)))
            for b in blocks:
                fp.write(block(*b[:6], b[6][ic]))


T = 2
rng = np.random.default_rng(18)
cf_A = list(range(1, 11))        # f_A measured on 1..10
cf_1 = list(range(11, 21))       # f_1 measured on 11..20
dA = rng.normal(size=(10, T)) + 1j * rng.normal(size=(10, T))
d1 = rng.normal(size=(10, 1)) + 1j * rng.normal(size=(10, 1))
with tempfile.TemporaryDirectory() as d:
    write_appended(os.path.join(d, 'ens_r0.f_A'), 'ens_r0', cf_A, [('f_A', 'lquark lquark', 0, 0, None, 'bi', dA)])
    write_appended(os.path.join(d, 'ens_r0.f_1'), 'ens_r0', cf_1, [('f_1', 'lquark lquark', 0, 0, 0, 'bb', d1)])
    res = pe.input.sfcf.read_sfcf_multi(d, 'ens', ['f_A', 'f_1'], quarks_list=['lquark lquark'], corr_type_list=['bi', 'bb'], version='2.0a', silent=True)
    o = res['f_1']['lquark lquark']['0']['0']['0'][0]
    ok_numbers = np.allclose(o.deltas['ens_|r0'] + o.r_values['ens_|r0'], d1[:, 0].real)
    got = list(o.idl['ens_|r0'])
if got != cf_1:
    print("VIOLATION: read_sfcf_multi(path, 'ens', ['f_A', 'f_1'], version='2.0a'): f_1 (numbers of the f_1 file: %s) is attached to the configurations %s, "
          "its file ens_r0.f_1 states %s" % (ok_numbers, got, cf_1))
    sys.exit(1)
print('ok')
