"""read_rwms with names= and automatically detected files whose names carry the replica number without
an 'r' (A_2.ms1.dat, A_10.ms1.dat, A_11.ms1.dat). 'names' is "assigned to the data according to the order
in the file list", i.e. the order produced by sort_names, which for such names is its fallback branch.
That branch derives the common prefix from the first and the last listed name only: depending on the order
in which the operating system lists the directory, the files are ordered (2, 10, 11) or (10, 2, 11), so
the same call labels the data differently - silently."""
import sys, os, struct, tempfile, warnings, itertools
sys.path.insert(0, sys.argv[1] if len(sys.argv) > 1 else '.')
import numpy as np
warnings.simplefilter('ignore')
import pyerrors as pe


def write_rwms16(fn, cfgs, x):
    """openQCD 1.6 ms1 file, one reweighting factor, one factor, nsrc sources; x[cfg, src]"""
    nsrc = x.shape[1]
    with open(fn, 'wb') as fp:
        fp.write(struct.pack('iii', 1, 1, nsrc))
        for ic, c in enumerate(cfgs):
            fp.write(struct.pack('i', c))
            fp.write(struct.pack('d' * nsrc, *([1.0] * nsrc)))
            fp.write(struct.pack('d' * nsrc, *x[ic]))


real_walk = os.walk
ORDER = None


def ordered_walk(top, *a, **k):
    for dp, dn, fn in real_walk(top, *a, **k):
        if ORDER is not None and sorted(fn) == sorted(ORDER):
            fn = list(ORDER)
        yield dp, dn, fn


os.walk = ordered_walk
rng = np.random.default_rng(16)
fns = ['A_2.ms1.dat', 'A_10.ms1.dat', 'A_11.ms1.dat']
names = ['A|r2', 'A|r10', 'A|r11']          # numeric order of the replica numbers
cfgs = {fn: list(range(1, 9 + i)) for i, fn in enumerate(fns)}
x = {fn: rng.normal(size=(len(cfgs[fn]), 2)) for fn in fns}
bad = []
with tempfile.TemporaryDirectory() as d:
    for fn in fns:
        write_rwms16(os.path.join(d, fn), cfgs[fn], x[fn])
    for perm in itertools.permutations(fns):
        ORDER = perm
        sys.stdout = open(os.devnull, 'w')
        try:
            rw = pe.input.openQCD.read_rwms(d, 'A_', version='1.6', names=list(names))[0]
            err = None
        except Exception as e:
            err = repr(e)
        sys.stdout = sys.__stdout__
        if err:
            bad.append('listing order %s: %s' % (perm, err))
            continue
        for name, fn in zip(names, fns):
            expected = np.mean(np.exp(-x[fn]), axis=1)
            got = rw.deltas[name] + rw.r_values[name]
            if len(got) != len(expected) or not np.allclose(got, expected):
                src = [f for f in fns if len(x[f]) == len(got) and np.allclose(got, np.mean(np.exp(-x[f]), axis=1))]
                bad.append('listing order %s: %s carries the numbers of %s' % (perm, name, src))
if bad:
    print("VIOLATION: read_rwms(path, 'A_', version='1.6', names=%s)" % names)
    print('\n'.join(bad))
    sys.exit(1)
print('ok')
