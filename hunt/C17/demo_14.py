"""numpy forms of documented arguments are refused:
 (a) read_meson_hd5 / read_hd5 (Hadrons hdf5): idl=np.arange(...) (or any numpy array of configuration
     numbers) -> ValueError "truth value of an array ... is ambiguous" (`if idl:` in _get_files); the
     same selection as range / list / tuple works.
 (b) read_qtop_sector(target=np.int64(0)) -> "'target' has to be an integer." """
import sys, os, struct, tempfile, warnings
sys.path.insert(0, sys.argv[1] if len(sys.argv) > 1 else '.')
import numpy as np
import h5py
warnings.simplefilter('ignore')
import pyerrors as pe

rng = np.random.default_rng(21)
bad = []
cdt = np.dtype([('re', '<f8'), ('im', '<f8')])
T = 3
cfgs = list(range(10, 30))
data = rng.normal(size=(len(cfgs), T)) + 1j * rng.normal(size=(len(cfgs), T))
with tempfile.TemporaryDirectory() as d:
    for ic, c in enumerate(cfgs):
        with h5py.File(os.path.join(d, 'mes.%d.h5' % c), 'w') as f:
            g = f.create_group('meson/meson_0')
            arr = np.empty(T, dtype=cdt)
            arr['re'] = data[ic].real
            arr['im'] = data[ic].imag
            g.create_dataset('corr', data=arr)
            g.attrs.create('gamma_snk', np.array([b'Gamma5']))
            g.attrs.create('gamma_src', np.array([b'Gamma5']))
    for idl in [range(12, 25, 2), list(range(12, 25, 2)), np.arange(12, 25, 2)]:
        try:
            corr = pe.input.hadrons.read_meson_hd5(d, 'mes', 'E', 'meson_0', idl=idl)
            o = corr.content[1][0]
            sel = [cfgs.index(c) for c in idl]
            if list(o.idl['E']) != list(idl) or not np.allclose(o.deltas['E'] + o.r_values['E'], data[sel, 1].real):
                bad.append('read_meson_hd5(idl=%r): wrong result' % (idl,))
        except Exception as e:
            bad.append('read_meson_hd5(idl=%r): %r' % (idl, e))

    dn, nn, tmax, eps, L = 2, 3, 4, 0.01, 4
    cf = list(range(1, 11))
    Q = 2 * rng.normal(size=(len(cf), nn + 1, tmax))
    with open(os.path.join(d, 'ensr1.ms.dat'), 'wb') as fp:
        fp.write(struct.pack('iii', dn, nn, tmax))
        fp.write(struct.pack('d', eps))
        for ic, c in enumerate(cf):
            fp.write(struct.pack('i', c))
            for A in (Q, Q, Q):
                fp.write(struct.pack('d' * tmax * (nn + 1), *A[ic].ravel()))
    sys.stdout = open(os.devnull, 'w')
    for target in [0, np.int64(0)]:
        try:
            s = pe.input.openQCD.read_qtop_sector(d, 'ens', 0.0, target=target, L=L)
            exp = (np.round(Q[:, 0, :].sum(axis=1)) == 0).astype(float)
            if not np.allclose(s.deltas['ens|r1'] + s.r_values['ens|r1'], exp):
                bad.append('read_qtop_sector(target=%r): wrong result' % target)
        except Exception as e:
            bad.append('read_qtop_sector(target=%r of type %s): %r' % (target, type(target).__name__, e))
    sys.stdout = sys.__stdout__
if bad:
    print('VIOLATION:')
    print('\n'.join(bad))
    sys.exit(1)
print('ok')
