"""read_qtop(..., postfix=''): an empty postfix is supported by the file search (pattern prefix*dat, as in
read_rwms / extract_t0), but the replica name is cut from file[:-len(postfix)] = file[:0] = '' and the call
ends with "Automatic recognition of replicum failed" although the file name is ensr1.ms.dat."""
import sys, os, struct, tempfile, warnings
sys.path.insert(0, sys.argv[1] if len(sys.argv) > 1 else '.')
import numpy as np
warnings.simplefilter('ignore')
import pyerrors as pe

rng = np.random.default_rng(20)
dn, nn, tmax, eps, L = 2, 3, 4, 0.01, 4
cfgs = list(range(1, 11))
Q = rng.normal(size=(len(cfgs), nn + 1, tmax))
with tempfile.TemporaryDirectory() as d:
    with open(os.path.join(d, 'ensr1.ms.dat'), 'wb') as fp:
        fp.write(struct.pack('iii', dn, nn, tmax))
        fp.write(struct.pack('d', eps))
        for ic, c in enumerate(cfgs):
            fp.write(struct.pack('i', c))
            for A in (Q, Q, Q):
                fp.write(struct.pack('d' * tmax * (nn + 1), *A[ic].ravel()))
    sys.stdout = open(os.devnull, 'w')
    try:
        q = pe.input.openQCD.read_qtop(d, 'ens', 0.0, L=L, postfix='')
        err = None
    except Exception as e:
        err = repr(e)
    sys.stdout = sys.__stdout__
if err or q.names != ['ens|r1'] or not np.allclose(q.deltas['ens|r1'] + q.r_values['ens|r1'], Q[:, 0, :].sum(axis=1)):
    print("VIOLATION: read_qtop(path, 'ens', 0.0, L=4, postfix='') on ensr1.ms.dat:", err)
    sys.exit(1)
print('ok')
