"""read_sfcf, appended layout (version "2.0a"): files= is documented as the list of files to be read
("default is all"). Reading two of the three replica files present in the directory is refused: the
labels are derived from all files in the directory (ValueError: Length of samples and names
incompatible), and with explicit names= for the two files: "names should have the length 3"."""
import sys, os, tempfile, warnings
sys.path.insert(0, sys.argv[1] if len(sys.argv) > 1 else '.')
import numpy as np
warnings.simplefilter('ignore')
import pyerrors as pe

HEAD = """[run]

version     2.1
date        2022-01-19 11:03:58 +0100
host        node
dir         /scratch
user        user
gauge_name  {gauge}
gauge_md5   1ea28326e4090996111a320b8372811d
param_name  sfcf_unity_test.in
param_md5   d881e90d41188a33b8b0f1bd0bc53ea5
param_hash  686af5e712ee2902180f5428af94c6e7
data_name   ./output/data

"""


def block(name, quarks, off, wf, wf2, typ, vals):
    s = "[correlator]\n\nname      %s\nquarks    %s\noffset    %d\nwf        %d\n" % (name, quarks, off, wf)
    if typ in ('bb', 'bib'):
        s += "wf_2      %d\n" % wf2
    if typ == 'bb':
        s += "corr\n%+.16e %+.16e\n" % (vals[0].real, vals[0].imag)
    else:
        s += "corr_t\n"
        for t, v in enumerate(vals):
            s += "%3d %+.16e %+.16e\n" % (t + 1, v.real, v.imag)
    return s + "\n"


def write_appended(fn, rep, cfgs, blocks):
    """blocks: list of (name, quarks, off, wf, wf2, typ, data[cfg, T])"""
    with open(fn, 'w') as fp:
        for ic, c in enumerate(cfgs):
            fp.write(HEAD.format(gauge='/' + rep + '_n' + str(c)))
            for b in blocks:
                fp.write(block(*b[:6], b[6][ic]))


T = 2
rng = np.random.default_rng(14)
reps = {'ens_r0': list(range(1, 11)), 'ens_r1': list(range(1, 13)), 'ens_r2': list(range(1, 15))}
data = {r: rng.normal(size=(len(c), T)) + 1j * rng.normal(size=(len(c), T)) for r, c in reps.items()}
bad = []
with tempfile.TemporaryDirectory() as d:
    for rep, cfgs in reps.items():
        write_appended(os.path.join(d, rep + '.f_A'), rep, cfgs, [('f_A', 'lquark lquark', 0, 0, None, 'bi', data[rep])])
    files = ['ens_r0.f_A', 'ens_r2.f_A']
    for kw, labels in [({}, ['ens_|r0', 'ens_|r2']), ({'names': ['E|a', 'E|b']}, ['E|a', 'E|b'])]:
        call = 'read_sfcf(version="2.0a", files=%s%s)' % (files, ''.join(', %s=%s' % kv for kv in kw.items()))
        try:
            res = pe.input.sfcf.read_sfcf(d, 'ens', 'f_A', quarks='lquark lquark', version='2.0a', silent=True, files=list(files), **kw)
        except Exception as e:
            bad.append(call + ' raised ' + repr(e))
            continue
        for name, fn in zip(labels, files):
            rep = fn.split('.')[0]
            if name not in res[0].names or list(res[0].idl[name]) != reps[rep] or not np.allclose(res[0].deltas[name] + res[0].r_values[name], data[rep][:, 0].real):
                bad.append(call + ': wrong result for ' + name)
if bad:
    print('VIOLATION:')
    print('\n'.join(bad))
    sys.exit(1)
print('ok')
