"""sfqcd gradient-flow file (.gfms.dat) that holds a single flow (first header integer != 2, the case the
reader itself distinguishes: 'nfl = 1', 8 observables per flow-time instead of 16).
read_qtop(..., version='sfqcd') with the default Zeuthen_flow=False looks for the Wilson-flow charge at
observable position 0 + 8, which exists only in two-flow files: nothing is read and the call ends with
"qtops and traj_list dont have the same length". The numbers are in the file (position 0)."""
import sys, os, struct, tempfile, warnings
sys.path.insert(0, sys.argv[1] if len(sys.argv) > 1 else '.')
import numpy as np
warnings.simplefilter('ignore')
import pyerrors as pe

rng = np.random.default_rng(17)
ncs, cmax, tmax, L = 4, 0.4, 5, 4
cfgs = list(range(1, 11))
bad = []
for flag, nfl in [(2, 2), (1, 1)]:
    data = rng.normal(size=(len(cfgs), ncs + 1, 8 * nfl, tmax))
    with tempfile.TemporaryDirectory() as d:
        with open(os.path.join(d, 'ensr1.gfms.dat'), 'wb') as fp:
            fp.write(struct.pack('<iii', flag, ncs, tmax))
            fp.write(struct.pack('<iii', L, L, L))
            fp.write(struct.pack('<dd', 1e-7, cmax))
            for ic, c in enumerate(cfgs):
                fp.write(struct.pack('i', c))
                fp.write(struct.pack('d' * data[ic].size, *data[ic].ravel()))
        for ic in range(ncs + 1):
            c = ic * cmax / ncs
            wilson_pos = 8 if nfl == 2 else 0
            expected = data[:, ic, wilson_pos, :].sum(axis=1)
            sys.stdout = open(os.devnull, 'w')
            try:
                q = pe.input.openQCD.read_qtop(d, 'ens', c, version='sfqcd')
                got = q.deltas['ens|r1'] + q.r_values['ens|r1']
                if list(q.idl['ens|r1']) != cfgs or not np.allclose(got, expected):
                    bad.append('header flag %d, c=%g: wrong numbers' % (flag, c))
            except Exception as e:
                bad.append('header flag %d (%d flow%s in file), c=%g: %r' % (flag, nfl, 's' * (nfl - 1), c, e))
            sys.stdout = sys.__stdout__
if bad:
    print("VIOLATION: read_qtop(path, 'ens', c, version='sfqcd')")
    print('\n'.join(bad))
    sys.exit(1)
print('ok')
