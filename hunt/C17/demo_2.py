"""read_ms5_xsf: idl= is a list of configuration lists per replicum. With an explicit files= list,
idl[i] must select from files[i]; the reader re-sorts files alphabetically and applies idl[i] to
the i-th file of the re-sorted list."""
import sys, os, struct, tempfile, warnings
sys.path.insert(0, sys.argv[1] if len(sys.argv) > 1 else '.')
import numpy as np
warnings.simplefilter('ignore')
import pyerrors as pe

tmax = 2
rng = np.random.default_rng(6)


def write_ms5(fn, cfgs, bi):
    with open(fn, 'wb') as fp:
        fp.write(struct.pack('dddd', 0.13, 1.5, 0.9, 1.1))
        fp.write(struct.pack('ii', tmax, 1))
        for ic, c in enumerate(cfgs):
            fp.write(struct.pack('=i', c))
            fp.write(struct.pack('=' + 'd' * (2 * tmax * 10), *bi[ic].ravel()))
            fp.write(struct.pack('=dddd', 1., 2., 3., 4.))


with tempfile.TemporaryDirectory() as d:
    cfgs = list(range(1, 21))     # both replica hold configurations 1..20
    data = {}
    for fn in ['ensr1.ms5_xsf_dd.dat', 'ensr2.ms5_xsf_dd.dat']:
        data[fn] = rng.normal(size=(len(cfgs), 10, tmax, 2))
        write_ms5(os.path.join(d, fn), cfgs, data[fn])
    files = ['ensr2.ms5_xsf_dd.dat', 'ensr1.ms5_xsf_dd.dat']
    idl = [list(range(1, 11)), list(range(11, 21))]     # 1..10 of ensr2, 11..20 of ensr1
    sys.stdout = open(os.devnull, 'w')
    try:
        corr = pe.input.openQCD.read_ms5_xsf(d, 'ens', 'dd', 'gP', files=list(files), idl=[list(i) for i in idl])
        err = None
    except Exception as e:
        err = repr(e)
    sys.stdout = sys.__stdout__
    bad = []
    if err:
        bad.append('raised ' + err)
    else:
        for name, fn, want in zip(['ens|r2', 'ens|r1'], files, idl):
            o = corr.content[1][0].imag
            if list(o.idl[name]) != want:
                bad.append('%s: configurations %s returned, %s requested for %s' % (name, list(o.idl[name]), want, fn))
            elif not np.allclose(o.deltas[name] + o.r_values[name], data[fn][[c - 1 for c in want], 1, 1, 1]):
                bad.append('%s: wrong numbers' % name)
if bad:
    print('VIOLATION: read_ms5_xsf(files=%s, idl=%s):' % (files, idl))
    print('\n'.join(bad))
    sys.exit(1)
print('ok')
