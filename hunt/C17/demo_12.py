"""extract_t0 / extract_w0 (openQCD .ms.dat files) derive the replica name from entry.split('.')[0]:
an ensemble name containing a dot (e.g. 'b3.40': files b3.40r1.ms.dat, b3.40r2.ms.dat) makes the call
fail with ValueError('substring not found'), while read_qtop reads the same files and names them
'b3.40|r1', 'b3.40|r2'."""
import sys, os, struct, tempfile, warnings
sys.path.insert(0, sys.argv[1] if len(sys.argv) > 1 else '.')
import numpy as np
warnings.simplefilter('ignore')
import pyerrors as pe

rng = np.random.default_rng(19)
dn, nn, tmax, eps, L, xmin = 1, 6, 4, 0.5, 2, 1
cfgs = list(range(1, 21))
store = {}
with tempfile.TemporaryDirectory() as d:
    for fn in ['b3.40r1.ms.dat', 'b3.40r2.ms.dat']:
        Y = np.empty((len(cfgs), nn + 1, tmax))
        for n in range(nn + 1):
            t = n * dn * eps
            target = 0.1 * n / t ** 2 * L ** 3 if n else 1.0          # t^2 <E> = 0.1 n  -> crosses 0.3 at n = 3
            Y[:, n, :] = target * (1 + 0.01 * rng.normal(size=(len(cfgs), 1)))
        store[fn] = Y
        with open(os.path.join(d, fn), 'wb') as fp:
            fp.write(struct.pack('iii', dn, nn, tmax))
            fp.write(struct.pack('d', eps))
            for ic, c in enumerate(cfgs):
                fp.write(struct.pack('i', c))
                for A in (Y, Y, Y):
                    fp.write(struct.pack('d' * tmax * (nn + 1), *A[ic].ravel()))
    sys.stdout = open(os.devnull, 'w')
    q = pe.input.openQCD.read_qtop(d, 'b3.40', 0.0, L=L)
    try:
        t0 = pe.input.openQCD.extract_t0(d, 'b3.40', 1, xmin, L, fit_range=2)
        err = None
    except Exception as e:
        err = repr(e)
    sys.stdout = sys.__stdout__
if err or sorted(t0.names) != ['b3.40|r1', 'b3.40|r2'] or not (1.3 < t0.value < 1.7):
    print("VIOLATION: extract_t0(path, 'b3.40', 1, 1, 2, fit_range=2) on b3.40r1.ms.dat, b3.40r2.ms.dat:", err if err else (t0, t0.names),
          '; read_qtop reads the same files as', q.names)
    sys.exit(1)
print('ok')
