"""read_ms5_xsf: explicit files= and names= lists that are not in sorted order.
names[i] must label the data of files[i]; the reader sorts both lists independently."""
import sys, os, struct, tempfile, warnings
sys.path.insert(0, sys.argv[1] if len(sys.argv) > 1 else '.')
import numpy as np
warnings.simplefilter('ignore')
import pyerrors as pe

tmax = 2
rng = np.random.default_rng(5)


def write_ms5(fn, cfgs, bi):
    with open(fn, 'wb') as fp:
        fp.write(struct.pack('dddd', 0.13, 1.5, 0.9, 1.1))
        fp.write(struct.pack('ii', tmax, 1))
        for ic, c in enumerate(cfgs):
            fp.write(struct.pack('=i', c))
            fp.write(struct.pack('=' + 'd' * (2 * tmax * 10), *bi[ic].ravel()))   # re, im interleaved
            fp.write(struct.pack('=dddd', 1., 2., 3., 4.))


with tempfile.TemporaryDirectory() as d:
    cfgs = {'ensr1.ms5_xsf_dd.dat': list(range(1, 11)), 'ensr2.ms5_xsf_dd.dat': list(range(101, 113))}
    data = {}
    for fn, cf in cfgs.items():
        data[fn] = rng.normal(size=(len(cf), 10, tmax, 2))
        write_ms5(os.path.join(d, fn), cf, data[fn])
    files = ['ensr2.ms5_xsf_dd.dat', 'ensr1.ms5_xsf_dd.dat']
    names = ['E|first', 'E|second']          # 'E|first' is meant for ensr2, 'E|second' for ensr1
    sys.stdout = open(os.devnull, 'w')
    corr = pe.input.openQCD.read_ms5_xsf(d, 'ens', 'dd', 'gS', files=list(files), names=list(names))
    sys.stdout = sys.__stdout__
    bad = []
    for name, fn in zip(names, files):
        o = corr.content[0][0].real
        if list(o.idl[name]) != cfgs[fn]:
            bad.append('%s (given for %s) carries configurations %s..., file has %s...' % (name, fn, list(o.idl[name])[:3], cfgs[fn][:3]))
        elif not np.allclose(o.deltas[name] + o.r_values[name], data[fn][:, 0, 0, 0]):
            bad.append('%s carries numbers that are not those of %s' % (name, fn))
if bad:
    print('VIOLATION: read_ms5_xsf(files=%s, names=%s):' % (files, names))
    print('\n'.join(bad))
    sys.exit(1)
print('ok')
