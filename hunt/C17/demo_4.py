"""read_sfcf (compact and separate layout): replica= selects replica directories, names= / files= are
per-replicum lists 'of the appropriate length'. If replica= is not in sorted order the reader sorts it
(in place) but keeps names= and files= in the caller's order: names label another replicum's data and
the per-replicum file lists are applied to another replicum."""
import sys, os, tempfile, warnings
sys.path.insert(0, sys.argv[1] if len(sys.argv) > 1 else '.')
import numpy as np
warnings.simplefilter('ignore')
import pyerrors as pe

HEAD = """[run]

version     2.1
date        2022-01-19 11:03:58 +0100
host        node
dir         /scratch
user        user
gauge_name  {gauge}
gauge_md5   1ea28326e4090996111a320b8372811d
param_name  sfcf_unity_test.in
param_md5   d881e90d41188a33b8b0f1bd0bc53ea5
param_hash  686af5e712ee2902180f5428af94c6e7
data_name   ./output/data

"""


def block(name, quarks, off, wf, vals):
    s = "[correlator]\n\nname      %s\nquarks    %s\noffset    %d\nwf        %d\ncorr_t\n" % (name, quarks, off, wf)
    for t, v in enumerate(vals):
        s += "%3d %+.16e %+.16e\n" % (t + 1, v.real, v.imag)
    return s + "\n"


T = 2
rng = np.random.default_rng(11)
reps = {'ens_r1': list(range(1, 11)), 'ens_r2': list(range(1, 11)), 'ens_r10': list(range(1, 11))}
data = {r: rng.normal(size=(len(c), T)) + 1j * rng.normal(size=(len(c), T)) for r, c in reps.items()}
bad = []
with tempfile.TemporaryDirectory() as d:
    for rep, cfgs in reps.items():
        os.makedirs(os.path.join(d, 'c', rep))
        for ic, c in enumerate(cfgs):
            with open(os.path.join(d, 'c', rep, rep + '_n' + str(c)), 'w') as fp:
                fp.write(HEAD.format(gauge='/g') + block('f_A', 'lquark lquark', 0, 0, data[rep][ic]))
            os.makedirs(os.path.join(d, 'o', rep, 'cfg' + str(c)))
            with open(os.path.join(d, 'o', rep, 'cfg' + str(c), 'f_A'), 'w') as fp:
                fp.write(HEAD.format(gauge='/g') + block('f_A', 'lquark lquark', 0, 0, data[rep][ic]))

    # (a) names
    replica = ['ens_r10', 'ens_r2']
    names = ['E|ten', 'E|two']
    for sub, version in [('c', '2.0c'), ('o', '2.0')]:
        res = pe.input.sfcf.read_sfcf(os.path.join(d, sub), 'ens', 'f_A', quarks='lquark lquark', version=version, silent=True,
                                      replica=list(replica), names=list(names))
        for name, rep in zip(names, replica):
            if not np.allclose(res[0].deltas[name] + res[0].r_values[name], data[rep][:, 0].real):
                bad.append("version %s, replica=%s, names=%s: '%s' does not carry the numbers of %s" % (version, replica, names, name, rep))

    # (b) per-replicum folder lists, separate layout: 1..5 of r10, 6..10 of r2
    files = [['cfg%d' % c for c in range(1, 6)], ['cfg%d' % c for c in range(6, 11)]]
    res = pe.input.sfcf.read_sfcf(os.path.join(d, 'o'), 'ens', 'f_A', quarks='lquark lquark', version='2.0', silent=True,
                                  replica=list(replica), files=[list(f) for f in files])
    got = {n: list(res[0].idl[n]) for n in res[0].names}
    want = {'ens_|r10': list(range(1, 6)), 'ens_|r2': list(range(6, 11))}
    if got != want:
        bad.append('version 2.0, replica=%s, files=[cfg1..5, cfg6..10]: configurations %s returned, %s requested' % (replica, got, want))
if bad:
    print('VIOLATION:')
    print('\n'.join(bad))
    sys.exit(1)
print('ok')
