"""read_sfcf, appended layout (version "2.0a"): an appended file holds, per configuration, all
correlators of one name (all wave functions / quark pairs). Only the first correlator block of the
file can be read; asking for any other one raises ValueError("Did not find pattern ...") although it
is stored in the file (the compact and separate layouts read the same request correctly)."""
import sys, os, tempfile, warnings
sys.path.insert(0, sys.argv[1] if len(sys.argv) > 1 else '.')
import numpy as np
warnings.simplefilter('ignore')
import pyerrors as pe

HEAD = """[run]

version     2.1
date        2022-01-19 11:03:58 +0100
host        node
dir         /scratch
user        user
gauge_name  {gauge}
gauge_md5   1ea28326e4090996111a320b8372811d
param_name  sfcf_unity_test.in
param_md5   d881e90d41188a33b8b0f1bd0bc53ea5
param_hash  686af5e712ee2902180f5428af94c6e7
data_name   ./output/data

"""


def block(name, quarks, off, wf, wf2, typ, vals):
    s = "[correlator]\n\nname      %s\nquarks    %s\noffset    %d\nwf        %d\n" % (name, quarks, off, wf)
    if typ in ('bb', 'bib'):
        s += "wf_2      %d\n" % wf2
    if typ == 'bb':
        s += "corr\n%+.16e %+.16e\n" % (vals[0].real, vals[0].imag)
    else:
        s += "corr_t\n"
        for t, v in enumerate(vals):
            s += "%3d %+.16e %+.16e\n" % (t + 1, v.real, v.imag)
    return s + "\n"


def write_appended(fn, rep, cfgs, blocks):
    """blocks: list of (name, quarks, off, wf, wf2, typ, data[cfg, T])"""
    with open(fn, 'w') as fp:
        for ic, c in enumerate(cfgs):
            fp.write(HEAD.format(gauge='/' + rep + '_n' + str(c)))
            for b in blocks:
                fp.write(block(*b[:6], b[6][ic]))


T = 3
rng = np.random.default_rng(13)
cfgs = list(range(1, 9))
specs = [('f_A', 'lquark lquark', 0, 0, None, 'bi'), ('f_A', 'lquark lquark', 0, 1, None, 'bi'), ('f_A', 'squark lquark', 0, 0, None, 'bi')]
data = [rng.normal(size=(len(cfgs), T)) + 1j * rng.normal(size=(len(cfgs), T)) for s in specs]
bad = []
with tempfile.TemporaryDirectory() as d:
    write_appended(os.path.join(d, 'ens_r0.f_A'), 'ens_r0', cfgs, [s + (data[i],) for i, s in enumerate(specs)])
    for i, s in enumerate(specs):
        call = 'read_sfcf(path, "ens", "f_A", quarks="%s", wf=%d, version="2.0a")' % (s[1], s[3])
        try:
            res = pe.input.sfcf.read_sfcf(d, 'ens', 'f_A', quarks=s[1], wf=s[3], version='2.0a', silent=True)
        except Exception as e:
            bad.append(call + ' raised ' + repr(e)[:60].replace('\n', ' ') + '...')
            continue
        for t in range(T):
            if not np.allclose(res[t].deltas['ens_|r0'] + res[t].r_values['ens_|r0'], data[i][:, t].real) or list(res[t].idl['ens_|r0']) != cfgs:
                bad.append(call + ' returned wrong numbers')
                break
if bad:
    print('VIOLATION (file holds 3 correlators f_A: wf 0, wf 1, and quarks "squark lquark"):')
    print('\n'.join(bad))
    sys.exit(1)
print('ok')
