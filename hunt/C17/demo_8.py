"""Replica identifiers that are not of the form r<number> (read_sfcf: rep_string='s', directories
dat_s2, dat_s10, dat_s11) are ordered by the fallback branch of pyerrors.input.utils.sort_names. With
replica numbers of different digit counts that branch runs out of range (IndexError) for some orders of
the directory listing and works for others; with (s1, s2, s10) it fails for every order.
The demo presents the same directory in every possible listing order (os.walk is wrapped)."""
import sys, os, tempfile, warnings, itertools
sys.path.insert(0, sys.argv[1] if len(sys.argv) > 1 else '.')
import numpy as np
warnings.simplefilter('ignore')
import pyerrors as pe

HEAD = """[run]

version     2.1
date        2022-01-19 11:03:58 +0100
host        node
dir         /scratch
user        user
gauge_name  /g
gauge_md5   1ea28326e4090996111a320b8372811d
param_name  sfcf_unity_test.in
param_md5   d881e90d41188a33b8b0f1bd0bc53ea5
param_hash  686af5e712ee2902180f5428af94c6e7
data_name   ./output/data

"""


def block(name, quarks, off, wf, vals):
    s = "[correlator]\n\nname      %s\nquarks    %s\noffset    %d\nwf        %d\ncorr_t\n" % (name, quarks, off, wf)
    for t, v in enumerate(vals):
        s += "%3d %+.16e %+.16e\n" % (t + 1, v.real, v.imag)
    return s + "\n"


real_walk = os.walk
ORDER = None


def ordered_walk(top, *a, **k):
    for dp, dn, fn in real_walk(top, *a, **k):
        if ORDER is not None and sorted(dn) == sorted(ORDER):
            dn = list(ORDER)
        yield dp, dn, fn


os.walk = ordered_walk
T = 2
rng = np.random.default_rng(15)
bad = []
for repnames in [['dat_s2', 'dat_s10', 'dat_s11'], ['dat_s1', 'dat_s2', 'dat_s10']]:
    reps = {r: list(range(1, 8 + i)) for i, r in enumerate(repnames)}
    data = {r: rng.normal(size=(len(c), T)) + 1j * rng.normal(size=(len(c), T)) for r, c in reps.items()}
    with tempfile.TemporaryDirectory() as d:
        for rep, cfgs in reps.items():
            os.makedirs(os.path.join(d, rep))
            for ic, c in enumerate(cfgs):
                with open(os.path.join(d, rep, rep + '_n' + str(c)), 'w') as fp:
                    fp.write(HEAD + block('f_A', 'lquark lquark', 0, 0, data[rep][ic]))
        for perm in itertools.permutations(repnames):
            ORDER = perm
            sys.stdout = open(os.devnull, 'w')
            try:
                res = pe.input.sfcf.read_sfcf(d, 'dat', 'f_A', quarks='lquark lquark', version='2.0c', silent=True, rep_string='s')
                ok = all(list(res[0].idl['dat_|' + r[4:]]) == reps[r] and np.allclose(res[t].deltas['dat_|' + r[4:]] + res[t].r_values['dat_|' + r[4:]], data[r][:, t].real) for r in repnames for t in range(T))
                if not ok:
                    bad.append('listing order %s: wrong numbers' % (perm,))
            except Exception as e:
                bad.append('listing order %s: %r' % (perm, e))
            sys.stdout = sys.__stdout__
if bad:
    print("VIOLATION: read_sfcf(path, 'dat', 'f_A', version='2.0c', rep_string='s'):")
    print('\n'.join(bad))
    sys.exit(1)
print('ok')
