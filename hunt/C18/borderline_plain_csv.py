"""BORDERLINE / outside the literal wording of C18 (which names csv.gz, not plain csv).
load_df(..., gz=False) accepts a byte-truncated plain-csv export and returns a partial row.
usage: python borderline_plain_csv.py <path-to-checkout>
exit 1 = truncated plain csv was loaded (partial / wrong numbers), exit 0 = every cut rejected."""
import sys, os, tempfile, warnings
sys.path.insert(0, sys.argv[1] if len(sys.argv) > 1 else '.')
import numpy as np, pandas as pd
import pyerrors as pe
warnings.simplefilter('ignore')
rng = np.random.default_rng(1)
obs = [pe.Obs([rng.normal(1, .1, 12)], ['ensA|r1']) for _ in range(3)]
x = [1.2345, 2.3456, 3.4567]
df = pd.DataFrame({'i': [1, 2, 3], 'o': obs, 'x': x})
d = tempfile.mkdtemp()
pe.input.pandas.dump_df(df, d + '/t', gz=False)
data = open(d + '/t.csv', 'rb').read()
assert data.endswith(b'3.4567\n')
msgs = []
for n, what in [(len(data) - 4, 'cut inside the last number (3.4567 -> 3.4)'), (data.index(b'\n', data.index(b'\n') + 1) + 1, 'cut after the first data row')]:
    open(d + '/c.csv', 'wb').write(data[:n])
    try:
        r = pe.input.pandas.load_df(d + '/c.csv', gz=False)
    except Exception:
        continue
    msgs.append('%s: loaded %d row(s), x = %s (exported x = %s)' % (what, len(r), list(r['x']), x))
if msgs:
    print('truncated plain csv export accepted:\n  ' + '\n  '.join(msgs))
    sys.exit(1)
sys.exit(0)
