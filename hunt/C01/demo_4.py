"""C01: matrix data containing plain numbers is supported (int/float are wrapped), but numpy scalars that are not
subclasses of Python int/float (np.int64, np.int32, np.float32) crash with AttributeError."""
import sys
sys.path.insert(0, sys.argv[1] if len(sys.argv) > 1 else '.')
import numpy as np
import pyerrors as pe

rng = np.random.default_rng(4)
sa = rng.normal(1.0, 0.05, 12); sc = rng.normal(2.0, 0.05, 12)
a = pe.Obs([sa], ['A|r1']); c = pe.Obs([sc], ['A|r1'])
fails = []
for two in [2, 2.0, np.float64(2), np.int64(2), np.int32(2), np.float32(2)]:
    M = np.array([[a, two], [two, c]], dtype=object)
    try:
        r = pe.linalg.matmul(M, M)[0, 0]     # a*a + 4
        exp_delta = 2 * a.value * (sa - sa.mean())
        if not (np.isclose(r.value, a.value ** 2 + 4) and np.allclose(r.deltas['A|r1'], exp_delta)):
            fails.append('%s: wrong numbers' % type(two).__name__)
    except Exception as e:
        fails.append('%s entry: %s: %s' % (type(two).__name__, type(e).__name__, e))
if fails:
    print('VIOLATION: pe.linalg.matmul on a matrix [[Obs, 2], [2, Obs]] depends on the number type of the constant:')
    for f in fails:
        print('  ' + f)
    sys.exit(1)
print('ok')
sys.exit(0)
