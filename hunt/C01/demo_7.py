"""C01: a numpy complex scalar that is not a subclass of Python complex (np.complex64, np.clongdouble) is not recognised
by the Obs operators: the result is an Obs with complex central value (and for * and / complex fluctuations) instead
of a CObs, and the error analysis fails on it."""
import sys
sys.path.insert(0, sys.argv[1] if len(sys.argv) > 1 else '.')
import numpy as np
import pyerrors as pe

rng = np.random.default_rng(7)
sa = rng.normal(1.5, 0.05, 12)
a = pe.Obs([sa], ['A|r1'])
da = sa - sa.mean()
fails = []
for y in [np.complex128(1 + 2j), np.complex64(1 + 2j)]:
    for label, f, g in [('a * y', lambda: a * y, complex(y)), ('a + y', lambda: a + y, 1.0), ('a / y', lambda: a / y, 1 / complex(y))]:
        try:
            r = f()
        except Exception as e:
            fails.append('%s %s: %s %s' % (type(y).__name__, label, type(e).__name__, e)); continue
        if not isinstance(r, pe.CObs):
            fails.append('%s %s: result is %s with value %r, deltas dtype %s, not a CObs' % (type(y).__name__, label, type(r).__name__, r.value, r.deltas['A|r1'].dtype))
            continue
        im = r.imag.deltas['A|r1'] if isinstance(r.imag, pe.Obs) else 0 * da
        if not (np.allclose(r.real.deltas['A|r1'], np.real(g) * da) and np.allclose(im, np.imag(g) * da)):
            fails.append('%s %s: wrong fluctuations' % (type(y).__name__, label))
if fails:
    print('VIOLATION: Obs with a numpy complex scalar:')
    for f in fails:
        print('  ' + f)
    sys.exit(1)
print('ok')
sys.exit(0)
