"""C01 (alignment by configuration number in the matrix wrappers): pe.linalg.jack_matmul and pe.linalg.einsum take the
ensemble name and configuration list from the FIRST entry of the first operand and never look at the others: operands
measured on other configurations (or on another ensemble) of the same length are combined position by position and the
result is labelled with the first operand's replica / configurations. Nothing is refused."""
import sys
sys.path.insert(0, sys.argv[1] if len(sys.argv) > 1 else '.')
import numpy as np
import pyerrors as pe

rng = np.random.default_rng(16)
sa = rng.normal(1.3, .1, 10); sb = rng.normal(0.7, .1, 10)
a = pe.Obs([sa], ['A|r1'], idl=[range(1, 11)])
b_other_cfgs = pe.Obs([sb], ['A|r1'], idl=[range(2, 22, 2)])     # same replica, configurations 2, 4, ..., 20
b_other_ens = pe.Obs([sb], ['B|r1'], idl=[range(1, 11)])          # a different ensemble
fails = []
for label, b in [('other configurations', b_other_cfgs), ('other ensemble', b_other_ens)]:
    exact = a * b            # the property: union of configurations / both ensembles
    for fname, f in [('jack_matmul', lambda: pe.linalg.jack_matmul(np.array([[a]]), np.array([[b]]))), ('einsum', lambda: pe.linalg.einsum('ij,jk->ik', np.array([[a]]), np.array([[b]])))]:
        try:
            r = f()[0, 0]
        except Exception:
            continue      # a refusal would be acceptable
        if sorted(r.names) != sorted(exact.names) or any(list(r.idl[n]) != list(exact.idl[n]) for n in exact.names):
            fails.append('%s, second operand on %s: result lives on %s, the operands live on %s'
                         % (fname, label, {n: r.idl[n] for n in r.names}, {n: (exact.idl[n] if isinstance(exact.idl[n], range) else 'list of %d cfgs %s...' % (len(exact.idl[n]), exact.idl[n][:3])) for n in exact.names}))
if fails:
    print('VIOLATION: operands are paired by position, not by configuration number / replica, and nothing is refused:')
    for f in fails:
        print('  ' + f)
    sys.exit(1)
print('ok')
sys.exit(0)
