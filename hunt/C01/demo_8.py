"""C01: two covariance-defined inputs that carry the same name but different covariances must be refused
('Inconsistent covariance matrices'); the check uses np.allclose with its default ABSOLUTE tolerance 1e-8, so any two
variances below ~1e-8 (errors below 1e-4) pass, the first operand's covariance is used for both, and x + y != y + x."""
import sys
sys.path.insert(0, sys.argv[1] if len(sys.argv) > 1 else '.')
import numpy as np
import pyerrors as pe


def run(scale):
    x = pe.cov_Obs(1.0, (1.0 * scale) ** 2, 'c')
    y = pe.cov_Obs(2.0, (5.0 * scale) ** 2, 'c')
    out = []
    for f in (lambda: x + y, lambda: y + x):
        try:
            r = f(); r.gamma_method(); out.append(r.dvalue / scale)
        except Exception as e:
            out.append('refused')
    return out


big = run(1e-1)      # refused by the library
small = run(1e-5)    # exactly the same problem, all errors scaled by 1e-4
if big != ['refused', 'refused']:
    print('unexpected: the library does not refuse inconsistent covariances at normal scale', big); sys.exit(1)
if small != big:
    print("VIOLATION: cov_Obs(1, (1e-5)**2, 'c') + cov_Obs(2, (5e-5)**2, 'c') is silently accepted (the same inputs with errors 0.1 and 0.5 are refused);")
    print('  error / 1e-5 of x + y = %s, of y + x = %s (result depends on the operand order)' % tuple(small))
    sys.exit(1)
print('ok')
sys.exit(0)
