"""C01 (array_mode wrapper): pe.linalg.matmul is documented for 'an arbitrary number of 2d-numpy arrays', but operands of
different shapes (any product involving a non-square matrix, e.g. (1x3) @ (3x1)) crash: derived_observable puts all
operands into one np.asarray."""
import sys
sys.path.insert(0, sys.argv[1] if len(sys.argv) > 1 else '.')
import numpy as np
import pyerrors as pe

rng = np.random.default_rng(12)
s = [rng.normal(m, 0.05, 12) for m in (1.0, 0.3, 0.2)]
o = [pe.Obs([x], ['A|r1']) for x in s]
row = np.array([o]); col = row.T            # shapes (1, 3) and (3, 1)
ref = (row @ col)[0, 0]                     # numpy's object matmul through the overloaded operators
exp_delta = sum(2 * oi.value * (x - x.mean()) for oi, x in zip(o, s))
assert np.allclose(ref.deltas['A|r1'], exp_delta)
try:
    r = pe.linalg.matmul(row, col)
    ok = r.shape == (1, 1) and np.isclose(r[0, 0].value, sum(oi.value ** 2 for oi in o)) and np.allclose(r[0, 0].deltas['A|r1'], exp_delta)
    if not ok:
        print('VIOLATION: matmul((1x3), (3x1)) wrong numbers'); sys.exit(1)
except Exception as e:
    print('VIOLATION: pe.linalg.matmul((1x3) Obs matrix, (3x1) Obs matrix) raises %s: %s' % (type(e).__name__, str(e)[:120]))
    sys.exit(1)
print('ok')
sys.exit(0)
