"""C01: derived_observable on matrix-shaped data with a scalar-valued function (e.g. a determinant) crashes:
the per-replica means are computed by calling func on the FLATTENED data, because the reshape to data.shape
is only done when func returns an array."""
import sys
sys.path.insert(0, sys.argv[1] if len(sys.argv) > 1 else '.')
import numpy as np
import autograd.numpy as anp
import pyerrors as pe

rng = np.random.default_rng(2)
s = [rng.normal(m, 0.05, 12) for m in (1.0, 0.3, 0.2, 0.8)]
a, b, c, d = [pe.Obs([x], ['A|r1']) for x in s]
M = np.array([[a, b], [c, d]])
va, vb, vc, vd = [o.value for o in (a, b, c, d)]
grad = [vd, -vc, -vb, va]
exp_val = va * vd - vb * vc
exp_delta = sum(g * (x - x.mean()) for g, x in zip(grad, s))

fails = []
for label, kw in [('autograd', {}), ('man_grad', {'man_grad': np.array(grad).reshape(2, 2)})]:
    try:
        r = pe.derived_observable(lambda x, **kwargs: anp.linalg.det(x), M, **kw)
    except Exception as e:
        fails.append('%s: %s: %s' % (label, type(e).__name__, e))
        continue
    if not (np.isclose(r.value, exp_val) and np.allclose(r.deltas['A|r1'], exp_delta, atol=1e-8)):
        fails.append('%s: wrong numbers' % label)
if fails:
    print('VIOLATION: derived_observable(det, 2x2 array of Obs) does not return det with linear error propagation:')
    for f in fails:
        print('  ' + f)
    sys.exit(1)
print('ok')
sys.exit(0)
