"""C01: CObs multiplication is not scale invariant. When one factor has a plain-number component (e.g. x + 0j), the
other factor's imaginary part is tested with 'other.imag != 0', which for an Obs is Obs.is_zero with ABSOLUTE tolerance
1e-10. For observables of size < 1e-10 the imaginary part is dropped: (x + 0j) * z has imaginary part 0 instead of
x * Im z, and differs from z * (x + 0j)."""
import sys
sys.path.insert(0, sys.argv[1] if len(sys.argv) > 1 else '.')
import numpy as np
import pyerrors as pe

rng = np.random.default_rng(14)
base = [rng.normal(m, 0.05, 12) for m in (0.5, 0.7, 0.9)]
fails = []
for scale in [1.0, 1e-12]:
    sx, sy, sw = [scale * s for s in base]
    x, y, w = [pe.Obs([s], ['A|r1']) for s in (sx, sy, sw)]
    z = pe.CObs(y, w)
    r = (x + 0j) * z
    exp_im_val = x.value * w.value
    exp_im_delta = w.value * (sx - sx.mean()) + x.value * (sw - sw.mean())
    im = r.imag
    im_val = im.value if isinstance(im, pe.Obs) else im
    im_delta = im.deltas.get('A|r1', np.zeros(12)) if isinstance(im, pe.Obs) else np.zeros(12)
    if not (np.isclose(im_val, exp_im_val, rtol=1e-10, atol=0) and np.allclose(im_delta, exp_im_delta, rtol=1e-8, atol=1e-12 * scale ** 2)):
        fails.append('scale %g: Im[(x + 0j) * z] = %r with max |fluctuation| %g; expected %r with max |fluctuation| %g'
                     % (scale, im_val, np.max(np.abs(im_delta)), exp_im_val, np.max(np.abs(exp_im_delta))))
if fails:
    print('VIOLATION: the same product with all samples multiplied by 1e-12 loses its imaginary part:')
    for f in fails:
        print('  ' + f)
    sys.exit(1)
print('ok')
sys.exit(0)
