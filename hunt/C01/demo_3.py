"""C01/state: derived_observable overwrites the plain numbers in the caller's object array by dummy
covariance Obs (np.asarray + ravel give a view of the caller's array)."""
import sys
sys.path.insert(0, sys.argv[1] if len(sys.argv) > 1 else '.')
import numpy as np
import autograd.numpy as anp
import pyerrors as pe

rng = np.random.default_rng(3)
a = pe.Obs([rng.normal(1.0, 0.05, 12)], ['A|r1'])
c = pe.Obs([rng.normal(2.0, 0.05, 12)], ['A|r1'])
M = np.array([[a, 0.5], [0.5, c]], dtype=object)
before = [type(x) for x in M.ravel()]
w = pe.linalg.eigh(M)[0]          # public wrapper; passes M straight to derived_observable
# the result itself is fine:
ev = np.linalg.eigvalsh(np.array([[a.value, 0.5], [0.5, c.value]]))
assert np.allclose([o.value for o in w], ev)
after = [type(x) for x in M.ravel()]
if before != after:
    print('VIOLATION: pe.linalg.eigh(M) modified its argument in place: entry types before %s, after %s'
          % ([t.__name__ for t in before], [t.__name__ for t in after]))
    print('  M[0, 1] is now %r with names %s' % (M[0, 1], M[0, 1].names))
    sys.exit(1)
print('ok')
sys.exit(0)
