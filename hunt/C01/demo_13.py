"""C01: CObs has no power operator at all: z ** 2, z ** 0.5, 2 ** z raise TypeError, although ** is overloaded for Obs
(including Obs ** complex -> CObs) and + - * / abs neg exist for CObs."""
import sys
sys.path.insert(0, sys.argv[1] if len(sys.argv) > 1 else '.')
import numpy as np
import pyerrors as pe

rng = np.random.default_rng(13)
sa = rng.normal(1.0, 0.05, 12); sb = rng.normal(0.5, 0.05, 12)
a = pe.Obs([sa], ['A|r1']); b = pe.Obs([sb], ['A|r1'])
z = pe.CObs(a, b)
da = sa - sa.mean(); db = sb - sb.mean()
# oracle for z ** 2: d(z^2) = 2 z dz
zz = complex(a.value, b.value)
exp_val = zz ** 2
exp_d = 2 * zz * (da + 1j * db)
try:
    r = z ** 2
    ok = np.isclose(r.real.value, exp_val.real) and np.isclose(r.imag.value, exp_val.imag) and np.allclose(r.real.deltas['A|r1'], exp_d.real) and np.allclose(r.imag.deltas['A|r1'], exp_d.imag)
    if not ok:
        print('VIOLATION: CObs ** 2 wrong numbers'); sys.exit(1)
except TypeError as e:
    print('VIOLATION: CObs ** 2 raises TypeError: %s' % e)
    sys.exit(1)
print('ok')
sys.exit(0)
