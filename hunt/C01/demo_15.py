"""C01 (Corr wrapper of the overloaded operators): number / Corr is implemented as (Corr / number) ** -1, so 0 / corr is
refused with 'Division by zero' although the result is the well defined zero correlator; and Corr accepts complex numbers
for + - * but refuses them for / (both operand positions), as it refuses numpy integer / float32 scalars everywhere."""
import sys
sys.path.insert(0, sys.argv[1] if len(sys.argv) > 1 else '.')
import numpy as np
import pyerrors as pe

rng = np.random.default_rng(15)
s = [rng.normal(0.5 + 0.1 * t, 0.01, 12) for t in range(4)]
obs = [pe.Obs([x], ['A|r1']) for x in s]
C = pe.Corr(list(obs))
fails = []


def same(o, val, delta):
    return np.isclose(o.value, val) and np.allclose(o.deltas['A|r1'], delta)


t = 2
d = s[t] - s[t].mean(); v = obs[t].value
checks = [('0 / C', lambda: 0 / C, lambda r: same(r[t], 0.0, 0 * d)),
          ('C / (1+2j)', lambda: C / (1 + 2j), lambda r: same(r[t].real, (v / (1 + 2j)).real, d * (1 / (1 + 2j)).real) and same(r[t].imag, (v / (1 + 2j)).imag, d * (1 / (1 + 2j)).imag)),
          ('C * (1+2j)', lambda: C * (1 + 2j), lambda r: same(r[t].real, v, d) and same(r[t].imag, 2 * v, 2 * d)),
          ('C * np.int64(2)', lambda: C * np.int64(2), lambda r: same(r[t], 2 * v, 2 * d)),
          ('C * 2', lambda: C * 2, lambda r: same(r[t], 2 * v, 2 * d))]
for label, f, ok in checks:
    try:
        r = f()
        if not ok(r):
            fails.append('%s: wrong numbers' % label)
    except Exception as e:
        fails.append('%s: %s: %s' % (label, type(e).__name__, e))
if fails:
    print('VIOLATION: Corr arithmetic refuses valid operands:')
    for f in fails:
        print('  ' + f)
    sys.exit(1)
print('ok')
sys.exit(0)
