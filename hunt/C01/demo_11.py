"""C01: exact zeros. x ** 0 (constant 1, derivative 0) at central value 0 and 0 ** x (constant 0 for x > 0, derivative 0)
give NaN fluctuations: the hard-coded derivatives evaluate 0 * 0 ** -1 and 0 ** x * log(0)."""
import sys
import warnings
sys.path.insert(0, sys.argv[1] if len(sys.argv) > 1 else '.')
import numpy as np
import pyerrors as pe
warnings.simplefilter('ignore')

z = pe.Obs([np.array([1., -1., 2., -2., 0.5, -0.5])], ['A|r1'])     # central value exactly 0
p = pe.Obs([np.array([1., 3., 2., 2., 1.5, 2.5])], ['A|r1'])        # central value 2
assert z.value == 0.0
fails = []
for label, f, val in [('z ** 0', lambda: z ** 0, 1.0), ('0 ** p', lambda: 0 ** p, 0.0), ('z ** 2', lambda: z ** 2, 0.0), ('1 ** p', lambda: 1 ** p, 1.0)]:
    try:
        r = f()
        if not (r.value == val and np.array_equal(r.deltas['A|r1'], np.zeros(6))):
            fails.append('%s: value %s, fluctuations %s (expected %s and zeros)' % (label, r.value, r.deltas['A|r1'], val))
    except Exception as e:
        fails.append('%s: %s: %s' % (label, type(e).__name__, e))
if fails:
    print('VIOLATION:')
    for f in fails:
        print('  ' + f)
    sys.exit(1)
print('ok')
sys.exit(0)
