"""C01/flags: the reweighted flag of merge_obs output is a numpy bool (np.max of the flags); derived_observable tests
'o.reweighted is True', so every quantity derived from a merged reweighted Obs silently loses the flag."""
import sys
sys.path.insert(0, sys.argv[1] if len(sys.argv) > 1 else '.')
import numpy as np
import pyerrors as pe

rng = np.random.default_rng(9)
w = [pe.Obs([rng.normal(1, .1, 20)], ['A|r%d' % i]) for i in (1, 2)]
o = [pe.Obs([rng.normal(1, .1, 20)], ['A|r%d' % i]) for i in (1, 2)]
r = [pe.reweight(w[i], [o[i]])[0] for i in range(2)]
assert r[0].reweighted is True and (2 * r[0]).reweighted is True      # the flag propagates for a single replica
m = pe.merge_obs(r)
d = 2 * m
if not m.reweighted:
    print('VIOLATION: merge_obs of reweighted Obs is not flagged reweighted'); sys.exit(1)
if not d.reweighted:
    print('VIOLATION: m = merge_obs([reweighted r1, reweighted r2]) has reweighted=%r, but (2 * m).reweighted = %r' % (m.reweighted, d.reweighted))
    sys.exit(1)
print('ok')
sys.exit(0)
