"""C01: an Obs whose central value is a numpy integer (cov_Obs with an integer array of means) cannot be raised to a
negative integer power: the analytic derivative y * value ** (y - 1) is evaluated in integer arithmetic."""
import sys
sys.path.insert(0, sys.argv[1] if len(sys.argv) > 1 else '.')
import numpy as np
import pyerrors as pe

means = np.array([2, 3])
c = pe.cov_Obs(means, [0.01, 0.04], 'c')
fails = []
for label, f, val, g in [('c0 ** -1', lambda: c[0] ** -1, 0.5, -0.25), ('c0 ** -2', lambda: c[0] ** -2, 0.25, -0.25), ('1 / c0', lambda: 1 / c[0], 0.5, -0.25), ('c0 ** -1.0', lambda: c[0] ** -1.0, 0.5, -0.25)]:
    try:
        r = f()
        if not (np.isclose(r.value, val) and np.allclose(r.covobs['c'].grad.ravel(), [g, 0])):
            fails.append('%s: wrong numbers %s %s' % (label, r.value, r.covobs['c'].grad.ravel()))
    except Exception as e:
        fails.append('%s: %s: %s' % (label, type(e).__name__, e))
if fails:
    print('VIOLATION: c0 = cov_Obs(np.array([2, 3]), ...)[0] (integer central value):')
    for f in fails:
        print('  ' + f)
    sys.exit(1)
print('ok')
sys.exit(0)
