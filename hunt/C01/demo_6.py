"""C01: Obs ** ndarray raises ValueError('Manual derivative does not have correct shape') although ndarray ** Obs and
Obs + - * / ndarray all broadcast element-wise (the ndarray branch is missing in Obs.__pow__)."""
import sys
sys.path.insert(0, sys.argv[1] if len(sys.argv) > 1 else '.')
import numpy as np
import pyerrors as pe

rng = np.random.default_rng(6)
sa = rng.normal(1.5, 0.05, 12)
a = pe.Obs([sa], ['A|r1'])
y = np.array([2.0, 3.0])
da = sa - sa.mean()
r_ok = y ** a          # works
assert np.allclose(r_ok[1].deltas['A|r1'], np.log(3.0) * 3.0 ** a.value * da)
try:
    r = a ** y
    good = all(np.isclose(r[i].value, a.value ** y[i]) and np.allclose(r[i].deltas['A|r1'], y[i] * a.value ** (y[i] - 1) * da) for i in range(2))
    if not good:
        print('VIOLATION: a ** np.array([2., 3.]) gives wrong numbers')
        sys.exit(1)
except Exception as e:
    print('VIOLATION: a ** np.array([2., 3.]) raises %s: %s (np.array([2., 3.]) ** a and a * np.array([2., 3.]) work)' % (type(e).__name__, e))
    sys.exit(1)
print('ok')
sys.exit(0)
