"""C01: a replica whose name carries no '|' (the ensemble name itself, e.g. 'A' next to 'A|r2') is a
replica of ensemble 'A' for the library (Obs.e_content lists it), but derived_observable does not count it
when an operand lacks whole replicas: the up-weighting (ensemble size / size of the replicas it has) is skipped."""
import sys
sys.path.insert(0, sys.argv[1] if len(sys.argv) > 1 else '.')
import numpy as np
import pyerrors as pe

rng = np.random.default_rng(1)
sa = rng.normal(1.0, 0.1, 10)
sb = rng.normal(2.0, 0.1, 10)
a = pe.Obs([sa], ['A'])        # replica 'A' of ensemble 'A'
b = pe.Obs([sb], ['A|r2'])     # replica 'A|r2' of ensemble 'A'
both = pe.Obs([sa, sb], ['A', 'A|r2'])
assert both.e_content == {'A': ['A|r2', 'A']} or sorted(both.e_content['A']) == ['A', 'A|r2']  # both are replica of one ensemble

r = a + b
# oracle: each operand has 10 of the 20 configurations of the ensemble -> factor 20 / 10 = 2 on its replica
exp_A = 2.0 * (sa - sa.mean())
exp_r2 = 2.0 * (sb - sb.mean())
# cross-check of the oracle with conventional names ('A|r1', 'A|r2'), which the library handles as the property says
ref = pe.Obs([sa], ['A|r1']) + pe.Obs([sb], ['A|r2'])
assert np.allclose(ref.deltas['A|r1'], exp_A) and np.allclose(ref.deltas['A|r2'], exp_r2)

bad = []
if not np.allclose(r.deltas['A'], exp_A):
    bad.append("deltas['A'] / expected = %s" % (r.deltas['A'] / exp_A)[:3])
if not np.allclose(r.deltas['A|r2'], exp_r2):
    bad.append("deltas['A|r2'] / expected = %s" % (r.deltas['A|r2'] / exp_r2)[:3])
r.gamma_method(S=0); ref.gamma_method(S=0)
if bad:
    print("VIOLATION: Obs on replica 'A' + Obs on replica 'A|r2' (same ensemble, disjoint replica):")
    print("  fluctuations are not up-weighted by ensemble size / own size = 2:", '; '.join(bad))
    print("  error %.6f instead of %.6f (same data with names 'A|r1','A|r2')" % (r.dvalue, ref.dvalue))
    sys.exit(1)
print('ok')
sys.exit(0)
