"""C01: an Obs combined with a 0-dimensional ndarray works with the array on the left, but raises TypeError with the
Obs on the left for + - * / (the ndarray branch iterates over the array)."""
import sys
sys.path.insert(0, sys.argv[1] if len(sys.argv) > 1 else '.')
import numpy as np
import pyerrors as pe

rng = np.random.default_rng(5)
sa = rng.normal(1.0, 0.05, 12)
a = pe.Obs([sa], ['A|r1'])
y = np.array(2.0)       # e.g. the result of np.asarray(2.0) or of arr[()] / arr.sum(keepdims=...) reductions
da = sa - sa.mean()
cases = {'a + y': (lambda: a + y, a.value + 2, da), 'a - y': (lambda: a - y, a.value - 2, da),
         'a * y': (lambda: a * y, a.value * 2, 2 * da), 'a / y': (lambda: a / y, a.value / 2, da / 2),
         'y + a': (lambda: y + a, a.value + 2, da), 'y * a': (lambda: y * a, a.value * 2, 2 * da)}
fails = []
for label, (f, val, delta) in cases.items():
    try:
        r = f()
        r = r.item() if isinstance(r, np.ndarray) else r
        if not (np.isclose(r.value, val) and np.allclose(r.deltas['A|r1'], delta)):
            fails.append('%s: wrong numbers' % label)
    except Exception as e:
        fails.append('%s: %s: %s' % (label, type(e).__name__, e))
if fails:
    print('VIOLATION: Obs (left operand) with a 0-d ndarray (right operand):')
    for f in fails:
        print('  ' + f)
    sys.exit(1)
print('ok')
sys.exit(0)
