"""C06 demo 1: one observable with zero error (constant samples, or cov_Obs with zero variance)
in the list makes covariance() crash with LinAlgError (the whole matrix is NaN before the eigenvalue
check) and gives NaN instead of 0 in the row / column of that observable with correlation=True."""
import sys, warnings
sys.path.insert(0, sys.argv[1])
import numpy as np
import pyerrors as pe

rng = np.random.default_rng(1)
xa, xb = rng.normal(1, 0.1, 100), rng.normal(2, 0.3, 100)
a, b = pe.Obs([xa], ['A']), pe.Obs([xb], ['A'])
c = pe.Obs([np.ones(100)], ['A'])          # exactly constant on the ensemble: error 0
obs = [a, b, c]
[o.gamma_method(S=0) for o in obs]
d = np.array([o.dvalue for o in obs])
# oracle: Pearson correlation of a and b, zero covariance with the constant, diag = squared errors
da, db = xa - xa.mean(), xb - xb.mean()
rho = np.sum(da * db) / np.sqrt(np.sum(da ** 2) * np.sum(db ** 2))
expected = np.array([[d[0] ** 2, rho * d[0] * d[1], 0], [rho * d[0] * d[1], d[1] ** 2, 0], [0, 0, 0]])

fail = []
with warnings.catch_warnings():
    warnings.simplefilter('ignore')
    try:
        cov = pe.covariance(obs)
        if not np.allclose(cov, expected, rtol=1e-10, atol=0):
            fail.append('covariance([a, b, const]) = %s, expected %s' % (cov.tolist(), expected.tolist()))
    except Exception as e:
        fail.append('covariance([a, b, const]) raised %r; expected a matrix with diag = squared errors (last one 0)' % (e,))
    try:
        corr = pe.covariance(obs, correlation=True)
        if not np.isclose(corr[0, 1], rho) or not np.all(np.isfinite(corr[:2, :2])):
            fail.append('correlation block of the two regular observables wrong: %s' % corr.tolist())
        if np.any(np.isnan(corr[2, :2])):
            fail.append('correlation of the regular observables with the constant is NaN instead of 0: %s' % corr[2].tolist())
    except Exception as e:
        fail.append('covariance(..., correlation=True) raised %r' % (e,))
    # same with an exact external constant
    z = pe.cov_Obs(1.0, 0.0, 'exact')
    z.gamma_method()
    try:
        cov2 = pe.covariance([a, b, z])
        if not np.allclose(cov2, expected, rtol=1e-10, atol=0):
            fail.append('covariance([a, b, cov_Obs(1, 0)]) = %s' % cov2.tolist())
    except Exception as e:
        fail.append('covariance([a, b, cov_Obs(1.0, 0.0)]) raised %r' % (e,))
if fail:
    print('VIOLATION (zero-error observable in the list):')
    for f in fail:
        print(' -', f)
    sys.exit(1)
print('ok')
