"""C06 demo 2: correlation=np.bool_(True) (or 1) is silently treated as False: the covariance
matrix is returned where the correlation matrix was requested."""
import sys
sys.path.insert(0, sys.argv[1])
import numpy as np
import pyerrors as pe

rng = np.random.default_rng(2)
x = rng.normal(0, 1, (3, 200))
x[1] += 0.5 * x[0]
obs = [pe.Obs([0.01 * xi + 1], ['A']) for xi in x]
[o.gamma_method() for o in obs]
oracle = np.corrcoef(x)            # Pearson on identical configurations

fail = []
flag_np = np.all(np.array([1, 2]) > 0)           # a numpy boolean, as produced by any numpy test
for flag, label in [(True, 'True'), (flag_np, 'np.bool_(True)'), (1, '1')]:
    res = pe.covariance(obs, correlation=flag)
    if not np.allclose(res, oracle, atol=1e-12):
        fail.append('correlation=%s: diag %s (expected unit diagonal / Pearson matrix)' % (label, np.diag(res).tolist()))
if fail:
    print('VIOLATION: truthy correlation flag ignored, covariance returned instead of correlation')
    for f in fail:
        print(' -', f)
    sys.exit(1)
print('ok')
