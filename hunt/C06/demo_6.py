"""C06 demo 6: two observables carrying a covariance input of the SAME name but DIFFERENT
covariance matrices.  Every other place of the library refuses this ('Inconsistent covariance
matrices for sys!' in derived_observable); covariance() accepts it silently, uses the matrix of
whichever observable comes first, and returns 'correlations' of 10 that depend on the list order."""
import sys
sys.path.insert(0, sys.argv[1])
import numpy as np
import pyerrors as pe

z1 = pe.cov_Obs(1.0, 1.0, 'sys')
z2 = pe.cov_Obs(1.0, 0.01, 'sys')
z1.gamma_method()
z2.gamma_method()
refused_elsewhere = False
try:
    z1 + z2
except Exception:
    refused_elsewhere = True

fail = []
try:
    c12 = pe.covariance([z1, z2], correlation=True)
    c21 = pe.covariance([z2, z1], correlation=True)
    if np.any(np.abs(c12) > 1 + 1e-12) or np.any(np.abs(c21) > 1 + 1e-12):
        fail.append('correlation entries outside [-1, 1]: %s' % c12.tolist())
    if not np.allclose(c21, c12[::-1, ::-1]):
        fail.append('permuting the list does not permute the matrix: [z1, z2] -> %s, [z2, z1] -> %s' % (c12.tolist(), c21.tolist()))
except Exception:
    pass  # a refusal is the behaviour of the rest of the library
if fail:
    print('VIOLATION: inconsistent covariance inputs of equal name silently accepted (z1 + z2 refused elsewhere: %s)' % refused_elsewhere)
    for f in fail:
        print(' -', f)
    sys.exit(1)
print('ok')
