"""C06 demo 8 (low, borderline): the documented admissible range of the smoothing parameter is
'an integer E between 2 and the dimension of the matrix minus 1'; the error message repeats this
and prints the upper bound (dim - 1).  E = 2 and E = dim - 1 are refused, and for a 4x4 matrix NO
value of E is accepted at all (needs 2 < E < 3)."""
import sys
sys.path.insert(0, sys.argv[1])
import numpy as np
import pyerrors as pe

rng = np.random.default_rng(8)
fail = []
for n in (4, 6):
    x = rng.normal(0, 1, (n, 50))
    obs = [pe.Obs([xi], ['A']) for xi in x]
    [o.gamma_method() for o in obs]
    corr = np.corrcoef(x)
    for E in range(2, n):          # documented range 2 .. n-1
        vals, vec = np.linalg.eigh(corr)
        lam = np.mean(vals[:-E])
        vals = np.where(vals < lam, lam, vals)
        vals = vals / np.mean(vals)
        oracle = vec @ np.diag(vals) @ vec.T
        try:
            res = pe.covariance(obs, correlation=True, smooth=E)
            if not np.allclose(res, oracle, atol=1e-12) or not np.isclose(np.trace(res), n):
                fail.append('n=%d E=%d: wrong smoothing result' % (n, E))
        except ValueError as e:
            fail.append('n=%d E=%d refused: %s' % (n, E, e))
if fail:
    print('VIOLATION (borderline): documented smoothing parameters refused')
    for f in fail:
        print(' -', f)
    sys.exit(1)
print('ok')
