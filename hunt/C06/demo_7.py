"""C06 demo 7: observables on a tiny (or huge) overall scale.  The errors are computed fine
(dvalue ~ 1e-92) but covariance() returns NaN: gamma_div = sqrt(gamma_11 * gamma_22) multiplies
two sums of squared fluctuations (fourth power of the scale) and under/overflows."""
import sys, warnings
sys.path.insert(0, sys.argv[1])
import numpy as np
import pyerrors as pe

rng = np.random.default_rng(7)
fail = []
for scale in (1e-90, 1e80):
    x = rng.normal(1, 0.1, (2, 100))
    x[1] += 3 * (x[0] - 1)
    obs = [pe.Obs([xi * scale], ['A']) for xi in x]
    with warnings.catch_warnings():
        warnings.simplefilter('ignore')
        [o.gamma_method(S=0) for o in obs]
        d = np.array([o.dvalue for o in obs])
        assert np.all(np.isfinite(d)) and np.all(d > 0)
        rho = np.corrcoef(x)        # scale independent oracle
        try:
            corr = pe.covariance(obs, correlation=True)
        except Exception as e:
            fail.append('scale %g: raised %r' % (scale, e))
            continue
    if not np.allclose(corr, rho, atol=1e-10):
        fail.append('scale %g: errors %s are fine, correlation matrix %s, expected Pearson %s' % (scale, d.tolist(), corr.tolist(), rho.tolist()))
if fail:
    print('VIOLATION: correlation matrix not scale invariant / NaN')
    for f in fail:
        print(' -', f)
    sys.exit(1)
print('ok')
