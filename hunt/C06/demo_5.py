"""C06 demo 5: Monte Carlo data mixed with an external (cov_Obs) input.  m = a_A + z and z share
only the external input 'sys', hence cov(m, z) = J_m Sigma J_z^T = var(z).  covariance([m, z])
returns var(z) * sqrt((var a + var z) / (1 + var z)): _covariance_element adds the unit-less
Monte Carlo correlation (1 on the diagonal) to the dimensionful external variance."""
import sys
sys.path.insert(0, sys.argv[1])
import numpy as np
import pyerrors as pe

rng = np.random.default_rng(5)
N = 500
x = rng.normal(1, 0.1, N)
a = pe.Obs([x], ['A'])
var_z = 0.5 ** 2
z = pe.cov_Obs(1.0, var_z, 'sys')
m = a + z
tot = m + z
for o in (a, z, m, tot):
    o.gamma_method(S=0)
var_a = np.sum((x - x.mean()) ** 2) / (N * (N - 1))
assert np.isclose(m.dvalue ** 2, var_a + var_z) and np.isclose(tot.dvalue ** 2, var_a + 4 * var_z)
expected = np.array([[var_a + var_z, var_z], [var_z, var_z]])

cov = pe.covariance([m, z])
fail = []
if not np.allclose(cov, expected, rtol=1e-8):
    fail.append('cov(a_A + z, z) = %.6f, expected J Sigma J^T = var(z) = %.6f' % (cov[0, 1], var_z))
if not np.isclose(np.ones(2) @ cov @ np.ones(2), tot.dvalue ** 2, rtol=1e-8):
    fail.append('1^T C 1 = %.6f but the error^2 of m + z is %.6f' % (np.ones(2) @ cov @ np.ones(2), tot.dvalue ** 2))
if fail:
    print('VIOLATION: covariance of observables mixing MC data and a shared covariance input is wrong')
    for f in fail:
        print(' -', f)
    sys.exit(1)
print('ok')
