"""C06 demo 4: observables living on several ensembles.  s = a_A + b_B and a_A share only
ensemble A, so cov(s, a) = cov(a, a) + cov(b, a) = var(a) + 0 (the second term is zero by the
property's own 'no common ensemble' clause).  covariance([s, a]) returns a number that is off by
the factor sqrt((var a + var b) / (2 var a)), because _covariance_element adds one unit-less
correlation per shared ensemble and covariance() then rescales with the total errors.
All errors are computed without autocorrelation (S=0) so everything is exactly checkable."""
import sys
sys.path.insert(0, sys.argv[1])
import numpy as np
import pyerrors as pe

rng = np.random.default_rng(4)
N, M = 500, 400
x = rng.normal(1, 0.1, N)
y = rng.normal(1, 1.0, M)
a = pe.Obs([x], ['A'])
b = pe.Obs([y], ['B'])
s = a + b
tot = s + a
for o in (a, b, s, tot):
    o.gamma_method(S=0)
# numpy oracle (S=0: error^2 = sum(delta^2) / (N (N - 1)))
var_a = np.sum((x - x.mean()) ** 2) / (N * (N - 1))
var_b = np.sum((y - y.mean()) ** 2) / (M * (M - 1))
assert np.isclose(a.dvalue ** 2, var_a) and np.isclose(s.dvalue ** 2, var_a + var_b) and np.isclose(tot.dvalue ** 2, 4 * var_a + var_b)
expected = np.array([[var_a + var_b, var_a], [var_a, var_a]])

cov = pe.covariance([s, a])
fail = []
if not np.allclose(cov, expected, rtol=1e-8):
    fail.append('cov(a_A + b_B, a_A) = %.6e, expected var(a_A) = %.6e (ratio %.3f)' % (cov[0, 1], var_a, cov[0, 1] / var_a))
if not np.isclose(np.ones(2) @ cov @ np.ones(2), tot.dvalue ** 2, rtol=1e-8):
    fail.append('1^T C 1 = %.6e but the error^2 of s + a from the gamma method is %.6e' % (np.ones(2) @ cov @ np.ones(2), tot.dvalue ** 2))
if fail:
    print('VIOLATION: covariance of multi-ensemble observables inconsistent with the individual errors')
    for f in fail:
        print(' -', f)
    sys.exit(1)
print('ok')
