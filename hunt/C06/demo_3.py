"""C06 demo 3: smooth given as numpy integer (np.int64(3), e.g. the result of n // 2 on a numpy
int, len of shape arithmetic, np.argmax ...) is silently ignored: no eigenvalue smoothing at all."""
import sys
sys.path.insert(0, sys.argv[1])
import numpy as np
import pyerrors as pe

rng = np.random.default_rng(3)
n = 6
x = rng.normal(0, 1, (n, 40))
obs = [pe.Obs([xi], ['A']) for xi in x]
[o.gamma_method() for o in obs]
corr = np.corrcoef(x)
E = 3
# oracle: hep-lat/9412087 smoothing by hand
vals, vec = np.linalg.eigh(corr)
lam = np.mean(vals[:-E])
vals = np.where(vals < lam, lam, vals)
vals = vals / np.mean(vals)
oracle = vec @ np.diag(vals) @ vec.T

r_py = pe.covariance(obs, correlation=True, smooth=E)
r_np = pe.covariance(obs, correlation=True, smooth=np.int64(E))
ok_py = np.allclose(r_py, oracle, atol=1e-12)
ok_np = np.allclose(r_np, oracle, atol=1e-12)
if not (ok_py and ok_np):
    print('VIOLATION: smooth=3 matches hand-made smoothing: %s; smooth=np.int64(3) matches: %s' % (ok_py, ok_np))
    print(' smallest eigenvalue expected %.6f, with np.int64(3): %.6f (unsmoothed: %.6f)' % (np.linalg.eigvalsh(oracle)[0], np.linalg.eigvalsh(r_np)[0], np.linalg.eigvalsh(corr)[0]))
    sys.exit(1)
print('ok')
