"""einsum with numpy's implicit-output subscripts ('ij,jk', no '->') returns a wrongly shaped array of garbage."""
import sys
sys.path.insert(0, sys.argv[1])
import numpy as np
import pyerrors as pe

rng = np.random.default_rng(1)
N = 200
def mat(vals):
    out = np.empty(np.shape(vals), dtype=object)
    for i, v in np.ndenumerate(np.asarray(vals, dtype=float)):
        out[i] = pe.Obs([rng.normal(v, 0.1, N)], ['ens'])
    return out

A = mat([[2, 0.5], [0.3, 3]])
B = mat([[1, 2], [3, 4]])
exact = A @ B  # explicit sum of element products
# sanity: np.einsum accepts the implicit form for plain matrices
va = np.vectorize(lambda o: o.value)(A); vb = np.vectorize(lambda o: o.value)(B)
assert np.allclose(np.einsum('ij,jk', va, vb), va @ vb)

try:
    res = np.asarray(pe.linalg.einsum('ij,jk', A, B), dtype=object)
except Exception as e:  # a clean refusal would be acceptable
    print('refused:', repr(e)); sys.exit(0)
if res.shape != exact.shape:
    print("VIOLATION: pe.linalg.einsum('ij,jk', A, B) has shape %s, the product A@B has shape %s" % (res.shape, exact.shape))
    print("first entries:", [float(o.value) for o in res.ravel()[:4]], "expected", [float(o.value) for o in exact.ravel()])
    sys.exit(1)
bad = [i for i in np.ndindex(exact.shape) if abs(res[i].value - exact[i].value) > 1e-10 * abs(exact[i].value)]
if bad:
    print('VIOLATION: wrong central values at', bad); sys.exit(1)
print('ok'); sys.exit(0)
