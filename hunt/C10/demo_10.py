"""jack_matmul and einsum drop the `reweighted` flag of their operands; matmul and the explicit product keep it."""
import sys
sys.path.insert(0, sys.argv[1])
import numpy as np
import pyerrors as pe

rng = np.random.default_rng(10)
N = 200
def mat(vals):
    out = np.empty(np.shape(vals), dtype=object)
    for i, v in np.ndenumerate(np.asarray(vals, dtype=float)):
        out[i] = pe.Obs([rng.normal(v, 0.1, N)], ['ens'])
    return out
w = pe.Obs([rng.normal(1.0, 0.05, N)], ['ens'])
A = np.array(pe.reweight(w, list(mat([[2, 0.5], [0.3, 3]]).ravel())), dtype=object).reshape(2, 2)
B = mat([[1, 2], [3, 4]])
assert all(o.reweighted for o in A.ravel())
assert all(o.reweighted for o in (A @ B).ravel())          # explicit product: flag kept
assert all(o.reweighted for o in pe.linalg.matmul(A, B).ravel())
fail = []
for label, f in [('jack_matmul', lambda: pe.linalg.jack_matmul(A, B)), ('einsum', lambda: pe.linalg.einsum('ij,jk->ik', A, B))]:
    flags = [bool(o.reweighted) for o in f().ravel()]
    if not all(flags):
        fail.append('%s(A reweighted, B): reweighted flags of the result %s, explicit product: all True' % (label, flags))
if fail:
    print('VIOLATION:'); print('\n'.join(fail)); sys.exit(1)
print('ok'); sys.exit(0)
