"""A matrix entry that is a numpy scalar other than np.float64 (np.int64, np.float32, np.bool_) crashes every
operation, while the equal Python number / np.float64 is accepted (isinstance(x, (int, float)) test)."""
import sys
sys.path.insert(0, sys.argv[1])
import numpy as np
import pyerrors as pe

rng = np.random.default_rng(9)
N = 200
def mat(vals):
    out = np.empty(np.shape(vals), dtype=object)
    for i, v in np.ndenumerate(np.asarray(vals, dtype=float)):
        out[i] = pe.Obs([rng.normal(v, 0.1, N)], ['ens'])
    return out
B = mat([[1, 2], [3, 4]])
fail = []
for num in [1, 1.0, np.float64(1), np.int64(1), np.float32(1), np.arange(3)[1], np.bool_(True)]:
    for name, f in [('inv', lambda A: pe.linalg.inv(A)[0, 0]), ('det', lambda A: pe.linalg.det(A)), ('matmul', lambda A: pe.linalg.matmul(A, B)[0, 0]), ('pinv', lambda A: pe.linalg.pinv(A)[0, 0])]:
        A = mat([[2, 0.5], [0.3, 3]]); A[0, 1] = num
        hand = {'inv': lambda: A[1, 1] / (A[0, 0] * A[1, 1] - A[0, 1] * A[1, 0]), 'pinv': lambda: A[1, 1] / (A[0, 0] * A[1, 1] - A[0, 1] * A[1, 0]),
                'det': lambda: A[0, 0] * A[1, 1] - A[0, 1] * A[1, 0], 'matmul': lambda: A[0, 0] * B[0, 0] + A[0, 1] * B[1, 0]}[name]()
        try:
            r = f(A.copy())
        except Exception as e:
            fail.append('%s with entry %r (%s): %s: %s' % (name, num, type(num).__name__, type(e).__name__, e)); continue
        if abs(r.value - hand.value) > 1e-10:
            fail.append('%s with entry %r: wrong value' % (name, num))
if fail:
    print('VIOLATION:'); print('\n'.join(fail)); sys.exit(1)
print('ok'); sys.exit(0)
