"""pinv / svd / eigh / eig / eigv overwrite the plain numbers of the caller's matrix in place by
dummy Obs (named '###dummy_covobs###'); inv / det / cholesky / matmul leave the argument alone."""
import sys
sys.path.insert(0, sys.argv[1])
import numpy as np
import pyerrors as pe

rng = np.random.default_rng(8)
N = 200
def build():
    out = np.empty((2, 2), dtype=object)
    out[0, 0] = pe.Obs([rng.normal(2.0, 0.1, N)], ['ens'])
    out[1, 1] = pe.Obs([rng.normal(3.0, 0.1, N)], ['ens'])
    out[0, 1] = 0.5
    out[1, 0] = 0.5
    return out
fail = []
for name in ['pinv', 'svd', 'eigh', 'eig', 'eigv', 'inv', 'det', 'cholesky']:
    A = build()
    before = [type(x).__name__ for x in A.ravel()]
    getattr(pe.linalg, name)(A)
    after = [type(x).__name__ for x in A.ravel()]
    if before != after:
        fail.append('%s(A): entry types of the argument %s -> %s (A[0,1] is now %r with names %s)' % (name, before, after, A[0, 1], A[0, 1].names))
if fail:
    print('VIOLATION: argument modified in place'); print('\n'.join(fail)); sys.exit(1)
print('ok'); sys.exit(0)
