"""Real Obs matrix times a plain complex matrix: jack_matmul returns Obs with complex central value and complex
deltas (not CObs), matmul crashes; the explicit product and einsum give CObs."""
import sys
sys.path.insert(0, sys.argv[1])
import numpy as np
import pyerrors as pe

rng = np.random.default_rng(12)
N = 200
def mat(vals):
    out = np.empty(np.shape(vals), dtype=object)
    for i, v in np.ndenumerate(np.asarray(vals, dtype=float)):
        out[i] = pe.Obs([rng.normal(v, 0.1, N)], ['ens'])
    return out
A = mat([[2, 0.5], [0.3, 3]])
P = np.array([[1, 2j], [3, 4]])
exact = A @ P
assert isinstance(exact[0, 1], pe.CObs)
fail = []
for label, f in [('jack_matmul', lambda: pe.linalg.jack_matmul(A, P)), ('matmul', lambda: pe.linalg.matmul(A, P)), ('einsum', lambda: pe.linalg.einsum('ij,jk->ik', A, P))]:
    try:
        r = f()
    except Exception as e:
        fail.append('%s(A, plain complex) raises %s: %s' % (label, type(e).__name__, e)); continue
    x = r[0, 1]
    if not isinstance(x, pe.CObs):
        fail.append('%s(A, plain complex)[0,1] is %s with value %r and deltas of dtype %s; explicit product is a CObs' % (label, type(x).__name__, x.value, np.asarray(x.deltas['ens']).dtype))
    elif abs(x.imag.value - exact[0, 1].imag.value) > 1e-10 or abs(x.real.value - exact[0, 1].real.value) > 1e-10:
        fail.append('%s wrong value' % label)
if fail:
    print('VIOLATION:'); print('\n'.join(fail)); sys.exit(1)
print('ok'); sys.exit(0)
