"""matmul decides real/complex from element [0,0] only: a hermitian matrix with real Obs on the diagonal
and CObs off the diagonal crashes in matmul (and jack_matmul / einsum), although inv handles it."""
import sys
sys.path.insert(0, sys.argv[1])
import numpy as np
import pyerrors as pe

rng = np.random.default_rng(5)
N = 200
def ob(v):
    return pe.Obs([rng.normal(v, 0.1, N)], ['ens'])
z = pe.CObs(ob(0.5), ob(0.7))
H = np.array([[ob(2.0), z], [z.conjugate(), ob(3.0)]], dtype=object)
exact = H @ H  # explicit sums of element products work
fail = []
for label, f in [('matmul', lambda: pe.linalg.matmul(H, H)), ('jack_matmul', lambda: pe.linalg.jack_matmul(H, H)), ('einsum', lambda: pe.linalg.einsum('ij,jk->ik', H, H))]:
    try:
        r = f()
    except Exception as e:
        fail.append('%s(H, H) raises %r' % (label, e)); continue
    for i in np.ndindex(2, 2):
        if abs(r[i].real.value - exact[i].real.value) > 1e-10 or abs(r[i].imag.value - exact[i].imag.value) > 1e-10:
            fail.append('%s wrong value at %s' % (label, i))
if fail:
    print('VIOLATION: H = [[Obs, CObs], [CObs, Obs]]'); print('\n'.join(fail)); sys.exit(1)
print('ok'); sys.exit(0)
