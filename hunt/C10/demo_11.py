"""det silently accepts a non-square matrix: it takes int(sqrt(size)) as dimension and returns the determinant
of the first dim*dim raveled entries instead of refusing (numpy raises LinAlgError)."""
import sys
sys.path.insert(0, sys.argv[1])
import numpy as np
import pyerrors as pe

rng = np.random.default_rng(11)
N = 200
def mat(vals):
    out = np.empty(np.shape(vals), dtype=object)
    for i, v in np.ndenumerate(np.asarray(vals, dtype=float)):
        out[i] = pe.Obs([rng.normal(v, 0.1, N)], ['ens'])
    return out
vals = [[2, 0.5, 7], [0.3, 3, 9]]
try:
    np.linalg.det(np.array(vals)); raise SystemExit('numpy oracle unexpectedly accepts')
except np.linalg.LinAlgError:
    pass
try:
    d = pe.linalg.det(mat(vals))
except Exception as e:
    print('refused:', repr(e)); sys.exit(0)
print('VIOLATION: det of a 2x3 matrix is not refused but returns %s (= a00*a10 - a01*a02 of the raveled entries)' % d)
sys.exit(1)
