"""matmul cannot multiply operands of different shapes (2x3 @ 3x2, matrix @ column vector):
np.asarray(operands) in derived_observable fails on the inhomogeneous list."""
import sys
sys.path.insert(0, sys.argv[1])
import numpy as np
import pyerrors as pe

rng = np.random.default_rng(6)
N = 200
def mat(vals):
    out = np.empty(np.shape(vals), dtype=object)
    for i, v in np.ndenumerate(np.asarray(vals, dtype=float)):
        out[i] = pe.Obs([rng.normal(v, 0.1, N)], ['ens'])
    return out
fail = []
for sa, sb in [((2, 3), (3, 2)), ((2, 2), (2, 1)), ((1, 3), (3, 3))]:
    A = mat(rng.normal(1, 1, sa)); B = mat(rng.normal(1, 1, sb))
    exact = A @ B
    try:
        r = pe.linalg.matmul(A, B)
    except Exception as e:
        fail.append('matmul(%s, %s) raises %s: %s' % (sa, sb, type(e).__name__, str(e)[:80])); continue
    if r.shape != exact.shape or any(abs(r[i].value - exact[i].value) > 1e-10 for i in np.ndindex(exact.shape)):
        fail.append('matmul(%s, %s) wrong' % (sa, sb))
if fail:
    print('VIOLATION:'); print('\n'.join(fail)); sys.exit(1)
print('ok'); sys.exit(0)
