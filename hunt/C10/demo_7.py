"""The internal placeholder ensemble '###dummy_covobs###' leaks into the names of results:
 (a) matmul of a CObs matrix with a real Obs matrix (no plain number anywhere in the input),
 (b) any matrix operation on a matrix mixed with plain numbers.
The explicit sum of element products carries only the true ensemble name."""
import sys
sys.path.insert(0, sys.argv[1])
import numpy as np
import pyerrors as pe

rng = np.random.default_rng(7)
N = 200
def ob(v):
    return pe.Obs([rng.normal(v, 0.1, N)], ['ens'])
def mat(vals):
    out = np.empty(np.shape(vals), dtype=object)
    for i, v in np.ndenumerate(np.asarray(vals, dtype=float)):
        out[i] = ob(v)
    return out
def cmat(vals):
    out = np.empty(np.shape(vals), dtype=object)
    for i, v in np.ndenumerate(np.asarray(vals, dtype=complex)):
        out[i] = pe.CObs(ob(v.real), ob(v.imag))
    return out
fail = []
cA = cmat([[1 + 1j, 2 - 1j], [3 + 0.5j, 4 + 2j]]); B = mat([[1, 2], [3, 4]])
r = pe.linalg.matmul(cA, B); exact = cA @ B
if sorted(r[0, 0].real.names) != sorted(exact[0, 0].real.names):
    fail.append('matmul(CObs matrix, Obs matrix)[0,0].real.names = %s, explicit product: %s' % (r[0, 0].real.names, exact[0, 0].real.names))
M = mat([[2, 0.5], [0.3, 3]]); M[0, 1] = 0.5
for label, f, ex in [('matmul(M, B)', lambda: pe.linalg.matmul(M, B)[0, 0], lambda: (M @ B)[0, 0]),
                     ('det(M)', lambda: pe.linalg.det(M), lambda: M[0, 0] * M[1, 1] - M[0, 1] * M[1, 0]),
                     ('inv(M)', lambda: pe.linalg.inv(M)[0, 0], lambda: M[1, 1] / (M[0, 0] * M[1, 1] - M[0, 1] * M[1, 0]))]:
    r = f(); e = ex()
    assert abs(r.value - e.value) < 1e-10
    if sorted(r.names) != sorted(e.names):
        fail.append('%s with M[0,1]=0.5 plain: names %s (e_names %s), by hand: %s' % (label, r.names, r.e_names, e.names))
if fail:
    print('VIOLATION:'); print('\n'.join(fail)); sys.exit(1)
print('ok'); sys.exit(0)
