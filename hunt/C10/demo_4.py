"""jack_matmul(real Obs matrix, CObs matrix) crashes (complex branch takes .real of operands[0].flat[0], an Obs);
jack_matmul(plain matrix, Obs matrix) crashes likewise. The reverse orders work."""
import sys
sys.path.insert(0, sys.argv[1])
import numpy as np
import pyerrors as pe

rng = np.random.default_rng(4)
N = 200
def ob(v):
    return pe.Obs([rng.normal(v, 0.1, N)], ['ens'])
def mat(vals):
    out = np.empty(np.shape(vals), dtype=object)
    for i, v in np.ndenumerate(np.asarray(vals, dtype=float)):
        out[i] = ob(v)
    return out
def cmat(vals):
    out = np.empty(np.shape(vals), dtype=object)
    for i, v in np.ndenumerate(np.asarray(vals, dtype=complex)):
        out[i] = pe.CObs(ob(v.real), ob(v.imag))
    return out

A = mat([[2, 0.5], [0.3, 3]])
cB = cmat([[1 + 1j, 2 - 1j], [3 + 0.5j, 4 + 2j]])
P = np.array([[1., 2.], [3., 4.]])
fail = []
for label, ops in [('jack_matmul(real Obs, CObs)', (A, cB)), ('jack_matmul(plain, Obs)', (P, A))]:
    exact = ops[0] @ ops[1]
    try:
        r = pe.linalg.jack_matmul(*ops)
    except Exception as e:
        fail.append('%s raises %r' % (label, e)); continue
    for i in np.ndindex(2, 2):
        for x, y in ((r[i].real, exact[i].real), (r[i].imag, exact[i].imag)) if isinstance(exact[i], pe.CObs) else ((r[i], exact[i]),):
            if abs(x.value - y.value) > 1e-10:
                fail.append('%s wrong value at %s' % (label, i))
if fail:
    print('VIOLATION:'); print('\n'.join(fail)); sys.exit(1)
print('ok'); sys.exit(0)
