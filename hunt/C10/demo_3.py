"""jack_matmul: an operand (not the first) whose [0,0] entry is a plain number while the others are Obs
is multiplied as an object array -> central values right, fluctuations garbage (object dtype deltas)."""
import sys
sys.path.insert(0, sys.argv[1])
import numpy as np
import pyerrors as pe

rng = np.random.default_rng(3)
N = 200
def mat(vals):
    out = np.empty(np.shape(vals), dtype=object)
    for i, v in np.ndenumerate(np.asarray(vals, dtype=float)):
        out[i] = pe.Obs([rng.normal(v, 0.1, N)], ['ens'])
    return out

B = mat([[1, 2], [3, 4]])
M = mat([[2, 0.5], [0.3, 3]])
M[0, 0] = 2.0  # matrix mixed with a plain number
exact = B @ M
try:
    r = pe.linalg.jack_matmul(B, M)
except Exception as e:
    print('refused:', repr(e)); sys.exit(0)
msgs = []
for i in np.ndindex(2, 2):
    d_j = np.asarray(r[i].deltas['ens']); d_e = exact[i].deltas['ens']
    if d_j.dtype == object:
        msgs.append('%s: deltas have dtype object (gamma_method fails)' % (i,))
    rel = np.max(np.abs(d_j.astype(float) - d_e)) / np.max(np.abs(d_e))
    if rel > 0.05:  # O(1/N) would be ~0.005
        msgs.append('%s: fluctuations differ from the exact product by %.0f%% of their size' % (i, 100 * rel))
if msgs:
    print('VIOLATION: jack_matmul(B, M) with M[0,0] a plain float'); print('\n'.join(msgs)); sys.exit(1)
print('ok'); sys.exit(0)
