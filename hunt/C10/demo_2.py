"""jack_matmul / einsum silently multiply jackknife samples of different ensembles (or of different
configuration lists of one ensemble) and attribute the result to the first ensemble only."""
import sys
sys.path.insert(0, sys.argv[1])
import numpy as np
import pyerrors as pe

rng = np.random.default_rng(2)
def mat(vals, name, idl):
    out = np.empty(np.shape(vals), dtype=object)
    for i, v in np.ndenumerate(np.asarray(vals, dtype=float)):
        out[i] = pe.Obs([rng.normal(v, 0.1, len(idl))], [name], idl=[idl])
    return out

fail = []
# (a) two ensembles with the same number of configurations
A = mat([[2, 0.5], [0.3, 3]], 'ensA', range(1, 201))
B = mat([[1, 2], [3, 4]], 'ensB', range(1, 201))
exact = A @ B
assert sorted(exact[0, 0].names) == ['ensA', 'ensB']
for label, f in [('jack_matmul', lambda: pe.linalg.jack_matmul(A, B)), ('einsum', lambda: pe.linalg.einsum('ij,jk->ik', A, B))]:
    try:
        r = f()
    except Exception:
        continue  # refusing is fine
    if sorted(r[0, 0].names) != sorted(exact[0, 0].names):
        fail.append('%s(A on ensA, B on ensB): result lives on %s, exact product on %s' % (label, r[0, 0].names, sorted(exact[0, 0].names)))
# (b) one ensemble, different configurations of equal count
A = mat([[2, 0.5], [0.3, 3]], 'ens', range(1, 101))
B = mat([[1, 2], [3, 4]], 'ens', range(2, 202, 2))
exact = A @ B
for label, f in [('jack_matmul', lambda: pe.linalg.jack_matmul(A, B)), ('einsum', lambda: pe.linalg.einsum('ij,jk->ik', A, B))]:
    try:
        r = f()
    except Exception:
        continue
    if list(r[0, 0].idl['ens']) != list(exact[0, 0].idl['ens']):
        fail.append('%s(idl 1..100 times idl 2,4..200): result has %d configs %s..., exact product has %d configs (union)' % (label, len(r[0, 0].idl['ens']), list(r[0, 0].idl['ens'])[:3], len(exact[0, 0].idl['ens'])))
if fail:
    print('VIOLATION:'); print('\n'.join(fail)); sys.exit(1)
print('ok'); sys.exit(0)
