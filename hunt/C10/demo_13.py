"""jack_matmul / einsum crash on matrices that contain a plain number or a CObs with a plain part
(e.g. CObs(obs), imaginary part 0.0 by default); matmul and the explicit product handle them."""
import sys
sys.path.insert(0, sys.argv[1])
import numpy as np
import pyerrors as pe

rng = np.random.default_rng(13)
N = 200
def ob(v):
    return pe.Obs([rng.normal(v, 0.1, N)], ['ens'])
def mat(vals):
    out = np.empty(np.shape(vals), dtype=object)
    for i, v in np.ndenumerate(np.asarray(vals, dtype=float)):
        out[i] = ob(v)
    return out
B = mat([[1, 2], [3, 4]])
M = mat([[2, 0.5], [0.3, 3]]); M[1, 0] = 0.3                       # real matrix with one plain entry
C = np.array([[pe.CObs(ob(2.0), ob(1.0)), pe.CObs(ob(0.5))], [pe.CObs(ob(0.3)), pe.CObs(ob(3.0), ob(-1.0))]], dtype=object)  # CObs(obs): imag = 0.0
fail = []
for lab, X in [('real matrix with a plain entry', M), ('CObs matrix with CObs(obs) entries', C)]:
    exact = X @ B
    ref = pe.linalg.matmul(X, B)
    for label, f in [('jack_matmul', lambda: pe.linalg.jack_matmul(X, B)), ('einsum', lambda: pe.linalg.einsum('ij,jk->ik', X, B))]:
        try:
            r = f()
        except Exception as e:
            fail.append('%s(%s, B) raises %s: %s' % (label, lab, type(e).__name__, e)); continue
        for i in np.ndindex(2, 2):
            rv = r[i].real.value if isinstance(r[i], pe.CObs) else r[i].value
            ev = exact[i].real.value if isinstance(exact[i], pe.CObs) else exact[i].value
            if abs(rv - ev) > 1e-10:
                fail.append('%s wrong value' % label)
if fail:
    print('VIOLATION:'); print('\n'.join(fail)); sys.exit(1)
print('ok'); sys.exit(0)
