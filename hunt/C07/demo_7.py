"""C07 demo 7: the wrapper fit_lin refuses an abscissa list of numpy integers / float32
(list(np.arange(...)), values read from a file) although the same numbers as python ints, as a tuple of
python ints or as an ndarray are accepted.

usage: python demo_7.py <path-to-checkout>
"""
import sys, os, warnings
os.environ.setdefault('OMP_NUM_THREADS', '1')
sys.path.insert(0, sys.argv[1] if len(sys.argv) > 1 else '.')
import numpy as np
import pyerrors as pe
warnings.simplefilter('ignore')

rng = np.random.default_rng(3)
N = 6
xi = np.arange(1, N + 1)
y = [pe.Obs([1 + 0.5 * xi[i] + 0.1 * rng.normal(0, 1, 100)], ['ens']) for i in range(N)]
[o.gamma_method() for o in y]

A = np.array([np.ones(N), xi]).T
yv = np.array([o.value for o in y])
dy = np.array([o.dvalue for o in y])
Hi = np.linalg.inv(A.T @ np.diag(1 / dy ** 2) @ A)
beta = Hi @ A.T @ (yv / dy ** 2)
sig = np.sqrt(np.diag(Hi))

bad = []
for name, xx in [('list of python int', [int(v) for v in xi]), ('ndarray of int64', xi), ('list of np.int64', list(xi)),
                 ('list of np.float32', list(xi.astype(np.float32)))]:
    try:
        res = pe.fits.fit_lin(xx, y, silent=True)
    except Exception as e:
        bad.append('fit_lin(x = %s) raised %s: %s' % (name, type(e).__name__, e))
        continue
    dev = max(abs(res[i].value - beta[i]) / sig[i] for i in range(2))
    print(name, 'deviation %.1e sigma' % dev)
    if dev > 1e-5:
        bad.append('%s off by %.1e sigma' % (name, dev))

if bad:
    print('VIOLATION (closed form solution %s):' % beta)
    for b in bad:
        print('  -', b)
    sys.exit(1)
print('ok')
sys.exit(0)
