"""C07 demo 1: the default minimiser (Levenberg-Marquardt) silently returns the built-in start
value 0.1 instead of the GLS solution when the data (or a basis function) are badly scaled.

usage: python demo_1.py <path-to-checkout>
"""
import sys, os, warnings
os.environ.setdefault('OMP_NUM_THREADS', '1')
sys.path.insert(0, sys.argv[1] if len(sys.argv) > 1 else '.')
import numpy as np
import pyerrors as pe
warnings.simplefilter('ignore')


def gls(A, y):
    """closed form weighted least squares (uncorrelated): beta, sigma(beta), chi^2"""
    yv = np.array([o.value for o in y])
    dy = np.array([o.dvalue for o in y])
    Aw = A / dy[:, None]
    beta = np.linalg.lstsq(Aw, yv / dy, rcond=None)[0]
    sig = np.sqrt(np.diag(np.linalg.pinv(Aw.T @ Aw)))
    chi = np.sum(((yv - A @ beta) / dy) ** 2)
    return beta, sig, chi


bad = []
rng = np.random.default_rng(3)

# --- case a: straight line through data of size 1e10 (relative errors 1e-4) -------------------
N = 6
x = np.arange(1., N + 1)
y = [pe.Obs([1e10 * (1 + 0.5 * x[i] + 1e-3 * rng.normal(0, 1, 100))], ['ens']) for i in range(N)]
[o.gamma_method() for o in y]
A = np.array([np.ones(N), x]).T
beta, sig, chi = gls(A, y)
res = pe.least_squares(x, y, lambda a, x: a[0] + a[1] * x, silent=True)
dev = max(abs(res[i].value - beta[i]) / sig[i] for i in range(2))
print('case a: fit', [o.value for o in res.fit_parameters], ' closed form', beta, ' chi2 fit/closed form', res.chisquare, chi)
if dev > 1e-3 or abs(res.chisquare - chi) > 1e-6 * max(1, chi):
    bad.append('case a (y ~ 1e10): parameters off by %.1e sigma, message %r' % (dev, res.message))

# --- case b: cubic polynomial in an abscissa of size 3e-4 (e.g. quark mass / a^2) --------------
N = 8
u = np.linspace(0.2, 1.5, N)
XS = 3e-4
x = XS * u
bt = np.array([1., -0.5, 0.3, 0.2])
y = [pe.Obs([sum(bt[k] * u[i] ** k for k in range(4)) + 0.05 * rng.normal(0, 1, 100)], ['ens']) for i in range(N)]
[o.gamma_method() for o in y]
# closed form in the well conditioned variable u, then rescaled exactly: c_k = b_k / XS**k
A = np.array([u ** k for k in range(4)]).T
beta, sig, chi = gls(A, y)
res = pe.least_squares(x, y, lambda a, x: a[0] + a[1] * x + a[2] * x ** 2 + a[3] * x ** 3, silent=True)
fit_u = np.array([res[k].value * XS ** k for k in range(4)])
dev = max(abs(fit_u[k] - beta[k]) / sig[k] for k in range(4))
print('case b: fit (rescaled)', fit_u, ' closed form', beta, ' raw cubic coefficient', res[3].value, ' chi2 fit/closed form', res.chisquare, chi)
if dev > 1e-3 or abs(res.chisquare - chi) > 1e-6 * max(1, chi):
    bad.append('case b (cubic, x ~ 3e-4): parameters off by %.1e sigma, cubic coefficient returned = %r' % (dev, res[3].value))

if bad:
    print('VIOLATION: least_squares (default method) does not return the GLS solution:')
    for b in bad:
        print('  -', b)
    sys.exit(1)
print('ok')
sys.exit(0)
