"""C07 demo 3: method='Nelder-Mead' refuses well-posed linear fits ("did not converge"):
 (a) always when a fitted parameter is larger than about 1e4 (the hard-wired absolute tolerance
     1e-12 is below the floating point spacing of the parameter),
 (b) frequently for 3-4 parameters at ordinary scales (iteration limit reached before 1e-12).

usage: python demo_3.py <path-to-checkout>
"""
import sys, os, warnings
os.environ.setdefault('OMP_NUM_THREADS', '1')
sys.path.insert(0, sys.argv[1] if len(sys.argv) > 1 else '.')
import numpy as np
import pyerrors as pe
warnings.simplefilter('ignore')


def gls(A, y):
    yv = np.array([o.value for o in y])
    dy = np.array([o.dvalue for o in y])
    Aw = A / dy[:, None]
    beta = np.linalg.lstsq(Aw, yv / dy, rcond=None)[0]
    sig = np.sqrt(np.diag(np.linalg.pinv(Aw.T @ Aw)))
    return beta, sig, np.sum(((yv - A @ beta) / dy) ** 2), np.linalg.cond(Aw)


bad = []
rng = np.random.default_rng(3)

# (a) straight line, data of size 1e5 with 1e-3 relative errors
N = 6
x = np.arange(1., N + 1)
y = [pe.Obs([1e5 * (1 + 0.5 * x[i] + 1e-2 * rng.normal(0, 1, 100))], ['ens']) for i in range(N)]
[o.gamma_method() for o in y]
A = np.array([np.ones(N), x]).T
cases = [('a: line, y ~ 1e5', x, y, A, lambda a, x: a[0] + a[1] * x)]

# (b) 20 random polynomial problems (1..4 parameters, x in [0,3], all numbers of order one)
def poly(P):
    def f(a, x):
        r = a[0] + 0 * x
        for k in range(1, P):
            r = r + a[k] * x ** k
        return r
    return f


rng = np.random.default_rng(5)
for trial in range(20):
    P = int(rng.integers(1, 5))
    N = int(rng.integers(P, P + 7))
    x = np.sort(rng.uniform(0, 3, N))
    bt = rng.normal(0, 1, P)
    samp = rng.normal(0, 1, (300, N))
    y = [pe.Obs([sum(bt[k] * x[i] ** k for k in range(P)) + 0.1 * samp[:, i]], ['ens']) for i in range(N)]
    [o.gamma_method() for o in y]
    A = np.array([x ** k for k in range(P)]).T
    cases.append(('b%d: polynomial with %d parameters, %d points, order-one numbers' % (trial, P, N), x, y, A, poly(P)))

for name, x, y, A, func in cases:
    beta, sig, chi, cond = gls(A, y)
    try:
        res = pe.least_squares(x, y, func, silent=True, method='Nelder-Mead')
    except Exception as e:
        bad.append('%s: least_squares(method="Nelder-Mead") raised %r although the closed form solution %s exists (condition number of the design matrix %.0f)' % (name, e, beta, cond))
        continue
    dev = max(abs(res[i].value - beta[i]) / sig[i] for i in range(len(beta)))
    if dev > 1e-4:
        bad.append('%s: off by %.1e sigma' % (name, dev))

if bad:
    print('VIOLATION:')
    for b in bad:
        print('  -', b)
    sys.exit(1)
print('ok')
sys.exit(0)
