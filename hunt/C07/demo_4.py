"""C07 demo 4: method='Powell'
 (a) silently returns parameters (and a chi-square) far from the GLS solution when the data are small
     numbers (correlator-like values of 1e-13): the line searches of scipy's Powell stop at an absolute
     parameter accuracy of ~1e-11, success is reported;
 (b) refuses an ordinary, well conditioned 3-parameter fit ("did not converge", evaluation limit reached
     because of the hard-wired tol=1e-12).

usage: python demo_4.py <path-to-checkout>
"""
import sys, os, warnings
os.environ.setdefault('OMP_NUM_THREADS', '1')
sys.path.insert(0, sys.argv[1] if len(sys.argv) > 1 else '.')
import numpy as np
import pyerrors as pe
warnings.simplefilter('ignore')


def gls(A, y):
    yv = np.array([o.value for o in y])
    dy = np.array([o.dvalue for o in y])
    Aw = A / dy[:, None]
    beta = np.linalg.lstsq(Aw, yv / dy, rcond=None)[0]
    sig = np.sqrt(np.diag(np.linalg.pinv(Aw.T @ Aw)))
    return beta, sig, np.sum(((yv - A @ beta) / dy) ** 2)


bad = []

# (a) straight line through values of order 1e-13 with 0.1 % errors
rng = np.random.default_rng(0)
N = 6
x = np.arange(1., N + 1)
y = [pe.Obs([1e-13 * (1 + 0.5 * x[i] + 1e-2 * rng.normal(0, 1, 100))], ['ens']) for i in range(N)]
[o.gamma_method() for o in y]
A = np.array([np.ones(N), x]).T
beta, sig, chi = gls(A, y)
try:
    res = pe.least_squares(x, y, lambda a, x: a[0] + a[1] * x, silent=True, method='Powell')
    dev = max(abs(res[i].value - beta[i]) / sig[i] for i in range(2))
    print('a: fit', [o.value for o in res.fit_parameters], 'closed form', beta, 'sigma', sig, 'chi2 fit / closed form', res.chisquare, chi)
    if dev > 1e-4 or abs(res.chisquare - chi) > 1e-6 * max(1, chi):
        bad.append('a (y ~ 1e-13): Powell result off by %.2g sigma, chi2 %.4f instead of %.4f, reported as converged' % (dev, res.chisquare, chi))
except Exception as e:
    bad.append('a (y ~ 1e-13): raised %r' % e)

# (b) quadratic polynomial, order-one numbers, 8 equidistant points
rng = np.random.default_rng(1)
N = 8
x = np.arange(1, N + 1) * 0.5
samp = rng.multivariate_normal(np.zeros(N), 0.5 * np.eye(N) + 0.5, 500)
y = [pe.Obs([(1 + 0.3 * x[i] - 0.05 * x[i] ** 2) + 0.1 * samp[:, i]], ['ens']) for i in range(N)]
[o.gamma_method() for o in y]
A = np.array([np.ones(N), x, x ** 2]).T
beta, sig, chi = gls(A, y)
try:
    res = pe.least_squares(x, y, lambda a, x: a[0] + a[1] * x + a[2] * x ** 2, silent=True, method='Powell')
    dev = max(abs(res[i].value - beta[i]) / sig[i] for i in range(3))
    print('b: deviation %.1e sigma' % dev)
    if dev > 1e-4:
        bad.append('b: off by %.1e sigma' % dev)
except Exception as e:
    bad.append('b (quadratic, order-one numbers): raised %r although the closed form solution %s exists' % (e, beta))

if bad:
    print('VIOLATION:')
    for b in bad:
        print('  -', b)
    sys.exit(1)
print('ok')
sys.exit(0)
