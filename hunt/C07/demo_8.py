"""C07 demo 8: a combined fit in which one data set has a one-dimensional and another a two-dimensional
abscissa (sharing parameters) is refused with a numpy concatenate error, although every single data set is
valid and the closed form GLS solution exists.

usage: python demo_8.py <path-to-checkout>
"""
import sys, os, warnings
os.environ.setdefault('OMP_NUM_THREADS', '1')
sys.path.insert(0, sys.argv[1] if len(sys.argv) > 1 else '.')
import numpy as np
import pyerrors as pe
warnings.simplefilter('ignore')

rng = np.random.default_rng(3)
N = 5
x1 = np.arange(1., N + 1)
x2 = np.array([np.arange(1., N + 1), np.arange(N, 0, -1.) ** 2])
ya = [pe.Obs([1 + 0.5 * x1[i] + 0.1 * rng.normal(0, 1, 100)], ['ens']) for i in range(N)]
yb = [pe.Obs([1 + 0.2 * x2[0, i] + 0.1 * x2[1, i] + 0.1 * rng.normal(0, 1, 100)], ['ens']) for i in range(N)]
[o.gamma_method() for o in ya + yb]


def fa(p, x):
    return p[0] + p[1] * x


def fb(p, x):
    return p[0] + p[2] * x[0] + p[3] * x[1]


A = np.array([[1, x, 0, 0] for x in x1] + [[1, 0, x2[0, i], x2[1, i]] for i in range(N)], float)
yall = ya + yb
yv = np.array([o.value for o in yall])
dy = np.array([o.dvalue for o in yall])
Hi = np.linalg.inv(A.T @ np.diag(1 / dy ** 2) @ A)
beta = Hi @ A.T @ (yv / dy ** 2)
sig = np.sqrt(np.diag(Hi))

# each data set alone is accepted
pe.least_squares(x1, ya, fa, silent=True)
pe.least_squares(x2, yb, lambda p, x: p[0] + p[1] * x[0] + p[2] * x[1], silent=True)

try:
    res = pe.least_squares({'a': x1, 'b': x2}, {'a': ya, 'b': yb}, {'a': fa, 'b': fb}, silent=True)
except Exception as e:
    print('VIOLATION: combined fit with 1-d and 2-d abscissae raised %s: %s\n(closed form solution %s)' % (type(e).__name__, e, beta))
    sys.exit(1)
dev = max(abs(res[i].value - beta[i]) / sig[i] for i in range(4))
if dev > 1e-5:
    print('VIOLATION: off by %.1e sigma' % dev)
    sys.exit(1)
print('ok')
sys.exit(0)
