"""C07 demo 5: num_grad=True gives wrong per-configuration fluctuations (hence wrong errors and
covariances) of the fit parameters when the parameters live on very different scales, e.g. a cubic
polynomial in an abscissa of order 1e-3.  With automatic differentiation the same call is exact.

usage: python demo_5.py <path-to-checkout>
"""
import sys, os, warnings
os.environ.setdefault('OMP_NUM_THREADS', '1')
sys.path.insert(0, sys.argv[1] if len(sys.argv) > 1 else '.')
import numpy as np
import pyerrors as pe
warnings.simplefilter('ignore')

rng = np.random.default_rng(3)
N = 8
XS = 1e-3
u = np.linspace(0.2, 1.5, N)
x = XS * u
bt = np.array([1., -0.5, 0.3, 0.2])
y = [pe.Obs([sum(bt[k] * u[i] ** k for k in range(4)) + 0.05 * rng.normal(0, 1, 100)], ['ens']) for i in range(N)]
[o.gamma_method() for o in y]


def func(a, x):
    return a[0] + a[1] * x + a[2] * x ** 2 + a[3] * x ** 3


# closed form: beta = G y with G = (A^T W A)^-1 A^T W, computed in the well conditioned variable u
# (coefficients in x are those in u divided by XS**k, exactly)
A = np.array([u ** k for k in range(4)]).T
dy = np.array([o.dvalue for o in y])
Aw = A / dy[:, None]
G = np.linalg.pinv(Aw) / dy[None, :]
ref = []
for k in range(4):
    o = sum(G[k, j] / XS ** k * y[j] for j in range(N))
    o.gamma_method()
    ref.append(o)

# a start value next to the solution, so that only the error propagation is tested
guess = [ref[k].value for k in range(4)]
bad = []
for ng in [False, True]:
    res = pe.least_squares(x, y, func, silent=True, num_grad=ng, initial_guess=guess)
    res.gamma_method()
    dd = max(np.max(np.abs(res[k].deltas['ens'] - ref[k].deltas['ens'])) / np.max(np.abs(ref[k].deltas['ens'])) for k in range(4))
    ratio = [res[k].dvalue / ref[k].dvalue for k in range(4)]
    print('num_grad=%s: max relative deviation of the fluctuations %.1e, error(fit)/error(closed form) = %s' % (ng, dd, np.round(ratio, 4)))
    if dd > 1e-6:
        bad.append('num_grad=%s: fluctuations of the parameters deviate by a relative %.2g from (A^T W A)^-1 A^T W dy; errors are %s times the GLS errors' % (ng, dd, np.round(ratio, 3)))

if bad:
    print('VIOLATION:')
    for b in bad:
        print('  -', b)
    sys.exit(1)
print('ok')
sys.exit(0)
