"""C07 demo 2: correlated_fit given as a numpy boolean (e.g. the outcome of a numpy comparison) or
as 1 is silently ignored: an UNCORRELATED fit is returned, no t2_p_value, no warning.

usage: python demo_2.py <path-to-checkout>
"""
import sys, os, warnings
os.environ.setdefault('OMP_NUM_THREADS', '1')
sys.path.insert(0, sys.argv[1] if len(sys.argv) > 1 else '.')
import numpy as np
import pyerrors as pe
warnings.simplefilter('ignore')

rng = np.random.default_rng(1)
N = 8
x = np.arange(1, N + 1) * 0.5
cov = 0.5 * np.eye(N) + 0.5
samp = rng.multivariate_normal(np.zeros(N), cov, 500)
y = [pe.Obs([(1 + 0.3 * x[i] - 0.05 * x[i] ** 2) + 0.1 * samp[:, i]], ['ens']) for i in range(N)]
[o.gamma_method() for o in y]


def func(a, x):
    return a[0] + a[1] * x + a[2] * x ** 2


# closed form GLS with the inverse of the estimated covariance  D corr D
A = np.array([np.ones(N), x, x ** 2]).T
yv = np.array([o.value for o in y])
dy = np.array([o.dvalue for o in y])
corr = pe.covariance(y, correlation=True)
W_corr = np.diag(1 / dy) @ np.linalg.inv(corr) @ np.diag(1 / dy)
W_unc = np.diag(1 / dy ** 2)


def closed(W):
    H = np.linalg.inv(A.T @ W @ A)
    beta = H @ A.T @ W @ yv
    r = yv - A @ beta
    return beta, np.sqrt(np.diag(H)), r @ W @ r


b_c, s_c, chi_c = closed(W_corr)
b_u, s_u, chi_u = closed(W_unc)

# the flag as it comes out of a numpy comparison, e.g. "enough configurations for a correlated fit?"
flag = np.min([o.N for o in y]) > 10 * len(y)
print('flag =', repr(flag), type(flag))
bad = []
for name, val in [('numpy bool', flag), ('1', 1)]:
    try:
        res = pe.least_squares(x, y, func, silent=True, correlated_fit=val)
    except (TypeError, ValueError) as e:
        print(name, ': refused (%s) - acceptable' % e)
        continue
    fit = np.array([o.value for o in res.fit_parameters])
    d_c = np.max(np.abs(fit - b_c) / s_c)
    d_u = np.max(np.abs(fit - b_u) / s_u)
    print('correlated_fit=%s: fit %s chi2 %.6f | correlated GLS %s chi2 %.6f | uncorrelated GLS %s chi2 %.6f' % (name, fit, res.chisquare, b_c, chi_c, b_u, chi_u))
    if d_c > 1e-5 or abs(res.chisquare - chi_c) > 1e-6:
        bad.append('correlated_fit=%s: result differs from the correlated GLS solution by %.2g sigma (from the uncorrelated one by %.1g sigma); chi2 %.4f instead of %.4f; t2_p_value present: %s' % (name, d_c, d_u, res.chisquare, chi_c, hasattr(res, 't2_p_value')))

# sanity: the genuine python True does the right thing
res = pe.least_squares(x, y, func, silent=True, correlated_fit=True)
assert np.max(np.abs(np.array([o.value for o in res.fit_parameters]) - b_c) / s_c) < 1e-5

if bad:
    print('VIOLATION:')
    for b in bad:
        print('  -', b)
    sys.exit(1)
print('ok')
sys.exit(0)
