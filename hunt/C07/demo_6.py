"""C07 demo 6: valid prior specifications are refused:
 - a priors dict whose positions are numpy integers (np.arange, np.where, ... deliver those): TypeError
 - an empty priors dict (= priors on the empty parameter subset): ValueError from max([])
Both have an obvious closed form GLS answer.

usage: python demo_6.py <path-to-checkout>
"""
import sys, os, warnings
os.environ.setdefault('OMP_NUM_THREADS', '1')
sys.path.insert(0, sys.argv[1] if len(sys.argv) > 1 else '.')
import numpy as np
import pyerrors as pe
warnings.simplefilter('ignore')

rng = np.random.default_rng(3)
N = 6
x = np.arange(1., N + 1)
y = [pe.Obs([1 + 0.5 * x[i] + 0.1 * rng.normal(0, 1, 100)], ['ens']) for i in range(N)]
[o.gamma_method() for o in y]


def func(a, x):
    return a[0] + a[1] * x


A = np.array([np.ones(N), x]).T
yv = np.array([o.value for o in y])
dy = np.array([o.dvalue for o in y])


def closed(prior_pos=None, pv=None, pe_=None):
    H = A.T @ np.diag(1 / dy ** 2) @ A
    rhs = A.T @ (yv / dy ** 2)
    if prior_pos is not None:
        H[prior_pos, prior_pos] += 1 / pe_ ** 2
        rhs[prior_pos] += pv / pe_ ** 2
    Hi = np.linalg.inv(H)
    return Hi @ rhs, np.sqrt(np.diag(Hi))


bad = []
for name, pri, args, dof in [('priors={np.int64(1): "0.45(5)"}', {np.int64(1): '0.45(5)'}, (1, 0.45, 0.05), N - 2 + 1),
                             ('priors={}', {}, (), N - 2)]:
    beta, sig = closed(*args)
    try:
        res = pe.least_squares(x, y, func, priors=pri, silent=True)
    except Exception as e:
        bad.append('%s raised %s: %s (closed form solution: %s)' % (name, type(e).__name__, e, beta))
        continue
    dev = max(abs(res[i].value - beta[i]) / sig[i] for i in range(2))
    print(name, 'deviation %.1e sigma, dof %d' % (dev, res.dof))
    if dev > 1e-5 or res.dof != dof:
        bad.append('%s: off by %.1e sigma / dof %d instead of %d' % (name, dev, res.dof, dof))

# the same prior with a python int key is accepted and correct
res = pe.least_squares(x, y, func, priors={1: '0.45(5)'}, silent=True)
beta, sig = closed(1, 0.45, 0.05)
assert max(abs(res[i].value - beta[i]) / sig[i] for i in range(2)) < 1e-5

if bad:
    print('VIOLATION:')
    for b in bad:
        print('  -', b)
    sys.exit(1)
print('ok')
sys.exit(0)
