"""C03 demo 1: gamma_method(fft=True) and gamma_method(fft=False) give different errors.

The tau_exp window criterion  rho[n] - N_sigma*drho[n] < 0  is evaluated on numbers that are
exactly zero in exact arithmetic (and in the direct summation path) but carry rounding noise of
random sign in the FFT path.  Two inputs:
 (a) a regular chain with period-4 data, default N_sigma, tau_exp=2
 (b) two separated stretches of configurations (lags without any pair), tau_exp=5, N_sigma=0
Oracle: autocorrelation function by explicit pair sums in numpy + the documented window rule.
"""
import sys
sys.path.insert(0, sys.argv[1] if len(sys.argv) > 1 else '.')
import numpy as np
import pyerrors as pe


def oracle(data, idl, tau_exp, N_sigma):
    """Gamma(t) from explicit pair sums over configuration pairs at distance t, then the tau_exp rule."""
    idl = np.asarray(idl)
    d = data - data.mean()
    N = len(d)
    ext = idl[-1] - idl[0] + 1
    w_max = ext // 2
    pos = {c: i for i, c in enumerate(idl)}
    gam = np.zeros(w_max)
    for t in range(w_max):
        s, cnt = 0.0, 0
        for c, i in pos.items():
            j = pos.get(c + t)
            if j is not None:
                s += d[i] * d[j]
                cnt += 1
        gam[t] = s / max(cnt, 1)
    rho = gam / gam[0]
    ntau = np.cumsum(np.concatenate(([0.5], rho[1:])))
    ntau[ntau <= 0.5] = 0.5 + np.finfo(float).eps

    def drho(i):  # hep-lat/0306017 (E.11), same truncation as the library
        acc = 0.0
        for k in range(1, w_max - i):
            acc += (rho[k + i] + rho[abs(k - i)] - 2 * rho[i] * rho[k]) ** 2
        return np.sqrt(acc / N)
    for n in range(1, w_max // 2):
        if rho[n] - N_sigma * drho(n) < 0 or n >= w_max // 2 - 2:
            tau = ntau[n] * (1 + (2 * n + 1) / N) / (1 + 1 / N) + tau_exp * abs(rho[n + 1])
            return n, np.sqrt(2 * tau * gam[0] * (1 + 1 / N) / N)


fail = []

# (a) regular chain, default N_sigma
data = np.array([[1., 0., -1., 0.][i % 4] for i in range(100)])
idl = list(range(1, 101))
res = {}
for fft in (True, False):
    o = pe.Obs([data], ['A'], idl=[idl])
    o.gamma_method(tau_exp=2, fft=fft)
    res[fft] = (o.e_windowsize['A'], o.dvalue)
w, e = oracle(data, idl, 2, 1.0)
print('(a) fft=True ', res[True], ' fft=False', res[False], ' oracle', (w, e))
if res[True][0] != res[False][0] or abs(res[True][1] / res[False][1] - 1) > 1e-8:
    fail.append('(a) FFT and direct path disagree: %r vs %r' % (res[True], res[False]))
if abs(res[True][1] / e - 1) > 1e-8:
    fail.append('(a) fft=True result differs from the explicit pair-sum oracle')

# (b) two separated stretches, N_sigma=0
L, gap = 6, 45
idl = list(range(1, L + 1)) + list(range(L + gap, 2 * L + gap))
rng = np.random.default_rng(0)
data = np.concatenate([np.linspace(1, 2, L), -np.linspace(1, 2, L)]) + 0.1 * rng.normal(size=2 * L)
res = {}
for fft in (True, False):
    o = pe.Obs([data], ['A'], idl=[idl])
    o.gamma_method(tau_exp=5.0, N_sigma=0, fft=fft)
    res[fft] = (o.e_windowsize['A'], o.dvalue)
w, e = oracle(data, idl, 5.0, 0)
print('(b) fft=True ', res[True], ' fft=False', res[False], ' oracle', (w, e))
if res[True][0] != res[False][0] or abs(res[True][1] / res[False][1] - 1) > 1e-8:
    fail.append('(b) FFT and direct path disagree: %r vs %r' % (res[True], res[False]))

# (c) fft=np.False_ / fft=0 are silently treated as fft=True ("kwargs.get('fft') is False")
data = np.array([[1., 0., -1., 0.][i % 4] for i in range(100)])
o = pe.Obs([data], ['A'])
o.gamma_method(tau_exp=2, fft=False)
direct = o.dvalue
for flag in (np.False_, 0):
    o = pe.Obs([data], ['A'])
    o.gamma_method(tau_exp=2, fft=flag)
    print('(c) fft=%r -> dvalue %r (fft=False: %r)' % (flag, float(o.dvalue), float(direct)))
    if abs(o.dvalue / direct - 1) > 1e-8:
        fail.append('(c) fft=%r gives the FFT result %r, not the direct result %r' % (flag, float(o.dvalue), float(direct)))

if fail:
    print('VIOLATION: the error analysis is not the same with and without the FFT path')
    for f in fail:
        print('  ', f)
    sys.exit(1)
print('ok')
sys.exit(0)
