"""C03 demo 5: the reported errors do not scale with |c| for small / large (finite) scales.

data -> c*data must give dvalue -> |c| dvalue and ddvalue -> |c| ddvalue.
  c = 1e-100 : ddvalue = 0          (underflow of (e_dvalue*e_ddvalue)**2)
  c = 1e+100 : ddvalue = inf        (overflow of the same product)
  c = 1e-160 : dvalue = 0, tau_int = 0.5 (Gamma(0) underflows below the 'division by zero' guard)
  c = 1e+155 : dvalue = nan, tau_int = nan (Gamma overflows)
All inputs and all expected results are finite, representable doubles.
Oracle: the analysis of the unscaled data times |c|.
"""
import sys
import warnings
sys.path.insert(0, sys.argv[1] if len(sys.argv) > 1 else '.')
import numpy as np
import pyerrors as pe
warnings.simplefilter('ignore')

rng = np.random.default_rng(4)
x = np.zeros(200)
e = rng.normal(size=200)
for i in range(1, 200):
    x[i] = 0.7 * x[i - 1] + e[i]
x += 3
ref = pe.Obs([x], ['A'])
ref.gamma_method()
bad = []
for c in [1e-60, 1e-100, 1e-160, 1e60, 1e100, 1e155]:
    o = pe.Obs([x * c], ['A'])
    o.gamma_method()
    exp_d, exp_dd = ref.dvalue * c, ref.ddvalue * c
    print('c=%g  dvalue %r (expected %r)  ddvalue %r (expected %r)  tau_int %r (expected %r)' % (c, float(o.dvalue), exp_d, float(o.ddvalue), exp_dd, float(o.e_tauint['A']), float(ref.e_tauint['A'])))
    for lab, got, want in [('dvalue', o.dvalue, exp_d), ('ddvalue', o.ddvalue, exp_dd), ('tau_int', o.e_tauint['A'], ref.e_tauint['A'])]:
        if not (np.isfinite(got) and abs(got / want - 1) < 1e-8):
            bad.append('c=%g: %s = %r, expected %r' % (c, lab, float(got), want))
if bad:
    print('VIOLATION: errors are not finite / do not scale with |c|')
    for b in bad:
        print('  ', b)
    sys.exit(1)
print('ok')
sys.exit(0)
