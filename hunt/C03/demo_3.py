"""C03 demo 3: gamma_method refuses numpy integer / float32 / bool values for S, tau_exp, N_sigma.

S=2 works, S=np.int64(2) (e.g. `for S in np.arange(1, 4): o.gamma_method(S=S)`) raises
TypeError('S is not in proper format.').  The same value supplied through Obs.S_dict is accepted.
Oracle: the result for the equal Python number.
"""
import sys
sys.path.insert(0, sys.argv[1] if len(sys.argv) > 1 else '.')
import numpy as np
import pyerrors as pe

rng = np.random.default_rng(2)
x = np.zeros(200)
e = rng.normal(size=200)
for i in range(1, 200):
    x[i] = 0.6 * x[i - 1] + e[i]

bad = []
for key, pyval in [('S', 3), ('tau_exp', 4), ('N_sigma', 2)]:
    ref = pe.Obs([x], ['A'])
    extra = {'tau_exp': 4} if key == 'N_sigma' else {}
    ref.gamma_method(**{**extra, key: pyval})
    for val in [np.int64(pyval), np.int32(pyval), np.float32(pyval), np.arange(pyval, pyval + 1)[0]]:
        o = pe.Obs([x], ['A'])
        try:
            o.gamma_method(**{**extra, key: val})
        except Exception as ex:
            bad.append('%s=%r refused: %s: %s (%s=%r gives %.6g)' % (key, val, type(ex).__name__, ex, key, pyval, ref.dvalue))
            continue
        if o.dvalue != ref.dvalue:
            bad.append('%s=%r gives %r instead of %r' % (key, val, o.dvalue, ref.dvalue))
    # the dictionary route accepts the very same object
    getattr(pe.Obs, key + '_dict')['A'] = np.int64(pyval)
    if key == 'N_sigma':
        pe.Obs.tau_exp_dict['A'] = 4
    o = pe.Obs([x], ['A'])
    o.gamma_method()
    print('%s_dict[A]=np.int64(%d): %.10g   explicit %s=%d: %.10g' % (key, pyval, o.dvalue, key, pyval, ref.dvalue))
    getattr(pe.Obs, key + '_dict').clear()
    pe.Obs.tau_exp_dict.clear()

if bad:
    print('VIOLATION: valid (integer-valued numpy) parameters are refused')
    for b in bad:
        print('  ', b)
    sys.exit(1)
print('ok')
sys.exit(0)
