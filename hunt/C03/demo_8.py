"""C03 demo 8: a refused gamma_method call destroys the previous analysis.

After a successful o.gamma_method(), a refused call (ValueError for S=-1, TypeError for S='2',
ValueError 'Need at least 8 samples for tau_exp error analysis') leaves the object reporting
dvalue = 0 (printed without error, is_zero_within_error() False ...), because all results are reset before the
arguments are validated.  A refused call must not change what the object reports.
Oracle: dvalue before the refused call.
"""
import sys
sys.path.insert(0, sys.argv[1] if len(sys.argv) > 1 else '.')
import numpy as np
import pyerrors as pe

rng = np.random.default_rng(7)
bad = []
for label, n, kw in [("S=-1", 100, dict(S=-1)), ("S='2'", 100, dict(S='2')), ('tau_exp=3 with 7 samples', 7, dict(tau_exp=3))]:
    o = pe.Obs([rng.normal(size=n)], ['A'])
    o.gamma_method()
    before = (o.dvalue, o.ddvalue, str(o))
    try:
        o.gamma_method(**kw)
        print(label, 'accepted')
        continue
    except (ValueError, TypeError) as ex:
        msg = '%s: %s' % (type(ex).__name__, ex)
    after = (o.dvalue, o.ddvalue, str(o))
    print('%-26s refused (%s); before %s  after %s' % (label, msg, before, after))
    if after != before:
        bad.append('%s: dvalue %r -> %r after the refused call' % (label, before[0], after[0]))
if bad:
    print('VIOLATION: a refused analysis wipes the reported error (now 0)')
    for b in bad:
        print('  ', b)
    sys.exit(1)
print('ok')
sys.exit(0)
