"""C03 demo 7: the vectorised entry point pe.gamma_method / pe.gm fails on CObs.

Obs, Corr and Fit_result have gamma_method and its alias gm; CObs has gamma_method only.
pe.gamma_method(x) calls o.gm(...) on every element, so an array of CObs (what the hadrons readers
read_ExternalLeg_hd5 / read_Bilinear_hd5 / ... return) cannot be analysed through it.
Oracle: errors obtained by calling gamma_method on real and imaginary part separately.
"""
import sys
sys.path.insert(0, sys.argv[1] if len(sys.argv) > 1 else '.')
import numpy as np
import pyerrors as pe

rng = np.random.default_rng(6)
re_, im_ = rng.normal(size=100), rng.normal(size=100)
r0, i0 = pe.Obs([re_], ['A']), pe.Obs([im_], ['A'])
r0.gamma_method(S=3)
i0.gamma_method(S=3)
bad = []
z = pe.CObs(pe.Obs([re_], ['A']), pe.Obs([im_], ['A']))
for label, call in [('pe.gamma_method([z], S=3)', lambda: pe.gamma_method([z], S=3)),
                    ('pe.gm(np.array([[z]]), S=3)', lambda: pe.gm(np.array([[z]]), S=3)),
                    ('z.gm(S=3)', lambda: z.gm(S=3))]:
    try:
        call()
        if z.real.dvalue != r0.dvalue or z.imag.dvalue != i0.dvalue:
            bad.append('%s: wrong errors' % label)
    except Exception as ex:
        bad.append('%s raises %s: %s' % (label, type(ex).__name__, ex))
if bad:
    print('VIOLATION: wrapper entry points crash on a valid input')
    for b in bad:
        print('  ', b)
    sys.exit(1)
print('ok')
sys.exit(0)
