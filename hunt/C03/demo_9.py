"""C03 demo 9: Corr.gamma_method crashes on a 1x1 matrix correlator.

pe.Corr accepts a (T,1,1) array of Obs and a 1x1 array of Corr (documented constructor forms with
N = 1); the content is then a list of (1,1) arrays and Corr.gamma_method does item[0].gamma_method()
on a numpy array -> AttributeError.
Oracle: Obs.gamma_method applied by hand to the same observables.
"""
import sys
sys.path.insert(0, sys.argv[1] if len(sys.argv) > 1 else '.')
import numpy as np
import pyerrors as pe

rng = np.random.default_rng(8)
data = [rng.normal(size=60) + 3 for t in range(4)]
ref = []
for d in data:
    o = pe.Obs([d], ['A'])
    o.gamma_method(S=3)
    ref.append(o.dvalue)
bad = []
for label, build in [('Corr(array of shape (T,1,1))', lambda obs: pe.Corr(np.array(obs).reshape(4, 1, 1))),
                     ('Corr(np.array([[corr]]))', lambda obs: pe.Corr(np.array([[pe.Corr(obs)]])))]:
    obs = [pe.Obs([d], ['A']) for d in data]
    c = build(obs)
    try:
        c.gamma_method(S=3)
        got = [o.dvalue for o in obs]
        if got != ref:
            bad.append('%s: wrong errors %r' % (label, got))
    except Exception as ex:
        bad.append('%s (N=%d, T=%d): gamma_method raises %s: %s' % (label, c.N, c.T, type(ex).__name__, ex))
if bad:
    print('VIOLATION: crash on a valid input')
    for b in bad:
        print('  ', b)
    sys.exit(1)
print('ok')
sys.exit(0)
