"""C03 demo 4: invalid effective parameters are refused only on the explicit route.

gamma_method(S=-2) raises ValueError('S has to be larger or equal to 0.'), but the same effective
value coming from Obs.S_dict or Obs.S_global is silently used (window runs to the end of the chain,
error inflated); a negative tau_exp from the dictionary is silently treated as 0, a negative N_sigma
is silently used.  The outcome must depend only on the effective parameter, not on the route.
Oracle: the behaviour of the explicit route (refusal).
"""
import sys
import warnings
sys.path.insert(0, sys.argv[1] if len(sys.argv) > 1 else '.')
import numpy as np
import pyerrors as pe
warnings.simplefilter('ignore')

rng = np.random.default_rng(3)
d = rng.normal(size=400)
ref = pe.Obs([d], ['A'])
ref.gamma_method()
bad = []
for key, val in [('S', -2.0), ('tau_exp', -3.0), ('N_sigma', -1.0)]:
    o = pe.Obs([d], ['A'])
    try:
        o.gamma_method(**{key: val})
        explicit = 'accepted'
    except ValueError:
        explicit = 'refused'
    for route in ('dict', 'global'):
        if route == 'dict':
            getattr(pe.Obs, key + '_dict')['A'] = val
        else:
            setattr(pe.Obs, key + '_global', val)
        if key == 'N_sigma':
            pe.Obs.tau_exp_dict['A'] = 3.0
        o = pe.Obs([d], ['A'])
        try:
            o.gamma_method()
            out = 'accepted (dvalue %.6g, window %d; default analysis: %.6g, window %d)' % (o.dvalue, o.e_windowsize['A'], ref.dvalue, ref.e_windowsize['A'])
        except ValueError:
            out = 'refused'
        pe.Obs.S_dict.clear(); pe.Obs.tau_exp_dict.clear(); pe.Obs.N_sigma_dict.clear()
        pe.Obs.S_global, pe.Obs.tau_exp_global, pe.Obs.N_sigma_global = 2.0, 0.0, 1.0
        print('%s=%s explicit: %s   via %s: %s' % (key, val, explicit, route, out))
        if explicit == 'refused' and out != 'refused':
            bad.append('%s=%s is refused as explicit argument but silently used via %s' % (key, val, route))
if bad:
    print('VIOLATION: outcome depends on the route of the parameter, invalid values silently accepted')
    for b in bad:
        print('  ', b)
    sys.exit(1)
print('ok')
sys.exit(0)
