"""C03 demo 2: renaming a replica changes the error of a derived observable.

An ensemble 'E' with two replica.  Observable a is measured on the first replica only, b on both.
The error of a + 0*b must equal the error of a (and must not depend on how the replica are called).
If the first replica is called 'E|r1' this holds; if it carries the bare ensemble name 'E'
(which Obs and e_content accept as a replica of ensemble 'E') the fluctuations of a are not
rescaled by N_total/N_replica in derived_observable and the error comes out too small.
Oracle: naive standard error of the samples of a (S=0, no autocorrelation) computed with numpy.
"""
import sys
sys.path.insert(0, sys.argv[1] if len(sys.argv) > 1 else '.')
import numpy as np
import pyerrors as pe

rng = np.random.default_rng(1)
N1, N2 = 100, 80
d_a = rng.normal(size=N1)
d_b1, d_b2 = rng.normal(size=N1), rng.normal(size=N2)


def run(n1, n2):
    a = pe.Obs([d_a], [n1])
    b = pe.Obs([d_b1, d_b2], [n1, n2])
    s = a + 0 * b
    s.gamma_method(S=0)
    return s.dvalue


N = N1 + N2
# a's fluctuations enter a mean over N configurations -> scaled by N/N1, error sqrt(Gamma(0)/(N-1))
expected = np.sqrt(np.sum(((d_a - d_a.mean()) * N / N1) ** 2) / N / (N - 1))
naive = np.std(d_a, ddof=1) / np.sqrt(N1)
e_piped = run('E|r1', 'E|r2')
e_bare = run('E', 'E|r2')
print('naive error of a            ', naive)
print('expected (hand computed)    ', expected)
print("replica 'E|r1','E|r2'        ", e_piped)
print("replica 'E'   ,'E|r2'        ", e_bare)
bad = []
if abs(e_piped / expected - 1) > 1e-10:
    bad.append('piped naming differs from the hand computation')
if abs(e_bare / expected - 1) > 1e-10:
    bad.append("naming the first replica 'E' changes the error by a factor %.4f (N1/N = %.4f)" % (e_bare / expected, N1 / N))
if bad:
    print('VIOLATION: error analysis is not invariant under replica renaming')
    for x in bad:
        print('  ', x)
    sys.exit(1)
print('ok')
sys.exit(0)
