"""C03 demo 6: analysing a derived object overwrites the analysis of the object it was derived from.

  b = +a                 -> b is a            (Obs.__pos__ returns self)
  s = c.symmetric()      -> s[0] is c[0], all other timeslices are new Obs (same for anti_symmetric)
  r = c.reverse(), c.roll(1), c.thin(2) -> share all Obs with c
After c.gamma_method(S=1), running s.gamma_method(S=6) silently changes the error reported by c at
timeslice 0 only: the outcome of c's analysis now depends on the analysis of another object.
Oracle: errors of c right after c.gamma_method(S=1) (recorded before the second object is touched).
"""
import sys
import warnings
sys.path.insert(0, sys.argv[1] if len(sys.argv) > 1 else '.')
import numpy as np
import pyerrors as pe
warnings.simplefilter('ignore')

rng = np.random.default_rng(5)


def ar(n, rho=0.8):
    x = np.zeros(n)
    e = rng.normal(size=n)
    for i in range(1, n):
        x[i] = rho * x[i - 1] + e[i]
    return x


T = 8
obs = [pe.Obs([ar(300) + 10 * np.exp(-0.3 * min(t, T - t))], ['A']) for t in range(T)]
c = pe.Corr(obs)
bad = []
for label, make in [('+obs', lambda: +obs[0]), ('Corr.symmetric()', lambda: c.symmetric()), ('Corr.anti_symmetric()', lambda: c.anti_symmetric()),
                    ('Corr.reverse()', lambda: c.reverse()), ('Corr.roll(1)', lambda: c.roll(1)), ('Corr.thin(2)', lambda: c.thin(2))]:
    c.gamma_method(S=1.0)
    before = [o.dvalue for o in obs]
    new = make()
    new.gamma_method(S=6.0)
    after = [o.dvalue for o in obs]
    changed = [t for t in range(T) if before[t] != after[t]]
    print('%-24s analysis of the new object changed the errors of the source at timeslices %s' % (label, changed))
    if changed:
        bad.append('%s: source error at t=%d went from %.6g to %.6g' % (label, changed[0], before[changed[0]], after[changed[0]]))
if bad:
    print('VIOLATION: the analysis of one object alters the reported analysis of another object')
    for b in bad:
        print('  ', b)
    sys.exit(1)
print('ok')
sys.exit(0)
