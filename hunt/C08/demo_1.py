"""correlated_fit given as a numpy boolean (np.True_) is silently ignored: an uncorrelated fit is returned."""
import sys
sys.path.insert(0, sys.argv[1])
import numpy as np
import autograd.numpy as anp
import pyerrors as pe
from autograd import grad as _grad, hessian as _hessian


def newton(chi, p0, *args, it=100):
    """independent oracle: Newton iteration on a hand-written chi-square (no pyerrors code involved)"""
    p = np.array(p0, dtype=float)
    g = _grad(chi, 0)
    H = _hessian(chi, 0)
    for _ in range(it):
        step = np.linalg.solve(H(p, *args), g(p, *args))
        p = p - step
        if np.max(np.abs(step)) < 1e-14 * max(1.0, np.max(np.abs(p))):
            break
    return p

rng = np.random.default_rng(3)
N, n = 500, 8
x = np.arange(1., n + 1)


def f(a, x):
    return a[0] * anp.exp(-a[1] * x)


yv = f([2.0, 0.3], x) * (1 + 0.01 * np.array([1, -1, 0.5, -0.7, 0.3, 0.9, -0.4, 0.2]))
mix = np.array([[np.exp(-0.5 * abs(i - j)) for j in range(n)] for i in range(n)])
s = np.linalg.cholesky(mix) @ rng.normal(0, 1, (n, N))
y = []
for i in range(n):
    o = pe.Obs([yv[i] + 0.02 * yv[i] * np.sqrt(N) * s[i]], ['ens'])
    o.gamma_method(S=0)
    y.append(o)

# oracle: documented correlated chi-square r^T C^-1 r, C = corr_ij * dy_i * dy_j, built from the raw fluctuations with numpy
yf = np.array([o.value for o in y])
dy = np.array([o.dvalue for o in y])
D = np.array([o.deltas['ens'] for o in y])
G = D @ D.T
corr = G / np.sqrt(np.outer(np.diag(G), np.diag(G)))
Cinv = np.linalg.inv(corr * np.outer(dy, dy))


def chi_corr(p, d):
    r = d - f(p, x)
    return anp.dot(r, anp.dot(Cinv, r))


p_corr = newton(chi_corr, [2.0, 0.3], yf)
p_unc = newton(lambda p, d: anp.sum(((d - f(p, x)) / dy) ** 2), [2.0, 0.3], yf)

flag = np.all(dy > 0)   # a numpy boolean, as produced by any numpy comparison
assert isinstance(flag, np.bool_) and flag
ref = pe.least_squares(x, y, f, silent=True, correlated_fit=True)
res = pe.least_squares(x, y, f, silent=True, correlated_fit=flag)
ref.gamma_method(S=0)
sig = np.array([o.dvalue for o in ref])
d_ref = np.max(np.abs(np.array([o.value for o in ref]) - p_corr) / sig)
d_res = np.max(np.abs(np.array([o.value for o in res]) - p_corr) / sig)
d_unc = np.max(np.abs(np.array([o.value for o in res]) - p_unc) / sig)
print('correlated_fit=True    : distance to correlated oracle %.2e sigma' % d_ref)
print('correlated_fit=np.True_: distance to correlated oracle %.2e sigma, to UNcorrelated oracle %.2e sigma' % (d_res, d_unc))
if d_ref > 1e-5:
    print('oracle disagrees even with correlated_fit=True'); sys.exit(1)
if d_res > 1e-5:
    print('VIOLATION: correlated_fit=np.True_ silently returned the uncorrelated fit (chisquare %.4f instead of %.4f, no t2_p_value: %s)' % (res.chisquare, ref.chisquare, not hasattr(res, 't2_p_value')))
    sys.exit(1)
sys.exit(0)
