"""A first data point whose central value is exactly -eps (= -2.220446049250313e-16, a typical rounding residue such as
1.21 - 1.1 * 1.1) makes ALL fitted parameters NaN: the result Obs are assembled as (x[0] + eps) / (y[0].value + eps) * p, i.e. 0/0.
Same construction (with the first abscissa) in total_least_squares."""
import sys
sys.path.insert(0, sys.argv[1])
import numpy as np
import autograd.numpy as anp
import pyerrors as pe
from autograd import grad as _grad, hessian as _hessian


def newton(chi, p0, *args, it=100):
    """independent oracle: Newton iteration on a hand-written chi-square (no pyerrors code involved)"""
    p = np.array(p0, dtype=float)
    g = _grad(chi, 0)
    H = _hessian(chi, 0)
    for _ in range(it):
        step = np.linalg.solve(H(p, *args), g(p, *args))
        p = p - step
        if np.max(np.abs(step)) < 1e-14 * max(1.0, np.max(np.abs(p))):
            break
    return p

resid = 1.21 - 1.1 * 1.1
assert resid == -np.finfo(float).eps


def f(a, x):
    return a[0] * (1 - anp.exp(-a[1] * x))


n, N = 8, 200
x = np.arange(0., n)
yv = f([2.0, 0.3], x) + 0.01 * np.array([0, -1, 0.5, -0.7, 0.3, 0.9, -0.4, 0.2])
rng = np.random.default_rng(1)


def obs(v, e, name):
    o = pe.Obs([e * np.sqrt(N) * rng.normal(0, 1, N)], [name])
    o = o - o.value + v
    o.gamma_method(S=0)
    return o


y = [obs(yv[i], 0.02, f'y{i}') for i in range(n)]
y[0] = y[0] - y[0].value + resid
y[0].gamma_method(S=0)
assert y[0].value == resid
yf = np.array([o.value for o in y]); dy = np.array([o.dvalue for o in y])
p_or = newton(lambda p, d: anp.sum(((d - f(p, x)) / dy) ** 2), [2.0, 0.3], yf)
r = pe.least_squares(x, y, f, silent=True)
vals = np.array([o.value for o in r])
print('least_squares      :', vals, ' oracle', p_or)
bad = not np.allclose(vals, p_or, rtol=1e-7)

# total least squares: first abscissa == -eps
def g(a, x):
    return a[0] * anp.exp(-a[1] * x)


xo = [obs(x[i], 0.02, f'x{i}') for i in range(n)]
xo[0] = xo[0] - xo[0].value + resid
xo[0].gamma_method(S=0)
y2 = [obs(v, 0.02 * v, f'z{i}') for i, v in enumerate(g([2.0, 0.3], x))]
r2 = pe.total_least_squares(xo, y2, g, silent=True)
vals2 = np.array([o.value for o in r2])
print('total_least_squares:', vals2, ' (ODR itself returned finite values; xplus finite: %s)' % np.all(np.isfinite(r2.xplus)))
bad = bad or not np.all(np.isfinite(vals2))
if bad:
    print('VIOLATION: NaN fit parameters for a regular, well-conditioned fit')
    sys.exit(1)
sys.exit(0)
