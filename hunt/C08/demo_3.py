"""total_least_squares: an abscissa whose central value is a rounding residue (|x| ~ 1e-18 .. 1e-12 instead of an exact 0)
makes the returned parameters a NON-stationary point of the documented chi-square: ODR is run with finite-difference
derivatives whose step is relative to |x|, so df/dx at that point is seen as 0 and its x error is effectively ignored.
Changing that abscissa by 3e-18 (to an exact 0.0) changes the fitted parameters by a finite amount."""
import sys
sys.path.insert(0, sys.argv[1])
import numpy as np
import autograd.numpy as anp
from autograd import grad
import pyerrors as pe
from autograd import grad as _grad, hessian as _hessian


def newton(chi, p0, *args, it=100):
    """independent oracle: Newton iteration on a hand-written chi-square (no pyerrors code involved)"""
    p = np.array(p0, dtype=float)
    g = _grad(chi, 0)
    H = _hessian(chi, 0)
    for _ in range(it):
        step = np.linalg.solve(H(p, *args), g(p, *args))
        p = p - step
        if np.max(np.abs(step)) < 1e-14 * max(1.0, np.max(np.abs(p))):
            break
    return p


def f(a, x):
    return a[0] * anp.exp(-a[1] * x)


n, N = 8, 200
xz = np.arange(0., n)
yz = f([2.0, 0.3], xz) * (1 + 0.01 * np.array([1, -1, 0.5, -0.7, 0.3, 0.9, -0.4, 0.2]))
rng = np.random.default_rng(2)


def obs(v, e, name):
    s = rng.normal(0, 1, N); s = (s - s.mean()) / np.sqrt(np.mean((s - s.mean()) ** 2))
    o = pe.Obs([e * np.sqrt(N) * s], [name])
    o = o - o.value + v       # exact central value v
    o.gamma_method(S=0)
    return o


y = [obs(yz[i], 0.01 * yz[i], f'y{i}') for i in range(n)]
x_rest = [obs(xz[i], 0.1, f'x{i}') for i in range(1, n)]
x0_obs = obs(0.0, 0.1, 'x0')
yf = np.array([o.value for o in y]); dyf = np.array([o.dvalue for o in y])

results = {}
bad = 0
for x0 in [0.0, 3e-18, 1e-12]:
    xo = x0_obs - x0_obs.value + x0
    xo.gamma_method(S=0)
    x = [xo] + x_rest
    xf = np.array([o.value for o in x]); dxf = np.array([o.dvalue for o in x])
    assert xf[0] == x0

    def chi(q, d):   # documented chi-square including the x-residual term; q = (parameters, fitted abscissae)
        return anp.sum(((d[n:] - f(q[:2], q[2:])) / dyf) ** 2) + anp.sum(((d[:n] - q[2:]) / dxf) ** 2)

    r = pe.total_least_squares(x, y, f, silent=True)
    r.gamma_method(S=0)
    d = np.concatenate((xf, yf))
    q_lib = np.concatenate(([o.value for o in r], r.xplus))
    q_or = newton(chi, q_lib, d)
    sig = np.array([o.dvalue for o in r])
    dev = np.max(np.abs(q_lib[:2] - q_or[:2]) / sig)
    gnorm = np.max(np.abs(grad(chi)(q_lib, d)))
    results[x0] = q_lib[:2]
    print('x[0] = %-7g: parameters %s, distance to stationary point %.2e sigma, max |grad chi2| = %.2e, chi2 - chi2_min = %.2e' % (x0, q_lib[:2], dev, gnorm, chi(q_lib, d) - chi(q_or, d)))
    if dev > 1e-4:
        bad += 1
jump = np.max(np.abs(results[3e-18] - results[0.0]))
print('shift of x[0] by 3e-18 moves the parameters by %.2e' % jump)
if bad or jump > 1e-9:
    print('VIOLATION: returned parameters are not a stationary point of the documented chi-square')
    sys.exit(1)
sys.exit(0)
