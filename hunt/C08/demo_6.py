"""Prior specification: (a) dictionary keys that are numpy integers (e.g. built from np.arange / np.argmax) and (b) a tuple
of priors are refused with a TypeError although dict-with-int-keys / list are the documented forms; (c) a prior string with a
blank before the bracket, '2.1 (2)', is accepted but its error is read as 0.02 instead of 0.2 (the blank is counted as a decimal)."""
import sys
sys.path.insert(0, sys.argv[1])
import numpy as np
import autograd.numpy as anp
import pyerrors as pe
from autograd import grad as _grad, hessian as _hessian


def newton(chi, p0, *args, it=100):
    """independent oracle: Newton iteration on a hand-written chi-square (no pyerrors code involved)"""
    p = np.array(p0, dtype=float)
    g = _grad(chi, 0)
    H = _hessian(chi, 0)
    for _ in range(it):
        step = np.linalg.solve(H(p, *args), g(p, *args))
        p = p - step
        if np.max(np.abs(step)) < 1e-14 * max(1.0, np.max(np.abs(p))):
            break
    return p


def f(a, x):
    return a[0] * anp.exp(-a[1] * x) + a[2]


n, N = 8, 200
x = np.arange(1., n + 1)
rng = np.random.default_rng(1)
yv = f([2.0, 0.3, 0.5], x) * (1 + 0.01 * np.array([1, -1, 0.5, -0.7, 0.3, 0.9, -0.4, 0.2]))
y = []
for i, v in enumerate(yv):
    o = pe.Obs([v + 0.02 * v * np.sqrt(N) * rng.normal(0, 1, N)], [f'e{i}'])
    o.gamma_method(S=0)
    y.append(o)
yf = np.array([o.value for o in y]); dy = np.array([o.dvalue for o in y])


def oracle(pri):   # pri: list of (position, value, error)
    def chi(p, d):
        c = anp.sum(((d - f(p, x)) / dy) ** 2)
        for pos, v, e in pri:
            c = c + ((p[pos] - v) / e) ** 2
        return c
    return newton(chi, [2.0, 0.3, 0.5], yf)


bad = 0
cases = [('dict with np.int64 key', {np.int64(2): '0.45(10)'}, [(2, 0.45, 0.10)]),
         ('dict with keys from np.arange', {k: s for k, s in zip(np.arange(2), ['2.1(2)', '0.31(5)'])}, [(0, 2.1, 0.2), (1, 0.31, 0.05)]),
         ('tuple of strings', ('2.1(2)', '0.31(5)', '0.45(10)'), [(0, 2.1, 0.2), (1, 0.31, 0.05), (2, 0.45, 0.10)]),
         ("string '2.1 (2)'", {0: '2.1 (2)'}, [(0, 2.1, 0.2)])]
for label, arg, pri in cases:
    p_or = oracle(pri)
    try:
        r = pe.least_squares(x, y, f, priors=arg, silent=True)
        r.gamma_method(S=0)
        dev = np.max(np.abs(np.array([o.value for o in r]) - p_or) / [o.dvalue for o in r])
        msg = 'deviation from oracle %.2e sigma' % dev
        if dev > 1e-5:
            bad += 1
            pr = list(r.priors.values())[0] if isinstance(r.priors, dict) else r.priors[0]
            pr.gamma_method()
            msg += '  VIOLATION (prior used: %s +- %s)' % (pr.value, pr.dvalue)
        print(label, ':', msg)
    except Exception as e:
        bad += 1
        print(label, ': VIOLATION, refused with', repr(e), '; oracle', p_or)
sys.exit(1 if bad else 0)
