"""total_least_squares refuses smooth models written with autograd.numpy functions for which Obs has no method of the same
name (log1p, expm1, log10, exp2, scipy erf ...) with 'Fit function is not valid.': the number of parameters is probed by
calling func on an Obs (x.T[0]) instead of on a float.  least_squares accepts the very same models."""
import sys
sys.path.insert(0, sys.argv[1])
import numpy as np
import autograd.numpy as anp
import pyerrors as pe
from autograd import grad as _grad, hessian as _hessian


def newton(chi, p0, *args, it=100):
    """independent oracle: Newton iteration on a hand-written chi-square (no pyerrors code involved)"""
    p = np.array(p0, dtype=float)
    g = _grad(chi, 0)
    H = _hessian(chi, 0)
    for _ in range(it):
        step = np.linalg.solve(H(p, *args), g(p, *args))
        p = p - step
        if np.max(np.abs(step)) < 1e-14 * max(1.0, np.max(np.abs(p))):
            break
    return p

n, N = 8, 200
rng = np.random.default_rng(1)
xv = np.arange(1., n + 1) / 4
dev = 0.01 * np.array([1, -1, 0.5, -0.7, 0.3, 0.9, -0.4, 0.2])


def obs(v, e, name):
    o = pe.Obs([v + e * np.sqrt(N) * rng.normal(0, 1, N)], [name])
    o.gamma_method(S=0)
    return o


models = {'log1p': lambda a, x: a[0] * anp.log1p(a[1] * x),
          'expm1': lambda a, x: a[0] * anp.expm1(-a[1] * x),
          'exp2': lambda a, x: a[0] * anp.exp2(-a[1] * x),
          'log10': lambda a, x: a[0] * anp.log10(1 + a[1] * x)}
bad = 0
for name, f in models.items():
    x = [obs(v, 0.01, f'x{i}') for i, v in enumerate(xv)]
    yv = f(np.array([2.0, 0.7]), xv) * (1 + dev)
    y = [obs(v, 0.02 * abs(v), f'y{i}') for i, v in enumerate(yv)]
    xf = np.array([o.value for o in x]); dxf = np.array([o.dvalue for o in x])
    yf = np.array([o.value for o in y]); dyf = np.array([o.dvalue for o in y])

    def chi(q, d):
        return anp.sum(((d[n:] - f(q[:2], q[2:])) / dyf) ** 2) + anp.sum(((d[:n] - q[2:]) / dxf) ** 2)

    q_or = newton(chi, np.concatenate(([2.0, 0.7], xf)), np.concatenate((xf, yf)))
    ls = pe.least_squares(xf, y, f, silent=True)     # same model accepted here
    try:
        r = pe.total_least_squares(x, y, f, silent=True, initial_guess=[2.0, 0.7])
        d = np.max(np.abs(np.array([o.value for o in r]) - q_or[:2]))
        print(name, 'TLS', [o.value for o in r], 'oracle', q_or[:2])
        bad += d > 1e-5
    except Exception as e:
        print('%-6s: least_squares ok %s ; total_least_squares raises %r ; oracle TLS solution %s' % (name, [round(o.value, 5) for o in ls], e, q_or[:2]))
        bad += 1
if bad:
    print('VIOLATION: valid smooth models refused by total_least_squares')
    sys.exit(1)
sys.exit(0)
