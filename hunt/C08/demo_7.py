"""num_grad=True: the parameter fluctuations (and hence the errors) are silently wrong as soon as the problem is not
scaled to O(1): (a) abscissae 30..240 with decay constant 0.01, (b) data of size 1e-16 (typical correlator amplitude),
(c) data of size 1e10.  The central values are fine and the autograd branch gets all cases right.  numdifftools.Hessian is
applied with its default (absolute, O(1)-based) steps to the chi-square as a function of (parameters, data).
Oracle: re-fit after shifting one data point (hand-written Newton iteration), compared with the library's dp/dy_k."""
import sys
sys.path.insert(0, sys.argv[1])
import numpy as np
import autograd.numpy as anp
import pyerrors as pe
from autograd import grad as _grad, hessian as _hessian


def newton(chi, p0, *args, it=100):
    """independent oracle: Newton iteration on a hand-written chi-square (no pyerrors code involved)"""
    p = np.array(p0, dtype=float)
    g = _grad(chi, 0)
    H = _hessian(chi, 0)
    for _ in range(it):
        step = np.linalg.solve(H(p, *args), g(p, *args))
        p = p - step
        if np.max(np.abs(step)) < 1e-14 * max(1.0, np.max(np.abs(p))):
            break
    return p


def f(a, x):
    return a[0] * anp.exp(-a[1] * x)


N = 200
rng = np.random.default_rng(1)
dev = 0.01 * np.array([1, -1, 0.5, -0.7, 0.3, 0.9, -0.4, 0.2])
bad = 0
for label, xs, ys in [('x = 30..240, m = 0.01', 30.0, 1.0), ('data scale 1e-16', 1.0, 1e-16), ('data scale 1e+10', 1.0, 1e10), ('O(1) reference', 1.0, 1.0)]:
    x = np.arange(1., 9) * xs
    ptrue = [2.0 * ys, 0.3 / xs]
    yv = f(ptrue, x) * (1 + dev)
    y = []
    for i, v in enumerate(yv):
        s = rng.normal(0, 1, N); s -= s.mean()
        o = pe.Obs([v + 0.02 * v * np.sqrt(N) * s], [f'e{i}'])   # every data point on its own ensemble
        o.gamma_method(S=0)
        y.append(o)
    yf = np.array([o.value for o in y]); dy = np.array([o.dvalue for o in y])

    def chi(p, d):     # work in rescaled variables to keep the oracle itself well conditioned: p = (A / ys, m * xs)
        return anp.sum(((d - p[0] * anp.exp(-p[1] * x / xs)) / (dy / ys)) ** 2)

    ps = newton(chi, [2.0, 0.3], yf / ys)
    S = np.zeros((2, len(x)))      # d p / d y_k from re-fits with one shifted data point
    for k in range(len(x)):
        h = 1e-4 * dy[k] / ys
        dp = yf / ys; dp = dp.copy(); dp[k] += h
        dm = yf / ys; dm = dm.copy(); dm[k] -= h
        S[:, k] = (newton(chi, ps, dp) - newton(chi, ps, dm)) / (2 * h)
    S[0] *= 1.0            # dA/dy_k is scale free
    S[1] *= 1.0 / (xs * ys)  # dm/dy_k
    p_or = ps * [ys, 1 / xs]
    err_or = np.sqrt(np.sum((S * dy) ** 2, axis=1))
    for kw in [{}, {'num_grad': True}]:
        r = pe.least_squares(x, y, f, silent=True, initial_guess=ptrue, **kw)
        r.gamma_method(S=0)
        G = np.array([[np.dot(r[i].deltas[f'e{k}'], y[k].deltas[f'e{k}']) / np.dot(y[k].deltas[f'e{k}'], y[k].deltas[f'e{k}']) for k in range(len(x))] for i in range(2)])
        cen = np.max(np.abs(np.array([o.value for o in r]) / p_or - 1))
        gerr = np.max(np.abs(G - S) / np.abs(S).max(axis=1)[:, None])
        print('%-22s %-18s central rel.dev %.1e | max rel. error of dp/dy_k %.1e | error / oracle error %s' % (label, kw, cen, gerr, np.array([o.dvalue for o in r]) / err_or))
        if gerr > 1e-3 or cen > 1e-6:
            bad += 1
if bad:
    print('VIOLATION: fluctuations of the fitted parameters differ from the implicit-function / re-fit prediction')
    sys.exit(1)
sys.exit(0)
