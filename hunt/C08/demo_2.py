"""Power-law model a0 * x**(-a1) with integer abscissae (list of ints, np.arange, Corr.fit) crashes:
the library probes the number of parameters with INTEGER parameter arrays (np.arange(n)) and the first data point,
so int ** negative-int raises ValueError, although the model is perfectly fine for the real (float) parameters."""
import sys
sys.path.insert(0, sys.argv[1])
import numpy as np
import autograd.numpy as anp
import pyerrors as pe
from autograd import grad as _grad, hessian as _hessian


def newton(chi, p0, *args, it=100):
    """independent oracle: Newton iteration on a hand-written chi-square (no pyerrors code involved)"""
    p = np.array(p0, dtype=float)
    g = _grad(chi, 0)
    H = _hessian(chi, 0)
    for _ in range(it):
        step = np.linalg.solve(H(p, *args), g(p, *args))
        p = p - step
        if np.max(np.abs(step)) < 1e-14 * max(1.0, np.max(np.abs(p))):
            break
    return p


def f(a, x):
    return a[0] * x ** (-a[1])


xi = [1, 2, 3, 4, 5, 6, 7, 8]
xf = np.array(xi, dtype=float)
yv = f([2.0, 1.3], xf) * (1 + 0.01 * np.array([1, -1, 0.5, -0.7, 0.3, 0.9, -0.4, 0.2]))
rng = np.random.default_rng(1)
y = []
for v in yv:
    o = pe.Obs([v + 0.02 * v * np.sqrt(200) * rng.normal(0, 1, 200)], ['ens'])
    o.gamma_method(S=0)
    y.append(o)
yf = np.array([o.value for o in y]); dy = np.array([o.dvalue for o in y])
p_or = newton(lambda p, d: anp.sum(((d - f(p, xf)) / dy) ** 2), [2.0, 1.3], yf)
print('oracle parameters', p_or)

bad = 0
ref = pe.least_squares(xf, y, f, silent=True)
print('float x           :', [o.value for o in ref])


def g(a, t):          # same model on the Corr time axis t = 0..7  (x = t + 1)
    return a[0] * (t + 1) ** (-a[1])


for label, call in [('list of int x', lambda: pe.least_squares(xi, y, f, silent=True)),
                    ('np.arange x', lambda: pe.least_squares(np.arange(1, 9), y, f, silent=True)),
                    ('Corr.fit', lambda: pe.Corr(y).fit(g, silent=True))]:
    try:
        r = call()
        dev = np.max(np.abs(np.array([o.value for o in r]) - p_or))
        print(label, [o.value for o in r], 'deviation from oracle %.1e' % dev)
        bad += dev > 1e-6
    except Exception as e:
        print(label, ': VIOLATION, valid input crashes with', repr(e))
        bad += 1
sys.exit(1 if bad else 0)
