"""find_root returns a non-root (the start value) without any error when scipy's fsolve
does not converge: exp(x) - d = 0 with d ~ 100 and the default guess."""
import sys, warnings
sys.path.insert(0, sys.argv[1] if len(sys.argv) > 1 else '.')
import numpy as np
import autograd.numpy as anp
import pyerrors as pe

rng = np.random.default_rng(7)
bad = []


def check(tag, d, func, dval, oracle, **kw):
    with warnings.catch_warnings(record=True) as w:
        warnings.simplefilter('always')
        try:
            r = pe.find_root(d, func, **kw)
        except Exception as e:   # an explicit refusal is acceptable
            print(tag, ': refused with', type(e).__name__, '- acceptable')
            return
    resid = float(func(r.value, dval))
    ok = abs(r.value - oracle.value) < 1e-6 * abs(oracle.value)
    for n in oracle.names:
        ok = ok and np.allclose(r.deltas[n], oracle.deltas[n], rtol=1e-5, atol=0)
    print('%s: find_root value %.6g, f(x,d)=%.4g, inverse applied directly %.6g, warnings issued: %d'
          % (tag, r.value, resid, oracle.value, len(w)))
    if not ok:
        bad.append(tag)


# scalar d, f = exp(x) - d, inverse log(d)
d = pe.Obs([rng.normal(100.0, 1.0, 500)], ['A'])
check('exp(x)-d, d=100, default guess', d, lambda x, d: anp.exp(x) - d, d.value, np.log(d))
# f = exp(-x) - d, inverse -log(d)
d = pe.Obs([rng.normal(1000.0, 10.0, 500)], ['A'])
check('exp(-x)-d, d=1000, default guess', d, lambda x, d: anp.exp(-x) - d, d.value, -np.log(d))
# vector d on three ensembles, f = d0*exp(d1*x) - d2, inverse log(d2/d0)/d1
dv = [pe.Obs([rng.normal(2.0, 0.1, 300)], ['A']), pe.Obs([rng.normal(1.0, 0.01, 300)], ['B']), pe.Obs([rng.normal(400.0, 1.0, 300)], ['C'])]
check('d0*exp(d1*x)-d2', dv, lambda x, d: d[0] * anp.exp(d[1] * x) - d[2], np.array([o.value for o in dv]), np.log(dv[2] / dv[0]) / dv[1])

if bad:
    print('VIOLATION: find_root silently returned an observable that is not a root (value and fluctuations wrong) for:', bad)
    sys.exit(1)
sys.exit(0)
