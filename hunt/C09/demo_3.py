"""find_root: the per-replica means (r_values) of the result are root * r_values(d[0]) / d[0].value
instead of the root belonging to the replica means; for d[0].value == 0 they are ~1e15 and the
observable does not survive a json round trip."""
import sys
sys.path.insert(0, sys.argv[1] if len(sys.argv) > 1 else '.')
import numpy as np
import pyerrors as pe
import pyerrors.input.json as jsonio

rng = np.random.default_rng(5)
s1 = rng.normal(0.3, 1.0, 40)
s2 = rng.normal(-0.2, 1.0, 40)
o = pe.Obs([s1, s2], ['E|r1', 'E|r2'])
func = lambda x, d: x - d - 5   # linear, inverse x = d + 5 (no linearisation ambiguity)
bad = []

for tag, d in [('d.value = 0.05', o - o.value + 0.05), ('d.value = 0', o - o.value)]:
    r = pe.find_root(d, func)
    e = d + 5
    assert abs(r.value - e.value) < 1e-10
    for n in e.names:
        assert np.allclose(r.deltas[n], e.deltas[n])
    print(tag, ': replica means of find_root', {k: float(v) for k, v in r.r_values.items()}, ' of d + 5:', {k: float(v) for k, v in e.r_values.items()})
    if not all(abs(r.r_values[n] - e.r_values[n]) < 1e-8 for n in e.names):
        bad.append(tag + ': replica means differ')
    # transport
    r2 = jsonio.import_json_string(jsonio.create_json_string([r]), verbose=False)
    if isinstance(r2, list):
        r2 = r2[0]
    r2.gamma_method(); e.gamma_method()
    if not (np.isclose(r2.value, e.value, atol=1e-8) and np.isclose(r2.dvalue, e.dvalue, rtol=1e-6)):
        bad.append(tag + ': after json round trip %.10g +- %.6g instead of %.10g +- %.6g' % (r2.value, r2.dvalue, e.value, e.dvalue))

if bad:
    print('VIOLATION:', bad)
    sys.exit(1)
sys.exit(0)
