"""integrate.quad: every replica of the result gets the same mean (r_values == value), unlike the
observable obtained from the analytic antiderivative."""
import sys
sys.path.insert(0, sys.argv[1] if len(sys.argv) > 1 else '.')
import numpy as np
import pyerrors as pe

rng = np.random.default_rng(11)
p0 = pe.Obs([rng.normal(1.3, 0.3, 40), rng.normal(1.5, 0.3, 40)], ['E|r1', 'E|r2'])
f = lambda p, x: p[0] * x          # linear in p: antiderivative p0 * (b^2 - a^2) / 2
res = pe.integrate.quad(f, [p0], 0.0, 2.0)[0]
exp = p0 * 2.0
assert abs(res.value - exp.value) < 1e-10
for n in exp.names:
    assert np.allclose(res.deltas[n], exp.deltas[n])
print('replica means quad       :', {k: float(v) for k, v in res.r_values.items()})
print('replica means 2 * p0     :', {k: float(v) for k, v in exp.r_values.items()})
# visible consequence: product estimator built from the replica means
c1 = pe.correlate(res, p0); c2 = pe.correlate(exp, p0)
print('pe.correlate(result, p0):', c1.value, 'expected', c2.value)
if not all(abs(res.r_values[n] - exp.r_values[n]) < 1e-8 for n in exp.names) or abs(c1.value - c2.value) > 1e-8:
    print('VIOLATION: replica means of the integral are all equal to the central value')
    sys.exit(1)
sys.exit(0)
