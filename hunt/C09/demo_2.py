"""integrate.quad crashes (IndexError) when the integrand has no parameters (p = []) and a limit is an Obs."""
import sys
sys.path.insert(0, sys.argv[1] if len(sys.argv) > 1 else '.')
import numpy as np
import pyerrors as pe

rng = np.random.default_rng(3)
a = pe.Obs([rng.normal(0.2, 0.02, 200)], ['A'])
b = pe.Obs([rng.normal(1.5, 0.05, 200)], ['B'])
f = lambda p, x: x ** 2

# without observables the empty parameter list is accepted
plain = pe.integrate.quad(f, [], 0.2, 1.5)[0]
assert abs(plain - (1.5 ** 3 - 0.2 ** 3) / 3) < 1e-12

expected = (b ** 3 - a ** 3) / 3   # analytic antiderivative
try:
    res = pe.integrate.quad(f, [], a, b)[0]
except Exception as e:
    print('VIOLATION: quad(f, [], a, b) with Obs limits raised %s: %s (with float limits the same call works and gives %.6f)' % (type(e).__name__, e, plain))
    sys.exit(1)
ok = abs(res.value - expected.value) < 1e-10
for n in expected.names:
    ok = ok and np.allclose(res.deltas[n], expected.deltas[n], rtol=1e-8)
if not ok:
    print('VIOLATION: wrong result', res, expected)
    sys.exit(1)
sys.exit(0)
