"""C15 demo 1: m_eff('cosh'/'periodic'/'sinh') returns a number where the defining equation has NO real solution.

C(t)/C(t+1) = cosh(m (t-T/2)) / cosh(m (t+1-T/2)) has a real solution m only if the ratio lies on the
same side of 1 as the cosh ratio.  For a slightly non-monotonic periodic correlator (everyday noisy data)
and for a plain exponential in the second half of the lattice there is no solution; the property demands an
undefined timeslice (None) there.  The library returns whatever scipy.optimize.fsolve stopped at
(find_root never looks at fsolve's convergence flag).
"""
import sys
import warnings
sys.path.insert(0, sys.argv[1] if len(sys.argv) > 1 else '.')
import numpy as np
import pyerrors as pe
warnings.simplefilter('ignore')

rng = np.random.default_rng(7)


def mkobs(v, n=200, rel=0.002):
    s = rng.normal(0, abs(v) * rel, n)
    s -= s.mean()
    return pe.Obs([v + s], ['ens'])


def has_root(fn, a, b, d):
    """independent oracle: scan m in (0, 60] for a sign change of fn(m a)/fn(m b) - d"""
    ms = np.concatenate([[1e-12], np.logspace(-8, np.log10(60.), 4000)])
    with np.errstate(all='ignore'):
        g = fn(ms * a) / fn(ms * b) - d
    g = g[np.isfinite(g)]
    return bool(np.any(g[:-1] * g[1:] <= 0))


problems = []
T = 16
vals = [np.cosh(0.2 * (t - T / 2)) for t in range(T)]
vals[5] *= 0.9          # one slice fluctuates down: C(5) < C(6) although t < T/2
cases = [('cosh', np.cosh, 'dented periodic correlator', vals),
         ('periodic', np.cosh, 'plain exponential', [np.exp(-0.3 * t) for t in range(T)]),
         ('sinh', np.sinh, 'periodic (cosh) correlator', [np.cosh(0.2 * (t - T / 2)) for t in range(T)])]
for variant, fn, label, v in cases:
    f = [mkobs(x) for x in v]
    m = pe.Corr(f).m_eff(variant)
    for t in range(T - 1):
        if variant == 'sinh' and t in (T // 2 - 1, T // 2):
            continue
        a, b = t - T / 2, t + 1 - T / 2
        d = f[t].value / f[t + 1].value
        solvable = has_root(fn, a, b, d)
        got = m[t]
        if not solvable and got is not None:
            resid = fn(got.value * a) / fn(got.value * b) - d
            problems.append("%s on %s, t=%d: C(t)/C(t+1)=%.4f admits no real m, expected None, got m=%.3e (residual of the defining equation %.3e)" % (variant, label, t, d, got.value, resid))
        if solvable and got is None:
            problems.append("%s on %s, t=%d: solvable but None" % (variant, label, t))

if problems:
    print("VIOLATION: m_eff returns values at timeslices where the cosh/sinh-ratio equation has no real solution:")
    for p in problems[:6]:
        print("  " + p)
    print("  ... %d timeslices in total" % len(problems))
    sys.exit(1)
print("ok")
sys.exit(0)
