"""C15 demo 4: m_eff('log') / m_eff('logsym') with an exactly vanishing central value in the NUMERATOR.

log(C(t)/C(t+1)) has no real value for C(t) = 0.  The library guards only the denominator
(C(t+1).value == 0 -> None) and the sign (ratio < 0 -> None); a zero numerator passes both tests and the
result is an Obs with value -inf and error nan instead of an undefined timeslice.
"""
import sys
import warnings
sys.path.insert(0, sys.argv[1] if len(sys.argv) > 1 else '.')
import numpy as np
import pyerrors as pe
warnings.simplefilter('ignore')

rng = np.random.default_rng(3)
N = 64


def mkobs(v):
    # fluctuations k/64, -k/64 in pairs: the mean is exactly v (also for v = 0)
    k = rng.integers(1, 32, N // 2) / 64.0
    s = np.concatenate([k, -k])
    rng.shuffle(s)
    return pe.Obs([v + s * (0.04 * abs(v) if v != 0 else 1.0)], ['ens'])


vals = [5., 3., 0., 1.5, 1., 0.6, 0.4, 0.3]
f = [mkobs(v) for v in vals]
assert f[2].value == 0.0
c = pe.Corr(f)
problems = []
for variant, tz in (('log', 2), ('logsym', 3)):     # slices whose numerator is C(2) = 0
    m = c.m_eff(variant)
    got = m[tz]
    if got is not None:
        got.gamma_method()
        problems.append("m_eff(%r)[%d]: numerator C(2) = 0, log undefined -> expected None, got value %r, error %r" % (variant, tz, got.value, got.dvalue))
    # the remaining slices must be the plain formula
    for t in range(len(vals) - 1):
        if variant == 'log' and t not in (1, 2):
            assert np.isclose(m[t].value, np.log(vals[t] / vals[t + 1]))
    # mirror case for comparison: zero in the denominator IS treated as undefined
    tden = 1
    assert m[tden] is None

if problems:
    print("VIOLATION: non-finite 'effective mass' instead of an undefined timeslice:")
    for p in problems:
        print("  " + p)
    sys.exit(1)
print("ok")
sys.exit(0)
