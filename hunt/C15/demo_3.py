"""C15 demo 3: m_eff('cosh'/'periodic'/'sinh') with the documented default guess silently returns ~1.0 for a
correlator whose true effective mass is >= 4 (a real solution exists and is found by bisection).

fsolve stops after ~15 evaluations with ier=5 ("not making good progress"); find_root ignores the flag and
turns the point where it stopped into an Obs.  Only the first half of the lattice (t < T/2) is affected.
"""
import sys
import warnings
sys.path.insert(0, sys.argv[1] if len(sys.argv) > 1 else '.')
import numpy as np
from scipy.optimize import brentq
import pyerrors as pe
warnings.simplefilter('ignore')

rng = np.random.default_rng(5)


def mkobs(v, n=200, rel=0.001):
    s = rng.normal(0, abs(v) * rel, n)
    s -= s.mean()
    return pe.Obs([v + s], ['ens'])


problems = []
T = 8
for m0 in (4.0, 5.0):
    f = [mkobs(np.cosh(m0 * (t - T / 2))) for t in range(T)]
    m = pe.Corr(f).m_eff('cosh')
    for t in range(T - 1):
        a, b = t - T / 2, t + 1 - T / 2
        d = f[t].value / f[t + 1].value
        exact = brentq(lambda x: np.cosh(x * a) / np.cosh(x * b) - d, 1e-6, 20.)   # independent oracle
        got = m[t]
        if got is None or abs(got.value - exact) > 1e-6 * exact:
            problems.append("cosh data with mass %.1f, t=%d: root of the cosh-ratio equation is %.6f, library returns %s" % (m0, t, exact, None if got is None else repr(got.value)))

if problems:
    print("VIOLATION: m_eff('cosh') does not return the root of the defining equation:")
    for p in problems:
        print("  " + p)
    sys.exit(1)
print("ok")
sys.exit(0)
