"""C15 demo 2: odd T, m_eff('cosh'/'periodic'/'sinh') at the central timeslice t=(T-1)/2.

There t-T/2 = -1/2 and t+1-T/2 = +1/2, so cosh(m(t-T/2))/cosh(m(t+1-T/2)) == 1 (sinh: == -1) for every m:
the defining equation does not determine m (no solution if C(t)/C(t+1) != 1, every m if == 1).
The slice must be undefined.  The library returns the start value `guess` of the root finder as "effective mass"
(so the result changes with `guess`), with an infinite / nan error.
"""
import sys
import warnings
sys.path.insert(0, sys.argv[1] if len(sys.argv) > 1 else '.')
import numpy as np
import pyerrors as pe
warnings.simplefilter('ignore')

rng = np.random.default_rng(11)


def mkobs(v, n=200, rel=0.002):
    s = rng.normal(0, abs(v) * rel, n)
    s -= s.mean()
    return pe.Obs([v + s], ['ens'])


problems = []
for T in (5, 9, 23):
    tm = (T - 1) // 2
    f = [mkobs(np.cosh(0.3 * (t - T / 2))) for t in range(T)]
    c = pe.Corr(f)
    for variant in ('cosh', 'periodic', 'sinh'):
        for guess in (1.0, 2.5):
            m = c.m_eff(variant, guess=guess)
            # sanity: all other slices of the cosh variants reproduce the input mass 0.3 (so the call itself is valid)
            if variant != 'sinh':
                others = [m[t].value for t in range(T - 1) if t != tm]
                assert np.allclose(others, 0.3, atol=0.02), others
            got = m[tm]
            if got is not None:
                got.gamma_method()
                problems.append("T=%d %s guess=%.1f: central slice t=%d should be undefined, got m=%r +- %r" % (T, variant, guess, tm, got.value, got.dvalue))

if problems:
    print("VIOLATION: the equation is independent of m at the central slice of an odd-T correlator, yet a value is returned:")
    for p in problems:
        print("  " + p)
    sys.exit(1)
print("ok")
sys.exit(0)
