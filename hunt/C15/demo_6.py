"""C15 demo 6 (deliberate behaviour, low severity): m_eff('sinh') on even T copies the value of timeslice T/2-2
into the two central slices T/2-1 and T/2.

At t = T/2-1 and t = T/2 the defining equation C(t)/C(t+1) = sinh(m(t-T/2))/sinh(m(t+1-T/2)) has sinh(0) in the
denominator resp. numerator: no real m solves it for a finite non-zero ratio, so both slices should be undefined.
The returned numbers do not depend on C(T/2) and C(T/2+1) at all (they depend on C(T/2-2), C(T/2-1), which
these slices do not reference).  The docstring does not mention the fill.
"""
import sys
import warnings
sys.path.insert(0, sys.argv[1] if len(sys.argv) > 1 else '.')
import numpy as np
import pyerrors as pe
warnings.simplefilter('ignore')

rng = np.random.default_rng(2)


def mkobs(v, n=200, rel=0.002):
    s = rng.normal(0, abs(v) * rel, n)
    s -= s.mean()
    return pe.Obs([v + s], ['ens'])


T = 12
vals = [np.sinh(0.4 * (T / 2 - t)) for t in range(T)]
vals[T // 2] = 0.01
f = [mkobs(v) for v in vals]
m1 = pe.Corr(f).m_eff('sinh')
g = list(f)
g[T // 2] = mkobs(0.37)        # change the inputs referenced by the two central slices
g[T // 2 + 1] = mkobs(0.11)
m2 = pe.Corr(g).m_eff('sinh')
problems = []
for t in (T // 2 - 1, T // 2):
    for m in (m1, m2):
        if m[t] is not None:
            problems.append("t=%d: equation has no real solution (sinh(0)), expected None, got %r (== value at t=%d: %r)" % (t, m[t].value, T // 2 - 2, m[T // 2 - 2].value))
if m1[T // 2] is not None and m2[T // 2] is not None and m1[T // 2].value == m2[T // 2].value:
    problems.append("result at t=T/2 is unchanged when C(T/2) and C(T/2+1) are replaced by other numbers")

if problems:
    print("VIOLATION (by design): central slices of m_eff('sinh') are copies of slice T/2-2:")
    for p in problems:
        print("  " + p)
    sys.exit(1)
print("ok")
sys.exit(0)
