"""C15 demo 5: Corr.plateau(method='fit') returns 0.1 for a correlator whose values are >= ~1e9.

The fit of a constant with uncorrelated errors is the 1/sigma^2 weighted average.  Corr.plateau -> Corr.fit ->
least_squares starts Levenberg-Marquardt at the fixed start value 0.1 (plateau offers no way to pass
initial_guess); MINPACK's forward-difference step (1.5e-8 * 0.1) is below the rounding of (y - a) for |y| >~ 1e9,
the numerical Jacobian is exactly zero, scipy reports "gtol satisfied" and success, and the start value 0.1
is returned as plateau (with the error of the true plateau attached).  method='avg' is correct on the same data.
"""
import sys
import io
import contextlib
import warnings
sys.path.insert(0, sys.argv[1] if len(sys.argv) > 1 else '.')
import numpy as np
import pyerrors as pe
warnings.simplefilter('ignore')

problems = []
for scale in (1.0, 1e6, 1e9, 3e10, -1e12):
    rng = np.random.default_rng(1)
    f = []
    for t in range(10):
        s = rng.normal(0, 0.02 * (1 + t), 200)
        s -= s.mean()
        f.append(pe.Obs([scale * (1 + 0.01 * rng.normal() + s)], ['ens']))
    c = pe.Corr(f)
    c.gamma_method()
    with contextlib.redirect_stdout(io.StringIO()):
        r = c.plateau([2, 7], method='fit')
    pts = f[2:8]
    w = np.array([1 / o.dvalue ** 2 for o in pts])
    expected = sum(wi * o for wi, o in zip(w, pts)) / w.sum()       # independent oracle: weighted mean
    relv = abs(r.value - expected.value) / abs(expected.value)
    reld = np.max(np.abs(r.deltas['ens'] - expected.deltas['ens'])) / np.max(np.abs(expected.deltas['ens']))
    if relv > 1e-7 or reld > 1e-6:
        problems.append("scale %g: plateau fit = %r, weighted average = %r" % (scale, r.value, expected.value))

if problems:
    print("VIOLATION: plateau by fit is not the fitted constant:")
    for p in problems:
        print("  " + p)
    sys.exit(1)
print("ok")
sys.exit(0)
