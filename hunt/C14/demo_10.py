"""C14 demo 10: index transformations whose result is undefined on every timeslice crash with an
IndexError from the Corr constructor instead of returning the (all-undefined) correlator, e.g.
thin(spacing=3, offset=1) on T=2, or Hankel(2) on T=2."""
import sys, warnings
sys.path.insert(0, sys.argv[1])
import numpy as np
import pyerrors as pe
warnings.simplefilter('ignore')
rng = np.random.default_rng(7)
obs = [pe.Obs([v + 0.05 * rng.normal(size=40)], ['ens']) for v in (5.0, 4.0)]
c = pe.Corr(list(obs))
fails = []
# reference: a partially thinned correlator is fine
r = c.thin(2, 1)
assert r.content[0] is None and r.content[1][0].value == obs[1].value
for name, f, N in (('thin(spacing=3, offset=1)', lambda: c.thin(3, 1), 1), ('thin(4, 2)', lambda: c.thin(4, 2), 1), ('Hankel(2)', lambda: c.Hankel(2), 2)):
    # oracle: which timeslices survive
    try:
        r = f()
    except IndexError as e:
        fails.append(f"{name} on T=2: IndexError: {e}")
        continue
    if r.T != 2 or any(x is not None for x in r.content):
        fails.append(f"{name}: expected T=2 with all timeslices undefined, got {r.content}")
if fails:
    print("VIOLATION: all-undefined results crash:")
    for f in fails:
        print("  ", f)
    sys.exit(1)
print("ok")
sys.exit(0)
