"""C14 demo 8: Corr.Hankel(1) returns a malformed correlator: N == 1 but every timeslice is stored as a
(1, 1) block, so result[t] is an ndarray instead of an Obs and gamma_method / print / plottable crash.
The 1x1 Hankel matrix of C is C itself."""
import sys, warnings
sys.path.insert(0, sys.argv[1])
import numpy as np
import pyerrors as pe
warnings.simplefilter('ignore')
rng = np.random.default_rng(7)
obs = [pe.Obs([v + 0.05 * rng.normal(size=40)], ['ens']) for v in (5.0, 4.0, 3.0, 2.0, 1.5, 1.2)]
c = pe.Corr([obs[0], obs[1], obs[2], obs[3], None, obs[5]])
h = c.Hankel(1)
problems = []
if h.T != 6 or h.N != 1:
    problems.append(f"T, N = {h.T}, {h.N}")
for t in range(6):
    if c.content[t] is None:
        if h.content[t] is not None:
            problems.append(f"slice {t} must be undefined")
        continue
    if not isinstance(h[t], pe.Obs):
        problems.append(f"Hankel(1)[{t}] is {type(h[t]).__name__} of shape {np.shape(h[t])}, expected the Obs C({t})")
    elif h[t].value != obs[t].value:
        problems.append(f"Hankel(1)[{t}] has the wrong value")
for name, f in (('gamma_method()', lambda: h.gamma_method()), ('repr()', lambda: repr(h)), ('plottable()', lambda: h.plottable())):
    try:
        f()
    except Exception as e:
        problems.append(f"Hankel(1).{name} raises {type(e).__name__}: {e}")
# reference: Hankel(2) is a proper matrix correlator
h2 = c.Hankel(2)
h2.gamma_method()
assert h2.N == 2 and h2.content[0].shape == (2, 2) and h2.content[3] is None
if problems:
    print("VIOLATION: Hankel(1) is malformed:")
    for p in problems:
        print("  ", p)
    sys.exit(1)
print("ok")
sys.exit(0)
