"""C14 demo 2: log, sqrt and ** return a *defined* timeslice holding a NaN observable
where the result is not a number (negative argument), while sin/arcsin/... and Corr/Corr mask such slices."""
import sys, warnings
sys.path.insert(0, sys.argv[1])
import numpy as np
import pyerrors as pe
warnings.simplefilter('ignore')
rng = np.random.default_rng(7)
vals = (1.5, -2.0, 3.0, 0.7)
obs = [pe.Obs([v + 0.05 * rng.normal(size=40)], ['ens']) for v in vals]
c = pe.Corr([obs[0], obs[1], None, obs[3]])
half = pe.Obs([0.5 + 0.01 * rng.normal(size=40)], ['ens'])

cases = [('np.log(c)', lambda: np.log(c), lambda v: np.log(v)),
         ('c.log()', lambda: c.log(), lambda v: np.log(v)),
         ('np.sqrt(c)', lambda: np.sqrt(c), lambda v: np.sqrt(v)),
         ('c ** 0.5', lambda: c ** 0.5, lambda v: np.sqrt(v)),
         ('c ** Obs(0.5)', lambda: c ** half, lambda v: np.float64(v) ** half.value),
         ('np.arccosh(c)  [reference: masks correctly]', lambda: np.arccosh(c), lambda v: np.arccosh(v))]
fails = []
for name, f, oracle in cases:
    r = f()
    for t in range(4):
        src = c.content[t]
        with np.errstate(all='ignore'):
            expect_defined = (src is not None) and not np.isnan(oracle(src[0].value))
        got_defined = r.content[t] is not None
        if expect_defined != got_defined:
            what = 'None' if not got_defined else 'Obs with value %r' % r.content[t][0].value
            fails.append(f"{name}: timeslice {t} (input {vals[t]}) is {what}, expected {'defined' if expect_defined else 'undefined (None)'}")
if fails:
    print("VIOLATION: not-a-number results are kept as defined timeslices:")
    for f in fails:
        print("  ", f)
    sys.exit(1)
print("ok")
sys.exit(0)
