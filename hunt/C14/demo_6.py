"""C14 demo 6: unary plus is not defined for correlators (+corr raises TypeError), although
-corr, abs(corr) and +Obs work."""
import sys, warnings
sys.path.insert(0, sys.argv[1])
import numpy as np
import pyerrors as pe
warnings.simplefilter('ignore')
rng = np.random.default_rng(7)
obs = [pe.Obs([v + 0.05 * rng.normal(size=40)], ['ens']) for v in (1.5, -2.0, 0.5)]
c = pe.Corr([obs[0], None, obs[2]])
assert (+obs[0]).value == obs[0].value
assert (-c).content[0][0].value == -obs[0].value
try:
    r = +c
    ok = r.T == 3 and r.N == 1 and r.content[1] is None and r.content[0][0].value == obs[0].value and r.content[2][0].value == obs[2].value
    if not ok:
        print("VIOLATION: +corr has wrong content")
        sys.exit(1)
except TypeError as e:
    print("VIOLATION: +corr raises TypeError:", e)
    sys.exit(1)
print("ok")
sys.exit(0)
