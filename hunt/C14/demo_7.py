"""C14 demo 7: Corr.projected(list_of_vectors, normalize=True) crashes when the list contains None
entries (exactly what Corr.GEVP returns for t <= t0); with normalize=False the same list is handled
and None entries give undefined timeslices."""
import sys, warnings
sys.path.insert(0, sys.argv[1])
import numpy as np
import pyerrors as pe
warnings.simplefilter('ignore')
rng = np.random.default_rng(7)
T, N = 5, 2
mats = []
for t in range(T):
    a = np.empty((N, N), dtype=object)
    for i in range(N):
        for j in range(N):
            a[i, j] = pe.Obs([1.0 + t + i + 2 * j + 0.05 * rng.normal(size=40)], ['ens'])
    mats.append(a)
m = pe.Corr(mats)
vecs = [None, None, np.array([1.0, 2.0]), np.array([3.0, -1.0]), np.array([0.5, 0.5])]   # GEVP-like list: None for t <= t0
r0 = m.projected(vecs)                      # works
assert [x is None for x in r0.content] == [True, True, False, False, False]
try:
    r = m.projected(vecs, normalize=True)
except Exception as e:
    print("VIOLATION: projected(vector list with None, normalize=True) raises", type(e).__name__ + ":", e)
    sys.exit(1)
for t in range(T):
    if vecs[t] is None:
        ok = r.content[t] is None
    else:
        v = vecs[t] / np.linalg.norm(vecs[t])
        e = v @ np.vectorize(lambda o: o.value)(mats[t]) @ v
        ok = r.content[t] is not None and np.isclose(r.content[t][0].value, e, rtol=1e-12)
    if not ok:
        print("VIOLATION: wrong projected value at t =", t)
        sys.exit(1)
print("ok")
sys.exit(0)
