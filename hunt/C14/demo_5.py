"""C14 demo 5: for a REAL correlator, complex partners work with +, -, * but are refused by / and **:
corr / complex, complex / corr, CObs / corr, corr ** complex raise TypeError
(the per-timeslice operations Obs/complex, complex/Obs, CObs/Obs, Obs**complex all exist)."""
import sys, warnings
sys.path.insert(0, sys.argv[1])
import numpy as np
import pyerrors as pe
warnings.simplefilter('ignore')
rng = np.random.default_rng(7)
obs = [pe.Obs([v + 0.05 * rng.normal(size=40)], ['ens']) for v in (1.5, 2.0, 0.5)]
c = pe.Corr([obs[0], None, obs[2]])
co = pe.CObs(pe.Obs([1.0 + 0.05 * rng.normal(size=40)], ['ens']), pe.Obs([-0.5 + 0.05 * rng.normal(size=40)], ['ens']))
cov = complex(co.real.value, co.imag.value)
z = 1 - 2j
fails = []
def cval(x):
    return complex(x.real.value, x.imag.value) if isinstance(x, pe.CObs) else complex(x.value)
def check(name, f, oracle):
    try:
        r = f()
    except Exception as e:
        fails.append(f"{name}: {type(e).__name__}: {e}")
        return
    for t in range(3):
        if c.content[t] is None:
            if r.content[t] is not None:
                fails.append(f"{name}: slice {t} must be undefined")
        else:
            e = oracle(c.content[t][0].value)
            if r.content[t] is None or not np.isclose(cval(r.content[t][0]), e, rtol=1e-12):
                fails.append(f"{name}: slice {t} wrong")
check('corr * complex [reference]', lambda: c * z, lambda v: v * z)
check('CObs * corr [reference]', lambda: co * c, lambda v: cov * v)
check('corr / CObs [reference]', lambda: c / co, lambda v: v / cov)
check('corr / complex', lambda: c / z, lambda v: v / z)
check('complex / corr', lambda: z / c, lambda v: z / v)
check('CObs / corr', lambda: co / c, lambda v: cov / v)
check('corr ** complex', lambda: c ** z, lambda v: v ** z)
# per-timeslice operations exist:
assert np.isclose(cval(obs[0] / z), obs[0].value / z) and np.isclose(cval(z / obs[0]), z / obs[0].value)
assert np.isclose(cval(co / obs[0]), cov / obs[0].value) and np.isclose(cval(obs[0] ** z), obs[0].value ** z)
if fails:
    print("VIOLATION: complex partners are refused in / and ** with a real correlator:")
    for f in fails:
        print("  ", f)
    sys.exit(1)
print("ok")
sys.exit(0)
