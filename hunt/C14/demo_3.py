"""C14 demo 3: 0 / corr (and a zero-valued Obs / corr) is refused with 'Division by zero',
although 0 / C(t) is a perfectly defined number (0) at every defined timeslice.
Cause: __rtruediv__ computes (corr / y) ** (-1)."""
import sys, warnings
sys.path.insert(0, sys.argv[1])
import numpy as np
import pyerrors as pe
warnings.simplefilter('ignore')
rng = np.random.default_rng(7)
obs = [pe.Obs([v + 0.05 * rng.normal(size=40)], ['ens']) for v in (1.5, 2.0, 3.0)]
c = pe.Corr([obs[0], None, obs[2]])
zero_obs = obs[0] - obs[0]          # an observable that is exactly zero
fails = []
for name, y, yv in (('0 / corr', 0, 0.0), ('0.0 / corr', 0.0, 0.0), ('zero_obs / corr', zero_obs, 0.0), ('2 / corr [reference]', 2, 2.0)):
    try:
        r = y / c
    except Exception as e:
        fails.append(f"{name}: {type(e).__name__}: {e}")
        continue
    for t in range(3):
        if c.content[t] is None:
            if r.content[t] is not None:
                fails.append(f"{name}: slice {t} must be undefined")
        else:
            e = yv / c.content[t][0].value       # oracle
            if r.content[t] is None or not np.isclose(r.content[t][0].value, e, rtol=1e-12, atol=0):
                fails.append(f"{name}: slice {t} wrong: {r.content[t]} vs {e}")
# the same quotient reached another way is accepted by the library:
ref = (c * 0) / c
assert [None if x is None else x[0].value for x in ref.content] == [0.0, None, 0.0]
if fails:
    print("VIOLATION: a zero numerator is refused in `number / Corr`:")
    for f in fails:
        print("  ", f)
    sys.exit(1)
print("ok")
sys.exit(0)
