"""C14 demo 11 (minor): Corr.projected(vector_r=v) silently ignores the right vector when vector_l is left at
its default: the result is G[0,0] instead of e0^T G v (or a refusal)."""
import sys, warnings
sys.path.insert(0, sys.argv[1])
import numpy as np
import pyerrors as pe
warnings.simplefilter('ignore')
rng = np.random.default_rng(7)
T, N = 3, 2
mats = []
for t in range(T):
    a = np.empty((N, N), dtype=object)
    for i in range(N):
        for j in range(N):
            a[i, j] = pe.Obs([1.0 + t + i + 2 * j + 0.05 * rng.normal(size=40)], ['ens'])
    mats.append(a)
m = pe.Corr(mats)
vr = np.array([0.0, 1.0])
try:
    r = m.projected(vector_r=vr)
except (ValueError, TypeError):
    print("ok (refused)")
    sys.exit(0)
e0 = np.array([1.0, 0.0])
for t in range(T):
    V = np.vectorize(lambda o: o.value)(mats[t])
    e = e0 @ V @ vr          # = G[0,1]
    if not np.isclose(r.content[t][0].value, e, rtol=1e-12):
        print(f"VIOLATION: projected(vector_r=[0,1]) at t={t} gives {r.content[t][0].value:.6g} (= G[0,0] = {V[0,0]:.6g}); "
              f"e0^T G v_r = G[0,1] = {e:.6g}: the passed vector is silently discarded")
        sys.exit(1)
print("ok")
sys.exit(0)
