"""C14 demo 1: numpy integer / float32 / bool_ scalars are refused as number partners
(and as T_symmetry parity), although Python int/float and np.float64 are accepted."""
import sys, warnings
sys.path.insert(0, sys.argv[1])
import numpy as np
import pyerrors as pe
warnings.simplefilter('ignore')
rng = np.random.default_rng(7)
obs = [pe.Obs([v + 0.1 * rng.normal(size=40)], ['ens']) for v in (1.0, 2.0, 3.0, 4.0)]
c = pe.Corr([obs[0], None, obs[2], obs[3]])
p = pe.Corr(list(obs))

import operator
fails = []
for y in (np.int64(2), np.int32(2), np.float32(2.0), np.uint8(2)):
    for name, op in (('+', operator.add), ('-', operator.sub), ('*', operator.mul), ('/', operator.truediv), ('**', operator.pow)):
        for order in ('corr op y', 'y op corr'):
            if name == '**' and order == 'y op corr':
                continue  # covered by demo_4
            try:
                r = op(c, y) if order == 'corr op y' else op(y, c)
            except Exception as e:
                fails.append(f"{order} with op {name}, y={type(y).__name__}(2): {type(e).__name__}: {e}")
                continue
            # oracle: plain float arithmetic on the central values, timeslice by timeslice
            for t in range(4):
                if c.content[t] is None:
                    if r.content[t] is not None:
                        fails.append(f"{order} {name}: slice {t} should be undefined")
                    continue
                v = c.content[t][0].value
                e = op(v, 2.0) if order == 'corr op y' else op(2.0, v)
                if not np.isclose(r.content[t][0].value, e, rtol=1e-12):
                    fails.append(f"{order} {name} {type(y).__name__}: value {r.content[t][0].value} != {e}")

# the parity argument of T_symmetry: np.int64(-1) passes the `parity in [+1, -1]` check and then crashes
try:
    r = p.T_symmetry(p, parity=np.int64(-1))
    for t in range(4):
        e = 0.5 * (obs[t].value - obs[3 - t].value)
        if not np.isclose(r.content[t][0].value, e, atol=1e-13):
            fails.append("T_symmetry(parity=np.int64(-1)) wrong value")
except Exception as e:
    fails.append(f"T_symmetry(partner, parity=np.int64(-1)): {type(e).__name__}: {e}")

if fails:
    print("VIOLATION: numpy scalar numbers are refused by Corr arithmetic (%d failing combinations), e.g." % len(fails))
    for f in fails[:6] + fails[-1:]:
        print("  ", f)
    sys.exit(1)
print("ok")
sys.exit(0)
