"""C14 demo 9: matrix_symmetric() returns the UNSYMMETRIZED matrix for correlators of very small
(< ~1e-45) or very large (> ~1e40) scale: is_matrix_symmetric() compares float32-truncated hashes of the
off-diagonal pairs, which collapse to 0 / inf, so G[0,1] = x and G[1,0] = 3x are declared 'symmetric'."""
import sys, warnings
sys.path.insert(0, sys.argv[1])
import numpy as np
import pyerrors as pe
warnings.simplefilter('ignore')
rng = np.random.default_rng(7)
fails = []
for scale in (1.0, 1e-50, 1e45):
    mats = []
    for t in range(3):
        a = np.empty((2, 2), dtype=object)
        a[0, 0] = scale * pe.Obs([1.0 + 0.1 * rng.normal(size=40)], ['ens'])
        a[1, 1] = scale * pe.Obs([2.0 + 0.1 * rng.normal(size=40)], ['ens'])
        a[0, 1] = scale * pe.Obs([0.5 + 0.1 * rng.normal(size=40)], ['ens'])
        a[1, 0] = 3.0 * a[0, 1]                      # clearly not symmetric
        mats.append(a)
    m = pe.Corr(mats)
    r = m.matrix_symmetric()
    for t in range(3):
        V = np.vectorize(lambda o: o.value)(mats[t])
        E = 0.5 * (V + V.T)                          # oracle
        G = np.vectorize(lambda o: o.value)(r.content[t])
        if not np.allclose(G, E, rtol=1e-12, atol=0):
            fails.append(f"scale {scale:g}, t={t}: matrix_symmetric()[0,1] = {G[0,1]:.6g}, [1,0] = {G[1,0]:.6g}; expected both {E[0,1]:.6g}  (is_matrix_symmetric() -> {m.is_matrix_symmetric()})")
            break
if fails:
    print("VIOLATION: matrix_symmetric() does not symmetrize:")
    for f in fails:
        print("  ", f)
    sys.exit(1)
print("ok")
sys.exit(0)
