"""C14 demo 4: the power operator is not available with the correlator as exponent
(number ** corr, Obs ** corr, corr ** corr), although the same operations exist for Obs."""
import sys, warnings
sys.path.insert(0, sys.argv[1])
import numpy as np
import pyerrors as pe
warnings.simplefilter('ignore')
rng = np.random.default_rng(7)
obs = [pe.Obs([v + 0.05 * rng.normal(size=40)], ['ens']) for v in (1.5, 2.0, 0.5)]
c = pe.Corr([obs[0], None, obs[2]])
base = pe.Obs([2.0 + 0.05 * rng.normal(size=40)], ['ens'])
fails = []
def check(name, f, oracle):
    try:
        r = f()
    except Exception as e:
        fails.append(f"{name}: {type(e).__name__}: {e}")
        return
    if not isinstance(r, pe.Corr) or r.T != 3 or r.N != 1:
        fails.append(f"{name}: result is not a Corr of the same shape: {type(r)}")
        return
    for t in range(3):
        if c.content[t] is None:
            if r.content[t] is not None:
                fails.append(f"{name}: slice {t} must be undefined")
        else:
            e = oracle(c.content[t][0].value)
            if r.content[t] is None or not np.isclose(r.content[t][0].value, e, rtol=1e-12):
                fails.append(f"{name}: slice {t} wrong")
check('2 ** corr', lambda: 2 ** c, lambda v: 2.0 ** v)
check('2.5 ** corr', lambda: 2.5 ** c, lambda v: 2.5 ** v)
check('Obs ** corr', lambda: base ** c, lambda v: base.value ** v)
check('corr ** corr', lambda: c ** c, lambda v: v ** v)
check('corr ** 2 [reference]', lambda: c ** 2, lambda v: v ** 2)
# the per-timeslice operation itself is supported by Obs:
assert np.isclose((2 ** obs[0]).value, 2 ** obs[0].value) and np.isclose((base ** obs[0]).value, base.value ** obs[0].value)
if fails:
    print("VIOLATION: '**' with a correlator as the exponent is refused:")
    for f in fails:
        print("  ", f)
    sys.exit(1)
print("ok")
sys.exit(0)
