import sys
import os
import math
import warnings
from functools import reduce
os.environ.setdefault('OMP_NUM_THREADS', '1')
sys.path.insert(0, sys.argv[1] if len(sys.argv) > 1 else '.')
import numpy as np
import pyerrors as pe
warnings.filterwarnings('ignore')


def wolff(reps, S=2.0, tau_exp=0.0, N_sigma=1.0):
    """Independent Gamma-method (Wolff 2004 + Schaefer et al. tail) for one ensemble.
    reps: list of (configuration numbers, fluctuations) per replica.
    Lag t = t common measurement steps (gcd of all gaps); Gamma(t) = sum over replicas of
    products of fluctuations t steps apart / number of such pairs actually present."""
    g = reduce(math.gcd, [int(b) - int(a) for idl, _ in reps for a, b in zip(idl[:-1], idl[1:])])
    N = sum(len(d) for _, d in reps)
    pos = [[(int(i) - int(idl[0])) // g for i in idl] for idl, _ in reps]
    w_max = max(p[-1] + 1 for p in pos) // 2      # half the number of steps spanned by the longest replica
    num = np.zeros(w_max)
    cnt = np.zeros(w_max)
    for (idl, d), p in zip(reps, pos):
        for a in range(len(p)):
            for b in range(a, len(p)):
                t = p[b] - p[a]
                if t < w_max:
                    num[t] += d[a] * d[b]
                    cnt[t] += 1
    G = np.where(cnt > 0, num / np.maximum(cnt, 1), 0.0)
    if G[0] == 0.0:
        return dict(dvalue=0.0, ddvalue=0.0, tauint=0.5, dtauint=0.0, W=0, w_max=w_max, gap=g)
    rho = G / G[0]
    nt = np.array([0.5 + rho[1:W + 1].sum() for W in range(w_max)])
    nt[nt <= 0.5] = 0.5 + np.finfo(float).eps
    ndt = np.array([nt[W] * 2 * math.sqrt(abs(W + 0.5 - nt[W]) / N) for W in range(w_max)])
    ndt[0] = 0.0

    def drho(i):
        return math.sqrt(sum((rho[i + k] + rho[abs(k - i)] - 2 * rho[i] * rho[k]) ** 2 for k in range(1, w_max - i)) / N)

    if tau_exp > 0:
        for n in range(1, w_max // 2):
            if rho[n] - N_sigma * drho(n) < 0 or n >= w_max // 2 - 2:
                W = n
                break
        tauint = nt[W] * (1 + (2 * W + 1) / N) / (1 + 1 / N) + tau_exp * abs(rho[W + 1])
        dtauint = math.sqrt(ndt[W] ** 2 + tau_exp ** 2 * drho(W + 1) ** 2)
    elif S == 0:
        dv = math.sqrt(G[0] / (N - 1))
        return dict(dvalue=dv, ddvalue=dv * math.sqrt(0.5 / N), tauint=0.5, dtauint=0.0, W=0, w_max=w_max, gap=g, rho=rho)
    else:
        for n in range(1, w_max):
            tau = S / math.log((2 * nt[n] + 1) / (2 * nt[n] - 1))
            if math.exp(-n / tau) - tau / math.sqrt(n * N) < 0 or n >= w_max - 1:
                W = n
                break
        tauint = nt[W] * (1 + (2 * W + 1) / N) / (1 + 1 / N)
        dtauint = ndt[W]
    dv = math.sqrt(2 * tauint * G[0] * (1 + 1 / N) / N)
    return dict(dvalue=dv, ddvalue=dv * math.sqrt((W + 0.5) / N), tauint=tauint, dtauint=dtauint, W=W, w_max=w_max, gap=g, rho=rho, drhoW=drho(W))


def fluct(samples):
    return [np.asarray(s, dtype=float) - np.mean(np.asarray(s, dtype=float)) for s in samples]

# demo_1: S / tau_exp / N_sigma given as numpy numbers (np.int64, np.float32, ...) are refused with
# TypeError although the same numbers are accepted as Python int/float, as np.float64 and through
# Obs.S_dict / Obs.S_global.
t = np.arange(24)
x = np.sin(0.9 * t) + 0.3 * np.cos(2.3 * t) + 0.05 * t
d = fluct([x])[0]
bad = []
cases = [('S', np.int64(2), {}), ('S', np.float32(1.5), {}), ('S', np.int32(0), {}),
         ('tau_exp', np.int64(3), {}), ('N_sigma', np.int64(2), {'tau_exp': 3.0}), ('N_sigma', np.float32(0.5), {'tau_exp': 3.0})]
for key, val, extra in cases:
    kw = dict(extra)
    kw[key] = val
    par = dict(S=2.0, tau_exp=0.0, N_sigma=1.0)
    par.update({k: float(v) for k, v in kw.items()})
    ref = wolff([(list(range(1, 25)), d)], **par)
    o = pe.Obs([x], ['ens'])
    try:
        o.gamma_method(**kw)
    except Exception as e:
        bad.append('%s=%r (%s): refused with %s: %s; expected error %.12g' % (key, val, type(val).__name__, type(e).__name__, e, ref['dvalue']))
        continue
    if not np.isclose(o.dvalue, ref['dvalue'], rtol=1e-9) or o.e_windowsize['ens'] != ref['W']:
        bad.append('%s=%r: dvalue %r vs %r' % (key, val, o.dvalue, ref['dvalue']))
if bad:
    print('VIOLATION: valid numeric parameters refused by gamma_method:')
    print('\n'.join('  ' + b for b in bad))
    sys.exit(1)
print('ok')
sys.exit(0)
