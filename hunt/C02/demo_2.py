import sys
import os
import math
import warnings
from functools import reduce
os.environ.setdefault('OMP_NUM_THREADS', '1')
sys.path.insert(0, sys.argv[1] if len(sys.argv) > 1 else '.')
import numpy as np
import pyerrors as pe
warnings.filterwarnings('ignore')


def wolff(reps, S=2.0, tau_exp=0.0, N_sigma=1.0):
    """Independent Gamma-method (Wolff 2004 + Schaefer et al. tail) for one ensemble.
    reps: list of (configuration numbers, fluctuations) per replica.
    Lag t = t common measurement steps (gcd of all gaps); Gamma(t) = sum over replicas of
    products of fluctuations t steps apart / number of such pairs actually present."""
    g = reduce(math.gcd, [int(b) - int(a) for idl, _ in reps for a, b in zip(idl[:-1], idl[1:])])
    N = sum(len(d) for _, d in reps)
    pos = [[(int(i) - int(idl[0])) // g for i in idl] for idl, _ in reps]
    w_max = max(p[-1] + 1 for p in pos) // 2      # half the number of steps spanned by the longest replica
    num = np.zeros(w_max)
    cnt = np.zeros(w_max)
    for (idl, d), p in zip(reps, pos):
        for a in range(len(p)):
            for b in range(a, len(p)):
                t = p[b] - p[a]
                if t < w_max:
                    num[t] += d[a] * d[b]
                    cnt[t] += 1
    G = np.where(cnt > 0, num / np.maximum(cnt, 1), 0.0)
    if G[0] == 0.0:
        return dict(dvalue=0.0, ddvalue=0.0, tauint=0.5, dtauint=0.0, W=0, w_max=w_max, gap=g)
    rho = G / G[0]
    nt = np.array([0.5 + rho[1:W + 1].sum() for W in range(w_max)])
    nt[nt <= 0.5] = 0.5 + np.finfo(float).eps
    ndt = np.array([nt[W] * 2 * math.sqrt(abs(W + 0.5 - nt[W]) / N) for W in range(w_max)])
    ndt[0] = 0.0

    def drho(i):
        return math.sqrt(sum((rho[i + k] + rho[abs(k - i)] - 2 * rho[i] * rho[k]) ** 2 for k in range(1, w_max - i)) / N)

    if tau_exp > 0:
        for n in range(1, w_max // 2):
            if rho[n] - N_sigma * drho(n) < 0 or n >= w_max // 2 - 2:
                W = n
                break
        tauint = nt[W] * (1 + (2 * W + 1) / N) / (1 + 1 / N) + tau_exp * abs(rho[W + 1])
        dtauint = math.sqrt(ndt[W] ** 2 + tau_exp ** 2 * drho(W + 1) ** 2)
    elif S == 0:
        dv = math.sqrt(G[0] / (N - 1))
        return dict(dvalue=dv, ddvalue=dv * math.sqrt(0.5 / N), tauint=0.5, dtauint=0.0, W=0, w_max=w_max, gap=g, rho=rho)
    else:
        for n in range(1, w_max):
            tau = S / math.log((2 * nt[n] + 1) / (2 * nt[n] - 1))
            if math.exp(-n / tau) - tau / math.sqrt(n * N) < 0 or n >= w_max - 1:
                W = n
                break
        tauint = nt[W] * (1 + (2 * W + 1) / N) / (1 + 1 / N)
        dtauint = ndt[W]
    dv = math.sqrt(2 * tauint * G[0] * (1 + 1 / N) / N)
    return dict(dvalue=dv, ddvalue=dv * math.sqrt((W + 0.5) / N), tauint=tauint, dtauint=dtauint, W=W, w_max=w_max, gap=g, rho=rho, drhoW=drho(W))


def fluct(samples):
    return [np.asarray(s, dtype=float) - np.mean(np.asarray(s, dtype=float)) for s in samples]

# demo_2: largest admissible lag when a replica stored as range has a stride that is a multiple
# of the common spacing of the ensemble.  r1 = range(1, 41, 4) (10 cfgs), r2 = range(1, 19, 2)
# (9 cfgs): common spacing 2, r1 spans positions 0..18 = 19 measurement steps -> w_max = 19 // 2 = 9.
# The library uses len(range) * step // gap = 20 -> w_max = 10, i.e. it counts a phantom step
# behind the last configuration (for an irregular list it uses (last - first) // gap + 1).
t = np.arange(10)
u = np.arange(9)
x = np.cos(0.2 * t)
y = 2 * np.cos(0.4 * u + 0.3)
idl = [range(1, 41, 4), range(1, 19, 2)]
dx, dy = fluct([x, y])
bad = []
for kw in [dict(tau_exp=5.0, N_sigma=0.5), dict(S=2.0)]:
    ref = wolff([(list(idl[0]), dx), (list(idl[1]), dy)], **kw)
    o = pe.Obs([x, y], ['A|r1', 'A|r2'], idl=idl)
    o.gamma_method(**kw)
    lib = dict(dvalue=o.e_dvalue['A'], ddvalue=o.e_ddvalue['A'], tauint=o.e_tauint['A'], dtauint=o.e_dtauint['A'], W=o.e_windowsize['A'], w_max=len(o.e_rho['A']), drhoW=o.e_drho['A'][o.e_windowsize['A']])
    for k in lib:
        if not np.isclose(lib[k], ref[k], rtol=1e-8):
            bad.append('%s: %s library=%r expected=%r' % (kw, k, lib[k], ref[k]))
if bad:
    print('VIOLATION: window bound / results for a strided range replica next to a finer replica:')
    print('\n'.join('  ' + b for b in bad))
    sys.exit(1)
print('ok')
sys.exit(0)
