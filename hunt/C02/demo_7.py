import sys
import os
import math
import warnings
from functools import reduce
os.environ.setdefault('OMP_NUM_THREADS', '1')
sys.path.insert(0, sys.argv[1] if len(sys.argv) > 1 else '.')
import numpy as np
import pyerrors as pe
warnings.filterwarnings('ignore')


def wolff(reps, S=2.0, tau_exp=0.0, N_sigma=1.0):
    """Independent Gamma-method (Wolff 2004 + Schaefer et al. tail) for one ensemble.
    reps: list of (configuration numbers, fluctuations) per replica.
    Lag t = t common measurement steps (gcd of all gaps); Gamma(t) = sum over replicas of
    products of fluctuations t steps apart / number of such pairs actually present."""
    g = reduce(math.gcd, [int(b) - int(a) for idl, _ in reps for a, b in zip(idl[:-1], idl[1:])])
    N = sum(len(d) for _, d in reps)
    pos = [[(int(i) - int(idl[0])) // g for i in idl] for idl, _ in reps]
    w_max = max(p[-1] + 1 for p in pos) // 2      # half the number of steps spanned by the longest replica
    num = np.zeros(w_max)
    cnt = np.zeros(w_max)
    for (idl, d), p in zip(reps, pos):
        for a in range(len(p)):
            for b in range(a, len(p)):
                t = p[b] - p[a]
                if t < w_max:
                    num[t] += d[a] * d[b]
                    cnt[t] += 1
    G = np.where(cnt > 0, num / np.maximum(cnt, 1), 0.0)
    if G[0] == 0.0:
        return dict(dvalue=0.0, ddvalue=0.0, tauint=0.5, dtauint=0.0, W=0, w_max=w_max, gap=g)
    rho = G / G[0]
    nt = np.array([0.5 + rho[1:W + 1].sum() for W in range(w_max)])
    nt[nt <= 0.5] = 0.5 + np.finfo(float).eps
    ndt = np.array([nt[W] * 2 * math.sqrt(abs(W + 0.5 - nt[W]) / N) for W in range(w_max)])
    ndt[0] = 0.0

    def drho(i):
        return math.sqrt(sum((rho[i + k] + rho[abs(k - i)] - 2 * rho[i] * rho[k]) ** 2 for k in range(1, w_max - i)) / N)

    if tau_exp > 0:
        for n in range(1, w_max // 2):
            if rho[n] - N_sigma * drho(n) < 0 or n >= w_max // 2 - 2:
                W = n
                break
        tauint = nt[W] * (1 + (2 * W + 1) / N) / (1 + 1 / N) + tau_exp * abs(rho[W + 1])
        dtauint = math.sqrt(ndt[W] ** 2 + tau_exp ** 2 * drho(W + 1) ** 2)
    elif S == 0:
        dv = math.sqrt(G[0] / (N - 1))
        return dict(dvalue=dv, ddvalue=dv * math.sqrt(0.5 / N), tauint=0.5, dtauint=0.0, W=0, w_max=w_max, gap=g, rho=rho)
    else:
        for n in range(1, w_max):
            tau = S / math.log((2 * nt[n] + 1) / (2 * nt[n] - 1))
            if math.exp(-n / tau) - tau / math.sqrt(n * N) < 0 or n >= w_max - 1:
                W = n
                break
        tauint = nt[W] * (1 + (2 * W + 1) / N) / (1 + 1 / N)
        dtauint = ndt[W]
    dv = math.sqrt(2 * tauint * G[0] * (1 + 1 / N) / N)
    return dict(dvalue=dv, ddvalue=dv * math.sqrt((W + 0.5) / N), tauint=tauint, dtauint=dtauint, W=W, w_max=w_max, gap=g, rho=rho, drhoW=drho(W))


def fluct(samples):
    return [np.asarray(s, dtype=float) - np.mean(np.asarray(s, dtype=float)) for s in samples]

# demo_7: fft=True (default) versus the definition when a lag has no pair of configurations.
# cfg = 1,3,...,21,24 : common spacing 1, but no two configurations are 1 step apart, so
# Gamma(1) = rho(1) = 0 exactly.  With tau_exp > 0 and N_sigma = 0 the tail is attached at the first n
# with rho(n) < 0; rho(1) = 0 is not negative.  The FFT path returns rho(1) = -1e-16 ... -2e-15 of
# rounding noise for such a lag, so the window stops at 1 and the error changes by up to a factor 2;
# fft=False gives the value of the definition.
cfg = [1, 3, 5, 7, 9, 11, 13, 15, 17, 19, 21, 24]
t = np.arange(len(cfg))
bad = []
for k in range(8):
    x = np.cos(0.3 * t + k) + 0.1 * np.sin(1.7 * t * (k + 1))
    ref = wolff([(cfg, fluct([x])[0])], tau_exp=4.0, N_sigma=0.0)
    assert ref['rho'][1] == 0.0
    for fft in [True, False]:
        o = pe.Obs([x], ['A'], idl=[cfg])
        o.gamma_method(tau_exp=4.0, N_sigma=0, fft=fft)
        if o.e_windowsize['A'] != ref['W'] or not np.isclose(o.dvalue, ref['dvalue'], rtol=1e-8):
            bad.append('data set %d, fft=%s: window %d, error %.10g, rho(1)=%.3g; expected window %d, error %.10g, rho(1)=0' % (k, fft, o.e_windowsize['A'], o.dvalue, o.e_rho['A'][1], ref['W'], ref['dvalue']))
if bad:
    print('VIOLATION: rounding noise of the FFT at a lag without pairs decides the window:')
    print('\n'.join('  ' + b for b in bad))
    sys.exit(1)
print('ok')
sys.exit(0)
