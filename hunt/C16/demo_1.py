"""C16 / prune: pruning an NxN exact correlator matrix to the single lowest state (Ntrunc=1)
must give a usable correlator exp(-E_0 (t - t0proj)).  The library returns a malformed Corr
(N == 1 but every timeslice is a (1,1) array): P[t] is an ndarray, gamma_method / m_eff / print crash."""
import sys, os, warnings
os.environ.setdefault('OMP_NUM_THREADS', '1')
sys.path.insert(0, sys.argv[1] if len(sys.argv) > 1 else '.')
import numpy as np
import pyerrors as pe

rng = np.random.default_rng(1)
N, T, t0proj, tproj = 3, 10, 2, 3
E = np.array([0.10, 0.22, 0.35])
Z = rng.normal(size=(N, N)) + 2 * np.eye(N)
vals = np.array([(Z * np.exp(-E * t)) @ Z.T for t in range(T)])
content = []
for t in range(T):
    m = np.empty((N, N), dtype=object)
    for i in range(N):
        for j in range(i, N):
            noise = rng.normal(size=40); noise -= noise.mean()
            m[i, j] = m[j, i] = pe.Obs([vals[t, i, j] * (1 + 1e-3 * noise)], ['ens'])
    content.append(m)
C = pe.Corr(content)

problems = []
with warnings.catch_warnings():
    warnings.simplefilter('ignore')
    P = C.prune(1, tproj=tproj, t0proj=t0proj)          # lowest state only
    try:
        P.gamma_method()
    except Exception as e:
        problems.append('prune(1).gamma_method() raises %r' % e)
    for t in range(T):
        expected = np.exp(-E[0] * (t - t0proj))          # v normalised with G(t0proj)
        o = P[t]
        if not isinstance(o, pe.Obs):
            problems.append('prune(1)[%d] is %s of shape %s instead of an Obs' % (t, type(o).__name__, getattr(o, 'shape', None)))
            break
        if abs(o.value - expected) > 1e-8 * expected:
            problems.append('prune(1)[%d] = %r, expected %r' % (t, o.value, expected))
            break
    try:
        m = P.m_eff()
        for t in range(T - 1):
            if abs(m[t].value - E[0]) > 1e-7:
                problems.append('m_eff of pruned correlator %r != E_0 = %r' % (m[t].value, E[0]))
                break
    except Exception as e:
        problems.append('prune(1).m_eff() raises %r' % e)

if problems:
    print('VIOLATION: Corr.prune(Ntrunc=1) does not return a usable correlator of the lowest state:')
    for p in problems:
        print('  -', p)
    sys.exit(1)
print('ok')
sys.exit(0)
