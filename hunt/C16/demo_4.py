"""C16 / GEVP(method=...): only 'eigh' and 'cholesky' are documented.  Any other string (e.g. the misspelling
'Cholesky') is accepted silently: _GEVP_solver falls through both branches and returns None, so GEVP hands back
"no eigenvector anywhere" (all None / None) although the matrix is a perfectly good exact N-state matrix.
Expected: a ValueError (as for an unknown `sort`), or valid eigenvectors."""
import sys, os, warnings
os.environ.setdefault('OMP_NUM_THREADS', '1')
sys.path.insert(0, sys.argv[1] if len(sys.argv) > 1 else '.')
import numpy as np
import pyerrors as pe

rng = np.random.default_rng(4)
N, T, t0 = 3, 10, 2
E = np.array([0.10, 0.22, 0.35])
Z = rng.normal(size=(N, N)) + 2 * np.eye(N)
vals = np.array([(Z * np.exp(-E * t)) @ Z.T for t in range(T)])
content = []
for t in range(T):
    m = np.empty((N, N), dtype=object)
    for i in range(N):
        for j in range(i, N):
            noise = rng.normal(size=30); noise -= noise.mean()
            m[i, j] = m[j, i] = pe.Obs([vals[t, i, j] * (1 + 1e-3 * noise)], ['ens'])
    content.append(m)
C = pe.Corr(content)

problems = []
for method in ('Cholesky', 'eig'):
    for kw in (dict(sort='Eigenvalue'), dict(sort=None, ts=t0 + 1)):
        try:
            with warnings.catch_warnings():
                warnings.simplefilter('ignore')
                res = C.GEVP(t0, method=method, **kw)
        except ValueError:
            continue      # refused: fine
        # accepted: then the result has to be the eigenvectors
        ok = res is not None
        if ok:
            for s in range(N):
                for t in ([t0 + 1] if kw['sort'] is None else range(t0 + 1, T)):
                    v = res[s] if kw['sort'] is None else res[s][t]
                    if v is None:
                        ok = False
                        continue
                    lam = np.exp(-E[s] * (t - t0))
                    ok = ok and np.linalg.norm(vals[t] @ v - lam * vals[t0] @ v) < 1e-8 * np.linalg.norm(vals[t] @ v)
        if not ok:
            problems.append("GEVP(%d, method=%r, %s) is accepted and returns %s" % (t0, method, kw, 'None' if res is None else 'only None vectors'))

if problems:
    print('VIOLATION: unknown solver names are silently accepted and no eigenvectors are returned:')
    for p in problems:
        print('  -', p)
    sys.exit(1)
print('ok')
sys.exit(0)
