"""C16 / eigenvector sorting depends on the overall scale of the correlator matrix.
The GEVP vectors of s*G(t) are those of G(t) (times s**-0.5), so state tracking must not depend on s.
_sort_vectors multiplies N determinants of un-normalised vector sets (~ s**(-N*N/2)):
 (a) for a large scale the product underflows to 0 for every permutation -> UnboundLocalError
     (exact 5-state matrix times 1e30 cannot be solved with sort='Eigenvector');
 (b) for a tiny scale it overflows to inf for every permutation -> the identity permutation is kept,
     i.e. no sorting at all: with a level crossing state s no longer follows one eigenvector."""
import sys, os, warnings
os.environ.setdefault('OMP_NUM_THREADS', '1')
sys.path.insert(0, sys.argv[1] if len(sys.argv) > 1 else '.')
import numpy as np
import pyerrors as pe

rng = np.random.default_rng(7)
N, T, t0, ts = 5, 12, 2, 3


def build(vals):
    content = []
    for t in range(T):
        m = np.empty((N, N), dtype=object)
        for i in range(N):
            for j in range(i, N):
                noise = rng.normal(size=30); noise -= noise.mean()
                m[i, j] = m[j, i] = pe.Obs([vals[t, i, j] * (1 + 1e-3 * noise)], ['ens'])
        content.append(m)
    return pe.Corr(content)


def vec_ok(v, w):
    v = np.asarray(v, dtype=float)
    return abs(abs(v @ w) / np.linalg.norm(v) / np.linalg.norm(w) - 1) < 1e-6


problems = []
Z = rng.normal(size=(N, N)) + 2 * np.eye(N)
W = np.linalg.inv(Z.T)          # column n = exact GEVP vector of state n (dual to the overlaps)

# (a) exact exponentials, overall factor 1e30
E = np.array([0.08, 0.17, 0.27, 0.36, 0.47])
vals = np.array([(Z * np.exp(-E * t)) @ Z.T for t in range(T)])
for scale in (1.0, 1e30):
    C = build(vals * scale)
    try:
        with warnings.catch_warnings():
            warnings.simplefilter('ignore')
            vecs = C.GEVP(t0, ts=ts, sort='Eigenvector')
        for s in range(N):
            for t in range(t0 + 1, T):
                if not vec_ok(vecs[s][t], W[:, s]):
                    problems.append('(a) scale %g: state %d at t=%d is not the exact eigenvector' % (scale, s, t))
    except Exception as e:
        problems.append("(a) scale %g: GEVP(sort='Eigenvector') on an exact 5-state matrix raises %r" % (scale, e))

# (b) level crossing: lambda_n(t) = a_n exp(-r_n (t-t0)), lambda_n(t0) = 1; exact eigenvectors W[:, n] at every t
rates = np.array([0.40, 0.02, 0.30, 0.10, 0.20])
amps = np.array([0.98, 0.72, 0.93, 0.80, 0.86])
lam = np.array([[1.0 if t == t0 else amps[n] * np.exp(-rates[n] * (t - t0)) for n in range(N)] for t in range(T)])
valsx = np.array([(Z * lam[t]) @ Z.T for t in range(T)])
order = np.argsort(-lam[ts])     # state s (numbered by eigenvalue at ts) is true vector order[s]
for scale in (1.0, 1e-30):
    C = build(valsx * scale)
    try:
        with warnings.catch_warnings():
            warnings.simplefilter('ignore')
            vecs = C.GEVP(t0, ts=ts, sort='Eigenvector')
        bad = [(s, t) for s in range(N) for t in range(t0 + 1, T) if not vec_ok(vecs[s][t], W[:, order[s]])]
        if bad:
            problems.append('(b) scale %g: %d (state, t) pairs do not follow the eigenvector identified at ts, first %s' % (scale, len(bad), bad[0]))
    except Exception as e:
        problems.append('(b) scale %g: raises %r' % (scale, e))

if problems:
    print("VIOLATION: sort='Eigenvector' depends on the normalisation of the correlator matrix:")
    for p in problems:
        print('  -', p)
    sys.exit(1)
print('ok')
sys.exit(0)
