"""C16 / non-symmetric input must be symmetrised first.
Corr.is_matrix_symmetric compares float32-truncated hashes of G_ij and G_ji (Obs.__hash__ casts value and
deltas to float32).  Entries that differ by less than float32 resolution - or by anything at all once the
matrix lives below the float32 range (< 1e-45) - are declared 'symmetric'; GEVP then skips the symmetrisation
and scipy.linalg.eigh(lower=True) silently drops the upper triangle.
Oracle: scipy GEVP of the explicitly symmetrised central values 0.5*(G + G^T)."""
import sys, os, warnings
os.environ.setdefault('OMP_NUM_THREADS', '1')
sys.path.insert(0, sys.argv[1] if len(sys.argv) > 1 else '.')
import numpy as np
import scipy.linalg
import pyerrors as pe

rng = np.random.default_rng(3)
N, T, t0 = 3, 10, 2
E = np.array([0.10, 0.22, 0.35])
Z = rng.normal(size=(N, N)) + 2 * np.eye(N)
sym = np.array([(Z * np.exp(-E * t)) @ Z.T for t in range(T)])


def build(scale, a):
    """G_ij = s*sym_ij*(1+a), G_ji = s*sym_ij*(1-a) for i<j, common fluctuations: 0.5*(G+G^T) = s*sym."""
    content = []
    for t in range(T):
        m = np.empty((N, N), dtype=object)
        for i in range(N):
            for j in range(i, N):
                noise = rng.normal(size=30); noise -= noise.mean()
                base = scale * sym[t, i, j]
                if i == j:
                    m[i, i] = pe.Obs([base * (1 + 1e-3 * noise)], ['ens'])
                else:
                    m[i, j] = pe.Obs([base * (1 + a) + base * 1e-3 * noise], ['ens'])
                    m[j, i] = pe.Obs([base * (1 - a) + base * 1e-3 * noise], ['ens'])
        content.append(m)
    return pe.Corr(content)


problems = []
for scale, a, tol in ((1.0, 0.2, 1e-10), (1e-50, 0.2, 1e-10), (1.0, 1e-9, 1e-11)):
    C = build(scale, a)
    raw = np.array([[[o.value for o in row] for row in C.content[t]] for t in range(T)])
    symm = 0.5 * (raw + np.transpose(raw, (0, 2, 1)))
    with warnings.catch_warnings():
        warnings.simplefilter('ignore')
        for method in ('eigh', 'cholesky'):
            vecs = C.GEVP(t0, method=method)
            worst = 0.0
            for t in range(t0 + 1, T):
                ref = scipy.linalg.eigh(symm[t], symm[t0])[1].T[::-1]
                for s in range(N):
                    v, w = np.asarray(vecs[s][t], dtype=float), ref[s]
                    v, w = v / np.linalg.norm(v), w / np.linalg.norm(w)
                    worst = max(worst, min(np.linalg.norm(v - w), np.linalg.norm(v + w)))     # ~ angle to the oracle vector
            if worst > tol:
                problems.append('scale %g, asymmetry %g, %s: is_matrix_symmetric()=%s, vectors deviate from the GEVP of the '
                                'symmetrised matrix by an angle of %.2e' % (scale, a, method, C.is_matrix_symmetric(), worst))

if problems:
    print('VIOLATION: a non-symmetric correlator matrix is not symmetrised before the GEVP:')
    for p in problems:
        print('  -', p)
    sys.exit(1)
print('ok')
sys.exit(0)
