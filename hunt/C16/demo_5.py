"""C16 / prune with a basematrix: the basematrix is only needed at t0proj and tproj, but prune loops over
range(basematrix.T) while indexing the target (and afterwards range(self.T) while indexing the list built in
that loop).  A basematrix whose time extent differs from the target's gives an IndexError although the GEVP
that defines the projection is perfectly well defined.  Expected: the same pruned matrix as with the full
basematrix, whose GEVP reproduces the lowest energies."""
import sys, os, warnings
os.environ.setdefault('OMP_NUM_THREADS', '1')
sys.path.insert(0, sys.argv[1] if len(sys.argv) > 1 else '.')
import numpy as np
import pyerrors as pe

rng = np.random.default_rng(5)
N, T = 4, 12
E = np.array([0.10, 0.22, 0.35, 0.50])
Z = rng.normal(size=(N, N)) + 2 * np.eye(N)
vals = np.array([(Z * np.exp(-E * t)) @ Z.T for t in range(T)])
content = []
for t in range(T):
    m = np.empty((N, N), dtype=object)
    for i in range(N):
        for j in range(i, N):
            noise = rng.normal(size=30); noise -= noise.mean()
            m[i, j] = m[j, i] = pe.Obs([vals[t, i, j] * (1 + 1e-3 * noise)], ['ens'])
    content.append(m)
C = pe.Corr(content)

problems = []
for label, base in (('first 8 timeslices of the same matrix', pe.Corr(content[:8])),
                    ('same matrix padded by 2 undefined timeslices', pe.Corr(content, padding=[0, 2]))):
    try:
        with warnings.catch_warnings():
            warnings.simplefilter('ignore')
            P = C.prune(2, tproj=3, t0proj=2, basematrix=base)
            if P.T != T:
                problems.append('%s: pruned correlator has T=%d instead of %d' % (label, P.T, T))
            for s in range(2):
                ev = P.Eigenvalue(1, state=s)
                for t in range(2, T):
                    ex = np.exp(-E[s] * (t - 1))
                    if ev[t] is None or abs(ev[t].value - ex) > 1e-7 * ex:
                        problems.append('%s: state %d t=%d eigenvalue %r, expected %r' % (label, s, t, ev[t], ex))
                        break
    except Exception as e:
        problems.append('basematrix = %s (T=%d, target T=%d): prune raises %r' % (label, base.T, T, e))

if problems:
    print('VIOLATION: Corr.prune fails for a basematrix with a different time extent:')
    for p in problems:
        print('  -', p)
    sys.exit(1)
print('ok')
sys.exit(0)
