"""C11: a list of observables of length one does not survive the transports.
create_json_string treats the outer list as a container of structures and import_json_string
unpacks a single structure (`if len(obsdata) == 1: ol = ol[0]`), so [o] comes back as o.
In a data frame whose column holds lists of Obs (supported by _need_to_serialize) every row whose
list has one entry comes back as a bare Obs, the column is no longer homogeneous, and
load_df(..., auto_gamma=True) raises AttributeError."""
import sys, os, tempfile
sys.path.insert(0, sys.argv[1] if len(sys.argv) > 1 else '.')
import numpy as np
import pandas as pd
import pyerrors as pe
import pyerrors.input.pandas as pdio
from pyerrors.input.json import create_json_string, import_json_string

rng = np.random.default_rng(5)
def mk():
    return pe.Obs([rng.normal(1, .1, 20)], ['A|r1'])
bad = []
one = [mk()]
back = import_json_string(create_json_string(one), verbose=False)
if not (isinstance(back, list) and len(back) == 1):
    # documented for the plain json entry points ("If the list contains only one element, it is
    # unpacked from the list"), therefore only reported, not counted
    print('note: import_json_string(create_json_string([o])) returns %s' % type(back).__name__)

df = pd.DataFrame({'n': [1, 2], 'l': [[mk()], [mk(), mk()]]})
tmp = tempfile.mkdtemp()
pdio.dump_df(df, os.path.join(tmp, 'l'))
r = pdio.load_df(os.path.join(tmp, 'l'))
types = [type(x).__name__ for x in r['l']]
if types != ['list', 'list'] or [len(x) for x in r['l']] != [1, 2]:
    bad.append('csv: column of Obs lists with lengths [1, 2] comes back with cell types %s' % types)
try:
    pdio.load_df(os.path.join(tmp, 'l'), auto_gamma=True)
except Exception as e:
    bad.append('csv: load_df(auto_gamma=True) on that file raises %s: %s' % (type(e).__name__, e))
if bad:
    print('VIOLATION:')
    for b in bad:
        print('  -', b)
    sys.exit(1)
print('ok')
