"""C11: dump_dict_to_json crashes with IndexError when a dictionary value is an empty list
(a perfectly JSON-valid entry).  _ol_from_dict: `isinstance(v, list) and all([isinstance(o, Obs) for o in v])`
is True for [] (all of nothing), so [] is exported as an 'Obs list' structure and
write_List_to_dict -> _assert_equal_properties([]) does ol[0]."""
import sys, os, tempfile
sys.path.insert(0, sys.argv[1] if len(sys.argv) > 1 else '.')
import numpy as np
import pyerrors as pe
from pyerrors.input.json import dump_dict_to_json, load_json_dict

rng = np.random.default_rng(2)
o = pe.Obs([rng.normal(1, .1, 20)], ['A|r1'])
d = {'result': o, 'excluded_points': [], 'meta': {'cuts': []}}
fn = os.path.join(tempfile.mkdtemp(), 'd')
try:
    dump_dict_to_json(d, fn)
    back = load_json_dict(fn, verbose=False)
except Exception as e:
    print('VIOLATION: dump_dict_to_json / load_json_dict of %r raised %s: %s' % (
        {'result': 'Obs', 'excluded_points': [], 'meta': {'cuts': []}}, type(e).__name__, e))
    sys.exit(1)
ok = (list(back.keys()) == list(d.keys()) and back['excluded_points'] == [] and back['meta'] == {'cuts': []}
      and isinstance(back['result'], pe.Obs) and back['result'].value == o.value
      and np.allclose(back['result'].deltas['A|r1'], o.deltas['A|r1'], rtol=0, atol=1e-14))
if not ok:
    print('VIOLATION: dictionary changed in the round trip:', back)
    sys.exit(1)
print('ok')
