"""C11 (csv transport): dump_df and load_df do not agree on the file name.
dump_df appends '.csv' unless the name ends in '.csv' (and then '.gz'), load_df leaves any name
ending in '.gz' alone.  dump_df(df, 'x.csv.gz') therefore writes 'x.csv.gz.csv.gz' and
load_df('x.csv.gz') fails with FileNotFoundError.  (dump_to_json / load_json treat the
corresponding names consistently.)"""
import sys, os, tempfile
sys.path.insert(0, sys.argv[1] if len(sys.argv) > 1 else '.')
import numpy as np
import pandas as pd
import pyerrors as pe
import pyerrors.input.pandas as pdio

rng = np.random.default_rng(6)
o = pe.Obs([rng.normal(1, .1, 20)], ['A|r1'])
df = pd.DataFrame({'o': [o]})
bad = []
for name, gz in [('x.csv.gz', True), ('y.gz', True)]:
    tmp = tempfile.mkdtemp()
    pdio.dump_df(df, os.path.join(tmp, name), gz=gz)
    try:
        import warnings
        with warnings.catch_warnings():
            warnings.simplefilter('ignore')
            r = pdio.load_df(os.path.join(tmp, name), gz=gz)
        if not (isinstance(r['o'][0], pe.Obs) and r['o'][0].value == o.value):
            bad.append('%s gz=%s: wrong content' % (name, gz))
    except Exception as e:
        bad.append('dump_df(df, %r, gz=%s) wrote %s; load_df(%r, gz=%s) raised %s' % (name, gz, os.listdir(tmp), name, gz, type(e).__name__))
if bad:
    print('VIOLATION:')
    for b in bad:
        print('  -', b)
    sys.exit(1)
print('ok')
