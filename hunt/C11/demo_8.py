"""C11: dump_dict_to_json documents "Dict keys that are not JSON-serializable such as floats are
converted to strings" and does so for dictionaries whose keys are all numbers, but a dictionary
that mixes string keys with number keys is refused with
TypeError('keys must be str, int, float, bool or None') - the _jsonifier hook in
create_json_string has no branch for str keys, which it meets as soon as one key of the same
dictionary is not a str.  Same for an Obs tag that is such a dictionary."""
import sys, os, tempfile
sys.path.insert(0, sys.argv[1] if len(sys.argv) > 1 else '.')
import numpy as np
import pyerrors as pe
from pyerrors.input.json import dump_dict_to_json, load_json_dict, create_json_string, import_json_string

rng = np.random.default_rng(8)
o = pe.Obs([rng.normal(1, .1, 20)], ['A|r1'])
bad = []
fn = os.path.join(tempfile.mkdtemp(), 'd')
# reference: all-number keys work and are converted with str()
dump_dict_to_json({0.5: o, 1: 'x'}, fn)
ref = load_json_dict(fn, verbose=False)
assert list(ref.keys()) == ['0.5', '1']
d = {'obs': o, 0.5: 'x', 1: [1, 2]}
try:
    dump_dict_to_json(d, fn)
    back = load_json_dict(fn, verbose=False)
    if list(back.keys()) != [str(k) for k in d] or back['0.5'] != 'x' or back['1'] != [1, 2] or back['obs'].value != o.value:
        bad.append('mixed-key dictionary changed: %r' % list(back.keys()))
except Exception as e:
    bad.append("dump_dict_to_json({'obs': Obs, 0.5: 'x', 1: [1, 2]}) raised %s: %s" % (type(e).__name__, e))
o.tag = {'beta': 3.4, 1: 'first'}
try:
    t = import_json_string(create_json_string(o), verbose=False).tag
    if t != {'beta': 3.4, '1': 'first'}:
        bad.append('tag changed: %r' % t)
except Exception as e:
    bad.append("Obs with tag {'beta': 3.4, 1: 'first'}: create_json_string raised %s: %s" % (type(e).__name__, e))
if bad:
    print('VIOLATION:')
    for b in bad:
        print('  -', b)
    sys.exit(1)
print('ok')
