"""C11: a 0-dimensional ndarray holding an Obs is written (layout "") but the written
document cannot be read back: get_Array_from_dict computes N = np.prod([]) = 1.0 (a float)
and then does `N * [None]` / `range(N)` -> TypeError."""
import sys
sys.path.insert(0, sys.argv[1] if len(sys.argv) > 1 else '.')
import numpy as np
import pyerrors as pe
from pyerrors.input.json import create_json_string, import_json_string

rng = np.random.default_rng(3)
o = pe.Obs([rng.normal(1, .1, 20)], ['A|r1'])
arr = np.empty((), dtype=object)
arr[()] = o                       # ndarray of shape ()
s = create_json_string(arr)       # accepted by the writer
try:
    back = import_json_string(s, verbose=False)
except Exception as e:
    print('VIOLATION: document written for a 0-d array cannot be read: %s: %s' % (type(e).__name__, e))
    sys.exit(1)
if not (isinstance(back, np.ndarray) and back.shape == () and back[()].value == o.value
        and np.allclose(back[()].deltas['A|r1'], o.deltas['A|r1'], rtol=0, atol=1e-14)):
    print('VIOLATION: 0-d array not reproduced:', type(back), getattr(back, 'shape', None))
    sys.exit(1)
print('ok')
