"""C11: an Obs produced by pe.merge_obs from reweighted replica cannot be written to JSON.
merge_obs stores the flag as numpy.bool_ (np.max of the flags); create_json_string writes
o.reweighted verbatim and its _jsonifier does not know numpy booleans -> ValueError."""
import sys
sys.path.insert(0, sys.argv[1] if len(sys.argv) > 1 else '.')
import numpy as np
import pyerrors as pe
from pyerrors.input.json import create_json_string, import_json_string

rng = np.random.default_rng(1)
d1, d2 = rng.normal(1, .1, 30), rng.normal(1, .1, 40)
w1, w2 = np.abs(rng.normal(1, .1, 30)), np.abs(rng.normal(1, .1, 40))
r1 = pe.reweight(pe.Obs([w1], ['A|r1']), [pe.Obs([d1], ['A|r1'])])[0]
r2 = pe.reweight(pe.Obs([w2], ['A|r2']), [pe.Obs([d2], ['A|r2'])])[0]
m = pe.merge_obs([r1, r2])          # both inputs reweighted -> m is reweighted
assert bool(m.reweighted) is True

try:
    s = create_json_string(m)
    back = import_json_string(s, verbose=False)
except Exception as e:
    print('VIOLATION: create_json_string(merge_obs([reweighted, reweighted])) raised %s: %s' % (type(e).__name__, e))
    print('           type(m.reweighted) =', type(m.reweighted))
    sys.exit(1)

ok = back.reweighted is True and back.names == m.names and back.value == m.value
for n in m.names:
    ok = ok and np.allclose(back.deltas[n], m.deltas[n], rtol=0, atol=1e-14) and list(back.idl[n]) == list(m.idl[n])
if not ok:
    print('VIOLATION: round trip of merged reweighted Obs differs')
    sys.exit(1)
print('ok')
