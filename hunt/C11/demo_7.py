"""C11: the tag of a Corr is written as str(tag) and 'None' is used as the marker for "no tag".
 - a correlator tagged with the string 'None' comes back with tag None,
 - tags of other JSON types (number, list, dict) come back as their Python repr string,
   although the same values round-trip unchanged as Obs tags."""
import sys
sys.path.insert(0, sys.argv[1] if len(sys.argv) > 1 else '.')
import numpy as np
import pyerrors as pe
from pyerrors.input.json import create_json_string, import_json_string

rng = np.random.default_rng(7)
bad = []
for tag in ['None', 5, ['a', 'b'], {'kappa': 0.137}]:
    c = pe.Corr([pe.Obs([rng.normal(1, .1, 20)], ['A|r1']) for _ in range(3)])
    c.tag = tag
    back = import_json_string(create_json_string(c), verbose=False)
    if back.tag != tag or type(back.tag) is not type(tag):
        bad.append('Corr.tag = %r comes back as %r' % (tag, back.tag))
if bad:
    print('VIOLATION:')
    for b in bad:
        print('  -', b)
    sys.exit(1)
print('ok')
