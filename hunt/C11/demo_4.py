"""C11 (data-frame transport): dump_df / to_sql look at the cells with label based access
`col[i]`, i = 0, 1, ... (pandas.py, _need_to_serialize) instead of positional access.
 (a) A frame whose index does not contain the label 0 (any filtered frame, df[df.x > 1])
     -> KeyError: 0.
 (b) A frame with repeated labels (pd.concat of two frames without ignore_index)
     -> col[0] is a Series, the Obs column is NOT recognised, to_csv writes str/float of the
     Obs: the csv silently contains only the central values; to_sql raises DatabaseError.
 (c) The reader has the same pattern (`df[column][0]` in _deserialize_df): read_sql with the
     documented pandas keyword index_col=..., or a query that selects no row -> KeyError: 0."""
import sys, os, tempfile
sys.path.insert(0, sys.argv[1] if len(sys.argv) > 1 else '.')
import numpy as np
import pandas as pd
import pyerrors as pe
import pyerrors.input.pandas as pdio

rng = np.random.default_rng(4)
def mk():
    return pe.Obs([rng.normal(1, .1, 20)], ['A|r1'])
def same(a, b):
    return isinstance(b, pe.Obs) and a.value == b.value and a.names == b.names and \
        np.allclose(a.deltas['A|r1'], b.deltas['A|r1'], rtol=0, atol=1e-14)
tmp = tempfile.mkdtemp()
bad = []

full = pd.DataFrame({'i': [1, 2, 3], 'o': [mk(), mk(), mk()]})
sub = full[full.i > 1]                                   # index [1, 2]
cat = pd.concat([full.iloc[:2], full.iloc[:2]])          # index [0, 1, 0, 1]
for label, df in [('filtered frame (index [1, 2])', sub), ('concatenated frame (index [0, 1, 0, 1])', cat)]:
    for kind in ['csv', 'sqlite']:
        try:
            if kind == 'csv':
                pdio.dump_df(df, os.path.join(tmp, 'f'))
                back = pdio.load_df(os.path.join(tmp, 'f'))
            else:
                db = os.path.join(tempfile.mkdtemp(), 'db.sqlite')
                pdio.to_sql(df, 't', db)
                back = pdio.read_sql('SELECT * FROM t', db)
        except Exception as e:
            bad.append('%s via %s: raised %s: %s' % (label, kind, type(e).__name__, str(e)[:60]))
            continue
        if len(back) != len(df) or not all(same(a, b) for a, b in zip(df['o'], back['o'])):
            bad.append('%s via %s: Obs column comes back as %s (first cell %r) - fluctuations lost without any message'
                       % (label, kind, sorted(set(type(x).__name__ for x in back['o'])), back['o'].iloc[0]))
db = os.path.join(tempfile.mkdtemp(), 'db.sqlite')
pdio.to_sql(full, 't', db)
for label, sql, kw, n in [("read_sql(..., index_col='i')", 'SELECT * FROM t', dict(index_col='i'), 3),
                          ('read_sql of a query without matching rows', 'SELECT * FROM t WHERE i > 5', {}, 0)]:
    try:
        back = pdio.read_sql(sql, db, **kw)
        if len(back) != n or not all(same(a, b) for a, b in zip(full['o'], back['o'])):
            bad.append('%s: wrong content' % label)
    except Exception as e:
        bad.append('%s: raised %s: %s' % (label, type(e).__name__, str(e)[:60]))
if bad:
    print('VIOLATION:')
    for b in bad:
        print('  -', b)
    sys.exit(1)
print('ok')
