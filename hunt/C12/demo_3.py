"""C12 defect 3: a chain whose name has no replica separator (the most common naming, e.g. 'A')
comes back from the default dobs round trip as 'A|'. The imported observable is then treated as a
different replica of ensemble A: original - imported has a non-zero error instead of being zero."""
import sys, os, tempfile
sys.path.insert(0, sys.argv[1] if len(sys.argv) > 1 else '.')
import numpy as np
import pyerrors as pe
import pyerrors.input.dobs as dobsio

rng = np.random.default_rng(5)
o = pe.Obs([rng.normal(1.0, 0.1, size=50)], ['A'])
with tempfile.TemporaryDirectory() as td:
    fn = os.path.join(td, 'x')
    dobsio.write_dobs([o], fn, 'n')
    r = dobsio.read_dobs(fn)[0]          # default separator_insertion=True
msg = []
if r.names != ['A']:
    msg.append("chain name 'A' came back as %s" % r.names)
diff = o - r
diff.gamma_method()
if not (abs(diff.value) < 1e-14 and diff.dvalue < 1e-14):
    o.gamma_method()
    msg.append('original - imported = %.3e +/- %.3e (error of the original %.3e); must vanish identically' % (diff.value, diff.dvalue, o.dvalue))
if msg:
    print('VIOLATION: ' + '; '.join(msg))
    sys.exit(1)
print('ok')
