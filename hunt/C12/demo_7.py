"""C12 defect 7: the covariance matrix and the gradients are written with 15 significant digits
('%1.14e', the fluctuations with 17), so they are not reproduced to double precision. The library's own
consistency check then refuses to export an original observable together with its re-imported copy."""
import sys, os, tempfile
sys.path.insert(0, sys.argv[1] if len(sys.argv) > 1 else '.')
import numpy as np
import pyerrors as pe
import pyerrors.input.dobs as dobsio

rng = np.random.default_rng(17)
C = np.array([[1 / 3, 0.1 / 7], [0.1 / 7, 2 / 7]])
co = pe.cov_Obs([1 / 3, 2 / 3], C, 'cv')
o = pe.Obs([rng.random(20)], ['A|r1'])
obs = o * co[0] / 3 + co[1] / 7
grad_expected = np.array([[o.value / 3], [1 / 7]])
assert np.array_equal(obs.covobs['cv'].cov, C) and np.allclose(obs.covobs['cv'].grad, grad_expected, rtol=1e-15, atol=0)
msg = []
with tempfile.TemporaryDirectory() as td:
    fn = os.path.join(td, 'x')
    dobsio.write_dobs([obs], fn, 'n')
    r = dobsio.read_dobs(fn)[0]
    if not np.array_equal(r.covobs['cv'].cov, C):
        msg.append('covariance matrix differs, max relative deviation %.2e' % np.max(np.abs(r.covobs['cv'].cov / C - 1)))
    if not np.array_equal(r.covobs['cv'].grad, obs.covobs['cv'].grad):
        msg.append('gradient differs, max relative deviation %.2e' % np.max(np.abs(r.covobs['cv'].grad / obs.covobs['cv'].grad - 1)))
    try:
        dobsio.write_dobs([obs, r], fn, 'n')
    except Exception as ex:
        msg.append('write_dobs([original, imported]) raises %r' % (ex,))
if msg:
    print('VIOLATION: ' + '; '.join(msg))
    sys.exit(1)
print('ok')
