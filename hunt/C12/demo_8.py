"""C12 defect 8: read_dobs adds the central value to every fluctuation and subtracts the average again,
so the fluctuations of an observable with a large central value come back with an absolute error of
ulp(value): relative error 1e-5 for value 1e8 / fluctuations 1e-3; if the fluctuations are below ulp(value)
the chain is lost completely."""
import sys, os, tempfile
sys.path.insert(0, sys.argv[1] if len(sys.argv) > 1 else '.')
import numpy as np
import pyerrors as pe
import pyerrors.input.dobs as dobsio

rng = np.random.default_rng(19)
msg = []
with tempfile.TemporaryDirectory() as td:
    fn = os.path.join(td, 'x')
    for off, sc in [(1e8, 1e-3), (1e8, 1e-9)]:
        x = sc * rng.random(50)
        o = pe.Obs([x], ['A|r1']) + off          # fluctuations x - mean(x) are stored exactly in o.deltas
        expected = x - np.mean(x)
        assert np.allclose(o.deltas['A|r1'], expected, rtol=0, atol=1e-15 * sc)
        dobsio.write_dobs([o], fn, 'n')
        r = dobsio.read_dobs(fn)[0]
        if 'A|r1' not in r.deltas:
            msg.append('value %g, fluctuations ~%g: chain A|r1 missing after import (names %s)' % (off, sc, r.names))
            continue
        dev = np.max(np.abs(r.deltas['A|r1'] - expected)) / sc
        if dev > 1e-10:
            msg.append('value %g, fluctuations ~%g: fluctuations deviate by %.1e relative to their size' % (off, sc, dev))
if msg:
    print('VIOLATION: ' + '; '.join(msg))
    sys.exit(1)
print('ok')
