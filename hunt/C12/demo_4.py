"""C12 defect 4: the string-level entry points are not inverse: import_dobs_string (documented
parameter 'content : str') raises on the str returned by create_dobs_string."""
import sys
sys.path.insert(0, sys.argv[1] if len(sys.argv) > 1 else '.')
import numpy as np
import pyerrors as pe
import pyerrors.input.dobs as dobsio

rng = np.random.default_rng(7)
samples = rng.normal(size=10)
o = pe.Obs([samples], ['A|r1'])
s = dobsio.create_dobs_string([o], 'n')
assert isinstance(s, str)
try:
    r = dobsio.import_dobs_string(s)[0]
except Exception as ex:
    print('VIOLATION: import_dobs_string(create_dobs_string([o], name)) raises %r' % (ex,))
    sys.exit(1)
if r.names != ['A|r1'] or not np.allclose(r.deltas['A|r1'] + r.r_values['A|r1'], samples, atol=1e-14):
    print('VIOLATION: data not reproduced')
    sys.exit(1)
print('ok')
