"""C12 defect 10 (edge of the domain: no Monte Carlo ensemble in the list): a list that only contains
covariance-based observables is written without any <cdata> block (although nc = 1 is announced);
the imported observable has no covariance input and error zero."""
import sys, os, tempfile
sys.path.insert(0, sys.argv[1] if len(sys.argv) > 1 else '.')
import numpy as np
import pyerrors as pe
import pyerrors.input.dobs as dobsio

c = pe.cov_Obs(1.5, 0.3 ** 2, 'cv')
with tempfile.TemporaryDirectory() as td:
    fn = os.path.join(td, 'x')
    dobsio.write_dobs([2 * c], fn, 'n')
    r = dobsio.read_dobs(fn)[0]
r.gamma_method()
expected_err = 2 * 0.3
if 'cv' not in r.covobs or abs(r.dvalue - expected_err) > 1e-12:
    print('VIOLATION: imported names %s, covobs %s, error %.3f (expected names [cv], error %.3f)' % (r.names, list(r.covobs), r.dvalue, expected_err))
    sys.exit(1)
print('ok')
