"""C12 defect 5: a pobs file with more than one replica written by write_pobs cannot be read back with
the default arguments of read_pobs (separator_insertion=None, 'Replica names remain unchanged'):
read_pobs raises ValueError instead of returning the data."""
import sys, os, tempfile
sys.path.insert(0, sys.argv[1] if len(sys.argv) > 1 else '.')
import numpy as np
import pyerrors as pe
import pyerrors.input.dobs as dobsio

rng = np.random.default_rng(11)
data = {'A|r1': rng.normal(size=8), 'A|r2': rng.normal(size=6)}
o = pe.Obs(list(data.values()), list(data.keys()))
with tempfile.TemporaryDirectory() as td:
    fn = os.path.join(td, 'x')
    dobsio.write_pobs([o], fn, 'n')
    try:
        r = dobsio.read_pobs(fn)[0]
    except Exception as ex:
        print('VIOLATION: read_pobs(fname) on a 2-replica file written by write_pobs raises %r' % (ex,))
        sys.exit(1)
# documented: '|' removed from the names, nothing re-inserted
for n, s in data.items():
    m = n.replace('|', '')
    if m not in r.deltas or not np.allclose(r.deltas[m] + r.r_values[m], s, atol=1e-14):
        print('VIOLATION: chain %s not reproduced' % m)
        sys.exit(1)
print('ok')
