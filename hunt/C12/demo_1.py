"""C12 defect 1: write_dobs/read_dobs loses every configuration whose sample equals the
central value of the observable (typical for integer-valued / count-like data)."""
import sys, os, tempfile
sys.path.insert(0, sys.argv[1] if len(sys.argv) > 1 else '.')
import numpy as np
import pyerrors as pe
import pyerrors.input.dobs as dobsio

samples = np.array([0, 2, 2, 4, 1, 3])           # counts, mean exactly 2
cfgs = [1, 2, 3, 4, 5, 6]
o = pe.Obs([samples], ['A|r1'], idl=[cfgs])
with tempfile.TemporaryDirectory() as td:
    fn = os.path.join(td, 'x')
    bad = []
    for gz in (True, False):
        dobsio.write_dobs([o], fn, 'n', gz=gz)
        r = dobsio.read_dobs(fn, gz=gz)[0]
        got_cfgs = list(r.idl.get('A|r1', []))
        got_samples = list(r.deltas['A|r1'] + r.r_values['A|r1']) if 'A|r1' in r.deltas else []
        if got_cfgs != cfgs or not np.allclose(got_samples, samples, atol=1e-13):
            bad.append('gz=%s: configurations %s samples %s (expected %s / %s)' % (gz, got_cfgs, np.round(got_samples, 12), cfgs, samples.tolist()))
        # independent oracle for the error (no autocorrelation, S=0): std / sqrt(N)
        o.gamma_method(S=0); r.gamma_method(S=0)
        expect = np.std(samples, ddof=1) / np.sqrt(len(samples))
        if abs(r.dvalue - expect) > 1e-12:
            bad.append('gz=%s: error of the imported observable %.6f, naive error of the data %.6f (original: %.6f)' % (gz, r.dvalue, expect, o.dvalue))
if bad:
    print('VIOLATION: samples equal to the central value are dropped by the dobs round trip')
    print('\n'.join(bad))
    sys.exit(1)
print('ok')
