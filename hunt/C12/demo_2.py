"""C12 defect 2: read_dobs / import_dobs_string(separator_insertion=False) is documented as
'None or False: No separator is inserted', but False puts a '|' in front of every replica name."""
import sys, os, tempfile
sys.path.insert(0, sys.argv[1] if len(sys.argv) > 1 else '.')
import numpy as np
import pyerrors as pe
import pyerrors.input.dobs as dobsio

rng = np.random.default_rng(3)
o = pe.Obs([rng.normal(size=12), rng.normal(size=9)], ['ens|r1', 'ens|r2'])
with tempfile.TemporaryDirectory() as td:
    fn = os.path.join(td, 'x')
    dobsio.write_dobs([o], fn, 'n')
    r_none = dobsio.read_dobs(fn, separator_insertion=None)[0]
    r_false = dobsio.read_dobs(fn, separator_insertion=False)[0]
expected = sorted(n.replace('|', '') for n in o.names)   # documented: separator removed on export, none inserted
msg = []
if sorted(r_none.names) != expected:
    msg.append('separator_insertion=None gives %s, expected %s' % (r_none.names, expected))
if sorted(r_false.names) != expected:
    msg.append('separator_insertion=False gives %s (ensembles %s), expected %s as for None' % (r_false.names, r_false.e_names, expected))
if msg:
    print('VIOLATION: ' + '; '.join(msg))
    sys.exit(1)
print('ok')
