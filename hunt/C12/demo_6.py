"""C12 defect 6: write_pobs silently accepts a derived observable living on several replicas, but the
pobs round trip does not reproduce its central value (the file stores delta + replica mean and
read_pobs recomputes the value as the weighted mean of the replica means)."""
import sys, os, tempfile
sys.path.insert(0, sys.argv[1] if len(sys.argv) > 1 else '.')
import numpy as np
import pyerrors as pe
import pyerrors.input.dobs as dobsio

rng = np.random.default_rng(13)
xa = [rng.random(10), rng.random(20) + 0.5]
xb = [rng.random(10), rng.random(20)]
a = pe.Obs(xa, ['A|r1', 'A|r2'])
b = pe.Obs(xb, ['A|r1', 'A|r2'])
c = a * b
expected = np.mean(np.concatenate(xa)) * np.mean(np.concatenate(xb))   # product of the ensemble means
assert abs(c.value - expected) < 1e-14
with tempfile.TemporaryDirectory() as td:
    fn = os.path.join(td, 'x')
    try:
        dobsio.write_pobs([c], fn, 'n')
    except Exception:
        print('ok (refused)')
        sys.exit(0)
    r = dobsio.read_pobs(fn, separator_insertion=1)[0]
if abs(r.value - expected) > 1e-12:
    print('VIOLATION: central value %.15f exported, %.15f imported (difference %.2e), no warning or refusal' % (expected, r.value, r.value - expected))
    sys.exit(1)
print('ok')
