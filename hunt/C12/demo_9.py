"""C12 defect 9: separator_insertion given as a numpy integer (e.g. the result of a numpy computation)
is refused by read_dobs and read_pobs with 'separator_insertion has to be string or int'."""
import sys, os, tempfile
sys.path.insert(0, sys.argv[1] if len(sys.argv) > 1 else '.')
import numpy as np
import pyerrors as pe
import pyerrors.input.dobs as dobsio

rng = np.random.default_rng(23)
o = pe.Obs([rng.random(10), rng.random(10)], ['A|r1', 'A|r2'])
msg = []
with tempfile.TemporaryDirectory() as td:
    fn = os.path.join(td, 'x')
    dobsio.write_dobs([o], fn, 'n')
    dobsio.write_pobs([o], fn + 'p', 'n')
    for label, f in [('read_dobs', lambda si: dobsio.read_dobs(fn, separator_insertion=si)), ('read_pobs', lambda si: dobsio.read_pobs(fn + 'p', separator_insertion=si))]:
        ref = f(1)[0].names
        assert ref == ['A|r1', 'A|r2']
        try:
            got = f(np.int64(1))[0].names
            if got != ref:
                msg.append('%s: np.int64(1) gives %s' % (label, got))
        except Exception as ex:
            msg.append('%s(separator_insertion=np.int64(1)) raises %r' % (label, ex))
if msg:
    print('VIOLATION: ' + '; '.join(msg))
    sys.exit(1)
print('ok')
