#!/bin/sh
# offline build of the whole Lean project (translated parts, models, native driver, all theorems)
set -e
cd "$(dirname "$0")"
python3 driver/regen.py
cd lean
lake build pvdriver PV 2>&1 | tail -5
