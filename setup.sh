#!/bin/sh
# offline build of the whole Lean project (models, native driver, all property theorems)
set -e
cd "$(dirname "$0")/lean"
lake build pvdriver PV 2>&1 | tail -5
